From Coq Require Import List ZArith.
From BT.Tracer Require Import Model Spec Examples.
Eval vm_compute in (samples (w_log ex_w), stamps (w_log ex_w)).
