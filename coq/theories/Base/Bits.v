(* Bit streams in CTF position order.  Position p of a packet is the p-th bit in the order a CTF
   reader consumes them; how positions map to bits of bytes depends on the trace byte order and is
   defined once, in bytes_of_stream (little endian: byte j bit k <-> 8j+k; big endian: 8j+7-k).
   Streams are bit lists (the whole packet buffer); proofs reason pointwise through `get`. *)
From Coq Require Import List Arith Bool ZArith Lia.
Import ListNotations.

Definition stream := list bool.
Definition zeros (n : nat) : stream := repeat false n.
Definition get (s : stream) (p : nat) : bool := nth p s false.

(* precondition for the intended meaning: pos + length bs <= length s (callers check bounds) *)
Definition write_bits (pos : nat) (bs : list bool) (s : stream) : stream :=
  firstn pos s ++ bs ++ skipn (pos + length bs) s.
Definition read_bits (pos len : nat) (s : stream) : list bool :=
  firstn len (skipn pos s ++ repeat false len).

Definition agree (a b : nat) (s t : stream) : Prop := forall p, a <= p < b -> get s p = get t p.

(* integers: least significant bit first *)
Definition bits_of_Z (size : nat) (z : Z) : list bool :=
  map (fun i => Z.testbit z (Z.of_nat i)) (seq 0 size).
Fixpoint Z_of_bits_u (l : list bool) : Z :=
  match l with [] => 0%Z | b :: l => ((if b then 1 else 0) + 2 * Z_of_bits_u l)%Z end.
Definition Z_of_bits (sg : bool) (l : list bool) : Z :=
  let u := Z_of_bits_u l in
  if sg && last l false then (u - 2 ^ Z.of_nat (length l))%Z else u.

Inductive byte_order := LE | BE.
(* CTF 1.8 section 4.1.5: little endian fields are laid out least significant bit first, big
   endian fields most significant bit first, in position order *)
Definition enc_int (bo : byte_order) (size : nat) (z : Z) : list bool :=
  match bo with LE => bits_of_Z size z | BE => rev (bits_of_Z size z) end.
Definition dec_int (bo : byte_order) (sg : bool) (bs : list bool) : Z :=
  Z_of_bits sg (match bo with LE => bs | BE => rev bs end).

Definition align_up (at_ a : nat) : nat := ((at_ + (a - 1)) / a) * a.

(* stream <-> bytes, for comparing with real packets *)
Definition byte_of_stream (bo : byte_order) (s : stream) (j : nat) : Z :=
  dec_int bo false (read_bits (8 * j) 8 s).
Definition bytes_of_stream (bo : byte_order) (s : stream) (nbytes : nat) : list Z :=
  map (byte_of_stream bo s) (seq 0 nbytes).
Definition stream_of_bytes (bo : byte_order) (bytes : list Z) : stream :=
  flat_map (enc_int bo 8) bytes.
