(* Pointwise characterisation of bit-stream writes / reads, integer encode/decode round trip,
   alignment arithmetic. *)
From Coq Require Import List Arith Bool ZArith Lia PeanoNat.
Import ListNotations.
From BT.Base Require Import Bits.

Lemma get_app_l (a b : list bool) p : p < length a -> get (a ++ b) p = get a p.
Proof. intros H. unfold get. apply app_nth1; exact H. Qed.
Lemma get_app_r (a b : list bool) p : length a <= p -> get (a ++ b) p = get b (p - length a).
Proof. intros H. unfold get. apply app_nth2; exact H. Qed.
Lemma get_firstn (s : list bool) n p : p < n -> get (firstn n s) p = get s p.
Proof.
  unfold get. revert s p. induction n as [|n IH]; intros s p H; [lia|].
  destruct s as [|x s]; simpl; [destruct p; reflexivity|].
  destruct p as [|p]; simpl; [reflexivity|]. apply IH. lia.
Qed.
Lemma get_skipn (s : list bool) n p : get (skipn n s) p = get s (n + p).
Proof.
  unfold get. revert s. induction n as [|n IH]; intros s; simpl; [reflexivity|].
  destruct s as [|x s]; simpl; [destruct p; reflexivity|]. apply IH.
Qed.
Lemma get_beyond (s : list bool) p : length s <= p -> get s p = false.
Proof. intros H. unfold get. apply nth_overflow; exact H. Qed.

Lemma nth_map_seq {A} (f : nat -> A) (d : A) len n o : n < len -> nth n (map f (seq o len)) d = f (o + n).
Proof.
  revert n o. induction len as [|len IH]; intros n o H; [lia|].
  destruct n as [|n]; cbn [seq map nth]; [f_equal; lia|].
  rewrite IH by lia. f_equal. lia.
Qed.

Lemma length_write_bits pos bs s : pos + length bs <= length s ->
  length (write_bits pos bs s) = length s.
Proof.
  intros H. unfold write_bits. rewrite !app_length, firstn_length, skipn_length. lia.
Qed.

Lemma get_write_bits pos bs s p : pos + length bs <= length s ->
  get (write_bits pos bs s) p =
  if (pos <=? p) && (p <? pos + length bs) then nth (p - pos) bs false else get s p.
Proof.
  intros H. unfold write_bits.
  assert (Hf : length (firstn pos s) = pos) by (rewrite firstn_length; lia).
  destruct (Nat.leb_spec pos p) as [H1|H1]; cbn [andb].
  - rewrite get_app_r by lia. rewrite Hf.
    destruct (Nat.ltb_spec p (pos + length bs)) as [H2|H2].
    + rewrite get_app_l by lia. reflexivity.
    + rewrite get_app_r by lia. rewrite get_skipn. f_equal. lia.
  - rewrite get_app_l by lia. apply get_firstn. lia.
Qed.

Lemma get_write_bits_out pos bs s p : pos + length bs <= length s ->
  p < pos \/ pos + length bs <= p -> get (write_bits pos bs s) p = get s p.
Proof.
  intros H Hp. rewrite get_write_bits by exact H.
  destruct (Nat.leb_spec pos p); destruct (Nat.ltb_spec p (pos + length bs)); cbn [andb]; try reflexivity; lia.
Qed.

Lemma read_bits_get pos len s : read_bits pos len s = map (fun i => get s (pos + i)) (seq 0 len).
Proof.
  unfold read_bits.
  apply nth_ext with (d := false) (d' := false).
  - rewrite firstn_length, app_length, repeat_length, map_length, seq_length. lia.
  - intros n Hn. rewrite firstn_length, app_length, repeat_length in Hn.
    assert (Hl : n < len) by lia.
    change (nth n (firstn len (skipn pos s ++ repeat false len)) false)
      with (get (firstn len (skipn pos s ++ repeat false len)) n).
    rewrite get_firstn by exact Hl.
    rewrite nth_map_seq by exact Hl. cbn [Nat.add].
    destruct (Nat.lt_ge_cases n (length (skipn pos s))) as [H|H].
    + rewrite get_app_l by exact H. apply get_skipn.
    + rewrite get_app_r by exact H.
      rewrite skipn_length in H. rewrite (get_beyond s) by lia.
      unfold get. destruct (Nat.lt_ge_cases (n - length (skipn pos s)) len) as [H2|H2].
      * rewrite nth_repeat. reflexivity.
      * apply nth_overflow. rewrite repeat_length. exact H2.
Qed.

Lemma length_read_bits pos len s : length (read_bits pos len s) = len.
Proof. rewrite read_bits_get, map_length, seq_length. reflexivity. Qed.

Lemma read_bits_agree pos len s t : agree pos (pos + len) s t -> read_bits pos len s = read_bits pos len t.
Proof.
  intros H. rewrite !read_bits_get. apply map_ext_in. intros i Hi. apply in_seq in Hi. apply H. lia.
Qed.

Lemma read_write_same pos bs s : pos + length bs <= length s ->
  read_bits pos (length bs) (write_bits pos bs s) = bs.
Proof.
  intros H. rewrite read_bits_get.
  apply nth_ext with (d := false) (d' := false).
  - rewrite map_length, seq_length. reflexivity.
  - intros n Hn. rewrite map_length, seq_length in Hn.
    rewrite nth_map_seq by exact Hn. cbn [Nat.add].
    rewrite get_write_bits by exact H.
    destruct (Nat.leb_spec pos (pos + n)); [|lia].
    destruct (Nat.ltb_spec (pos + n) (pos + length bs)); [|lia]. cbn [andb]. f_equal. lia.
Qed.

Lemma agree_refl a b s : agree a b s s. Proof. intros p _. reflexivity. Qed.
Lemma agree_sym a b s t : agree a b s t -> agree a b t s.
Proof. intros H p Hp. symmetry. apply H. exact Hp. Qed.
Lemma agree_trans a b s t u : agree a b s t -> agree a b t u -> agree a b s u.
Proof. intros H1 H2 p Hp. rewrite H1 by exact Hp. apply H2. exact Hp. Qed.
Lemma agree_sub a b a' b' s t : agree a b s t -> a <= a' -> b' <= b -> agree a' b' s t.
Proof. intros H Ha Hb p Hp. apply H. lia. Qed.
Lemma agree_write_before pos bs s b : pos + length bs <= length s -> b <= pos ->
  agree 0 b (write_bits pos bs s) s.
Proof. intros H Hb p Hp. apply get_write_bits_out; [exact H|lia]. Qed.

(* ---- integers ---- *)
Lemma length_bits_of_Z size z : length (bits_of_Z size z) = size.
Proof. unfold bits_of_Z. rewrite map_length, seq_length. reflexivity. Qed.
Lemma length_enc_int bo size z : length (enc_int bo size z) = size.
Proof. destruct bo; cbn [enc_int]; rewrite ?rev_length; apply length_bits_of_Z. Qed.
Lemma dec_enc_int bo sg size z :
  dec_int bo sg (enc_int bo size z) = Z_of_bits sg (bits_of_Z size z).
Proof. destruct bo; unfold dec_int, enc_int; rewrite ?rev_involutive; reflexivity. Qed.

(* the unsigned reading of the low `size` bits is z mod 2^size *)
Lemma Z_of_bits_u_shift (f : nat -> bool) n :
  Z_of_bits_u (map f (seq 0 (S n))) =
  ((if f 0%nat then 1 else 0) + 2 * Z_of_bits_u (map (fun i => f (S i)) (seq 0%nat n)))%Z.
Proof. cbn [seq map Z_of_bits_u]. rewrite <- seq_shift, map_map. reflexivity. Qed.

Lemma Z_of_bits_u_bits_of_Z size z : Z_of_bits_u (bits_of_Z size z) = (z mod 2 ^ Z.of_nat size)%Z.
Proof.
  unfold bits_of_Z. revert z. induction size as [|n IH]; intros z.
  - cbn. rewrite Z.mod_1_r. reflexivity.
  - rewrite (Z_of_bits_u_shift (fun i => Z.testbit z (Z.of_nat i))).
    assert (Hm : map (fun i => Z.testbit z (Z.of_nat (S i))) (seq 0 n) =
                 map (fun i => Z.testbit (Z.div2 z) (Z.of_nat i)) (seq 0 n)).
    { apply map_ext. intros i. rewrite Z.div2_spec, Z.shiftr_spec by lia. f_equal. lia. }
    rewrite Hm, IH.
    replace (Z.of_nat (S n)) with (Z.succ (Z.of_nat n)) by lia.
    change (Z.of_nat 0) with 0%Z.
    rewrite Z.pow_succ_r by lia.
    rewrite Z.bit0_odd.
    rewrite Z.div2_div.
    pose proof (Z.pow_pos_nonneg 2 (Z.of_nat n) ltac:(lia) ltac:(lia)) as Hp.
    rewrite (Z.rem_mul_r z 2 (2 ^ Z.of_nat n)) by lia.
    rewrite Zmod_odd. destruct (Z.odd z); lia.
Qed.

(* ---- alignment ---- *)
Lemma align_up_ge at_ a : 0 < a -> at_ <= align_up at_ a.
Proof.
  intros Ha. unfold align_up.
  pose proof (Nat.div_mod (at_ + (a - 1)) a ltac:(lia)) as H.
  pose proof (Nat.mod_upper_bound (at_ + (a - 1)) a ltac:(lia)) as H2. nia.
Qed.
Lemma align_up_mod at_ a : 0 < a -> align_up at_ a mod a = 0.
Proof. intros Ha. unfold align_up. apply Nat.mod_mul. lia. Qed.
Lemma align_up_aligned at_ a : 0 < a -> at_ mod a = 0 -> align_up at_ a = at_.
Proof.
  intros Ha Hm. unfold align_up.
  pose proof (Nat.div_mod at_ a ltac:(lia)) as H. rewrite Hm in H.
  assert (Hq : (at_ + (a - 1)) / a = at_ / a).
  { rewrite H at 1. rewrite Nat.add_0_r. rewrite Nat.mul_comm, Nat.div_add_l by lia.
    rewrite (Nat.div_small (a - 1) a) by lia. lia. }
  rewrite Hq. lia.
Qed.
Lemma align_up_1 at_ : align_up at_ 1 = at_.
Proof. unfold align_up. rewrite Nat.add_0_r, Nat.div_1_r. lia. Qed.
Lemma align_up_lt at_ a : 0 < a -> align_up at_ a < at_ + a.
Proof.
  intros Ha. unfold align_up.
  pose proof (Nat.div_mod (at_ + (a - 1)) a ltac:(lia)) as H.
  pose proof (Nat.mod_upper_bound (at_ + (a - 1)) a ltac:(lia)) as H2. nia.
Qed.
(* a multiple of 8 alignment leaves the position byte aligned *)
Lemma align_up_mod8 at_ a : 0 < a -> a mod 8 = 0 -> align_up at_ a mod 8 = 0.
Proof.
  intros Ha H8. unfold align_up.
  apply Nat.mod_divide; [lia|]. apply Nat.divide_mul_r. apply Nat.mod_divide; [lia|exact H8].
Qed.
