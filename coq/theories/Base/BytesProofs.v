(* Bytes <-> bit stream: what the platform hands over (bytes) is the stream the reader reads. *)
From Coq Require Import List Arith Bool ZArith Lia PeanoNat.
Import ListNotations.
From BT.Base Require Import Bits BitsProofs.

Lemma bits_of_Z_of_bits_u l : bits_of_Z (length l) (Z_of_bits_u l) = l.
Proof.
  unfold bits_of_Z. induction l as [|b l IH]; [reflexivity|].
  cbn [length Z_of_bits_u]. cbn [seq map].
  f_equal.
  - change (Z.of_nat 0) with 0%Z. rewrite Z.bit0_odd.
    destruct b; rewrite Z.odd_add_mul_2; reflexivity.
  - rewrite <- seq_shift, map_map. rewrite <- IH at 2. apply map_ext. intros i.
    replace (Z.of_nat (S i)) with (Z.succ (Z.of_nat i)) by lia.
    destruct b.
    + replace (1 + 2 * Z_of_bits_u l)%Z with (2 * Z_of_bits_u l + 1)%Z by lia.
      apply Z.testbit_odd_succ. lia.
    + replace (0 + 2 * Z_of_bits_u l)%Z with (2 * Z_of_bits_u l)%Z by lia.
      apply Z.testbit_even_succ. lia.
Qed.

Lemma enc_dec_byte bo bs : length bs = 8 -> enc_int bo 8 (dec_int bo false bs) = bs.
Proof.
  intros H. unfold enc_int, dec_int, Z_of_bits. cbn [andb].
  destruct bo.
  - rewrite <- H. apply bits_of_Z_of_bits_u.
  - rewrite <- (rev_length bs) in H. rewrite <- H at 1. rewrite bits_of_Z_of_bits_u. apply rev_involutive.
Qed.

Lemma skipn_skipn' {A} (a b : nat) (l : list A) : skipn a (skipn b l) = skipn (a + b) l.
Proof.
  revert l. induction b as [|b IH]; intros l; [rewrite Nat.add_0_r; reflexivity|].
  destruct l as [|x l]; [rewrite !skipn_nil; reflexivity|].
  rewrite Nat.add_succ_r. cbn [skipn]. apply IH.
Qed.

(* the stream rebuilt from the bytes of a stream is that stream, on the bytes' range *)
Lemma stream_of_bytes_of_stream bo s : forall n, 8 * n <= length s ->
  stream_of_bytes bo (bytes_of_stream bo s n) = firstn (8 * n) s.
Proof.
  unfold stream_of_bytes, bytes_of_stream, byte_of_stream.
  intros n Hn.
  assert (G : forall k o, o + 8 * k <= length s ->
              flat_map (enc_int bo 8) (map (fun j => dec_int bo false (read_bits (8 * j) 8 s)) (seq (o / 8) 0)) = [] ) by reflexivity.
  clear G.
  assert (H : forall k j0, 8 * (j0 + k) <= length s ->
              flat_map (enc_int bo 8) (map (fun j => dec_int bo false (read_bits (8 * j) 8 s)) (seq j0 k))
              = firstn (8 * k) (skipn (8 * j0) s)).
  { induction k as [|k IH]; intros j0 H; [rewrite Nat.mul_0_r; reflexivity|].
    cbn [seq map flat_map].
    rewrite enc_dec_byte by apply length_read_bits.
    rewrite IH by lia.
    replace (8 * S k) with (8 + 8 * k) by lia.
    (* read_bits = firstn 8 (skipn ..) when in range *)
    assert (R : read_bits (8 * j0) 8 s = firstn 8 (skipn (8 * j0) s)).
    { unfold read_bits. rewrite firstn_app. rewrite skipn_length.
      replace (8 - (length s - 8 * j0)) with 0 by lia. cbn [firstn]. rewrite app_nil_r. reflexivity. }
    rewrite R.
    replace (8 * S j0) with (8 + 8 * j0) by lia. rewrite <- skipn_skipn'.
    rewrite <- (firstn_skipn 8 (skipn (8 * j0) s)) at 3.
    rewrite firstn_app. rewrite firstn_length, skipn_length.
    replace (Nat.min 8 (length s - 8 * j0)) with 8 by lia.
    replace (8 + 8 * k - 8) with (8 * k) by lia.
    rewrite firstn_firstn. replace (Nat.min (8 + 8 * k) 8) with 8 by lia. reflexivity. }
  rewrite (H n 0) by lia. reflexivity.
Qed.

Lemma get_stream_of_bytes bo s n p : 8 * n <= length s -> p < 8 * n ->
  get (stream_of_bytes bo (bytes_of_stream bo s n)) p = get s p.
Proof. intros Hn Hp. rewrite stream_of_bytes_of_stream by exact Hn. apply get_firstn. exact Hp. Qed.

Lemma length_stream_of_bytes bo s n : 8 * n <= length s ->
  length (stream_of_bytes bo (bytes_of_stream bo s n)) = 8 * n.
Proof. intros Hn. rewrite stream_of_bytes_of_stream by exact Hn. rewrite firstn_length. lia. Qed.
