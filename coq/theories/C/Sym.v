From Coq Require Import List Arith Bool Lia.
Import ListNotations.

(* generic bit algebra *)
Record bitops (B : Type) := { b0 : B; b1 : B; band : B -> B -> B; bor : B -> B -> B; bnot : B -> B }.
Arguments b0 {B}. Arguments b1 {B}. Arguments band {B}. Arguments bor {B}. Arguments bnot {B}.

Section Generic.
  Context {B : Type} (O : bitops B).

  Definition vmap2 (f : B -> B -> B) (a b : list B) := map (fun p => f (fst p) (snd p)) (combine a b).
  Definition vand := vmap2 (band O).
  Definition vor := vmap2 (bor O).
  Definition vnot (a : list B) := map (bnot O) a.
  Definition vshl (k : nat) (a : list B) := firstn (length a) (repeat (b0 O) k ++ a).
  Definition vshr (k : nat) (fill : B) (a : list B) := skipn k (a ++ repeat fill k).
  Definition msb (a : list B) := last a (b0 O).
  Definition vconv (w : nat) (sg : bool) (a : list B) :=
    firstn w (a ++ repeat (if sg then msb a else b0 O) w).

  Record cval := { bits : list B; sg : bool }.
  Definition promote (x : cval) : cval :=
    if length (bits x) <? 32 then {| bits := vconv 32 (sg x) (bits x); sg := true |} else x.
  Definition usual (x y : cval) : cval * cval :=
    let x := promote x in let y := promote y in
    let wx := length (bits x) in let wy := length (bits y) in
    let w := Nat.max wx wy in
    let s := if wx =? wy then andb (sg x) (sg y) else if wy <? wx then sg x else sg y in
    ({| bits := vconv w (sg x) (bits x); sg := s |}, {| bits := vconv w (sg y) (bits y); sg := s |}).

  Inductive instr :=
  | IConst (r : nat) (w : nat) (s : bool) (ones : bool)   (* all-zeros or all-ones constant *)
  | IAnd (r a b : nat) | IOr (r a b : nat) | INot (r a : nat)
  | IShl (r a k : nat) | IShr (r a k : nat) | ICast (r a w : nat) (s : bool)
  | ILoad (r j : nat) | IStore (j a : nat).

  Record st := { regs : list cval; buf : list (list B) }.
  Definition dflt := {| bits := []; sg := false |}.
  Definition getr (s : st) r := nth r (regs s) dflt.
  Fixpoint upd {A} (l : list A) (n : nat) (x : A) : list A :=
    match l, n with [], _ => [] | _ :: t, 0 => x :: t | h :: t, S n => h :: upd t n x end.
  Definition setr (s : st) r v := {| regs := upd (regs s) r v; buf := buf s |}.

  Definition step (s : st) (i : instr) : option st :=
    match i with
    | IConst r w sg1 ones => Some (setr s r {| bits := repeat (if ones then b1 O else b0 O) w; sg := sg1 |})
    | IAnd r a b => let u := usual (getr s a) (getr s b) in
                    Some (setr s r {| bits := vand (bits (fst u)) (bits (snd u)); sg := sg (fst u) |})
    | IOr r a b => let u := usual (getr s a) (getr s b) in
                    Some (setr s r {| bits := vor (bits (fst u)) (bits (snd u)); sg := sg (fst u) |})
    | INot r a => let x := promote (getr s a) in Some (setr s r {| bits := vnot (bits x); sg := sg x |})
    | IShl r a k => let x := promote (getr s a) in
                    if k <? length (bits x) then Some (setr s r {| bits := vshl k (bits x); sg := sg x |}) else None
    | IShr r a k => let x := promote (getr s a) in
                    if k <? length (bits x) then
                      Some (setr s r {| bits := vshr k (if sg x then msb (bits x) else b0 O) (bits x); sg := sg x |})
                    else None
    | ICast r a w sg1 => let x := getr s a in Some (setr s r {| bits := vconv w (sg x) (bits x); sg := sg1 |})
    | ILoad r j => match nth_error (buf s) j with
                   | Some by_ => Some (setr s r {| bits := by_; sg := false |}) | None => None end
    | IStore j a => if j <? length (buf s)
                    then Some {| regs := regs s; buf := upd (buf s) j (vconv 8 (sg (getr s a)) (bits (getr s a))) |}
                    else None
    end.
  Fixpoint exec (s : st) (p : list instr) : option st :=
    match p with [] => Some s | i :: p => match step s i with Some s' => exec s' p | None => None end end.
End Generic.

(* symbolic bits *)
Inductive sbit := S0 | S1 | SV (i : nat) | SB (j k : nat) | ST.
Definition sand a b := match a, b with S0, _ | _, S0 => S0 | S1, x | x, S1 => x | _, _ => ST end.
Definition sor a b := match a, b with S1, _ | _, S1 => S1 | S0, x | x, S0 => x | _, _ => ST end.
Definition snot a := match a with S0 => S1 | S1 => S0 | _ => ST end.
Definition sops : bitops sbit := {| b0 := S0; b1 := S1; band := sand; bor := sor; bnot := snot |}.
Definition bops : bitops bool := {| b0 := false; b1 := true; band := andb; bor := orb; bnot := negb |}.


Section Sound.
  Variable rv : nat -> bool. Variable rb : nat -> nat -> bool.
  Definition eval (s : sbit) : bool :=
    match s with S0 => false | S1 => true | SV i => rv i | SB j k => rb j k | ST => false end.
  Definition R (s : sbit) (b : bool) : Prop := s = ST \/ eval s = b.
  Lemma R_and a b x y : R a x -> R b y -> R (sand a b) (andb x y).
  Proof.
    destruct a, b; unfold R; simpl; intros [Ha|Ha] [Hb|Hb]; try discriminate; subst; auto; right;
      rewrite ?andb_false_r, ?andb_true_r, ?andb_false_l, ?andb_true_l; reflexivity.
  Qed.
  Lemma R_or a b x y : R a x -> R b y -> R (sor a b) (orb x y).
  Proof.
    destruct a, b; unfold R; simpl; intros [Ha|Ha] [Hb|Hb]; try discriminate; subst; auto; right;
      rewrite ?orb_false_r, ?orb_true_r, ?orb_false_l, ?orb_true_l; reflexivity.
  Qed.
  Lemma R_not a x : R a x -> R (snot a) (negb x).
  Proof. destruct a; unfold R; simpl; intros [Ha|Ha]; try discriminate; subst; auto. Qed.
  Lemma R_0 : R S0 false. Proof. right; reflexivity. Qed.
  Lemma R_1 : R S1 true. Proof. right; reflexivity. Qed.

  Notation RV := (Forall2 R).
  Lemma RV_len a x : RV a x -> length a = length x.
  Proof. induction 1; simpl; congruence. Qed.
  Lemma RV_repeat s b n : R s b -> RV (repeat s n) (repeat b n).
  Proof. intro; induction n; simpl; constructor; auto. Qed.
  Lemma RV_firstn n a x : RV a x -> RV (firstn n a) (firstn n x).
  Proof. intro H; revert n; induction H; intros [|n]; simpl; constructor; auto. Qed.
  Lemma RV_skipn n a x : RV a x -> RV (skipn n a) (skipn n x).
  Proof. intro H; revert n; induction H; intros [|n]; simpl; auto. Qed.
  Lemma RV_last a x : RV a x -> R (last a S0) (last x false).
  Proof. induction 1 as [|s b a x Hsb H IH]; simpl. apply R_0.
         destruct H; auto. Qed.
  Lemma RV_map2 f g a b x y : (forall s t p q, R s p -> R t q -> R (f s t) (g p q)) ->
    RV a x -> RV b y -> RV (vmap2 f a b) (vmap2 g x y).
  Proof. intros Hf H; revert b y; induction H; intros b' y' H'; destruct H'; simpl; constructor; auto.
         apply IHForall2; auto. Qed.
  Lemma RV_and a b x y : RV a x -> RV b y -> RV (vand sops a b) (vand bops x y).
  Proof. apply RV_map2; intros; apply R_and; auto. Qed.
  Lemma RV_or a b x y : RV a x -> RV b y -> RV (vor sops a b) (vor bops x y).
  Proof. apply RV_map2; intros; apply R_or; auto. Qed.
  Lemma RV_not a x : RV a x -> RV (vnot sops a) (vnot bops x).
  Proof. induction 1; simpl; constructor; auto using R_not. Qed.
  Lemma RV_shl k a x : RV a x -> RV (vshl sops k a) (vshl bops k x).
  Proof. intro H. unfold vshl. rewrite (RV_len _ _ H). apply RV_firstn.
         apply Forall2_app; auto. apply RV_repeat, R_0. Qed.
  Lemma RV_shr k f g a x : R f g -> RV a x -> RV (vshr k f a) (vshr k g x).
  Proof. intros. unfold vshr. apply RV_skipn, Forall2_app; auto using RV_repeat. Qed.
  Lemma RV_conv w s a x : RV a x -> RV (vconv sops w s a) (vconv bops w s x).
  Proof. intro H. unfold vconv. apply RV_firstn, Forall2_app; auto. apply RV_repeat.
         destruct s. apply RV_last; auto. apply R_0. Qed.

  Definition RC (a : cval (B:=sbit)) (x : cval (B:=bool)) := sg a = sg x /\ RV (bits a) (bits x).
  Lemma RC_promote a x : RC a x -> RC (promote sops a) (promote bops x).
  Proof. intros [Hs Hb]. unfold promote. rewrite (RV_len _ _ Hb).
         destruct (_ <? 32); split; simpl; auto. rewrite Hs. apply RV_conv; auto. Qed.
  Lemma RC_usual a b x y : RC a x -> RC b y ->
    RC (fst (usual sops a b)) (fst (usual bops x y)) /\ RC (snd (usual sops a b)) (snd (usual bops x y)).
  Proof. intros Ha Hb. apply RC_promote in Ha. apply RC_promote in Hb.
         unfold usual. destruct Ha as [Hs1 Hb1], Hb as [Hs2 Hb2].
         rewrite (RV_len _ _ Hb1), (RV_len _ _ Hb2), Hs1, Hs2. simpl.
         split; split; simpl; auto; apply RV_conv; auto. Qed.

  Definition RS (s : st (B:=sbit)) (t : st (B:=bool)) :=
    Forall2 RC (regs s) (regs t) /\ Forall2 RV (buf s) (buf t).
  Lemma F2_upd {A B} (P : A -> B -> Prop) l m n a b : Forall2 P l m -> P a b -> Forall2 P (upd l n a) (upd m n b).
  Proof. intro H; revert n; induction H; intros [|n] Hab; simpl; constructor; auto. Qed.
  Lemma F2_nth {A B} (P : A -> B -> Prop) l m n da db : Forall2 P l m -> P da db -> P (nth n l da) (nth n m db).
  Proof. intro H; revert n; induction H; intros [|n] Hd; simpl; auto. Qed.
  Lemma F2_len {A B} (P : A -> B -> Prop) l m : Forall2 P l m -> length l = length m.
  Proof. induction 1; simpl; congruence. Qed.
  Lemma RC_dflt : RC (dflt) (dflt). Proof. split; simpl; auto. Qed.
  Lemma RS_getr s t r : RS s t -> RC (getr s r) (getr t r).
  Proof. intros [H _]. unfold getr. apply (F2_nth RC); auto using RC_dflt. Qed.
  Lemma RS_setr s t r a x : RS s t -> RC a x -> RS (setr s r a) (setr t r x).
  Proof. intros [H1 H2] H; split; simpl; auto using F2_upd. Qed.

  Lemma step_sound s t i : RS s t ->
    match step sops s i, step bops t i with
    | Some s', Some t' => RS s' t' | None, None => True | _, _ => False end.
  Proof.
    intros H. destruct i; simpl.
    - apply RS_setr; auto. split; simpl; auto. apply RV_repeat. destruct ones; [apply R_1|apply R_0].
    - pose proof (RC_usual _ _ _ _ (RS_getr _ _ a H) (RS_getr _ _ b H)) as [[Hs1 Hb1] [Hs2 Hb2]].
      apply RS_setr; auto. split; cbn [bits sg]; auto using RV_and.
    - pose proof (RC_usual _ _ _ _ (RS_getr _ _ a H) (RS_getr _ _ b H)) as [[Hs1 Hb1] [Hs2 Hb2]].
      apply RS_setr; auto. split; cbn [bits sg]; auto using RV_or.
    - pose proof (RC_promote _ _ (RS_getr _ _ a H)) as [Hs Hb]. apply RS_setr; auto. split; simpl; auto using RV_not.
    - pose proof (RC_promote _ _ (RS_getr _ _ a H)) as [Hs Hb]. rewrite (RV_len _ _ Hb).
      destruct (_ <? _); auto. apply RS_setr; auto. split; simpl; auto using RV_shl.
    - pose proof (RC_promote _ _ (RS_getr _ _ a H)) as [Hs Hb]. rewrite (RV_len _ _ Hb).
      destruct (_ <? _); auto. apply RS_setr; auto. split; cbn [bits sg]; auto. rewrite Hs.
      apply RV_shr; auto. destruct (sg (promote bops (getr t a))); [apply RV_last; auto|apply R_0].
    - pose proof (RS_getr _ _ a H) as [Hs Hb]. apply RS_setr; auto. split; simpl; auto. rewrite Hs. apply RV_conv; auto.
    - assert (Hn: match nth_error (buf s) j, nth_error (buf t) j with
                  | Some a, Some b => RV a b | None, None => True | _, _ => False end).
      { destruct H as [_ H2]. revert j. induction H2 as [|x y l l' Hxy H2 IH]; intros [|j]; simpl; auto. apply IH. }
      destruct (nth_error (buf s) j), (nth_error (buf t) j); try tauto.
      apply RS_setr; auto. split; simpl; auto.
    - pose proof (RS_getr _ _ a H) as [Hs Hb]. destruct H as [H1 H2].
      rewrite (F2_len _ _ _ H2). destruct (_ <? _); auto. split; simpl; auto.
      apply F2_upd; auto. rewrite Hs. apply RV_conv; auto.
  Qed.
  Lemma exec_sound p : forall s t, RS s t ->
    match exec sops s p, exec bops t p with
    | Some s', Some t' => RS s' t' | None, None => True | _, _ => False end.
  Proof. induction p as [|i p IH]; intros s t H; simpl; auto.
         pose proof (step_sound s t i H). destruct (step sops s i), (step bops t i); try tauto. apply IH; auto. Qed.
End Sound.
Print Assumptions exec_sound.
