(* Lifting of the symbolic sweep to the unbounded statement: for every value and every prior
   window content the macro program computes exactly spec_write. *)
From Coq Require Import List Arith Bool Lia.
Import ListNotations.
From BT.C Require Import Sym Bitfield.

Lemma sweep_le_ok : sweep LE = true. Proof. vm_compute. reflexivity. Qed.
Lemma sweep_be_ok : sweep BE = true. Proof. vm_compute. reflexivity. Qed.

Lemma sbit_eqb_eq a b : sbit_eqb a b = true -> a = b.
Proof.
  destruct a, b; simpl; try discriminate; auto.
  - intro H. apply Nat.eqb_eq in H. congruence.
  - intro H. apply andb_true_iff in H. destruct H as [H1 H2].
    apply Nat.eqb_eq in H1. apply Nat.eqb_eq in H2. congruence.
Qed.
Lemma list_eqb_eq {A} (f : A -> A -> bool) : (forall a b, f a b = true -> a = b) ->
  forall l m, list_eqb f l m = true -> l = m.
Proof.
  intros Hf. induction l as [|a l IH]; intros [|b m]; simpl; try discriminate; auto.
  intro H. apply andb_true_iff in H. destruct H as [H1 H2]. f_equal; auto.
Qed.

Lemma check_of_sweep bo W s start len :
  In W [8;16;32;64] -> start < 8 -> 1 <= len <= 64 -> check bo W s start len = true.
Proof.
  intros HW Hs Hl.
  assert (Hsw : sweep bo = true) by (destruct bo; [apply sweep_le_ok | apply sweep_be_ok]).
  unfold sweep in Hsw.
  rewrite forallb_forall in Hsw. specialize (Hsw W HW).
  rewrite forallb_forall in Hsw. specialize (Hsw s (ltac:(destruct s; simpl; auto))).
  rewrite forallb_forall in Hsw. specialize (Hsw start (ltac:(apply in_seq; lia))).
  rewrite forallb_forall in Hsw. specialize (Hsw (len - 1) (ltac:(apply in_seq; lia))).
  replace (S (len - 1)) with len in Hsw by lia. exact Hsw.
Qed.

Section Conc.
  Variable v : list bool.
  Variable win : list (list bool).
  Let rv := fun i => nth i v false.
  Let rb := fun j k => nth k (nth j win []) false.

  Lemma F2_map_seq {A B} (P : A -> B -> Prop) (f : nat -> A) (d : B) :
    forall (l : list B) (o : nat), (forall i, i < length l -> P (f (o + i)) (nth i l d)) ->
    Forall2 P (map f (seq o (length l))) l.
  Proof.
    induction l as [|x l IH]; intros o H; simpl; constructor.
    - specialize (H 0 (ltac:(simpl; lia))). rewrite Nat.add_0_r in H. exact H.
    - apply IH. intros i Hi. specialize (H (S i) (ltac:(simpl; lia))).
      replace (S o + i) with (o + S i) by lia. exact H.
  Qed.

  Lemma RS_init W s : length v = W -> Forall (fun b => length b = 8) win ->
    RS rv rb (sym_init W s (length win)) (conc_init s v win).
  Proof.
    intros Hv Hw. split; cbn [regs buf sym_init conc_init].
    - constructor.
      + split; cbn [bits sg]; auto. subst W.
        apply (F2_map_seq (R rv rb) SV false). intros i _. right. reflexivity.
      + assert (H : forall n, Forall2 (RC rv rb) (repeat dflt n) (repeat dflt n)).
        { induction n; simpl; constructor; auto using RC_dflt. }
        apply H.
    - apply (F2_map_seq (Forall2 (R rv rb)) (fun j => map (SB j) (seq 0 8)) []).
      intros j Hj. cbv beta. rewrite Nat.add_0_l.
      assert (Hl : length (nth j win []) = 8).
      { rewrite Forall_forall in Hw. apply Hw. apply nth_In. exact Hj. }
      rewrite <- Hl.
      apply (F2_map_seq (R rv rb) (SB j) false). intros k _. right. reflexivity.
  Qed.

  Lemma spec_no_top bo W s start len nb :
    Forall (Forall (fun b => b <> ST)) (spec_sym bo W s start len nb).
  Proof.
    unfold spec_sym. apply Forall_forall. intros x Hx. apply in_map_iff in Hx.
    destruct Hx as [j [<- _]]. apply Forall_forall. intros y Hy. apply in_map_iff in Hy.
    destruct Hy as [k [<- _]].
    destruct (_ && _); [|discriminate].
    destruct (_ <? W); [discriminate|]. destruct s; discriminate.
  Qed.

  Lemma RV_eval a x : Forall2 (R rv rb) a x -> Forall (fun b => b <> ST) a -> map (eval rv rb) a = x.
  Proof.
    induction 1 as [|s b a x Hsb H IH]; intros Hn; simpl; auto.
    inversion Hn as [|? ? Hs Hn']; subst. f_equal; auto.
    destruct Hsb as [Hsb|Hsb]; [contradiction|exact Hsb].
  Qed.
  Lemma RVV_eval a x : Forall2 (Forall2 (R rv rb)) a x -> Forall (Forall (fun b => b <> ST)) a ->
    map (map (eval rv rb)) a = x.
  Proof.
    induction 1 as [|s b a x Hsb H IH]; intros Hn; simpl; auto.
    inversion Hn as [|? ? Hs Hn']; subst. f_equal; auto using RV_eval.
  Qed.

  Theorem bf_write_exact bo W s start len :
    In W [8;16;32;64] -> start < 8 -> 1 <= len <= 64 ->
    length v = W -> length win = (start + len + 7) / 8 -> Forall (fun b => length b = 8) win ->
    bf_write bo W s start len v win = Some (spec_write bo W s start len v win).
  Proof.
    intros HW Hs Hl Hv Hn Hw.
    pose proof (check_of_sweep bo W s start len HW Hs Hl) as Hc.
    unfold check in Hc. rewrite <- Hn in Hc.
    pose proof (exec_sound rv rb (compile bo W s start len) _ _ (RS_init W s Hv Hw)) as Hsound.
    unfold bf_write, spec_write.
    destruct (exec sops (sym_init W s (length win)) (compile bo W s start len)) as [rs|]; [|discriminate].
    destruct (exec bops (conc_init s v win) (compile bo W s start len)) as [rc|]; [|contradiction].
    apply (list_eqb_eq _ (list_eqb_eq _ sbit_eqb_eq)) in Hc.
    destruct Hsound as [_ Hbuf]. rewrite Hc in Hbuf.
    f_equal. symmetry. apply RVV_eval; auto using spec_no_top.
  Qed.
End Conc.
