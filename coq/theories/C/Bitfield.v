(* Transcription of _bt_bitfield_write_le / _bt_bitfield_write_be (unit type = uint8_t) and
   _bt_piecewise_rshift of barectf/templates/c/bitfield.h.j2 into instruction lists of the
   register machine of Sym.v.  Control flow of the macros depends only on (start, length), so it
   is resolved here; values and buffer bytes stay symbolic.  Tied to the real header by the
   correspondence run of harness/props/c08.py (model executed on the same cases as the C). *)
From Coq Require Import List Arith Bool Lia.
Import ListNotations.
From BT.C Require Import Sym.

Inductive byte_order := LE | BE.

(* register names *)
Definition rV := 0. Definition rM := 1. Definition rC := 2. Definition rT := 3.
Definition rZ8 := 4. Definition rZv := 5. Definition rP := 6.

(* if (__length < sizeof(__v) * CHAR_BIT) __v &= ~((~(_vtype) 0) << __length); *)
Definition c_trim (W : nat) (s : bool) (len : nat) : list instr :=
  if len <? W then [INot rT rZv; IShl rT rT len; INot rT rT; IAnd rT rV rT; ICast rV rT W s] else [].
(* mask = ~((~(type) 0) << k) *)
Definition c_mask_low (k : nat) := [INot rT rZ8; IShl rT rT k; INot rT rT; ICast rM rT 8 false].
(* mask = (~(type) 0) << e *)
Definition c_mask_high (e : nat) := [INot rT rZ8; IShl rT rT e; ICast rM rT 8 false].
(* mask |= (~(type) 0) << e *)
Definition c_mask_or_high (e : nat) := [INot rT rZ8; IShl rT rT e; IOr rT rM rT; ICast rM rT 8 false].
(* cmask = (type) __v << k *)
Definition c_cmask_shl (k : nat) := [ICast rT rV 8 false; IShl rT rT k; ICast rC rT 8 false].
(* cmask = (type) __v *)
Definition c_cmask_v := [ICast rC rV 8 false].
(* cmask &= ~mask *)
Definition c_cmask_andn := [INot rT rM; IAnd rT rC rT; ICast rC rT 8 false].
(* __ptr[u] &= mask; __ptr[u] |= cmask; *)
Definition c_merge (u : nat) :=
  [ILoad rP u; IAnd rT rP rM; ICast rT rT 8 false; IStore u rT;
   ILoad rP u; IOr rT rP rC; ICast rT rT 8 false; IStore u rT].
(* __ptr[u] = (type) __v *)
Definition c_store_v (u : nat) := [ICast rT rV 8 false; IStore u rT].
(* _bt_piecewise_rshift(_vtype, __v, shift) *)
Definition c_rshift (W : nat) (s : bool) (shift : nat) : list instr :=
  concat (repeat [IShr rT rV (W - 1); ICast rV rT W s] (shift / (W - 1)))
  ++ [IShr rT rV (shift mod (W - 1)); ICast rV rT W s].

(* for (; this_unit < end_unit - 1; this_unit++) { __ptr[this_unit] = (type) __v; rshift(ts); } *)
Fixpoint c_units_le (W : nat) (s : bool) (n : nat) (u : nat) : list instr :=
  match n with 0 => [] | S n => c_store_v u ++ c_rshift W s 8 ++ c_units_le W s n (S u) end.
(* for (; this_unit >= start_unit + 1; this_unit--) { ... }  : n units, going down from u *)
Fixpoint c_units_be (W : nat) (s : bool) (n : nat) (u : nat) : list instr :=
  match n with 0 => [] | S n => c_store_v u ++ c_rshift W s 8 ++ c_units_be W s n (u - 1) end.

Definition prologue (W : nat) (s : bool) (len : nat) :=
  [IConst rZ8 8 false false; IConst rZv W s false] ++ c_trim W s len.

Definition compile_le (W : nat) (s : bool) (start len : nat) : list instr :=
  let e := start + len in
  let su := start / 8 in let eu := (e + 7) / 8 in
  prologue W s len ++
  if su =? eu - 1 then
    c_mask_low (start mod 8) ++ (if e mod 8 =? 0 then [] else c_mask_or_high (e mod 8)) ++
    c_cmask_shl (start mod 8) ++ c_cmask_andn ++ c_merge su
  else
    let first := if start mod 8 =? 0 then [] else
       c_mask_low (start mod 8) ++ c_cmask_shl (start mod 8) ++ c_cmask_andn ++ c_merge su ++
       c_rshift W s (8 - start mod 8) in
    let u1 := if start mod 8 =? 0 then su else S su in
    first ++ c_units_le W s (eu - 1 - u1) u1 ++
    (if e mod 8 =? 0 then c_store_v (eu - 1)
     else c_mask_high (e mod 8) ++ c_cmask_v ++ c_cmask_andn ++ c_merge (eu - 1)).

Definition compile_be (W : nat) (s : bool) (start len : nat) : list instr :=
  let e := start + len in
  let su := start / 8 in let eu := (e + 7) / 8 in
  prologue W s len ++
  if su =? eu - 1 then
    c_mask_low ((8 - e mod 8) mod 8) ++
    (if start mod 8 =? 0 then [] else c_mask_or_high (8 - start mod 8)) ++
    c_cmask_shl ((8 - e mod 8) mod 8) ++ c_cmask_andn ++ c_merge (eu - 1)
  else
    let first := if e mod 8 =? 0 then [] else
       c_mask_low (8 - e mod 8) ++ c_cmask_shl (8 - e mod 8) ++ c_cmask_andn ++ c_merge (eu - 1) ++
       c_rshift W s (e mod 8) in
    let u1 := if e mod 8 =? 0 then eu - 1 else eu - 2 in
    first ++ c_units_be W s (u1 - su) u1 ++
    (if start mod 8 =? 0 then c_store_v su
     else c_mask_high (8 - start mod 8) ++ c_cmask_v ++ c_cmask_andn ++ c_merge su).

Definition compile (bo : byte_order) := match bo with LE => compile_le | BE => compile_be end.

(* ---- specification, written from the CTF 1.8 bit order rules only ----
   Window = the bytes overlapping the field.  Bit k (from the LSB) of byte j sits at stream
   position 8j+k (little endian) or 8j+7-k (big endian).  Positions [start, start+len) receive
   the value: little endian least significant bit first, big endian most significant bit first;
   value bits beyond the carrier width are the sign/zero extension.  Every other bit keeps its
   old content. *)
Definition spec_sym (bo : byte_order) (W : nat) (s : bool) (start len nb : nat) : list (list sbit) :=
  map (fun j => map (fun k =>
      let p := match bo with LE => 8 * j + k | BE => 8 * j + (7 - k) end in
      if (start <=? p) && (p <? start + len) then
        let i := match bo with LE => p - start | BE => len - 1 - (p - start) end in
        if i <? W then SV i else if s then SV (W - 1) else S0
      else SB j k) (seq 0 8)) (seq 0 nb).

Definition sym_init (W : nat) (s : bool) (nb : nat) : st (B:=sbit) :=
  {| regs := {| bits := map SV (seq 0 W); sg := s |} :: repeat dflt 6;
     buf := map (fun j => map (SB j) (seq 0 8)) (seq 0 nb) |}.

Definition sbit_eqb (a b : sbit) : bool :=
  match a, b with S0, S0 | S1, S1 => true | SV i, SV j => i =? j
  | SB a b, SB c d => (a =? c) && (b =? d) | _, _ => false end.
Fixpoint list_eqb {A} (f : A -> A -> bool) (l m : list A) : bool :=
  match l, m with [], [] => true | a :: l, b :: m => f a b && list_eqb f l m | _, _ => false end.

Definition check (bo : byte_order) (W : nat) (s : bool) (start len : nat) : bool :=
  let nb := (start + len + 7) / 8 in
  match exec sops (sym_init W s nb) (compile bo W s start len) with
  | Some r => list_eqb (list_eqb sbit_eqb) (buf r) (spec_sym bo W s start len nb)
  | None => false end.

Definition sweep (bo : byte_order) : bool :=
  forallb (fun W => forallb (fun s => forallb (fun start => forallb (fun len => check bo W s start (S len))
     (seq 0 64)) (seq 0 8)) [false; true]) [8; 16; 32; 64].

(* concrete side *)
Definition conc_init (s : bool) (v : list bool) (win : list (list bool)) : st (B:=bool) :=
  {| regs := {| bits := v; sg := s |} :: repeat dflt 6; buf := win |}.
Definition bf_write (bo : byte_order) (W : nat) (s : bool) (start len : nat)
           (v : list bool) (win : list (list bool)) : option (list (list bool)) :=
  match exec bops (conc_init s v win) (compile bo W s start len) with
  | Some r => Some (buf r) | None => None end.
Definition spec_write (bo : byte_order) (W : nat) (s : bool) (start len : nat)
           (v : list bool) (win : list (list bool)) : list (list bool) :=
  map (map (eval (fun i => nth i v false) (fun j k => nth k (nth j win []) false)))
      (spec_sym bo W s start len (length win)).
