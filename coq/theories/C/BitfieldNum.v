(* Numeric wrappers around the bit-vector model, used by the correspondence runs
   (values and bytes as N). *)
From Coq Require Import List Arith Bool NArith.
Import ListNotations.
From BT.C Require Import Sym Bitfield.

Definition bits_of_N (w : nat) (v : N) : list bool :=
  map (fun i => N.testbit v (N.of_nat i)) (seq 0 w).
Definition N_of_bits (l : list bool) : N :=
  fold_right (fun (b : bool) acc => ((if b then 1 else 0) + 2 * acc)%N) 0%N l.

Definition bf_write_num (bo : byte_order) (W : nat) (sg : bool) (start len : nat)
           (v : N) (win : list N) : option (list N) :=
  match bf_write bo W sg start len (bits_of_N W v) (map (bits_of_N 8) win) with
  | Some r => Some (map N_of_bits r) | None => None end.
Definition spec_write_num (bo : byte_order) (W : nat) (sg : bool) (start len : nat)
           (v : N) (win : list N) : list N :=
  map N_of_bits (spec_write bo W sg start len (bits_of_N W v) (map (bits_of_N 8) win)).

Fixpoint list_N_eqb (a b : list N) : bool :=
  match a, b with [] , [] => true | x :: a, y :: b => N.eqb x y && list_N_eqb a b | _, _ => false end.

(* one correspondence case: control, value, old window, window produced by the compiled macro *)
Definition bf_case := (byte_order * nat * bool * nat * nat * N * list N * list N)%type.
Definition bf_case_ok (c : bf_case) : bool :=
  match c with (bo, W, sg, start, len, v, win, out) =>
    match bf_write_num bo W sg start len v win with
    | Some r => list_N_eqb r out && list_N_eqb (spec_write_num bo W sg start len v win) out
    | None => false end end.
Fixpoint failing {A} (f : A -> bool) (i : nat) (l : list A) : list nat :=
  match l with [] => [] | x :: l => if f x then failing f (S i) l else i :: failing f (S i) l end.
