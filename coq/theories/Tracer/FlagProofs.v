(* C16: the in-tracing-section flag brackets every modification (proofs; statements in Props/C16.v). *)
From Coq Require Import List Arith Bool ZArith String Lia.
Import ListNotations.
From BT.Base Require Import Bits.
From BT.Layout Require Import Model.
From BT.Tracer Require Import Model Lemmas.

(* ------------------------------------------------------------------ event classes *)
(* events of the blocks below the callbacks (clock, stores, opening / closing function), when the
   flag is b on entry *)
Definition lowok (b : bool) (e : ev) : Prop :=
  match e with
  | EStore f => f = true
  | ECb k f _ => k = 3 /\ f = b
  | ETs k _ => k <> 2
  | ESample _ | EErr _ => True
  | EAns _ | EDisc | EPacket _ _ | ERet _ => False
  end.
(* events of the stores *)
Definition stok (e : ev) : Prop :=
  match e with
  | EStore f => f = true
  | ETs k _ => k <> 2
  | EErr _ => True
  | _ => False
  end.
Lemma stok_lowok b e : stok e -> lowok b e.
Proof. destruct e; cbn; intuition. Qed.
Definition midok (b : bool) (e : ev) : Prop :=
  match e with EPacket _ _ => True | _ => lowok b e end.
(* events of any block run with flag b on entry *)
Definition evok (b : bool) (e : ev) : Prop :=
  match e with
  | EStore f => f = true
  | ECb _ f _ => f = b
  | ETs k _ => k <> 2
  | ERet _ => False
  | _ => True
  end.
Definition store_ok (e : ev) : Prop := match e with EStore f => f = true | _ => True end.
Definition cb_ok (e : ev) : Prop := match e with ECb _ f _ => f = true | _ => True end.
(* events of a tracing call after its entry clock sample *)
Definition tevok (e : ev) : Prop :=
  match e with EStore f => f = true | ECb _ f _ => f = true | ERet _ => False | _ => True end.

Lemma lowok_midok b e : lowok b e -> midok b e.
Proof. destruct e; cbn; auto. Qed.
Lemma midok_evok b e : midok b e -> evok b e.
Proof. destruct e; cbn; intuition. Qed.
Lemma lowok_evok b e : lowok b e -> evok b e.
Proof. intros; apply midok_evok, lowok_midok; auto. Qed.
Lemma evok_tevok e : evok true e -> tevok e.
Proof. destruct e; cbn; auto. Qed.
Lemma evok_store b e : evok b e -> store_ok e.
Proof. destruct e; cbn; auto. Qed.
Lemma tevok_store e : tevok e -> store_ok e.
Proof. destruct e; cbn; auto. Qed.
Lemma tevok_cb e : tevok e -> cb_ok e.
Proof. destruct e; cbn; auto. Qed.

(* a block: keeps the flag, logs only events of class P *)
Definition blk (P : ev -> Prop) (b : bool) (w w' : world) : Prop :=
  c_in_ts (w_c w') = b /\ ext P w w'.

Lemma blk_trans P b w1 w2 w3 : blk P b w1 w2 -> blk P b w2 w3 -> blk P b w1 w3.
Proof. intros [A1 E1] [A2 E2]. split; [auto | eapply ext_trans; eauto]. Qed.
Lemma blk_mono (P Q : ev -> Prop) b w w' : (forall e, P e -> Q e) -> blk P b w w' -> blk Q b w w'.
Proof. intros H [A E]. split; auto. eapply ext_mono; eauto. Qed.
Lemma blk_refl P b w : c_in_ts (w_c w) = b -> blk P b w w.
Proof. intros; split; auto. apply ext_refl. Qed.

(* ------------------------------------------------------------------ leaf blocks *)
Lemma clock_cb_blk d b w : c_in_ts (w_c w) = b -> blk (lowok b) b w (snd (clock_cb d w)).
Proof.
  intros H. rewrite clock_cb_eq. split; up; togs; auto.
  eapply ext_logs; [reflexivity|]. repeat constructor; cbn; auto.
Qed.

Lemma full_cb_blk b w : c_in_ts (w_c w) = b -> blk (evok b) b w (snd (full_cb w)).
Proof.
  intros H. rewrite full_cb_eq. split; up; togs; auto.
  eapply ext_logs; [reflexivity|]. repeat constructor; cbn; auto.
Qed.

Lemma do_ser_blk d w o v : c_in_ts (w_c w) = true -> blk stok true w (do_ser d w o v).
Proof.
  intros H. rewrite do_ser_eq. destruct (ser _ _ _ _ _ _); split; up; auto;
    (eapply ext_logs; [reflexivity|]; repeat constructor; cbn; auto).
Qed.

Lemma fail_blk (P : ev -> Prop) b w n : c_in_ts (w_c w) = b -> P (EErr n) -> blk P b w (fail w n).
Proof. intros H HP. split; up; auto. eapply ext_logs; [reflexivity|]. repeat constructor; auto. Qed.

Lemma logev_blk (P : ev -> Prop) b w e : c_in_ts (w_c w) = b -> P e -> blk P b w (logev w e).
Proof. intros H HP. split; up; auto. eapply ext_logs; [reflexivity|]. repeat constructor; auto. Qed.

(* a context update that keeps the flag and the log *)
Lemma setc_blk (P : ev -> Prop) b w w' c :
  blk P b w w' -> c_in_ts c = b -> blk P b w (set_c w' c).
Proof. intros [A E] H. split; [up; auto|]. eapply ext_eq_log_r; [|exact E]. reflexivity. Qed.
Lemma setc_blk_l (P : ev -> Prop) b w w' c :
  blk P b (set_c w c) w' -> blk P b w w'.
Proof. intros [A E]. split; [auto|]. eapply ext_eq_log; [|exact E]. reflexivity. Qed.

Lemma write_saved_blk d w n v :
  c_in_ts (w_c w) = true -> blk stok true w (write_saved d w n v).
Proof.
  intros H. unfold write_saved.
  destruct (has_member _ _); [|apply blk_refl; auto].
  destruct (pc_member_op d n) as [[al k size off| | | |]|];
    try (apply fail_blk; cbn; auto).
  destruct (skip_index _ _ _); try (apply fail_blk; cbn; auto).
  cbv zeta. apply setc_blk.
  - eapply setc_blk_l. apply do_ser_blk. up; auto.
  - match goal with |- context [do_ser d ?w0 ?o ?v] =>
      destruct (do_ser_blk d w0 o v) as [A E]; [up; auto|] end.
    up. exact A.
Qed.

Lemma preamble_blk d b w f :
  c_in_ts (w_c w) = b -> blk (lowok b) b w (snd (preamble_ts d w f)).
Proof.
  intros H. destruct (preamble_cases d w f) as [[E _]|[[E _]|[E _]]]; rewrite E.
  - apply blk_refl; auto.
  - apply blk_refl; auto.
  - apply clock_cb_blk; auto.
Qed.

Lemma opt_ser_blk d w (oo : option op) v :
  c_in_ts (w_c w) = true ->
  blk stok true w (match oo with Some o => do_ser d w o v | None => w end).
Proof. intros H. destruct oo; [apply do_ser_blk; auto|apply blk_refl; auto]. Qed.

Lemma opt_log_blk (P : ev -> Prop) b w (c : bool) e :
  c_in_ts (w_c w) = b -> P e -> blk P b w (if c then logev w e else w).
Proof. intros H HP. destruct c; [apply logev_blk; auto|apply blk_refl; auto]. Qed.

(* the opening function proper: the flag is restored, only stores are logged *)
Lemma open_do_blk d ts w : blk stok (c_in_ts (w_c w)) w (open_do d ts w).
Proof.
  unfold open_do.
  assert (B1 : blk stok true w (open_reset w)).
  { split; [reflexivity|apply ext_same; reflexivity]. }
  assert (B2 : blk stok true w (open_hdr d (open_reset w))).
  { eapply blk_trans; [exact B1|]. unfold open_hdr. apply opt_ser_blk, B1. }
  assert (B3 : blk stok true w (open_mark d ts (open_hdr d (open_reset w)))).
  { eapply blk_trans; [exact B2|]. unfold open_mark. apply opt_log_blk; [apply B2|cbn; discriminate]. }
  match goal with |- blk _ _ _ (open_fin _ ?W) => assert (B4 : blk stok true w W) end.
  { eapply blk_trans; [exact B3|]. unfold open_pc. apply do_ser_blk, B3. }
  destruct B4 as [A E]. split; [reflexivity|].
  eapply ext_eq_log_r; [|exact E]. reflexivity.
Qed.

Lemma open_core_blk d ts w : blk stok (c_in_ts (w_c w)) w (open_core d ts w).
Proof.
  unfold open_core.
  destruct (negb (c_enabled (w_c w)) && negb (c_in_ts (w_c w))) eqn:E1.
  { split; [up|apply ext_same; reflexivity].
    rewrite andb_true_iff, !negb_true_iff in E1. destruct E1 as [_ E1]. congruence. }
  destruct (c_open (w_c w)) eqn:E2.
  { split; [reflexivity|apply ext_same; reflexivity]. }
  apply open_do_blk.
Qed.

Lemma close_do_blk d ts w : blk stok (c_in_ts (w_c w)) w (close_do d ts w).
Proof.
  unfold close_do.
  assert (B1 : blk stok true w (close_begin w)).
  { split; [reflexivity|apply ext_same; reflexivity]. }
  assert (B2 : blk stok true w (close_mark d ts (close_begin w))).
  { eapply blk_trans; [exact B1|]. unfold close_mark. apply opt_log_blk; [apply B1|cbn; discriminate]. }
  match goal with |- blk _ _ _ (close_fin _ _ ?W) => assert (B3 : blk stok true w W) end.
  { unfold close_ws. cbv zeta.
    eapply blk_trans; [eapply blk_trans; [eapply blk_trans; [exact B2|]|]|].
    - apply write_saved_blk, B2.
    - apply write_saved_blk. apply write_saved_blk, B2.
    - apply write_saved_blk. apply write_saved_blk. apply write_saved_blk, B2. }
  destruct B3 as [A E]. split; [reflexivity|].
  eapply ext_eq_log_r; [|exact E]. reflexivity.
Qed.

Lemma close_core_blk d ts w : blk stok (c_in_ts (w_c w)) w (close_core d ts w).
Proof.
  unfold close_core.
  destruct (negb (c_enabled (w_c w)) && negb (c_in_ts (w_c w))) eqn:E1.
  { split; [up|apply ext_same; reflexivity].
    rewrite andb_true_iff, !negb_true_iff in E1. destruct E1 as [_ E1]. congruence. }
  destruct (negb (c_open (w_c w))) eqn:E2.
  { split; [reflexivity|apply ext_same; reflexivity]. }
  apply close_do_blk.
Qed.

Lemma open_fn_blk d b w : c_in_ts (w_c w) = b -> blk (lowok b) b w (open_fn d w).
Proof.
  intros H. rewrite open_fn_eq.
  pose proof (preamble_blk d b w (has_member (d_pc d) "timestamp_begin") H) as B.
  eapply blk_trans; [exact B|].
  destruct B as [A _]. rewrite <- A at 2.
  eapply blk_mono; [|apply open_core_blk]. intros; apply stok_lowok; auto.
Qed.

Lemma close_fn_blk d b w : c_in_ts (w_c w) = b -> blk (lowok b) b w (close_fn d w).
Proof.
  intros H. rewrite close_fn_eq.
  pose proof (preamble_blk d b w (has_member (d_pc d) "timestamp_end") H) as B.
  eapply blk_trans; [exact B|].
  destruct B as [A _]. rewrite <- A at 2.
  eapply blk_mono; [|apply close_core_blk]. intros; apply stok_lowok; auto.
Qed.

(* the opening / closing functions give the flag back to their caller as they found it *)
Theorem open_fn_flag d w : c_in_ts (w_c (open_fn d w)) = c_in_ts (w_c w).
Proof. apply (open_fn_blk d (c_in_ts (w_c w)) w eq_refl). Qed.
Theorem close_fn_flag d w : c_in_ts (w_c (close_fn d w)) = c_in_ts (w_c w).
Proof. apply (close_fn_blk d (c_in_ts (w_c w)) w eq_refl). Qed.

(* ------------------------------------------------------------------ callbacks *)
Lemma cb_enter_flag k w : c_in_ts (w_c (cb_enter k w)) = c_in_ts (w_c w).
Proof. unfold cb_enter; up; togs; reflexivity. Qed.

(* precise shape: the callback entry with the flag and packet_is_open at that moment, then events
   of the opening function *)
Lemma open_cb_shape d b w :
  c_in_ts (w_c w) = b ->
  c_in_ts (w_c (open_cb d w)) = b /\ exists seg, w_log (open_cb d w) = w_log w ++ ECb 1 b (c_open (w_c w)) :: seg /\ Forall (lowok b) seg.
Proof.
  intros H. rewrite open_cb_eq.
  destruct (open_fn_blk d b (cb_enter 1 w)) as [A [seg [E F]]]; [rewrite cb_enter_flag; auto|].
  split; auto. exists seg. split; auto. rewrite E. unfold cb_enter; up. rewrite <- app_assoc, H. reflexivity.
Qed.

Lemma close_give_blk d a b w :
  c_in_ts (w_c w) = b -> blk (midok b) b w (close_give d a w).
Proof.
  intros H. unfold close_give. cbv zeta. destruct (a_newbuf a).
  - apply setc_blk; [apply logev_blk; cbn; auto|up; auto].
  - apply logev_blk; cbn; auto.
Qed.

Lemma close_hand_blk d a o b w :
  c_in_ts (w_c w) = b -> blk (midok b) b w (close_hand d a o w).
Proof.
  intros H. unfold close_hand. destruct (o && negb (c_open (w_c w))); [|apply blk_refl; auto].
  pose proof (close_give_blk d a b w H) as B.
  destruct (a_eager a); [|exact B].
  eapply blk_trans; [exact B|]. eapply blk_mono; [|apply open_fn_blk, B].
  intros; apply lowok_midok; auto.
Qed.

Lemma close_cb_shape d b w :
  c_in_ts (w_c w) = b ->
  c_in_ts (w_c (close_cb d w)) = b /\ exists seg, w_log (close_cb d w) = w_log w ++ ECb 2 b (c_open (w_c w)) :: seg /\ Forall (midok b) seg.
Proof.
  intros H. rewrite close_cb_eq.
  assert (B : blk (midok b) b (cb_enter 2 w)
                  (close_hand d (hd_ans w) (c_open (w_c w)) (close_fn d (cb_enter 2 w)))).
  { eapply blk_trans.
    - eapply blk_mono; [|apply close_fn_blk; rewrite cb_enter_flag; exact H].
      intros; apply lowok_midok; auto.
    - apply close_hand_blk. apply close_fn_blk. rewrite cb_enter_flag; exact H. }
  destruct B as [A [seg [E F]]]. split; auto. exists seg. split; auto.
  rewrite E. unfold cb_enter; up. rewrite <- app_assoc, H. reflexivity.
Qed.

Lemma open_cb_blk d b w : c_in_ts (w_c w) = b -> blk (evok b) b w (open_cb d w).
Proof.
  intros H. destruct (open_cb_shape d b w H) as [A [seg [E F]]]. split; auto.
  eapply ext_logs; [exact E|]. constructor; [cbn; auto|].
  eapply Forall_impl; [|exact F]. intros; apply lowok_evok; auto.
Qed.

Lemma close_cb_blk d b w : c_in_ts (w_c w) = b -> blk (evok b) b w (close_cb d w).
Proof.
  intros H. destruct (close_cb_shape d b w H) as [A [seg [E F]]]. split; auto.
  eapply ext_logs; [exact E|]. constructor; [cbn; auto|].
  eapply Forall_impl; [|exact F]. intros; apply midok_evok; auto.
Qed.

Lemma with_use_ts_blk (P : ev -> Prop) b f w :
  (forall w, c_in_ts (w_c w) = b -> blk P b w (f w)) ->
  c_in_ts (w_c w) = b -> blk P b w (with_use_ts f w).
Proof.
  intros Hf H. unfold with_use_ts. apply setc_blk.
  - eapply setc_blk_l. apply Hf. up; auto.
  - match goal with |- context [f ?w0] => destruct (Hf w0) as [A _]; [up; auto|] end.
    up. exact A.
Qed.

Lemma no_space_blk b w : c_in_ts (w_c w) = b -> blk (evok b) b w (snd (no_space w)).
Proof. intros H. rewrite no_space_eq. split; up; auto. eapply ext_logs; [reflexivity|]. repeat constructor. Qed.

(* ------------------------------------------------------------------ reserve, serialization *)
Lemma reserve_blk d b w n : c_in_ts (w_c w) = b -> blk (evok b) b w (snd (reserve d w n)).
Proof.
  intros H.
  apply (reserve_inv d (fun w' => blk (evok b) b w w')); [| | | |apply blk_refl; auto].
  - intros w' B. eapply blk_trans; [exact B|]. apply full_cb_blk, B.
  - intros w' B. eapply blk_trans; [exact B|].
    apply with_use_ts_blk; [intros; apply open_cb_blk; auto|apply B].
  - intros w' B. eapply blk_trans; [exact B|].
    apply with_use_ts_blk; [intros; apply close_cb_blk; auto|apply B].
  - intros w' B. eapply blk_trans; [exact B|]. apply no_space_blk, B.
Qed.

Lemma ser_parts_blk d ps w : c_in_ts (w_c w) = true -> blk stok true w (ser_parts d w ps).
Proof.
  unfold ser_parts. revert w. induction ps as [|[o v] ps IH]; intros w H; cbn [fold_left].
  - apply blk_refl; auto.
  - destruct (w_err w).
    + apply IH; auto.
    + eapply blk_trans; [apply do_ser_blk; auto|]. apply IH. apply do_ser_blk; auto.
Qed.

(* ------------------------------------------------------------------ tracing function *)
Definition entry_seg (d : dstm) (w : world) : list ev :=
  if d_has_clock d
  then [ECb 3 (c_in_ts (w_c w)) (c_open (w_c w)); ESample (clk_next d w)] else [].

Lemma trace_entry_log d w : w_log (trace_entry d w) = w_log w ++ entry_seg d w.
Proof.
  unfold trace_entry, entry_seg. destruct (d_has_clock d); [|rewrite app_nil_r; reflexivity].
  rewrite clock_cb_eq. up. reflexivity.
Qed.
Lemma trace_entry_flag d w : c_in_ts (w_c (trace_entry d w)) = c_in_ts (w_c w).
Proof.
  unfold trace_entry. destruct (d_has_clock d); [|reflexivity].
  rewrite clock_cb_eq. up. togs. reflexivity.
Qed.

Lemma stok_tevok e : stok e -> tevok e.
Proof. destruct e; cbn; auto. Qed.

Lemma trace_commit_blk d w :
  c_in_ts (w_c w) = true ->
  c_in_ts (w_c (trace_commit d w)) = false /\ ext tevok w (trace_commit d w).
Proof.
  intros H. unfold trace_commit. split; [up; reflexivity|]. cbv zeta.
  match goal with |- ext _ _ (set_c ?W _) => apply (ext_eq_log_r _ _ W); [reflexivity|] end.
  destruct (_ =? _); [|apply ext_refl].
  eapply ext_mono; [|apply close_cb_blk; exact H]. intros; apply evok_tevok; auto.
Qed.

Lemma trace_ser_blk d e args w :
  c_in_ts (w_c w) = true ->
  (w_err (trace_ser d e args w) = false -> c_in_ts (w_c (trace_ser d e args w)) = false) /\ ext tevok w (trace_ser d e args w).
Proof.
  intros H. unfold trace_ser.
  assert (B1 : blk tevok true w (trace_mark d w)).
  { unfold trace_mark. apply opt_log_blk; cbn; auto. }
  assert (B2 : blk tevok true w
                 (ser_parts d (trace_mark d w) (rec_parts d e (c_last_ts (w_c (trace_mark d w))) args))).
  { eapply blk_trans; [exact B1|]. eapply blk_mono; [|apply ser_parts_blk, B1].
    intros; apply stok_tevok; auto. }
  cbv zeta. destruct (w_err (ser_parts _ _ _)) eqn:Ee.
  - split; [congruence|apply B2].
  - destruct (trace_commit_blk d _ (proj1 B2)) as [A E]. split; [auto|].
    eapply ext_trans; [apply B2|exact E].
Qed.

Lemma trace_body_blk d e args w :
  (w_err (trace_body d e args w) = false -> c_in_ts (w_c (trace_body d e args w)) = false) /\ ext tevok w (trace_body d e args w).
Proof.
  unfold trace_body. cbv zeta.
  destruct (size_parts _ _).
  2:{ split; [up; discriminate|]. eapply ext_logs; [reflexivity|]. repeat constructor. }
  match goal with |- context [reserve d ?w0 ?n] =>
    destruct (reserve_blk d true w0 n) as [A E]; [reflexivity|];
    assert (E' : ext tevok w (snd (reserve d w0 n)))
      by (eapply ext_eq_log; [|eapply ext_mono; [|exact E]]; [reflexivity|intros; apply evok_tevok; auto]);
    clear E; set (r := reserve d w0 n) in * end.
  destruct (negb (fst r)).
  { split; [up; reflexivity|]. eapply ext_eq_log_r; [|exact E']. reflexivity. }
  destruct (w_err (snd r)) eqn:Ee.
  { split; [congruence|exact E']. }
  match goal with |- context [trace_recheck d e args ?a ?x] =>
    destruct (trace_recheck_cases d e args a x) as [C|[C|(_ & a2 & _ & _ & C)]]; rewrite C; cbn [fst snd negb] end.
  - destruct (trace_ser_blk d e args (snd r) A) as [A2 E2]. split; auto.
    eapply ext_trans; eauto.
  - split; [up; discriminate|]. eapply ext_trans; [exact E'|].
    eapply ext_logs; [reflexivity|]. repeat constructor.
  - split; [intros _; reflexivity|]. eapply ext_trans; [exact E'|].
    eapply ext_logs; [reflexivity|]. repeat constructor.
Qed.

(* C16 (b): the log segment of one tracing call is the entry clock sample (flag as on entry)
   followed by events whose callback entries and stores all carry flag = 1 *)
Theorem trace_fn_segment d e args w :
  exists rest,
    w_log (trace_fn d e args w) = w_log w ++ entry_seg d w ++ rest /\ Forall tevok rest.
Proof.
  rewrite trace_fn_eq. destruct (negb _).
  - exists []. rewrite app_nil_r. split; [apply trace_entry_log|constructor].
  - destruct (trace_body_blk d e args (trace_entry d w)) as [_ [seg [E F]]].
    exists seg. split; auto. rewrite E, trace_entry_log, app_assoc. reflexivity.
Qed.

Theorem trace_fn_flag_off d e args w :
  c_in_ts (w_c w) = false -> w_err (trace_fn d e args w) = false ->
  c_in_ts (w_c (trace_fn d e args w)) = false.
Proof.
  rewrite trace_fn_eq. intros H. destruct (negb _).
  - intros _. rewrite trace_entry_flag. exact H.
  - apply trace_body_blk.
Qed.

Lemma entry_seg_store d w : Forall store_ok (entry_seg d w).
Proof. unfold entry_seg. destruct (d_has_clock d); repeat constructor. Qed.

(* ------------------------------------------------------------------ use_cur_last_event_ts *)
Lemma do_ser_use d w o v : c_use_ts (w_c (do_ser d w o v)) = c_use_ts (w_c w).
Proof. rewrite do_ser_eq. destruct (ser _ _ _ _ _ _); reflexivity. Qed.

Lemma write_saved_use d w n v : c_use_ts (w_c (write_saved d w n v)) = c_use_ts (w_c w).
Proof.
  unfold write_saved. destruct (has_member _ _); [|reflexivity].
  destruct (pc_member_op d n) as [[al k size off| | | |]|]; try reflexivity.
  destruct (skip_index _ _ _); try reflexivity.
  cbv zeta. up. rewrite do_ser_use. reflexivity.
Qed.

Lemma clock_cb_use d w : c_use_ts (w_c (snd (clock_cb d w))) = c_use_ts (w_c w).
Proof. rewrite clock_cb_eq. up. togs. reflexivity. Qed.

Lemma preamble_use d w f : c_use_ts (w_c (snd (preamble_ts d w f))) = c_use_ts (w_c w).
Proof.
  destruct (preamble_cases d w f) as [[E _]|[[E _]|[E _]]]; rewrite E; try reflexivity.
  apply clock_cb_use.
Qed.

Lemma open_core_use d ts w : c_use_ts (w_c (open_core d ts w)) = c_use_ts (w_c w).
Proof.
  unfold open_core. destruct (_ && _); [reflexivity|].
  destruct (c_open (w_c w)); [reflexivity|].
  unfold open_do, open_fin, open_pc, open_mark, open_hdr. cbv zeta. up. rewrite do_ser_use.
  match goal with |- context [if ?c then _ else _] => destruct c end; up;
    (destruct (snd (ph_build d)); [rewrite do_ser_use|]; reflexivity).
Qed.

Lemma close_core_use d ts w : c_use_ts (w_c (close_core d ts w)) = c_use_ts (w_c w).
Proof.
  unfold close_core. destruct (_ && _); [reflexivity|].
  destruct (negb (c_open (w_c w))); [reflexivity|].
  unfold close_do, close_fin, close_ws, close_mark. cbv zeta. up. rewrite !write_saved_use.
  match goal with |- context [if ?c then _ else _] => destruct c end; reflexivity.
Qed.

Lemma open_cb_use d w : c_use_ts (w_c (open_cb d w)) = c_use_ts (w_c w).
Proof.
  rewrite open_cb_eq, open_fn_eq, open_core_use, preamble_use. unfold cb_enter; up; togs. reflexivity.
Qed.

Lemma open_fn_use d w : c_use_ts (w_c (open_fn d w)) = c_use_ts (w_c w).
Proof. rewrite open_fn_eq, open_core_use, preamble_use. reflexivity. Qed.
Lemma close_fn_use d w : c_use_ts (w_c (close_fn d w)) = c_use_ts (w_c w).
Proof. rewrite close_fn_eq, close_core_use, preamble_use. reflexivity. Qed.

Lemma close_give_use d a w : c_use_ts (w_c (close_give d a w)) = c_use_ts (w_c w).
Proof. unfold close_give. cbv zeta. destruct (a_newbuf a); reflexivity. Qed.

Lemma close_cb_use d w : c_use_ts (w_c (close_cb d w)) = c_use_ts (w_c w).
Proof.
  rewrite close_cb_eq. unfold close_hand.
  assert (H : c_use_ts (w_c (close_fn d (cb_enter 2 w))) = c_use_ts (w_c w)).
  { rewrite close_fn_use. unfold cb_enter; up; togs. reflexivity. }
  destruct (_ && _); [|exact H].
  destruct (a_eager _); [rewrite open_fn_use|]; rewrite close_give_use; exact H.
Qed.

Lemma with_use_ts_off f w : c_use_ts (w_c (with_use_ts f w)) = false.
Proof. reflexivity. Qed.

Lemma reserve_use d w n : c_use_ts (w_c w) = false -> c_use_ts (w_c (snd (reserve d w n))) = false.
Proof.
  apply (reserve_inv d (fun w' => c_use_ts (w_c w') = false)); intros w' H'; try reflexivity.
  - rewrite full_cb_eq. up. togs. exact H'.
  - exact H'.
Qed.

Lemma ser_parts_use d ps w : c_use_ts (w_c (ser_parts d w ps)) = c_use_ts (w_c w).
Proof.
  unfold ser_parts. revert w. induction ps as [|[o v] ps IH]; intros w; cbn [fold_left]; [reflexivity|].
  rewrite IH. destruct (w_err w); [reflexivity|apply do_ser_use].
Qed.

Lemma trace_fn_use d e args w :
  c_use_ts (w_c w) = false -> c_use_ts (w_c (trace_fn d e args w)) = false.
Proof.
  intros H. rewrite trace_fn_eq.
  assert (H1 : c_use_ts (w_c (trace_entry d w)) = false).
  { unfold trace_entry. destruct (d_has_clock d); [|exact H]. up. rewrite clock_cb_use. exact H. }
  destruct (negb _); [exact H1|].
  unfold trace_body. cbv zeta. destruct (size_parts _ _); [|up; exact H1].
  match goal with |- context [reserve d ?w0 ?n] =>
    pose proof (reserve_use d w0 n H1) as H2; set (r := reserve d w0 n) in * end.
  destruct (negb (fst r)); [up; exact H2|]. destruct (w_err (snd r)); [exact H2|].
  match goal with |- context [trace_recheck d e args ?a ?x] =>
    destruct (trace_recheck_cases d e args a x) as [C|[C|(_ & a2 & _ & _ & C)]]; rewrite C; cbn [fst snd negb] end;
    [|exact H2|exact H2].
  unfold trace_ser. cbv zeta.
  match goal with |- context [ser_parts d ?w1 ?ps] =>
    assert (H3 : c_use_ts (w_c (ser_parts d w1 ps)) = false) end.
  { rewrite ser_parts_use. unfold trace_mark. destruct (_ && _); up; exact H2. }
  destruct (w_err _); [exact H3|].
  unfold trace_commit. up. destruct (_ =? _); [rewrite close_cb_use|]; exact H3.
Qed.

(* ------------------------------------------------------------------ whole histories *)
Definition flag_inv (w : world) : Prop :=
  Forall store_ok (w_log w) /\ (w_err w = false -> c_in_ts (w_c w) = false /\ c_use_ts (w_c w) = false).

Lemma ext_store b w w' : Forall store_ok (w_log w) -> ext (evok b) w w' -> Forall store_ok (w_log w').
Proof.
  intros H [seg [E F]]. rewrite E. apply Forall_app. split; auto.
  eapply Forall_impl; [|exact F]. intros a; apply evok_store.
Qed.

Lemma step_flag_inv d w k : flag_inv w -> flag_inv (step d w k).
Proof.
  intros [HS HF]. unfold step. destruct (w_err w) eqn:Ee; [split; [auto|rewrite Ee; discriminate]|].
  destruct (HF eq_refl) as [Hin Huse]. clear HF.
  match goal with |- flag_inv (if w_err ?W then _ else _) =>
    assert (HW : flag_inv W); [|destruct (w_err W) eqn:Ee2; [exact HW|]] end.
  2:{ destruct HW as [HS2 HF2]. split; up.
      - apply Forall_app; split; auto. repeat constructor.
      - intros _. apply HF2; auto. }
  destruct k as [ei args| | |b|].
  - destruct (nth_error (d_erts d) ei) as [e|].
    + split.
      * destruct (trace_fn_segment d e args w) as [rest [E F]]. rewrite E.
        apply Forall_app; split; auto. apply Forall_app; split; [apply entry_seg_store|].
        eapply Forall_impl; [|exact F]. intros a; apply tevok_store.
      * intros He. split; [apply trace_fn_flag_off; auto|apply trace_fn_use; auto].
    + split; up; [|discriminate]. apply Forall_app; split; auto. repeat constructor.
  - destruct (open_cb_blk d false w Hin) as [A E]. split; [eapply ext_store; eauto|].
    intros _. split; auto. rewrite open_cb_use; auto.
  - destruct (close_cb_blk d false w Hin) as [A E]. split; [eapply ext_store; eauto|].
    intros _. split; auto. rewrite close_cb_use; auto.
  - split; up; auto.
  - destruct (_ && _); [|split; auto].
    destruct (close_cb_blk d false w Hin) as [A E]. split; [eapply ext_store; eauto|].
    intros _. split; auto. rewrite close_cb_use; auto.
Qed.

Lemma steps_flag_inv d h w : flag_inv w -> flag_inv (fold_left (step d) h w).
Proof. revert w. induction h as [|k h IH]; intros w H; cbn [fold_left]; auto. apply IH, step_flag_inv, H. Qed.

Theorem run_flag_inv d buf pcargs oracle h : flag_inv (run d buf pcargs oracle h).
Proof. unfold run. apply steps_flag_inv. split; [constructor|]. intros _. split; reflexivity. Qed.

(* C16 (a) *)
Theorem stores_in_section d buf pcargs oracle h :
  forall f, In (EStore f) (w_log (run d buf pcargs oracle h)) -> f = true.
Proof.
  intros f Hin. destruct (run_flag_inv d buf pcargs oracle h) as [HS _].
  rewrite Forall_forall in HS. apply (HS _ Hin).
Qed.

(* C16 (c) *)
Theorem flag_clear_after_call d buf pcargs oracle h :
  w_err (run d buf pcargs oracle h) = false ->
  c_in_ts (w_c (run d buf pcargs oracle h)) = false /\ c_use_ts (w_c (run d buf pcargs oracle h)) = false.
Proof. apply run_flag_inv. Qed.

(* the formulation "every callback entry of the segment except possibly its first event" *)
Theorem trace_fn_segment_tl d e args w :
  exists seg, w_log (trace_fn d e args w) = w_log w ++ seg /\ Forall cb_ok (tl seg).
Proof.
  destruct (trace_fn_segment d e args w) as [rest [E F]].
  exists (entry_seg d w ++ rest). split; [exact E|].
  assert (F' : Forall cb_ok rest) by (eapply Forall_impl; [|exact F]; intros a; apply tevok_cb).
  unfold entry_seg. destruct (d_has_clock d); cbn [app tl].
  - constructor; [exact I|exact F'].
  - destruct rest; cbn [tl]; [constructor|]. inversion F'; auto.
Qed.
