(* C16: the in-tracing-section flag brackets every modification (proofs; statements in Props/C16.v). *)
From Coq Require Import List Arith Bool ZArith String Lia.
Import ListNotations.
From BT.Base Require Import Bits.
From BT.Layout Require Import Model.
From BT.Tracer Require Import Model Lemmas.

(* ------------------------------------------------------------------ event classes *)
(* events of the blocks below the callbacks (clock, stores, opening / closing function), when the
   flag is b on entry *)
Definition lowok (b : bool) (e : ev) : Prop :=
  match e with
  | EStore f => f = true
  | ECb k f _ => k = 3 /\ f = b
  | ETs k _ => k <> 2
  | ESample _ | EErr _ => True
  | EAns _ | EDisc | EPacket _ _ | ERet _ => False
  end.
Definition midok (b : bool) (e : ev) : Prop :=
  match e with EPacket _ _ => True | _ => lowok b e end.
(* events of any block run with flag b on entry *)
Definition evok (b : bool) (e : ev) : Prop :=
  match e with
  | EStore f => f = true
  | ECb _ f _ => f = b
  | ETs k _ => k <> 2
  | ERet _ => False
  | _ => True
  end.
Definition store_ok (e : ev) : Prop := match e with EStore f => f = true | _ => True end.
Definition cb_ok (e : ev) : Prop := match e with ECb _ f _ => f = true | _ => True end.
(* events of a tracing call after its entry clock sample *)
Definition tevok (e : ev) : Prop :=
  match e with EStore f => f = true | ECb _ f _ => f = true | ERet _ => False | _ => True end.

Lemma lowok_midok b e : lowok b e -> midok b e.
Proof. destruct e; cbn; auto. Qed.
Lemma midok_evok b e : midok b e -> evok b e.
Proof. destruct e; cbn; intuition. Qed.
Lemma lowok_evok b e : lowok b e -> evok b e.
Proof. intros; apply midok_evok, lowok_midok; auto. Qed.
Lemma evok_tevok e : evok true e -> tevok e.
Proof. destruct e; cbn; auto. Qed.
Lemma evok_store b e : evok b e -> store_ok e.
Proof. destruct e; cbn; auto. Qed.
Lemma tevok_store e : tevok e -> store_ok e.
Proof. destruct e; cbn; auto. Qed.
Lemma tevok_cb e : tevok e -> cb_ok e.
Proof. destruct e; cbn; auto. Qed.

(* a block: keeps the flag, logs only events of class P *)
Definition blk (P : ev -> Prop) (b : bool) (w w' : world) : Prop :=
  c_in_ts (w_c w') = b /\ ext P w w'.

Lemma blk_trans P b w1 w2 w3 : blk P b w1 w2 -> blk P b w2 w3 -> blk P b w1 w3.
Proof. intros [A1 E1] [A2 E2]. split; [auto | eapply ext_trans; eauto]. Qed.
Lemma blk_mono (P Q : ev -> Prop) b w w' : (forall e, P e -> Q e) -> blk P b w w' -> blk Q b w w'.
Proof. intros H [A E]. split; auto. eapply ext_mono; eauto. Qed.
Lemma blk_refl P b w : c_in_ts (w_c w) = b -> blk P b w w.
Proof. intros; split; auto. apply ext_refl. Qed.

(* ------------------------------------------------------------------ leaf blocks *)
Lemma clock_cb_blk d b w : c_in_ts (w_c w) = b -> blk (lowok b) b w (snd (clock_cb d w)).
Proof.
  intros H. rewrite clock_cb_eq. split; up; togs; auto.
  eapply ext_logs; [reflexivity|]. repeat constructor; cbn; auto.
Qed.

Lemma full_cb_blk b w : c_in_ts (w_c w) = b -> blk (evok b) b w (snd (full_cb w)).
Proof.
  intros H. rewrite full_cb_eq. split; up; togs; auto.
  eapply ext_logs; [reflexivity|]. repeat constructor; cbn; auto.
Qed.

Lemma do_ser_blk d w o v : c_in_ts (w_c w) = true -> blk (lowok true) true w (do_ser d w o v).
Proof.
  intros H. rewrite do_ser_eq. destruct (ser _ _ _ _ _ _); split; up; auto;
    (eapply ext_logs; [reflexivity|]; repeat constructor; cbn; auto).
Qed.

Lemma write_saved_blk d w n v :
  c_in_ts (w_c w) = true -> blk (lowok true) true w (write_saved d w n v).
Proof.
  intros H. unfold write_saved.
  destruct (has_member _ _); [|apply blk_refl; auto].
  destruct (pc_member_op d n) as [[al k size off| | | |]|];
    try (split; up; auto; eapply ext_logs; [reflexivity|]; repeat constructor; cbn; auto).
  destruct (skip_index _ _ _);
    try (split; up; auto; eapply ext_logs; [reflexivity|]; repeat constructor; cbn; auto).
  match goal with |- blk _ _ _ (set_c (do_ser d ?w0 ?o ?v) _) =>
    destruct (do_ser_blk d w0 o v) as [A E]; [up; auto|] end.
  split; [up; auto|]. eapply ext_eq_log_r; [|eapply ext_eq_log; [|exact E]]; reflexivity.
Qed.

Lemma preamble_blk d b w f :
  c_in_ts (w_c w) = b -> blk (lowok b) b w (snd (preamble_ts d w f)).
Proof.
  intros H. destruct (preamble_cases d w f) as [[E _]|[[E _]|[E _]]]; rewrite E.
  - apply blk_refl; auto.
  - apply blk_refl; auto.
  - apply clock_cb_blk; auto.
Qed.

Lemma open_core_blk d ts b w : c_in_ts (w_c w) = b -> blk (lowok b) b w (open_core d ts w).
Proof.
  intros H. unfold open_core.
  destruct (negb (c_enabled (w_c w)) && negb (c_in_ts (w_c w))) eqn:E1.
  { split; [up|apply ext_same; reflexivity].
    rewrite andb_true_iff, !negb_true_iff in E1. destruct E1 as [_ E1]. congruence. }
  cbv zeta. up. destruct (c_open (w_c w)) eqn:E2.
  { split; [up; auto|apply ext_same; reflexivity]. }
  match goal with |- blk _ _ _ (set_c ?W _) => assert (B : blk (lowok true) true w W) end.
  { eapply blk_trans; [eapply blk_trans; [eapply blk_trans|]|].
    - instantiate (1 := mk_w _ _ _ _ _ _). split; [up; reflexivity|apply ext_same; reflexivity].
    - destruct (snd (ph_build d)); [apply do_ser_blk; reflexivity|apply blk_refl; reflexivity].
    - match goal with |- blk _ _ ?W0 (if ?c then _ else _) => destruct c end.
      + split; [up|].
        * match goal with |- c_in_ts (w_c ?W0) = true =>
            assert (c_in_ts (w_c W0) = true); [|assumption] end.
          destruct (snd (ph_build d)); [apply do_ser_blk; reflexivity|reflexivity].
        * eapply ext_logs; [reflexivity|]. repeat constructor. cbn. discriminate.
      + apply blk_refl. destruct (snd (ph_build d)); [apply do_ser_blk; reflexivity|reflexivity].
    - apply do_ser_blk.
      match goal with |- context [if ?c then _ else _] => destruct c end; up;
        (destruct (snd (ph_build d)); [apply do_ser_blk; reflexivity|reflexivity]). }
  destruct B as [A E]. split; [up; auto|].
  eapply ext_eq_log_r; [|eapply ext_mono; [|exact E]]; [reflexivity|].
  intros e He. destruct e; cbn in *; auto. destruct He as [-> He].
  (* no callback entry at all in the stores: but lowok true would give flag = true; the clock is
     never read here, so this case cannot be reached through the weaker class: re-prove directly *)
Abort.
