(* S12: "the size the tracer reserves is the size it writes" is FALSE for the generated C once the
   record crosses 2^32 bits: _er_size_*() computes on uint32_t (Layout/Wrap32.v), the true size is
   returned modulo 2^32, _reserve_er_space() trusts it and the serializer then stores past the packet.

   Witness (built with the model's own operation builder): a data stream type with a 32-bit magic,
   32-bit packet_size / content_size (content starts at bit 96), an 8-bit event record id, and one
   event record type whose payload is a dynamic array of uint8; traced with 2^29 elements into a
   256-byte packet.  True size 40 + 2^32 bits; the uint32_t size pass returns 40; 40 bits fit the
   1952 bits left; the 245th element store is beyond the packet.

   The list of 2^29 values stays abstract (`vs` with N.of_nat (length vs) = 2^29): no unary numeral
   of that magnitude is ever computed.  Also: the positive transfer (no_wrap_transfer) - while the
   unbounded end position is below 2^32 the uint32_t reservation test IS the model's. *)
From Coq Require Import List Arith Bool ZArith NArith Nnat String Lia PeanoNat.
From Coq Require Import ZifyN ZifyNat ZifyBool.
Import ListNotations.
From BT.Base Require Import Bits BitsProofs.
From BT.Layout Require Import Model SizeProofs Wrap32 Wrap32Proofs.
From BT.Tracer Require Import Model Lemmas.

Local Arguments N.mul : simpl never.
Local Arguments N.add : simpl never.
Local Arguments N.sub : simpl never.
Local Arguments N.modulo : simpl never.
Local Arguments N.of_nat : simpl never.

Local Ltac Zify.zify_post_hook ::= Z.to_euclidean_division_equations.

(* ------------------------------------------------------------------ generic facts *)
Lemma iter_opt_app {A S} (f : A -> S -> option S) l1 l2 st :
  iter_opt f (l1 ++ l2) st =
  match iter_opt f l1 st with Some st' => iter_opt f l2 st' | None => None end.
Proof.
  revert st. induction l1 as [|x l1 IH]; intros st; cbn [iter_opt app]; [reflexivity|].
  destruct (f x st) as [st'|]; [apply IH|reflexivity].
Qed.

Definition all_int (vs : list val) : Prop := forall v, In v vs -> exists z, v = VInt z.

Lemma all_int_cons v vs : all_int (v :: vs) -> (exists z, v = VInt z) /\ all_int vs.
Proof. intros H. split; [apply H; left; reflexivity|]. intros x Hx. apply H. right. exact Hx. Qed.

(* size pass over byte elements: 8 bits each *)
Lemma size_bytes k off vs : all_int vs -> forall a, a mod 8 = 0 ->
  iter_opt (size_op (OBits 8 k 8 off)) vs a = Some (a + 8 * List.length vs).
Proof.
  induction vs as [|v vs IH]; intros Hall a Ha; cbn [iter_opt List.length].
  - f_equal. lia.
  - apply all_int_cons in Hall. destruct Hall as [[z ->] Hall]. cbn [size_op].
    rewrite align_up_aligned by (try exact Ha; lia).
    rewrite (IH Hall) by lia. f_equal. lia.
Qed.

(* serialization of byte elements: when the elements do not fit, a store beyond the limit is
   attempted (whatever the byte order, memcpy path or not, static offset or not) *)
Lemma ser_bytes_overflow bo nk lim off vs : all_int vs -> forall ss,
  ss_at ss mod 8 = 0 -> ss_at ss <= lim -> lim < ss_at ss + 8 * List.length vs ->
  iter_opt (ser bo nk lim (OBits 8 KWrite 8 off)) vs ss = None.
Proof.
  induction vs as [|v vs IH]; intros Hall ss Ha Hle Hgt; cbn [iter_opt List.length] in *; [lia|].
  apply all_int_cons in Hall. destruct Hall as [[z ->] Hall].
  rewrite ser_bits_eq. rewrite align_up_aligned by (try exact Ha; lia).
  destruct (Nat.leb_spec (bits_pos_of nk 8 8 off (ss_at ss) + 8) lim) as [C|C]; [|reflexivity].
  assert (Hpos : ss_at ss <= bits_pos_of nk 8 8 off (ss_at ss)).
  { unfold bits_pos_of. destruct (memcpy_path nk 8 8); [lia|]. destruct off; lia. }
  apply (IH Hall); cbn [ss_at]; lia.
Qed.

(* the parts of a record, serialized one after the other (Layout level) *)
Fixpoint ser_list (bo : byte_order) (nk : bool) (lim : nat) (ps : list (op * val)) (st : sstate)
  : option sstate :=
  match ps with
  | [] => Some st
  | (o, v) :: ps => match ser bo nk lim o v st with Some st' => ser_list bo nk lim ps st' | None => None end
  end.

(* ------------------------------------------------------------------ the positive transfer *)
(* while the unbounded end position of the record is below 2^32, the value of _er_size_*() is the
   model's size and the uint32_t test of _reserve_er_space against any packet size p >= at is the
   model's gt_diff32 *)
Theorem no_wrap_transfer : forall ps a e p, parts_aligns_ok ps ->
  size_parts ps a = Some e -> a <= e -> (N.of_nat e < W32)%N -> a <= p -> (N.of_nat p < W32)%N ->
  er_size32 ps (N.of_nat a) = Some (N.of_nat (e - a)) /\
  gt_diff32N (N.of_nat (e - a)) (N.of_nat p) (N.of_nat a) = gt_diff32 (e - a) p a.
Proof.
  intros ps a e p Hok Hs Hle He Hap Hp. split.
  - apply er_size32_agrees; assumption.
  - apply gt_diff32N_spec; assumption.
Qed.

(* ------------------------------------------------------------------ the witness *)
Definition p_w32 : sft :=
  mk_sft 1 [("__arr_len"%string, FInt false 32 8); ("arr"%string, FDArr "__arr_len" (FInt false 8 8))].
Definition e_w32 : ertm := mk_ert 0 None (Some p_w32).
Definition d_w32 : dstm :=
  mk_dst LE true (Some (mk_sft 8 [("magic"%string, FInt false 32 8)])) [VInt 3254525889]
         (mk_sft 8 [("packet_size"%string, FInt false 32 8); ("content_size"%string, FInt false 32 8)])
         (Some (mk_sft 8 [("id"%string, FInt false 8 8)])) None [e_w32] false 64.
(* the world in which <prefix>_trace_<ert>() sizes the record: 256-byte buffer, first packet open *)
Definition w_w32 : world :=
  let w := run d_w32 256 [] [] [COpen] in set_c w (set_in_ts (w_c w) true).
Definition args_w32 (vs : list val) : list val := [VArr [VInt 536870912; VArr vs]].

Definition eh_op_w32 : op := OBlock 8 [OBits 8 KWrite 8 (Some 0)].
Definition p_op_w32 : op := OBlock 8 [OBits 8 KWrite 32 (Some 0); OArr 8 None (OBits 8 KWrite 8 None)].

Lemma parts_w32 ts vs :
  rec_parts d_w32 e_w32 ts (args_w32 vs) =
  [(eh_op_w32, VArr [VInt 0]); (p_op_w32, VArr [VInt 536870912; VArr vs])].
Proof. vm_compute. reflexivity. Qed.

Lemma w_w32_facts :
  c_at (w_c w_w32) = 96 /\ c_off_content (w_c w_w32) = 96 /\ c_psize (w_c w_w32) = 2048 /\
  w_err w_w32 = false /\ c_open (w_c w_w32) = true /\ c_enabled (w_c w_w32) = true /\
  List.length (c_s (w_c w_w32)) = 2048.
Proof. vm_compute. repeat split. Qed.

Lemma parts_w32_aligns ts vs : parts_aligns_ok (rec_parts d_w32 e_w32 ts (args_w32 vs)).
Proof. rewrite parts_w32. apply parts_aligns_okb_ok. vm_compute. reflexivity. Qed.

(* (i) the unbounded size pass *)
Lemma size_op_block al os vs a :
  size_op (OBlock al os) (VArr vs) a = iter2_opt size_op os vs (align_up a al).
Proof. reflexivity. Qed.
Lemma size_op_darr al b vs a :
  size_op (OArr al None b) (VArr vs) a = iter_opt (size_op b) vs (align_up a al).
Proof. reflexivity. Qed.
Lemma ser_block bo nk lim al os vs ss :
  ser bo nk lim (OBlock al os) (VArr vs) ss =
  iter2_opt (ser bo nk lim) os vs (mk_ss (ss_s ss) (align_up (ss_at ss) al) (ss_saved ss)).
Proof. reflexivity. Qed.
Lemma ser_darr bo nk lim al b vs ss :
  ser bo nk lim (OArr al None b) (VArr vs) ss =
  iter_opt (ser bo nk lim b) vs (mk_ss (ss_s ss) (align_up (ss_at ss) al) (ss_saved ss)).
Proof. reflexivity. Qed.

Lemma size_w32 ts vs : all_int vs ->
  size_parts (rec_parts d_w32 e_w32 ts (args_w32 vs)) 96 = Some (136 + 8 * List.length vs).
Proof.
  intros Hall. rewrite parts_w32. cbn [size_parts].
  change (size_op eh_op_w32 (VArr [VInt 0]) 96) with (Some 104). cbv iota.
  unfold p_op_w32. rewrite size_op_block. cbn [iter2_opt].
  change (size_op (OBits 8 KWrite 32 (Some 0)) (VInt 536870912) (align_up 104 8)) with (Some 136). cbv iota.
  rewrite size_op_darr. change (align_up 136 8) with 136.
  rewrite (size_bytes KWrite None vs Hall 136) by reflexivity. reflexivity.
Qed.

(* (iii) the serializer: the event header fits, the payload stores beyond bit 2048 *)
Lemma ser_eh_w32 s sv : exists ss',
  ser LE true 2048 eh_op_w32 (VArr [VInt 0]) (mk_ss s 96 sv) = Some ss' /\ ss_at ss' = 104.
Proof. vm_compute. eexists. split; reflexivity. Qed.

Lemma ser_p_w32 vs s sv : all_int vs -> 2048 < 136 + 8 * List.length vs ->
  ser LE true 2048 p_op_w32 (VArr [VInt 536870912; VArr vs]) (mk_ss s 104 sv) = None.
Proof.
  intros Hall Hlen. unfold p_op_w32. rewrite ser_block. cbn [iter2_opt ss_s ss_at ss_saved].
  rewrite ser_bits_eq. cbn [ss_s ss_at ss_saved].
  change (align_up (align_up 104 8) 8) with 104.
  change (bits_pos_of true 8 32 (Some 0) 104 + 32 <=? 2048) with true. cbv iota.
  rewrite ser_darr. cbn [ss_s ss_at ss_saved].
  change (104 + 32) with 136. change (align_up 136 8) with 136.
  rewrite ser_bytes_overflow; cbn [ss_at]; [reflexivity|exact Hall|reflexivity|lia|exact Hlen].
Qed.

Lemma ser_list_w32 ts vs s sv : all_int vs -> 2048 < 136 + 8 * List.length vs ->
  ser_list LE true 2048 (rec_parts d_w32 e_w32 ts (args_w32 vs)) (mk_ss s 96 sv) = None.
Proof.
  intros Hall Hlen. rewrite parts_w32. cbn [ser_list].
  destruct (ser_eh_w32 s sv) as [[s1 a1 sv1] [E Ea]]. rewrite E. cbn [ss_at] in Ea. subst a1.
  rewrite ser_p_w32 by assumption. reflexivity.
Qed.

(* ... at the tracer level, in ANY world positioned like the witness one *)
Lemma ser_parts_w32 ts vs w : all_int vs -> 2048 < 136 + 8 * List.length vs ->
  c_at (w_c w) = 96 -> c_psize (w_c w) = 2048 -> w_err w = false ->
  w_err (ser_parts d_w32 w (rec_parts d_w32 e_w32 ts (args_w32 vs))) = true.
Proof.
  intros Hall Hlen Hat Hps Herr. rewrite parts_w32. unfold ser_parts. cbn [fold_left fst snd].
  rewrite Herr. rewrite do_ser_eq. rewrite Hat, Hps.
  change (d_bo d_w32) with LE. change (d_native_known d_w32) with true.
  destruct (ser_eh_w32 (c_s (w_c w)) []) as [[s1 a1 sv1] [E Ea]]. rewrite E. cbn [ss_at] in Ea. subst a1.
  cbn [w_err]. rewrite Herr. rewrite do_ser_eq. cbn [w_c ser_ctx c_psize c_s c_at ss_s ss_at].
  rewrite Hps. rewrite ser_p_w32 by assumption. reflexivity.
Qed.

(* (ii) the reservation with the uint32_t size: fits, nothing to do *)
Lemma reserve_w32 w : c_at (w_c w) = 96 -> c_off_content (w_c w) = 96 -> c_psize (w_c w) = 2048 ->
  reserve d_w32 w 40 = (true, w).
Proof.
  intros Hat Hoff Hps. unfold reserve. cbv zeta. rewrite Hat, Hoff, Hps.
  change (gt_diff32 40 2048 96) with false. change (96 =? 2048) with false. cbn [negb fst snd].
  rewrite Hat, Hps. change (gt_diff32 40 2048 96) with false. reflexivity.
Qed.

Theorem wrap32_refuted : forall vs,
  N.of_nat (List.length vs) = 536870912%N -> (forall v, In v vs -> exists z, v = VInt z) ->
  let args := [VArr [VInt 536870912; VArr vs]] in
  let ps := rec_parts d_w32 e_w32 0%Z args in
  let w := w_w32 in
  (* the situation: first packet of 2048 bits open, position 96, no error; operations with
     power-of-two alignments *)
  (In e_w32 (d_erts d_w32) /\ parts_aligns_ok ps /\ c_at (w_c w) = 96 /\ c_off_content (w_c w) = 96 /\
   c_psize (w_c w) = 2048 /\ List.length (c_s (w_c w)) = 2048 /\ w_err w = false) /\
  (* (i) the true size is 40 + 2^32 bits: it does not fit, the unbounded model discards the record *)
  (exists e, size_parts ps 96 = Some e /\ 96 <= e /\ N.of_nat (e - 96) = (W32 + 40)%N /\
             2048 < e - 96 /\ gt_diff32 (e - 96) 2048 96 = true) /\
  (* (ii) the uint32_t size pass returns 40; the uint32_t reservation test accepts it and
     _reserve_er_space succeeds without switching packets *)
  (er_size32 ps 96 = Some 40%N /\ gt_diff32N 40 2048 96 = false /\ reserve d_w32 w 40 = (true, w)) /\
  (* (iii) serializing the record from bit 96 into a 2048-bit packet attempts a store beyond the
     packet: at the Layout level (any buffer content) and at the tracer level (error flag) *)
  (forall ts s sv, ser_list LE true 2048 (rec_parts d_w32 e_w32 ts args) (mk_ss s 96 sv) = None) /\
  (forall ts, w_err (ser_parts d_w32 w (rec_parts d_w32 e_w32 ts args)) = true).
Proof.
  intros vs Hlen Hall. cbv zeta. fold (args_w32 vs). fold (all_int vs) in Hall.
  destruct w_w32_facts as (Fat & Foff & Fps & Ferr & _ & _ & Flen).
  assert (Hbig : 2048 < 136 + 8 * List.length vs) by lia.
  split; [|split; [|split; [|split]]].
  - split; [left; reflexivity|]. split; [apply parts_w32_aligns|]. repeat split; assumption.
  - exists (136 + 8 * List.length vs). split; [apply size_w32; exact Hall|].
    split; [lia|]. split; [unfold W32; lia|]. split; [lia|].
    unfold gt_diff32. destruct (Nat.leb_spec 96 2048) as [_|C]; [|lia].
    apply Nat.ltb_lt. lia.
  - split; [|split].
    + change 96%N with (w32 (N.of_nat 96)).
      rewrite (er_size32_wraps _ 96 (136 + 8 * List.length vs) (parts_w32_aligns 0%Z vs) (size_w32 0%Z vs Hall))
        by lia.
      f_equal. replace (N.of_nat (136 + 8 * List.length vs - 96)) with (W32 + 40)%N by (unfold W32; lia).
      vm_compute. reflexivity.
    + vm_compute. reflexivity.
    + apply reserve_w32; assumption.
  - intros ts s sv. apply ser_list_w32; assumption.
  - intros ts. apply ser_parts_w32; assumption.
Qed.

(* the premises are satisfiable (2^29 zero bytes), so the refutation is a closed existential *)
Lemma wrap32_values_exist : exists vs,
  N.of_nat (List.length vs) = 536870912%N /\ (forall v, In v vs -> exists z, v = VInt z).
Proof.
  exists (repeat (VInt 0) (N.to_nat 536870912%N)). split.
  - rewrite repeat_length. apply N2Nat.id.
  - intros v Hv. exists 0%Z. apply (repeat_spec _ _ _ Hv).
Qed.

Theorem wrap32_refuted_closed : exists args er,
  let ps := rec_parts d_w32 e_w32 0%Z args in
  parts_aligns_ok ps /\
  er_size32 ps (N.of_nat (c_at (w_c w_w32))) = Some (N.of_nat er) /\
  reserve d_w32 w_w32 er = (true, w_w32) /\ w_err w_w32 = false /\
  forall ts, w_err (ser_parts d_w32 w_w32 (rec_parts d_w32 e_w32 ts args)) = true.
Proof.
  destruct wrap32_values_exist as [vs [Hlen Hall]].
  destruct (wrap32_refuted vs Hlen Hall) as ((_ & Hal & Hat & _ & _ & _ & Herr) & _ & (Her & _ & Hres) & _ & Hser).
  exists [VArr [VInt 536870912; VArr vs]], 40. cbv zeta.
  split; [exact Hal|]. rewrite Hat. change (N.of_nat 96) with 96%N. change (N.of_nat 40) with 40%N.
  split; [exact Her|]. split; [exact Hres|]. split; [exact Herr|exact Hser].
Qed.
