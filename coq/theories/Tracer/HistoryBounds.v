(* C02 over whole histories, after the repairs of S9 / S18: the write position is inside the packet at
   every call boundary as soon as every open packet's content offset is (= the buffer holds the
   packet header and context).  Used to replace the premise `inb_run` of the history theorems by
   that weaker, static-looking one. *)
From Coq Require Import List Arith Bool ZArith String Lia PeanoNat.
Import ListNotations.
From BT.Base Require Import Bits.
From BT.Layout Require Import Model RecordProofs.
From BT.Tracer Require Import Model Decode Lemmas Spec BoundsProofs FlagProofs ProtocolProofs OutcomeProofs
  History HistoryOpen HistoryRecord HistoryStep ErrMono.

(* closed, or positioned at the start of the content of the packet just opened *)
Definition fresh (w : world) : Prop :=
  c_open (w_c w) = false \/ c_at (w_c w) = c_off_content (w_c w).
Definition samepos (w w' : world) : Prop :=
  c_open (w_c w') = c_open (w_c w) /\ c_at (w_c w') = c_at (w_c w) /\
  c_psize (w_c w') = c_psize (w_c w) /\ c_off_content (w_c w') = c_off_content (w_c w).
Definition R (w w' : world) : Prop := fresh w' \/ samepos w w'.
Definition offb (w : world) : Prop := c_open (w_c w) = true -> c_off_content (w_c w) <= c_psize (w_c w).

Lemma samepos_refl w : samepos w w. Proof. repeat split. Qed.
Lemma R_refl w : R w w. Proof. right. apply samepos_refl. Qed.
Lemma R_trans w1 w2 w3 : R w1 w2 -> R w2 w3 -> R w1 w3.
Proof.
  intros H12 [F|(A & B & C & D)]; [left; exact F|].
  destruct H12 as [[F|F]|(A' & B' & C' & D')].
  - left. left. congruence.
  - left. right. congruence.
  - right. repeat split; congruence.
Qed.
Lemma R_samepos w w' : samepos w w' -> R w w'. Proof. intros; right; assumption. Qed.

Lemma R_inb w w' : R w w' -> inb w -> offb w' -> inb w'.
Proof.
  unfold inb, offb. intros [[F|F]|(A & B & C & D)] Hi Ho Hop.
  - congruence.
  - rewrite F. apply Ho. exact Hop.
  - rewrite B, C. apply Hi. congruence.
Qed.

Section B.
  Variable d : dstm.

  Lemma R_set_c w c' : c_open c' = c_open (w_c w) -> c_at c' = c_at (w_c w) -> c_psize c' = c_psize (w_c w) ->
    c_off_content c' = c_off_content (w_c w) -> R w (set_c w c').
  Proof. intros. right. unfold samepos. up. auto. Qed.

  Lemma R_full w : R w (snd (full_cb w)).
  Proof. right. rewrite full_cb_eq. unfold samepos. prj. togs. auto. Qed.
  Lemma R_clock w : R w (snd (clock_cb d w)).
  Proof. right. rewrite clock_cb_eq. unfold samepos. prj. togs. auto. Qed.
  Lemma R_no_space w : R w (snd (no_space w)).
  Proof. right. rewrite no_space_eq. unfold samepos. up. auto. Qed.
  Lemma R_logev w e : R w (logev w e).
  Proof. right. unfold samepos. up. auto. Qed.

  Lemma R_open_cb w : R w (open_cb d w).
  Proof.
    destruct (open_cb_dec d w) as [(A & B & C & D & _)|(_ & A & B & _)].
    - right. repeat split; auto.
    - left. right. exact B.
  Qed.
  Lemma R_close_cb w : R w (close_cb d w).
  Proof.
    destruct (close_cb_dec d w) as [(A & B & C & D & _)|[(_ & A & _)|(_ & _ & A & B)]].
    - right. repeat split; auto.
    - left. left. exact A.
    - left. right. exact B.
  Qed.
  Lemma R_with_use_ts f w : (forall x, R x (f x)) -> R w (with_use_ts f w).
  Proof.
    intros Hf. unfold with_use_ts.
    set (w0 := set_c w (set_use_ts (w_c w) true)).
    apply (R_trans w w0); [apply (R_set_c w (set_use_ts (w_c w) true)); reflexivity|].
    apply (R_trans w0 (f w0)); [apply Hf|].
    apply (R_set_c (f w0) (set_use_ts (w_c (f w0)) false)); reflexivity.
  Qed.

  Lemma R_reserve w n : R w (snd (reserve d w n)).
  Proof.
    apply (reserve_inv d (R w)).
    - intros x H. eapply R_trans; [exact H|apply R_full].
    - intros x H. eapply R_trans; [exact H|apply R_with_use_ts, R_open_cb].
    - intros x H. eapply R_trans; [exact H|apply R_with_use_ts, R_close_cb].
    - intros x H. eapply R_trans; [exact H|apply R_no_space].
    - apply R_refl.
  Qed.

  Lemma R_entry w : R w (trace_entry d w).
  Proof.
    unfold trace_entry. destruct (d_has_clock d); [|apply R_refl].
    eapply R_trans; [apply R_clock|].
    apply (R_set_c (snd (clock_cb d w)) (set_last_ts (w_c (snd (clock_cb d w))) (fst (clock_cb d w)))); reflexivity.
  Qed.

  Variable user : list val.
  Variable cs_size : nat.
  Hypothesis WF : wf_d d user cs_size.

  Lemma samepos_inb w w' : samepos w w' -> inb w -> inb w'.
  Proof. unfold inb. intros (A & B & C & _) H Ho. rewrite B, C. apply H. congruence. Qed.

  Lemma samepos_set_c w c' : c_open c' = c_open (w_c w) -> c_at c' = c_at (w_c w) -> c_psize c' = c_psize (w_c w) ->
    c_off_content c' = c_off_content (w_c w) -> samepos w (set_c w c').
  Proof. intros. unfold samepos. up. auto. Qed.

  Lemma samepos_entry w : samepos w (trace_entry d w).
  Proof.
    unfold trace_entry. destruct (d_has_clock d); [|apply samepos_refl].
    rewrite clock_cb_eq. unfold samepos. up. togs. auto.
  Qed.

  Lemma samepos_mark w : samepos w (trace_mark d w) /\ w_c (trace_mark d w) = w_c w /\
                         w_err (trace_mark d w) = w_err w /\ len_ok (trace_mark d w) = len_ok w.
  Proof. unfold trace_mark. destruct (_ && _); unfold samepos, len_ok; up; auto. Qed.

  Lemma inb_commit w : inb w -> offb (trace_commit d w) -> inb (trace_commit d w).
  Proof.
    intros Hi Ho. unfold trace_commit in *.
    destruct (c_at (w_c w) =? c_psize (w_c w)).
    - eapply R_inb; [|exact Hi|exact Ho].
      eapply R_trans; [apply R_close_cb|].
      apply (R_set_c (close_cb d w) (set_in_ts (w_c (close_cb d w)) false)); reflexivity.
    - eapply samepos_inb; [|exact Hi].
      apply (samepos_set_c w (set_in_ts (w_c w) false)); reflexivity.
  Qed.

  (* one tracing call keeps the position inside the packet *)
  Theorem trace_inb R0 w e args cv sv pv :
    J d user cs_size R0 w -> In e (d_erts d) -> args_ok d e args cv sv pv -> inb w ->
    w_err (trace_fn d e args w) = false -> offb (trace_fn d e args w) -> inb (trace_fn d e args w).
  Proof.
    intros HJ Hin Hargs Hi He Ho. rewrite trace_fn_eq in *.
    pose proof (samepos_entry w) as Se.
    pose proof (samepos_inb _ _ Se Hi) as Hie.
    assert (Je : J d user cs_size R0 (trace_entry d w)).
    { eapply J_core; [apply sc_entry| |exact HJ].
      unfold trace_entry. destruct (d_has_clock d); [|reflexivity]. rewrite err_set_c, err_clock. reflexivity. }
    set (we := trace_entry d w) in *.
    destruct (negb (c_enabled (w_c we))); [exact Hie|].
    unfold trace_body in *.
    set (w0 := set_c we (set_in_ts (w_c we) true)) in *.
    assert (S0 : samepos we w0) by (apply (samepos_set_c we (set_in_ts (w_c we) true)); reflexivity).
    pose proof (samepos_inb _ _ S0 Hie) as Hi0.
    assert (J0 : J d user cs_size R0 w0) by (eapply J_core; [apply sc_in_ts|reflexivity|exact Je]).
    destruct (size_parts (rec_parts d e 0%Z args) (c_at (w_c we))) as [ae|] eqn:Hs; [|discriminate].
    cbv zeta in *.
    set (n := ae - c_at (w_c we)) in *.
    pose proof (R_reserve w0 n) as Rr.
    destruct (reserve_J d user cs_size WF R0 n w0 J0 eq_refl) as (J1 & F1 & O1).
    destruct (reserve d w0 n) as [ok w1] eqn:Er. cbn [fst snd] in *.
    destruct ok; cbn [negb] in *.
    2:{ (* reservation refused *)
        eapply R_inb; [|exact Hi0|exact Ho].
        eapply R_trans; [exact Rr|]. apply (R_set_c w1 (set_in_ts (w_c w1) false)); reflexivity. }
    destruct (w_err w1) eqn:E1; [congruence|].
    specialize (O1 eq_refl eq_refl).
    destruct (trace_recheck_cases d e args (c_at (w_c we)) w1) as [Ec|[Ec|(Hne & a2 & _ & _ & Ec)]];
      rewrite Ec in *; cbn [fst snd negb] in *.
    3:{ (* the post-switch check discards the record *)
        eapply R_inb; [|exact Hi0|exact Ho].
        eapply R_trans; [exact Rr|]. unfold recheck_discard.
        eapply R_trans; [apply R_no_space|].
        apply (R_set_c (snd (no_space w1)) (set_in_ts (w_c (snd (no_space w1))) false)); reflexivity. }
    2:{ unfold fail in He. prj. discriminate. }
    (* the record is serialized *)
    unfold trace_ser in *. cbv zeta in *.
    destruct (samepos_mark w1) as (Sm & Cm & Em & Lm).
    set (w1' := trace_mark d w1) in *.
    set (ts := c_last_ts (w_c w1')) in *.
    set (w2 := ser_parts d w1' (rec_parts d e ts args)) in *.
    destruct (w_err w2) eqn:E2; [congruence|].
    apply inb_commit; [|exact Ho].
    (* facts about w1 *)
    destruct J1 as [X|(K & cur & H1 & F)]; [congruence|].
    assert (L1 : len_ok w1) by (unfold History.HI in H1; tauto).
    assert (Hrf : fst (trace_recheck d e args (c_at (w_c we)) w1) = true) by (rewrite Ec; reflexivity).
    assert (Er' : reserve d (set_c we (set_in_ts (w_c we) true)) (ae - c_at (w_c we)) = (true, w1)) by exact Er.
    destruct (recheck_fits d e args we w1 ae Hs Er' Hrf) as (a' & Hs' & G).
    pose proof (wf_rc _ _ _ WF) as Wr.
    destruct (Nat.le_gt_cases (c_at (w_c w1)) (c_psize (w_c w1))) as [Hle|Hgt].
    - (* position inside the packet: the record fits *)
      unfold gt_diff32 in G. destruct (Nat.leb_spec (c_at (w_c w1)) (c_psize (w_c w1))) as [_|]; [|lia].
      apply Nat.ltb_ge in G.
      pose proof (size_parts_mono _ (rec_parts_built d e 0%Z args Wr Hin) _ _ Hs') as Hm.
      rewrite (size_parts_ts d e 0%Z ts args) in Hs'.
      assert (L1' : len_ok w1') by (rewrite Lm; exact L1).
      assert (E1' : w_err w1' = false) by (rewrite Em; exact E1).
      rewrite <- Cm in Hs', G, Hm.
      destruct (ser_parts_fit d _ (rec_parts_built d e ts args Wr Hin) w1' a' L1' E1' Hs' ltac:(rewrite Cm in *; lia))
        as (_ & B & _ & P & _ & _ & _ & _).
      fold w2 in B, P. unfold inb. intros _. rewrite B, P. rewrite Cm in *. lia.
    - (* position beyond the packet: only possible right after an opening whose header and context
         do not fit the buffer - then the packet is still open at the end of the call *)
      exfalso.
      assert (HI1' : HI d user cs_size w1' K cur).
      { eapply HI_core; [apply sc_mark|exact H1]. }
      assert (O1' : c_open (w_c w1') = true) by (rewrite Cm; exact O1).
      destruct (record_HI d user cs_size WF w1' K cur e ts args cv sv pv Hin Hargs HI1' O1' E2)
        as (_ & O2 & _ & _ & P2 & _ & A2 & F2).
      fold w2 in O2, P2, A2, F2. rewrite Cm in P2, A2, F2.
      assert (Foff : c_at (w_c w1) = c_off_content (w_c w1)).
      { destruct Rr as [[X|X]|(A & B & C & D)]; [congruence|exact X|].
        exfalso. unfold inb in Hi0. rewrite <- A in Hi0. specialize (Hi0 O1). lia. }
      unfold offb, trace_commit in Ho.
      destruct (Nat.eqb_spec (c_at (w_c w2)) (c_psize (w_c w2))) as [X|_]; [lia|].
      cbn [w_c set_c set_in_ts c_open c_off_content c_psize] in Ho. specialize (Ho O2). lia.
  Qed.

  Lemma offb_ret w : offb (logev w (ERet (w_c w))) -> offb w.
  Proof. unfold offb. up. auto. Qed.
  Lemma inb_ret w : inb w -> inb (logev w (ERet (w_c w))).
  Proof. unfold inb. up. auto. Qed.

  (* one call *)
  Theorem step_inb R0 w k :
    J d user cs_size R0 w -> call_ok d k -> inb w ->
    w_err (step d w k) = false -> offb (step d w k) -> inb (step d w k).
  Proof.
    intros HJ Hk Hi He Ho. unfold step in *.
    destruct (w_err w) eqn:E0; [congruence|].
    destruct k as [ei args| | |b|].
    - destruct Hk as (e & cv & sv & pv & Hn & Hargs). rewrite Hn in *.
      destruct (w_err (trace_fn d e args w)) eqn:E1; [congruence|].
      apply inb_ret. eapply trace_inb; eauto using nth_error_In, offb_ret.
    - destruct (w_err (open_cb d w)) eqn:E1; [congruence|].
      apply inb_ret. eapply R_inb; [apply R_open_cb|exact Hi|apply offb_ret; exact Ho].
    - destruct (w_err (close_cb d w)) eqn:E1; [congruence|].
      apply inb_ret. eapply R_inb; [apply R_close_cb|exact Hi|apply offb_ret; exact Ho].
    - cbn [w_err set_c] in *. rewrite E0 in *. apply inb_ret.
      eapply samepos_inb; [|exact Hi]. apply (samepos_set_c w (set_enabled (w_c w) b)); reflexivity.
    - destruct (c_open (w_c w) && negb (c_at (w_c w) <=? c_off_content (w_c w))).
      + destruct (w_err (close_cb d w)) eqn:E1; [congruence|].
        apply inb_ret. eapply R_inb; [apply R_close_cb|exact Hi|apply offb_ret; exact Ho].
      + rewrite E0 in *. apply inb_ret. exact Hi.
  Qed.

  (* whole histories: the content offset of every open packet inside its buffer at call boundaries
     (= every buffer holds the packet header and context) implies the position inside the packet at
     every call boundary *)
  Fixpoint offb_run (w : world) (h : list call) : Prop :=
    match h with [] => True | k :: h => offb (step d w k) /\ offb_run (step d w k) h end.

  Theorem inb_run_of_offb h : forall w R0,
    J d user cs_size R0 w -> Forall (call_ok d) h -> inb w ->
    w_err (fold_left (step d) h w) = false -> offb_run w h -> inb_run d w h.
  Proof.
    induction h as [|k h IH]; intros w R0 HJ Hok Hi He Hb; cbn [fold_left inb_run offb_run] in *; [exact I|].
    inversion Hok as [|? ? Hk Hh]; subst. destruct Hb as [Hb1 Hb2].
    assert (E1 : w_err (step d w k) = false).
    { destruct (w_err (step d w k)) eqn:X; [|reflexivity]. rewrite (fold_sticky d h _ X) in He. discriminate. }
    split; [exact Hi|].
    destruct (step_J d user cs_size WF R0 w k HJ Hk Hi E1) as (dl & _ & J1).
    apply (IH (step d w k) (R0 ++ dl) J1 Hh); auto.
    eapply step_inb; eauto.
  Qed.
End B.
