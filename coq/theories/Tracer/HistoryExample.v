(* Non-vacuity of the whole-history theorems: the premises hold for a concrete data stream type
   with every packet feature and a clock, and a history with packet switches, a disabled call and
   platform-initiated closes (Tracer/Examples.v). *)
From Coq Require Import List Arith Bool ZArith String Lia PeanoNat.
Import ListNotations.
From BT.Base Require Import Bits.
From BT.Layout Require Import Model BuildProofs RoundTrip RecordProofs PosProofs FillProofs.
From BT.Tracer Require Import Model Decode RecordDecode Spec BoundsProofs Holes History HistoryRecord HistoryStep
  HistoryBounds HistoryMain Examples.

(* structures of integer members with integer values are valid argument tuples *)
Definition int_pair (m : string * ft) (v : val) : Prop :=
  exists sg size al z, snd m = FInt sg size al /\ v = VInt z.
Lemma ints_ok_skip skips fv ms : forall vs env, Forall2 int_pair ms vs -> members_ok_skip skips fv env ms vs.
Proof.
  induction ms as [|[n f] ms IH]; intros vs env H; inversion H as [|? v ? vs' (sg & size & al & z & E1 & E2) Hr]; subst;
    cbn [members_ok_skip]; [exact I|].
  cbn [snd] in E1. subst f. split; [|split; [|apply IH; exact Hr]].
  - unfold skip_ft. destruct (existsb _ skips); exact I.
  - unfold skip_ft. destruct (existsb _ skips); exact I.
Qed.
Lemma ints_ok ms : forall vs env, Forall2 int_pair ms vs -> members_ok env ms vs.
Proof.
  induction ms as [|[n f] ms IH]; intros vs env H; inversion H as [|? v ? vs' (sg & size & al & z & E1 & E2) Hr]; subst;
    cbn [members_ok]; [exact I|].
  cbn [snd] in E1. subst f. split; [exact I|split; [exact I|apply IH; exact Hr]].
Qed.
Ltac ints := repeat (first [apply Forall2_nil | apply Forall2_cons; [do 4 eexists; split; reflexivity|]]).

Lemma ex_wf : wf_d ex_d [] 16.
Proof.
  constructor; try (timeout 5 reflexivity).
  - repeat constructor; intros [].
  - unfold pcms, ex_d. cbn [d_pc s_mems map fst].
    repeat (constructor; [cbn [In]; intuition discriminate|]). constructor.
  - exists 8. unfold pcms, ex_d. cbn [d_pc s_mems In]. tauto.
  - intros fv psize seq ts. apply ints_ok_skip. unfold pcms, ex_d. cbn [d_pc s_mems pc_vals].
    cbn [String.eqb Ascii.eqb Bool.eqb existsb pc_skips orb]. ints.
  - intros e ts [<-|[]]. unfold hdr_vals, ex_d, ok_opt. cbn [d_eh]. split; [reflexivity|].
    apply ints_ok. cbn [s_mems eh_vals e_id]. ints.
  - intros e ts [<-|[]]. unfold header_id, hdr_vals, ex_d. cbn [d_eh s_mems eh_vals e_id tsdl_of_sft t_fields map fst snd tsdl_of_ft].
    cbn [canon_members canon field_of String.eqb Ascii.eqb Bool.eqb]. reflexivity.
Qed.

Definition ex_tail : list call := tl ex_h.
Notation ex_w1 := (step ex_d (mk_w (init_ctx 16) ex_or 0%Z [] false []) COpen).

Lemma ex_calls : Forall (call_ok ex_d) ex_tail.
Proof.
  unfold ex_tail, ex_h, ex_tr. cbn [tl].
  repeat (constructor; [try exact I; try (eexists _, [], [], [VInt _]; split; [reflexivity|];
                        unfold args_ok, ok_opt, ex_d; cbn [d_cc e_sc e_p nth_error d_erts];
                        split; [reflexivity|split; [reflexivity|split; [split; [reflexivity|apply ints_ok; cbn [s_mems]; ints]|reflexivity]]])|]).
  constructor.
Qed.

Example history_premises :
  wf_d ex_d [] 16 /\ fits 16 (8 * 16) /\ or_ok 16 ex_or /\ Forall (call_ok ex_d) ex_tail /\
  c_open (w_c ex_w1) = true /\ inb_run ex_d ex_w1 ex_tail /\
  w_err (run ex_d 16 [] ex_or (COpen :: ex_tail)) = false /\
  c_open (w_c (run ex_d 16 [] ex_or (COpen :: ex_tail))) = false /\
  List.length (pkts (obs (w_log (run ex_d 16 [] ex_or (COpen :: ex_tail))))) = 3.
Proof.
  split; [exact ex_wf|]. split; [unfold fits; cbn; lia|].
  split; [repeat constructor|]. split; [exact ex_calls|].
  split; [vm_compute; reflexivity|]. split; [apply inb_runb_ok; vm_compute; reflexivity|].
  split; [vm_compute; reflexivity|]. split; vm_compute; reflexivity.
Qed.

(* what the theorem then says for this run: the reader finds exactly five records (calls 1, 2, 3, 5, 6;
   call 4 was made while tracing was disabled) *)
Example history_instance :
  exists ds, outs ex_d ex_w1 ex_tail ds /\
    read_all ex_d (pkts (obs (w_log (run ex_d 16 [] ex_or (COpen :: ex_tail))))) = Some (List.concat ds).
Proof.
  destruct history_premises as (A & B & C & D & E & F & G & H & _).
  exact (history_records ex_d [] 16 A 16 ex_or ex_tail B C D E F G H).
Qed.

(* the weaker premises (every open packet's content offset inside its buffer at call boundaries) hold
   as well, and give the in-bounds conclusion of C02 for this run *)
Example history_premises_offb :
  offb ex_w1 /\ offb_run ex_d ex_w1 ex_tail.
Proof. split; [apply offbb_ok|apply offb_runb_ok]; vm_compute; reflexivity. Qed.

Example history_in_bounds_instance : inb_run ex_d ex_w1 ex_tail.
Proof.
  destruct history_premises as (A & B & C & D & E & _ & G & _).
  destruct history_premises_offb as [O1 O2].
  exact (history_in_bounds ex_d [] 16 A 16 ex_or ex_tail B C D E O1 O2 G).
Qed.
