(* C17: several contexts.  The generated functions take the context as their only state (the
   declaration scan shows no writable object with static storage duration, Front/DeclsProps.v), so
   a program with n contexts is the product of n single-context machines: a call on context i is
   `step` of Tracer/Model.v applied to component i. *)
From Coq Require Import List Arith Bool ZArith Lia PeanoNat.
Import ListNotations.
From BT.Tracer Require Import Model.

(* each context has its own data stream type, world (context + its platform's oracle + its log) *)
Definition mcall := (nat * call)%type.          (* (context index, public call) *)

Fixpoint upd_nth {A} (l : list A) (i : nat) (f : A -> A) : list A :=
  match l, i with
  | [], _ => []
  | x :: r, 0 => f x :: r
  | x :: r, S i => x :: upd_nth r i f
  end.

Definition dst_of (ds : list dstm) (i : nat) (dflt : dstm) : dstm := nth i ds dflt.

Definition mstep (dflt : dstm) (ds : list dstm) (ws : list world) (c : mcall) : list world :=
  upd_nth ws (fst c) (fun w => step (dst_of ds (fst c) dflt) w (snd c)).
Definition mrun (dflt : dstm) (ds : list dstm) (ws : list world) (h : list mcall) : list world :=
  fold_left (mstep dflt ds) h ws.

(* the calls of one context, in order *)
Definition proj_calls (i : nat) (h : list mcall) : list call :=
  map snd (filter (fun c => fst c =? i) h).
