(* The invariant of Tracer/History.v through the callbacks, the space reservation and every call
   of a history. *)
From Coq Require Import List Arith Bool ZArith String Lia PeanoNat.
Import ListNotations.
From BT.Base Require Import Bits BitsProofs BytesProofs.
From BT.Layout Require Import Model BuildProofs RoundTrip RecordProofs SizeProofs FillProofs FillBuild PosProofs.
From BT.Tracer Require Import Model Decode RecordDecode Lemmas Spec BoundsProofs FlagProofs ProtocolProofs
  OutcomeProofs TimeProofs Chain Holes History HistoryOpen HistoryClose HistoryRecord ErrMono.

Section S.
  Variable d : dstm.
  Variable user : list val.
  Variable cs_size : nat.
  Hypothesis WF : wf_d d user cs_size.

  Notation bo := (d_bo d).
  Notation HI := (HI d user cs_size).
  Notation same_core := (same_core cs_size).

  Definition flat (K : list pk) : list rcd := flat_map k_recs K.
  (* R: all the records a reader finds in the packets handed over so far and in the open packet *)
  Definition J (R : list rcd) (w : world) : Prop :=
    w_err w = true \/ exists K cur, HI w K cur /\ flat K ++ cur = R.

  Lemma J_core R w w' : same_core w w' -> w_err w' = w_err w -> J R w -> J R w'.
  Proof.
    intros S E [H|(K & cur & H & F)]; [left; congruence|].
    right. exists K, cur. split; [eapply HI_core; eauto|exact F].
  Qed.

  (* ---------------------------------------------------------------- blocks the invariant ignores *)
  Lemma sc_full w : same_core w (snd (full_cb w)).
  Proof.
    rewrite full_cb_eq. unfold History.same_core. prj. togs. rewrite obs_app. cbn. rewrite app_nil_r.
    repeat split; auto. apply or_ok_tl.
  Qed.
  Lemma sc_clock w : same_core w (snd (clock_cb d w)).
  Proof.
    rewrite clock_cb_eq. unfold History.same_core. prj. togs. rewrite obs_app. cbn. rewrite app_nil_r.
    repeat split; auto. apply or_ok_tl.
  Qed.
  Lemma sc_enter k w : same_core w (cb_enter k w).
  Proof.
    unfold cb_enter, History.same_core. prj. togs. rewrite obs_app. cbn. rewrite app_nil_r.
    repeat split; auto. apply or_ok_tl.
  Qed.
  Lemma sc_preamble w f : same_core w (snd (preamble_ts d w f)).
  Proof.
    destruct (preamble_cases d w f) as [[-> _]|[[-> _]|[-> _]]]; try apply same_core_refl. apply sc_clock.
  Qed.
  Lemma sc_in_ts w b : same_core w (set_c w (set_in_ts (w_c w) b)).
  Proof. unfold History.same_core. up. repeat split; auto. Qed.
  Lemma sc_use_ts w b : same_core w (set_c w (set_use_ts (w_c w) b)).
  Proof. unfold History.same_core. up. repeat split; auto. Qed.
  Lemma sc_last_ts w z : same_core w (set_c w (set_last_ts (w_c w) z)).
  Proof. unfold History.same_core. up. repeat split; auto. Qed.
  Lemma sc_enabled w b : same_core w (set_c w (set_enabled (w_c w) b)).
  Proof. unfold History.same_core. up. repeat split; auto. Qed.
  Lemma sc_logev w e : is_obs e = false -> same_core w (logev w e).
  Proof. intros H. unfold History.same_core. up. rewrite obs_app. cbn [obs filter]. rewrite H, app_nil_r. repeat split; auto. Qed.
  Lemma sc_entry w : same_core w (trace_entry d w).
  Proof.
    unfold trace_entry. destruct (d_has_clock d); [|apply same_core_refl].
    eapply same_core_trans; [apply sc_clock|apply sc_last_ts].
  Qed.

  Lemma preamble_flags w f :
    c_in_ts (w_c (snd (preamble_ts d w f))) = c_in_ts (w_c w) /\
    c_open (w_c (snd (preamble_ts d w f))) = c_open (w_c w) /\
    c_at (w_c (snd (preamble_ts d w f))) = c_at (w_c w) /\
    c_psize (w_c (snd (preamble_ts d w f))) = c_psize (w_c w).
  Proof.
    destruct (preamble_cases d w f) as [[-> _]|[[-> _]|[-> _]]]; auto.
    rewrite clock_cb_eq. prj. togs. auto.
  Qed.

  (* ---------------------------------------------------------------- discard *)
  Lemma J_no_space R w : J R w -> J R (snd (no_space w)).
  Proof.
    intros [H|(K & cur & (H1 & H2 & H3 & H4 & H5 & H6 & H7 & H8 & H9 & H10 & H11) & F)]; [left; exact H|].
    right. exists K, cur. split; [|exact F]. rewrite no_space_eq.
    assert (T : forall c, ts_ok d w K c ->
                ts_ok d (mk_w (incr_disc (w_c w)) (w_or w) (w_clk w) (w_log w ++ [EDisc]) (w_err w) (w_pcargs w)) K c).
    { intros c [A B]. unfold ts_ok. prj. rewrite obs_app, !stamps_of_app. cbn. rewrite !app_nil_r. auto. }
    unfold History.HI, len_ok in *. up. rewrite obs_app. cbn [obs filter is_obs app].
    rewrite pkts_app, snaps_app, ndo_app. cbn. rewrite !app_nil_r.
    repeat split; auto; [lia|].
    destruct (c_open (w_c w)).
    - destruct H11 as (tsb & hs & X & Y & Z). exists tsb, hs. split; [exact X|split; [exact Y|]].
      apply (T _ Z).
    - destruct H11 as (X & Y & Z). split; [exact X|split; [exact Y|]]. apply (T _ Z).
  Qed.

  (* ---------------------------------------------------------------- opening *)
  Lemma open_core_J R ts w : J R w ->
    J R (open_core d ts w) /\
    (w_err (open_core d ts w) = false -> c_in_ts (w_c w) = true -> c_open (w_c (open_core d ts w)) = true).
  Proof.
    intros HJ. destruct (w_err (open_core d ts w)) eqn:E; [split; [left; exact E|discriminate]|].
    assert (E0 : w_err w = false).
    { destruct (w_err w) eqn:X; [|reflexivity]. rewrite (sticky_open_core d ts w X) in E. discriminate. }
    destruct HJ as [X|(K & cur & H & F)]; [congruence|].
    unfold open_core in *.
    destruct (negb (c_enabled (w_c w)) && negb (c_in_ts (w_c w))) eqn:B.
    - split.
      + right. exists K, cur. split; [|exact F]. eapply HI_core; [|exact H]. apply sc_in_ts.
      + intros _ Hf. rewrite Hf, andb_false_r in B. discriminate.
    - destruct (c_open (w_c w)) eqn:Hop.
      + split.
        * right. exists K, cur. split; [|exact F]. eapply HI_core; [|exact H].
          unfold History.same_core. up. repeat split; auto.
        * intros _ _. up. exact Hop.
      + pose proof H as H'. destruct H' as (_ & _ & _ & _ & _ & _ & _ & _ & _ & _ & H11).
        rewrite Hop in H11. destruct H11 as (-> & _ & TS).
        destruct (open_do_HI d user cs_size WF w ts K (HI_base _ _ _ _ _ _ H) TS E) as (Hn & Ho & _).
        split; [|intros _ _; exact Ho].
        right. exists K, []. split; [exact Hn|exact F].
  Qed.

  Lemma open_fn_J R w : J R w ->
    J R (open_fn d w) /\
    (w_err (open_fn d w) = false -> c_in_ts (w_c w) = true -> c_open (w_c (open_fn d w)) = true).
  Proof.
    intros HJ. rewrite open_fn_eq.
    set (f := has_member (d_pc d) "timestamp_begin").
    destruct (preamble_flags w f) as (Pf & _).
    destruct (open_core_J R (fst (preamble_ts d w f)) (snd (preamble_ts d w f))) as [A B].
    { eapply J_core; [apply sc_preamble|apply err_preamble|exact HJ]. }
    split; [exact A|]. intros E Hf. apply B; [exact E|]. rewrite Pf. exact Hf.
  Qed.

  Lemma open_cb_J R w : J R w ->
    J R (open_cb d w) /\
    (w_err (open_cb d w) = false -> c_in_ts (w_c w) = true -> c_open (w_c (open_cb d w)) = true).
  Proof.
    intros HJ. rewrite open_cb_eq.
    destruct (open_fn_J R (cb_enter 1 w)) as [A B].
    { eapply J_core; [apply sc_enter|reflexivity|exact HJ]. }
    split; [exact A|]. intros E Hf. apply B; [exact E|]. rewrite cb_enter_flag. exact Hf.
  Qed.

  (* inside a tracing section *)
  Lemma open_section_J R w : J R w -> c_in_ts (w_c w) = true ->
    let w' := with_use_ts (open_cb d) w in
    J R w' /\ c_in_ts (w_c w') = true /\ (w_err w' = false -> c_open (w_c w') = true).
  Proof.
    intros HJ Hf. cbv zeta. unfold with_use_ts.
    set (w0 := set_c w (set_use_ts (w_c w) true)).
    destruct (open_cb_J R w0) as [A B].
    { eapply J_core; [apply sc_use_ts|reflexivity|exact HJ]. }
    assert (Hf0 : c_in_ts (w_c w0) = true) by (unfold w0; up; exact Hf).
    pose proof (proj1 (open_cb_blk d true w0 Hf0)) as Hf1.
    split; [eapply J_core; [apply sc_use_ts|reflexivity|exact A]|].
    split; [up; exact Hf1|].
    intros E. up. apply B; [exact E|exact Hf0].
  Qed.

  (* ---------------------------------------------------------------- closing *)
  Lemma flat_app K K' : flat (K ++ K') = flat K ++ flat K'.
  Proof. apply flat_map_app. Qed.

  Lemma or_ok_hd w b : or_ok cs_size (w_or w) -> a_newbuf (hd_ans w) = Some b -> fits cs_size (8 * b).
  Proof.
    unfold hd_ans, or_ok. destruct (w_or w) as [|a r]; cbn [hd]; [discriminate|].
    intros H E. inversion H as [|? ? Ha _]; subst. rewrite E in Ha. exact Ha.
  Qed.

  (* the handover without the eager platform's immediate re-opening *)
  Definition close_hand_lazy (a : ans) (o : bool) (w : world) : world :=
    if o && negb (c_open (w_c w)) then close_give d a w else w.
  Lemma close_hand_split a o w :
    close_hand d a o w =
    if (o && negb (c_open (w_c w))) && a_eager a then open_fn d (close_hand_lazy a o w)
    else close_hand_lazy a o w.
  Proof. unfold close_hand, close_hand_lazy. destruct (o && negb (c_open (w_c w))), (a_eager a); reflexivity. Qed.
  Lemma err_close_hand_lazy0 a o w : w_err (close_hand_lazy a o w) = w_err w.
  Proof. unfold close_hand_lazy. destruct (_ && _); [apply err_close_give|reflexivity]. Qed.

  Lemma close_lazy_J R w : J R w ->
    (w_err w = false -> c_open (w_c w) = true -> c_at (w_c w) <= c_psize (w_c w)) ->
    J R (close_hand_lazy (hd_ans w) (c_open (w_c w)) (close_fn d (cb_enter 2 w))).
  Proof.
    intros HJ Hb.
    destruct (w_err (close_hand_lazy (hd_ans w) (c_open (w_c w)) (close_fn d (cb_enter 2 w)))) eqn:E;
      [left; exact E|].
    rewrite err_close_hand_lazy0 in E.
    set (w1 := cb_enter 2 w) in *.
    rewrite close_fn_eq in *.
    set (f := has_member (d_pc d) "timestamp_end") in *.
    set (ts := fst (preamble_ts d w1 f)) in *.
    set (w2 := snd (preamble_ts d w1 f)) in *.
    assert (E2 : w_err w2 = false).
    { destruct (w_err w2) eqn:X; [|reflexivity]. rewrite (sticky_close_core d ts w2 X) in E. discriminate. }
    assert (E0 : w_err w = false) by (unfold w2 in E2; rewrite err_preamble in E2; exact E2).
    assert (SC : same_core w w2).
    { eapply same_core_trans; [apply sc_enter|apply sc_preamble]. }
    assert (HJ2 : J R w2) by (eapply J_core; [exact SC| |exact HJ]; unfold w2; rewrite err_preamble; reflexivity).
    assert (Hor : or_ok cs_size (w_or w)).
    { destruct HJ as [X|(K0 & cur0 & H0 & _)]; [congruence|]. unfold History.HI in H0. tauto. }
    destruct HJ2 as [X|(K & cur & H & F)]; [congruence|].
    destruct SC as (_ & S2 & S3 & _ & _ & _ & S7 & _ & _ & _ & S11).
    unfold close_core in *.
    destruct (negb (c_enabled (w_c w2)) && negb (c_in_ts (w_c w2))).
    - (* tracing disabled outside a tracing section: nothing happens *)
      assert (X : c_open (w_c (set_c w2 (set_in_ts (w_c w2) false))) = c_open (w_c w2)) by reflexivity.
      unfold close_hand_lazy. rewrite X, S7, andb_negb_r.
      right. exists K, cur. split; [|exact F]. eapply HI_core; [|exact H]. apply sc_in_ts.
    - destruct (c_open (w_c w2)) eqn:Hop; cbn [negb].
      + (* effective closing *)
        destruct (close_do_HI d user cs_size WF w2 ts K cur H Hop ltac:(rewrite S2, S3; apply Hb; congruence) E)
          as (k & K1 & K2 & K3 & K4 & K5 & K6 & PK & C1 & C2 & C3 & C4 & C5 & C6 & C7 & C8 & C9 & C10 & C11 & _ & TS1 & TS2).
        set (w3 := close_do d ts w2) in *.
        destruct H as (H1 & H2 & H3 & H4 & H5 & H6 & H7 & H8 & H9 & H10 & H11).
        right. exists (K ++ [k]), []. split; [|rewrite flat_app; unfold flat at 2; cbn [flat_map]; rewrite K1, !app_nil_r; exact F].
        unfold close_hand_lazy. rewrite <- S7, C1. cbn [andb negb]. unfold close_give. cbv zeta.
        set (pk := EPacket (c_psize (w_c w3)) (bytes_of_stream bo (c_s (w_c w3)) (c_psize (w_c w3) / 8))) in *.
        set (m := if has_tse d then [ETs 1 ts] else []) in *.
        assert (Hobs : obs (w_log w3 ++ [pk]) = (obs (w_log w2) ++ m) ++ [pk]).
        { rewrite obs_app, C11. reflexivity. }
        assert (M1 : pkts (obs (w_log w2) ++ m) = pkts (obs (w_log w2)))
          by (unfold m; destruct (has_tse d); [apply pkts_ts|rewrite app_nil_r; reflexivity]).
        assert (M2 : snaps 0 (obs (w_log w2) ++ m) = snaps 0 (obs (w_log w2)))
          by (unfold m; destruct (has_tse d); [apply snaps_ts|rewrite app_nil_r; reflexivity]).
        assert (M3 : ndo (obs (w_log w2) ++ m) = ndo (obs (w_log w2)))
          by (unfold m; destruct (has_tse d); [apply ndo_ts|rewrite app_nil_r; reflexivity]).
        assert (Q1 : Forall2 (pkt_ok d user) (pkts ((obs (w_log w2) ++ m) ++ [pk])) (K ++ [k])).
        { rewrite pkts_app, M1. apply Forall2_app; [exact H6|]. cbn. constructor; [exact PK|constructor]. }
        assert (Q2 : map k_disc (K ++ [k]) = snaps 0 ((obs (w_log w2) ++ m) ++ [pk])).
        { rewrite snaps_app, map_app, M2, M3, H7. cbn. rewrite K2, H8. reflexivity. }
        assert (Q3 : ndo ((obs (w_log w2) ++ m) ++ [pk]) = ndo (obs (w_log w2))).
        { rewrite ndo_app, M3. cbn. lia. }
        assert (Q4 : map k_seq (K ++ [k]) = map (seqn d) (seq 0 (List.length (K ++ [k])))).
        { rewrite app_length. cbn [List.length]. rewrite Nat.add_1_r, seq_S, !map_app, H9. cbn. rewrite K3, H10. reflexivity. }
        assert (Q5 : seqn d (S (List.length K)) = seqn d (List.length (K ++ [k]))).
        { rewrite app_length. cbn [List.length]. rewrite Nat.add_1_r. reflexivity. }
        assert (Q6 : has_tsb d = true -> stamps_of 0 ((obs (w_log w2) ++ m) ++ [pk]) = map k_tsb (K ++ [k]) ++ []).
        { intros Hh. rewrite !stamps_of_app, (TS1 Hh), map_app. unfold m.
          destruct (has_tse d); cbn; rewrite !app_nil_r; reflexivity. }
        assert (Q7 : has_tse d = true -> stamps_of 1 ((obs (w_log w2) ++ m) ++ [pk]) = map k_tse (K ++ [k])).
        { intros Hh. rewrite !stamps_of_app, (TS2 Hh), map_app. unfold m. rewrite Hh. cbn.
          rewrite K6, app_nil_r. reflexivity. }
        destruct (a_newbuf (hd_ans w)) as [b|] eqn:Eb.
        * (* the platform installs another buffer *)
          unfold History.HI, len_ok, ts_ok. up. rewrite Hobs, Q3, C2, Nat.eqb_refl, C4, C5, Q5.
          repeat split; auto; try congruence.
          -- unfold zeros. apply repeat_length.
          -- exists b. reflexivity.
          -- eapply or_ok_hd; [exact Hor|exact Eb].
        * unfold History.HI, len_ok, ts_ok in *. up. rewrite Hobs, Q3, C1, C4, C5, Q5, C3.
          repeat split; auto; try congruence.
      + (* no packet open *)
        unfold close_hand_lazy. rewrite <- S7. cbn [andb].
        right. exists K, cur. split; [|exact F]. eapply HI_core; [|exact H].
        unfold History.same_core. up. repeat split; auto.
  Qed.

  Lemma close_cb_J R w : J R w ->
    (w_err w = false -> c_open (w_c w) = true -> c_at (w_c w) <= c_psize (w_c w)) ->
    J R (close_cb d w).
  Proof.
    intros HJ Hb. rewrite close_cb_eq, close_hand_split.
    pose proof (close_lazy_J R w HJ Hb) as L.
    destruct (_ && _); [apply open_fn_J|]; exact L.
  Qed.

  Lemma close_section_J R w : J R w -> c_in_ts (w_c w) = true ->
    (w_err w = false -> c_open (w_c w) = true -> c_at (w_c w) <= c_psize (w_c w)) ->
    let w' := with_use_ts (close_cb d) w in
    J R w' /\ c_in_ts (w_c w') = true.
  Proof.
    intros HJ Hf Hb. cbv zeta. unfold with_use_ts.
    set (w0 := set_c w (set_use_ts (w_c w) true)).
    assert (Hf0 : c_in_ts (w_c w0) = true) by (unfold w0; up; exact Hf).
    pose proof (proj1 (close_cb_blk d true w0 Hf0)) as Hf1.
    split; [|up; exact Hf1].
    eapply J_core; [apply sc_use_ts|reflexivity|].
    apply close_cb_J.
    - eapply J_core; [apply sc_use_ts|reflexivity|exact HJ].
    - unfold w0. up. exact Hb.
  Qed.

  Lemma full_J R w : J R w -> c_in_ts (w_c w) = true ->
    J R (snd (full_cb w)) /\ c_in_ts (w_c (snd (full_cb w))) = true.
  Proof.
    intros HJ Hf. split.
    - eapply J_core; [apply sc_full|apply err_full|exact HJ].
    - rewrite full_cb_eq. prj. togs. exact Hf.
  Qed.

  (* ---------------------------------------------------------------- space reservation *)
  Lemma gt_diff32_le n a b : gt_diff32 n a b = true -> b <= a.
  Proof. unfold gt_diff32. destruct (Nat.leb_spec b a); [auto|discriminate]. Qed.

  Lemma reserve2_J R n w : J R w -> c_in_ts (w_c w) = true ->
    (w_err w = false -> c_open (w_c w) = true) ->
    let r := reserve2 d n w in
    J R (snd r) /\ c_in_ts (w_c (snd r)) = true /\
    (fst r = true -> w_err (snd r) = false -> c_open (w_c (snd r)) = true).
  Proof.
    intros HJ Hf Ho. cbv zeta. unfold reserve2.
    destruct (gt_diff32 n (c_psize (w_c w)) (c_at (w_c w))) eqn:G.
    - destruct (close_section_J R w HJ Hf) as [J1 F1].
      { intros _ _. eapply gt_diff32_le; eauto. }
      set (w1 := with_use_ts (close_cb d) w) in *.
      destruct (full_J R w1 J1 F1) as [J2 F2].
      destruct (fst (full_cb w1)).
      + split; [apply J_no_space; exact J2|]. split; [exact F2|]. discriminate.
      + destruct (open_section_J R _ J2 F2) as (J3 & F3 & O3).
        set (w3 := with_use_ts (open_cb d) (snd (full_cb w1))) in *.
        destruct (gt_diff32 n (c_psize (w_c w3)) (c_at (w_c w3))); cbn [fst snd].
        * split; [apply J_no_space; exact J3|]. split; [exact F3|]. intros X. discriminate X.
        * split; [exact J3|]. split; [exact F3|]. intros _ X. apply O3. exact X.
    - cbn [fst snd]. split; [exact HJ|]. split; [exact Hf|]. intros _ X. apply Ho. exact X.
  Qed.

  Lemma reserve_J R n w : J R w -> c_in_ts (w_c w) = true ->
    let r := reserve d w n in
    J R (snd r) /\ c_in_ts (w_c (snd r)) = true /\
    (fst r = true -> w_err (snd r) = false -> c_open (w_c (snd r)) = true).
  Proof.
    intros HJ Hf. cbv zeta. rewrite reserve_eq. unfold reserve'.
    destruct (gt_diff32 n (c_psize (w_c w)) (c_off_content (w_c w))).
    - split; [apply J_no_space; exact HJ|]. split; [exact Hf|]. discriminate.
    - destruct (Nat.eqb_spec (c_at (w_c w)) (c_psize (w_c w))) as [Eq|Ne].
      + destruct (full_J R w HJ Hf) as [J1 F1].
        destruct (fst (full_cb w)).
        * split; [apply J_no_space; exact J1|]. split; [exact F1|]. discriminate.
        * destruct (open_section_J R _ J1 F1) as (J2 & F2 & O2).
          apply reserve2_J; auto.
      + apply reserve2_J; auto.
        intros E0. destruct HJ as [X|(K & cur & H & _)]; [congruence|].
        destruct H as (_ & _ & _ & _ & _ & _ & _ & _ & _ & _ & H11).
        destruct (c_open (w_c w)); [reflexivity|]. destruct H11 as (_ & X & _). contradiction.
  Qed.

  (* ---------------------------------------------------------------- one tracing call *)
  (* what a tracing call adds to the records a reader finds, and to the discards *)
  Inductive outcome (w w' : world) (R : list rcd) (r : rcd) : Prop :=
  | o_off : J R w' -> nd w w' 0 -> outcome w w' R r        (* tracing disabled: nothing *)
  | o_rec : J (R ++ [r]) w' -> nd w w' 0 -> outcome w w' R r   (* recorded exactly once, after all others *)
  | o_disc : J R w' -> nd w w' 1 -> outcome w w' R r.      (* counted as discarded *)

  Lemma sc_mark w : same_core w (trace_mark d w).
  Proof. unfold trace_mark. destruct (_ && _); [apply sc_logev; reflexivity|apply same_core_refl]. Qed.

  Theorem trace_J R w e args cv sv pv :
    J R w -> In e (d_erts d) -> args_ok d e args cv sv pv ->
    w_err (trace_fn d e args w) = false ->
    let we := trace_entry d w in
    let w' := trace_fn d e args w in
    if c_enabled (w_c we)
    then (J (R ++ [rec_spec d e (c_last_ts (w_c we)) cv sv pv]) w' /\ nd w w' 0) \/ (J R w' /\ nd w w' 1)
    else J R w' /\ nd w w' 0.
  Proof.
    intros HJ Hin Hargs He. cbv zeta. rewrite trace_fn_eq in *.
    pose proof (nd_trace_entry d w) as N0.
    assert (Je : J R (trace_entry d w)).
    { eapply J_core; [apply sc_entry| |exact HJ].
      unfold trace_entry. destruct (d_has_clock d); [|reflexivity]. rewrite err_set_c, err_clock. reflexivity. }
    set (we := trace_entry d w) in *.
    destruct (c_enabled (w_c we)); cbn [negb] in *; [|split; [exact Je|exact N0]].
    unfold trace_body in *.
    set (w0 := set_c we (set_in_ts (w_c we) true)) in *.
    assert (J0 : J R w0) by (eapply J_core; [apply sc_in_ts|reflexivity|exact Je]).
    assert (F0 : c_in_ts (w_c w0) = true) by reflexivity.
    assert (N0' : nd w w0 0) by (eapply nd_eq_log; [|exact N0]; unfold w0; up; reflexivity).
    destruct (size_parts (rec_parts d e 0%Z args) (c_at (w_c we))) as [ae|]; [|discriminate].
    cbv zeta in *.
    set (n := ae - c_at (w_c we)) in *.
    destruct (reserve_J R n w0 J0 F0) as (J1 & F1 & O1).
    pose proof (reserve_nd d w0 n) as N1.
    pose proof (reserve_last d w0 n) as T1.
    destruct (fst (reserve d w0 n)) eqn:Ok; cbn [negb] in *.
    - (* space reserved *)
      set (w1 := snd (reserve d w0 n)) in *.
      destruct (w_err w1) eqn:E1; [congruence|].
      specialize (O1 eq_refl eq_refl).
      (* repair of S9: the size is computed again when the reservation moved the position *)
      destruct (trace_recheck_cases d e args (c_at (w_c we)) w1) as [Crc|[Crc|(_ & a2 & _ & _ & Crc)]];
        rewrite Crc in *; cbn [fst snd negb] in *.
      2:{ discriminate He. }
      2:{ (* does not fit the new packet: discarded, counted once *)
          right. unfold recheck_discard. split.
          - eapply J_core; [apply sc_in_ts|reflexivity|]. apply J_no_space. exact J1.
          - eapply nd_eq_log; [|apply (nd_trans _ _ _ 0 1 (nd_trans _ _ _ 0 0 N0' N1)), nd_no_space].
            reflexivity. }
      left.
      unfold trace_ser in *. cbv zeta in *.
      set (w1' := trace_mark d w1) in *.
      assert (Tm : c_last_ts (w_c w1') = c_last_ts (w_c we)).
      { unfold w1', trace_mark. destruct (_ && _); up; rewrite T1; reflexivity. }
      rewrite Tm in *.
      set (ts := c_last_ts (w_c we)) in *.
      set (w2 := ser_parts d w1' (rec_parts d e ts args)) in *.
      destruct (w_err w2) eqn:E2; [congruence|].
      assert (J1' : J R w1').
      { eapply J_core; [apply sc_mark| |exact J1]. unfold w1', trace_mark. destruct (_ && _); reflexivity. }
      assert (O1' : c_open (w_c w1') = true).
      { unfold w1', trace_mark. destruct (_ && _); up; exact O1. }
      assert (F1' : c_in_ts (w_c w1') = true).
      { unfold w1', trace_mark. destruct (_ && _); up; exact F1. }
      assert (E1' : w_err w1' = false).
      { unfold w1', trace_mark. destruct (_ && _); up; exact E1. }
      destruct J1' as [X|(K & cur & H & F)]; [congruence|].
      destruct (record_HI d user cs_size WF w1' K cur e ts args cv sv pv Hin Hargs H O1' E2)
        as (H2 & O2 & F2 & _ & P2 & _ & A2).
      fold w2 in H2, O2, F2, P2, A2.
      assert (J2 : J (R ++ [rec_spec d e ts cv sv pv]) w2).
      { right. exists K, (cur ++ [rec_spec d e ts cv sv pv]). split; [exact H2|]. rewrite app_assoc, F. reflexivity. }
      assert (N2 : nd w w2 0).
      { apply (nd_trans w w1' w2 0 0); [|apply nd_ser_parts].
        apply (nd_trans w w1 w1' 0 0); [apply (nd_trans _ _ _ 0 0 N0' N1)|].
        unfold w1', trace_mark. destruct (_ && _); [apply nd_logev; discriminate|apply nd_refl]. }
      unfold trace_commit in *.
      destruct (Nat.eqb_spec (c_at (w_c w2)) (c_psize (w_c w2))) as [Eq|Ne].
      + split.
        * eapply J_core; [apply sc_in_ts|reflexivity|]. apply close_cb_J; [exact J2|]. intros _ _. lia.
        * eapply nd_eq_log; [|apply (nd_trans _ _ _ 0 0 N2), nd_close_cb]. up. reflexivity.
      + split.
        * eapply J_core; [apply sc_in_ts|reflexivity|exact J2].
        * eapply nd_eq_log; [|exact N2]. up. reflexivity.
    - (* no space: discarded *)
      right. split.
      + eapply J_core; [apply sc_in_ts|reflexivity|exact J1].
      + eapply nd_eq_log; [|apply (nd_trans _ _ _ 0 1 N0' N1)]. up. reflexivity.
  Qed.

  (* ---------------------------------------------------------------- one call of a history *)
  Definition call_ok (k : call) : Prop :=
    match k with
    | CTrace ei args => exists e cv sv pv, nth_error (d_erts d) ei = Some e /\ args_ok d e args cv sv pv
    | _ => True
    end.
  (* C02's conclusion, used as a premise here: the position is inside the packet when the platform
     closes it (the former findings S9 / S18, now repaired, were histories where the generated code
     broke this) *)
  Definition inb (w : world) : Prop := c_open (w_c w) = true -> c_at (w_c w) <= c_psize (w_c w).

  (* the records call k adds to what a reader finds (dl), and its discards *)
  Definition call_out (w : world) (k : call) (dl : list rcd) : Prop :=
    let w' := step d w k in
    match k with
    | CTrace ei args =>
        exists e cv sv pv, nth_error (d_erts d) ei = Some e /\ args_ok d e args cv sv pv /\
          if c_enabled (w_c (trace_entry d w))
          then (dl = [rec_spec d e (c_last_ts (w_c (trace_entry d w))) cv sv pv] /\ nd w w' 0) \/
               (dl = [] /\ nd w w' 1)
          else dl = [] /\ nd w w' 0
    | _ => dl = [] /\ nd w w' 0
    end.

  Lemma J_ret R w : J R w -> J R (logev w (ERet (w_c w))).
  Proof. intros H. eapply J_core; [apply sc_logev; reflexivity|reflexivity|exact H]. Qed.
  Lemma nd_ret w0 w k : nd w0 w k -> nd w0 (logev w (ERet (w_c w))) k.
  Proof.
    intros H. replace k with (k + 0) by lia. eapply nd_trans; [exact H|]. apply nd_logev. discriminate.
  Qed.

  Theorem step_J R w k : J R w -> call_ok k -> inb w -> w_err (step d w k) = false ->
    exists dl, call_out w k dl /\ J (R ++ dl) (step d w k).
  Proof.
    intros HJ Hk Hb He. unfold call_out. cbv zeta. unfold step in *.
    destruct (w_err w) eqn:E0; [congruence|].
    destruct k as [ei args| | |b|].
    - destruct Hk as (e & cv & sv & pv & Hn & Hargs). rewrite Hn in *.
      destruct (w_err (trace_fn d e args w)) eqn:E1; [congruence|].
      pose proof (trace_J R w e args cv sv pv HJ (nth_error_In _ _ Hn) Hargs E1) as T. cbv zeta in T.
      destruct (c_enabled (w_c (trace_entry d w))).
      + destruct T as [[T1 T2]|[T1 T2]].
        * eexists. split; [exists e, cv, sv, pv; split; [reflexivity|split; [exact Hargs|left; split; [reflexivity|apply nd_ret; exact T2]]]|].
          apply J_ret. exact T1.
        * exists []. split; [exists e, cv, sv, pv; split; [reflexivity|split; [exact Hargs|right; split; [reflexivity|apply nd_ret; exact T2]]]|].
          rewrite app_nil_r. apply J_ret. exact T1.
      + destruct T as [T1 T2].
        exists []. split; [exists e, cv, sv, pv; split; [reflexivity|split; [exact Hargs|split; [reflexivity|apply nd_ret; exact T2]]]|].
        rewrite app_nil_r. apply J_ret. exact T1.
    - exists []. rewrite app_nil_r.
      destruct (w_err (open_cb d w)) eqn:E1; [congruence|].
      split; [split; [reflexivity|apply nd_ret, nd_open_cb]|]. apply J_ret. apply (open_cb_J R w HJ).
    - exists []. rewrite app_nil_r.
      destruct (w_err (close_cb d w)) eqn:E1; [congruence|].
      split; [split; [reflexivity|apply nd_ret, nd_close_cb]|]. apply J_ret. apply close_cb_J; [exact HJ|].
      intros _. exact Hb.
    - exists []. rewrite app_nil_r. cbn [w_err set_c] in *. rewrite E0 in *.
      split; [split; [reflexivity|apply nd_ret; eapply nd_eq_log; [|apply nd_refl]; reflexivity]|].
      apply J_ret. eapply J_core; [apply sc_enabled|reflexivity|exact HJ].
    - exists []. rewrite app_nil_r.
      destruct (c_open (w_c w) && negb (c_at (w_c w) <=? c_off_content (w_c w))).
      + destruct (w_err (close_cb d w)) eqn:E1; [congruence|].
        split; [split; [reflexivity|apply nd_ret, nd_close_cb]|]. apply J_ret. apply close_cb_J; [exact HJ|].
        intros _. exact Hb.
      + rewrite E0 in *. split; [split; [reflexivity|apply nd_ret, nd_refl]|]. apply J_ret. exact HJ.
  Qed.

  (* ---------------------------------------------------------------- whole histories *)
  Fixpoint outs (w : world) (h : list call) (ds : list (list rcd)) : Prop :=
    match h, ds with
    | [], [] => True
    | k :: h, dl :: ds => call_out w k dl /\ outs (step d w k) h ds
    | _, _ => False
    end.
  Fixpoint inb_run (w : world) (h : list call) : Prop :=
    match h with [] => True | k :: h => inb w /\ inb_run (step d w k) h end.

  Lemma fold_sticky h : forall w, w_err w = true -> w_err (fold_left (step d) h w) = true.
  Proof. induction h as [|k h IH]; intros w H; cbn [fold_left]; [exact H|]. apply IH. apply sticky_step. exact H. Qed.

  Theorem history_J h : forall w R, J R w -> Forall call_ok h -> inb_run w h ->
    w_err (fold_left (step d) h w) = false ->
    exists ds, outs w h ds /\ J (R ++ List.concat ds) (fold_left (step d) h w).
  Proof.
    induction h as [|k h IH]; intros w R HJ Hok Hb He; cbn [fold_left] in *.
    - exists []. cbn. rewrite app_nil_r. auto.
    - inversion Hok as [|? ? Hk Hh]; subst. destruct Hb as [Hb1 Hb2].
      assert (E1 : w_err (step d w k) = false).
      { destruct (w_err (step d w k)) eqn:X; [|reflexivity]. rewrite (fold_sticky h _ X) in He. discriminate. }
      destruct (step_J R w k HJ Hk Hb1 E1) as (dl & C & J1).
      destruct (IH (step d w k) (R ++ dl) J1 Hh Hb2 He) as (ds & O & J2).
      exists (dl :: ds). split; [split; assumption|]. cbn [List.concat]. rewrite app_assoc. exact J2.
  Qed.

  (* ---------------------------------------------------------------- the first packet *)
  Lemma init_HIb buf oracle : fits cs_size (8 * buf) -> or_ok cs_size oracle ->
    HIb d user cs_size (mk_w (init_ctx buf) oracle 0%Z [] false user) [].
  Proof.
    intros Hf Ho. unfold HIb, len_ok, init_ctx. prj. repeat split; auto.
    - unfold zeros. apply repeat_length.
    - exists buf. reflexivity.
    - constructor.
    - unfold seqn. destruct (has_member _ _); reflexivity.
  Qed.

  Lemma first_open_J w : HIb d user cs_size w [] -> ts_ok d w [] [] -> c_open (w_c w) = false ->
    w_err (open_cb d w) = false -> c_open (w_c (open_cb d w)) = true -> J [] (open_cb d w).
  Proof.
    intros Hb Ht Hop He Ho. right. exists [], []. split; [|reflexivity].
    rewrite open_cb_eq, open_fn_eq in *.
    set (f := has_member (d_pc d) "timestamp_begin") in *.
    set (w1 := cb_enter 1 w) in *.
    set (ts := fst (preamble_ts d w1 f)) in *.
    set (w2 := snd (preamble_ts d w1 f)) in *.
    assert (SC : same_core w w2) by (eapply same_core_trans; [apply sc_enter|apply sc_preamble]).
    pose proof (HIb_core d user cs_size _ _ _ SC Hb) as Hb2.
    assert (Ht2 : ts_ok d w2 [] []) by (eapply ts_ok_obs; [|exact Ht]; unfold History.same_core in SC; tauto).
    destruct SC as (_ & _ & _ & _ & _ & _ & S7 & _).
    unfold open_core in *.
    destruct (negb (c_enabled (w_c w2)) && negb (c_in_ts (w_c w2))).
    - cbn [w_c set_c set_in_ts c_open] in Ho. congruence.
    - destruct (c_open (w_c w2)) eqn:X; [congruence|].
      destruct (open_do_HI d user cs_size WF w2 ts [] Hb2 Ht2 He) as (H & _). exact H.
  Qed.
End S.
