(* The regenerated public tracing function (Gen/CSkelFuns.v fn_trace), run by Tracer/CSkelTrace.v, IS
   Model.trace_fn - for every data stream type, event record type, argument list and world. *)
From Coq Require Import List Arith Bool ZArith String.
Import ListNotations.
From BT.Base Require Import Bits.
From BT.Layout Require Import Model.
From BT.Tracer Require Import Model CSkel CSkelTrace.
From BT.Gen Require Import CSkelFuns.
Local Open Scope string_scope.

Local Opaque gt_diff32 full_cb open_cb close_cb clock_cb reserve ser_parts size_parts rec_parts has_member_o.

Ltac t_step :=
  match goal with
  | |- context [let (_, _) := ?p in _] => destruct p eqn:?; cbn [fst snd]
  | |- context [match ?c with Some _ => _ | None => _ end] =>
      lazymatch c with context [match _ with _ => _ end] => fail | _ => destruct c eqn:?; cbn end
  | |- context [if ?c then _ else _] =>
      lazymatch c with context [if _ then _ else _] => fail | _ => destruct c eqn:?; cbn end
  end.

Ltac d_enabled :=
  match goal with |- context [c_enabled (w_c ?x)] => destruct (c_enabled (w_c x)) eqn:? end.
Ltac d_size :=
  match goal with |- context [size_parts ?p ?a] => destruct (size_parts p a) eqn:? end.
Ltac d_reserve :=
  match goal with |- context [reserve ?dd ?x ?n] => destruct (reserve dd x n) as [[|] ?] eqn:? end.
Ltac d_err :=
  match goal with |- context [w_err ?x] => destruct (w_err x) eqn:? end.
Ltac d_eqb :=
  match goal with |- context [Nat.eqb ?a ?b] => destruct (Nat.eqb a b) eqn:? end.
Ltac d_gt :=
  match goal with |- context [gt_diff32 ?a ?b ?c] => destruct (gt_diff32 a b c) eqn:? end.
Ltac d_ts :=
  match goal with |- context [has_member_o ?a ?b] => destruct (has_member_o a b) eqn:? end.

Theorem skel_trace d e args w :
  run_trace d skel_funs e args fn_trace w = Some (trace_fn d e args w).
Proof.
  unfold trace_fn, no_space.
  destruct (d_has_clock d) eqn:Hc; [destruct (clock_cb d w) as [t w0] eqn:Hk|]; cbn; rewrite ?Hc, ?Hk; cbn.
  all: d_enabled; cbn; [|reflexivity].
  all: d_size; cbn; [|reflexivity].
  all: d_reserve; cbn; [|reflexivity].
  all: d_err; cbn; [reflexivity|].
  all: d_eqb; cbn.
  all: try (d_size; cbn; [|reflexivity]; d_gt; cbn; [reflexivity|]).
  all: try d_ts; cbn.
  all: d_err; cbn; [reflexivity|].
  all: d_eqb; cbn; reflexivity.
Qed.
