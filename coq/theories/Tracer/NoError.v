(* C02 in full on the model: no history sets the model's error flag (a store outside the packet
   buffer, or an assertion of the generated code), provided every buffer the platform installs can
   hold the packet header and context.  The `w_err = false` premises of the history theorems
   (Tracer/HistoryMain.v) are DERIVED here.  (Proofs; statements in Props/C02.v etc.) *)
From Coq Require Import List Arith Bool ZArith String Lia PeanoNat.
Import ListNotations.
From BT.Base Require Import Bits BitsProofs BytesProofs.
From BT.Layout Require Import Model BuildProofs RoundTrip RecordProofs SizeProofs SizeTotal SerIndep FillProofs FillBuild PosProofs.
From BT.Tracer Require Import Model Decode RecordDecode Lemmas Spec BoundsProofs FlagProofs ProtocolProofs
  OutcomeProofs Chain Holes History HistoryOpen HistoryClose HistoryRecord HistoryStep HistoryBounds
  HistoryMain ErrMono.

Section NE.
  Variable d : dstm.
  Variable user : list val.
  Variable cs_size : nat.
  Hypothesis WF : wf_d d user cs_size.

  Notation bo := (d_bo d).
  Notation nk := (d_native_known d).

  (* a buffer of n bits can hold the packet header and context: opening a packet in it stores
     nothing outside it and leaves the content offset inside it *)
  Definition opens_ok_at (n : nat) : Prop :=
    forall w ts, c_psize (w_c w) = n -> len_ok w -> w_pcargs w = user -> w_err w = false ->
      w_err (open_do d ts w) = false /\ c_off_content (w_c (open_do d ts w)) <= n.
  Definition newbufs_ok (o : list ans) : Prop :=
    Forall (fun a => match a_newbuf a with Some b => opens_ok_at (8 * b) | None => True end) o.
  Definition bufs_ok (buf : nat) (oracle : list ans) : Prop :=
    opens_ok_at (8 * buf) /\ newbufs_ok oracle.

  (* arguments of the tracing calls: well typed (call_ok) and sized: static arrays have their
     declared length and there is no uuid member (SizeTotal.val_fit); without this the size pass
     has no result and the model flags `fail 4` *)
  Definition call_okf (k : call) : Prop :=
    match k with
    | CTrace ei args =>
        exists e cv sv pv, nth_error (d_erts d) ei = Some e /\ args_ok d e args cv sv pv /\
          fit_opt (d_cc d) cv /\ fit_opt (e_sc e) sv /\ fit_opt (e_p e) pv
    | _ => True
    end.
  Lemma call_okf_ok k : call_okf k -> call_ok d k.
  Proof.
    destruct k; cbn; auto. intros (e & cv & sv & pv & A & B & _). exists e, cv, sv, pv. auto.
  Qed.

  (* ---------------------------------------------------------------- the size pass is total *)
  Lemma size_parts_app p1 p2 a :
    size_parts (p1 ++ p2) a = match size_parts p1 a with Some a1 => size_parts p2 a1 | None => None end.
  Proof.
    revert a. induction p1 as [|[o v] p1 IH]; intros a; cbn [app size_parts]; [reflexivity|].
    destruct (size_op o v a); [apply IH|reflexivity].
  Qed.

  Lemma part_size_total o st vs a : ok_opt o vs -> fit_opt o vs ->
    exists a', size_parts (part o st vs) a = Some a'.
  Proof.
    unfold part, ok_opt, fit_opt. destruct o as [s|]; [|intros; cbn; eauto].
    intros [_ Hok] Hfit. cbn [size_parts].
    destruct (root_size_total s st vs a Hok Hfit) as [a' E]. rewrite E. eauto.
  Qed.

  Lemma eh_vals_fit ms id ts : forall env, members_ok env ms (eh_vals ms id ts) -> members_fit ms (eh_vals ms id ts).
  Proof.
    induction ms as [|[n f] ms IH]; intros env H; cbn [eh_vals members_fit]; [exact I|].
    cbn [eh_vals members_ok] in H. destruct H as (Hv & _ & Hr). split; [|eapply IH; exact Hr].
    destruct (String.eqb n "id"); apply val_ok_int_fit; exact Hv.
  Qed.

  Lemma rec_size_total e ts args cv sv pv a :
    In e (d_erts d) -> args_ok d e args cv sv pv ->
    fit_opt (d_cc d) cv -> fit_opt (e_sc e) sv -> fit_opt (e_p e) pv ->
    exists a', size_parts (rec_parts d e ts args) a = Some a'.
  Proof.
    intros Hin Hargs F2 F3 F4. rewrite (rec_parts_eq d e ts args cv sv pv Hargs).
    destruct Hargs as (O2 & O3 & O4 & _).
    pose proof (wf_ehv _ _ _ WF e ts Hin) as O1.
    assert (F1 : fit_opt (d_eh d) (hdr_vals d e ts)).
    { unfold fit_opt, hdr_vals, ok_opt in *. destruct (d_eh d) as [s|]; [|exact I].
      destruct O1 as [_ O1]. eapply eh_vals_fit; exact O1. }
    destruct (part_size_total (d_eh d) None (hdr_vals d e ts) a O1 F1) as [a1 E1].
    rewrite size_parts_app, E1.
    destruct (part_size_total (d_cc d) (fst (eh_build d)) cv a1 O2 F2) as [a2 E2].
    rewrite size_parts_app, E2.
    destruct (part_size_total (e_sc e) (fst (cc_build d)) sv a2 O3 F3) as [a3 E3].
    rewrite size_parts_app, E3.
    apply part_size_total; assumption.
  Qed.

  (* ---------------------------------------------------------------- closing never fails *)
  (* one late field written back: forward form of HistoryClose.write_saved_hole *)
  Lemma write_saved_ne c tsb hs w N v :
    hdr_ctx_ok d user c tsb hs -> c_saved (w_c w) = c_saved c -> c_psize (w_c w) = c_psize c ->
    c_off_content c <= c_psize c ->
    existsb (String.eqb N) pc_skips = true -> w_err (write_saved d w N v) = w_err w.
  Proof.
    intros (G1 & G2 & G3 & G4 & G5 & _) Hsv Hps Hoff HN.
    destruct (has_member (d_pc d) N) eqn:HM; [|unfold write_saved; rewrite HM; reflexivity].
    destruct (G5 N HN HM) as (al & size & off & j & h & B1 & B2 & B3 & B4 & B5 & B6 & B7 & B8).
    assert (Hnth : nth j (c_saved (w_c w)) 0 = h_pos h).
    { rewrite Hsv, G1. apply nth_error_nth. rewrite nth_error_map, B3. reflexivity. }
    assert (Hin : In h hs) by (eapply nth_error_In; eauto).
    rewrite Forall_forall in G4. destruct (G4 h Hin) as (Hb & _).
    unfold write_saved. unfold pcms in B2. rewrite HM, B1, B2. rewrite err_set_c, do_ser_eq.
    cbn [w_c set_c upd_at c_psize c_s c_at]. rewrite Hnth.
    rewrite ser_bits_eq. cbn [ss_at ss_s ss_saved].
    rewrite (align_up_aligned _ _ (al_ok_pos _ B6) B7).
    assert (Hpos : bits_pos_of nk al size off (h_pos h) = h_pos h).
    { unfold bits_pos_of. apply (bits_pos nk al size off (h_pos h) B6 B7). destruct off; exact B8. }
    rewrite Hpos.
    destruct (Nat.leb_spec (h_pos h + size) (c_psize (w_c w))) as [_|X]; [reflexivity|lia].
  Qed.

  Lemma close_do_ne w ts K cur :
    HI d user cs_size w K cur -> c_open (w_c w) = true -> c_off_content (w_c w) <= c_psize (w_c w) ->
    w_err w = false -> w_err (close_do d ts w) = false.
  Proof.
    intros (_ & _ & _ & _ & _ & _ & _ & _ & _ & _ & H11) Hop Hoff He.
    rewrite Hop in H11. destruct H11 as (tsb & hs & HC & _).
    unfold close_do, close_fin. rewrite err_set_c. unfold close_ws. cbv zeta.
    set (w1 := close_mark d ts (close_begin w)).
    assert (C1 : c_saved (w_c w1) = c_saved (w_c w) /\ c_psize (w_c w1) = c_psize (w_c w) /\ w_err w1 = w_err w).
    { unfold w1, close_mark, close_begin. destruct (_ && _); up; auto. }
    destruct C1 as (C1v & C1p & C1e).
    set (w2 := write_saved d w1 "timestamp_end" ts).
    destruct (write_saved_keep d w1 "timestamp_end" ts) as (K2 & _ & V2). fold w2 in K2, V2.
    set (w3 := write_saved d w2 "content_size" (Z.of_nat (c_content (w_c w2)))).
    destruct (write_saved_keep d w2 "content_size" (Z.of_nat (c_content (w_c w2)))) as (K3 & _ & V3).
    fold w3 in K3, V3. unfold ser_keep in K2, K3.
    rewrite (write_saved_ne (w_c w) tsb hs w3 "events_discarded" _ HC) by
      (first [reflexivity | lia | intuition congruence]).
    unfold w3. rewrite (write_saved_ne (w_c w) tsb hs w2 "content_size" _ HC) by
      (first [reflexivity | lia | intuition congruence]).
    unfold w2. rewrite (write_saved_ne (w_c w) tsb hs w1 "timestamp_end" _ HC) by
      (first [reflexivity | lia | intuition congruence]).
    congruence.
  Qed.

  (* ---------------------------------------------------------------- the invariant *)
  Notation HI := (HI d user cs_size).
  Notation J := (J d user cs_size).

  Definition okb (w : world) : Prop := opens_ok_at (c_psize (w_c w)) /\ newbufs_ok (w_or w).
  (* no error so far, the history invariant, content offset inside the buffer, every current and
     future buffer can hold header + context *)
  Definition Q (w : world) : Prop :=
    w_err w = false /\ (exists K cur, HI w K cur) /\ offb w /\ okb w.

  Lemma Q_J w : Q w -> exists R, J R w.
  Proof. intros (_ & (K & cur & H) & _). exists (flat K ++ cur). right. exists K, cur. auto. Qed.
  Lemma J_HI R w : J R w -> w_err w = false -> exists K cur, HI w K cur.
  Proof. intros [X|(K & cur & H & _)] E; [congruence|eauto]. Qed.

  Lemma newbufs_orsuf w w' : newbufs_ok (w_or w) -> orsuf w w' -> newbufs_ok (w_or w').
  Proof. unfold newbufs_ok. intros H [pre E]. rewrite E in H. apply Forall_app in H. apply H. Qed.
  Lemma newbufs_hd w b : newbufs_ok (w_or w) -> a_newbuf (hd_ans w) = Some b -> opens_ok_at (8 * b).
  Proof.
    unfold hd_ans, newbufs_ok. destruct (w_or w) as [|a r]; cbn [hd]; [discriminate|].
    intros H E. inversion H as [|? ? Ha _]; subst. rewrite E in Ha. exact Ha.
  Qed.
  Lemma okb_next w w' : okb w -> c_psize (w_c w') = c_psize (w_c w) -> orsuf w w' -> okb w'.
  Proof. intros [A B] P O. split; [rewrite P; exact A|eapply newbufs_orsuf; eauto]. Qed.

  Lemma Q_core w w' : Q w -> same_core cs_size w w' -> w_err w' = w_err w -> orsuf w w' -> Q w'.
  Proof.
    intros (E & (K & cur & H) & Ob & Ok) SC Ee Os.
    split; [congruence|]. split; [exists K, cur; eapply HI_core; eauto|].
    destruct SC as (_ & S2 & _ & S4 & _ & _ & S7 & _).
    split; [unfold offb in *; rewrite S2, S4, S7; exact Ob|]. eapply okb_next; eauto.
  Qed.

  Lemma Q_setc w c' : Q w -> same_core cs_size w (set_c w c') -> Q (set_c w c').
  Proof. intros H SC. eapply Q_core; [exact H|exact SC|reflexivity|apply orsuf_same; reflexivity]. Qed.
  Lemma Q_full w : Q w -> Q (snd (full_cb w)).
  Proof. intros H. eapply Q_core; [exact H|apply sc_full|apply err_full|apply full_cb_orsuf]. Qed.
  Lemma Q_enter k w : Q w -> Q (cb_enter k w).
  Proof. intros H. eapply Q_core; [exact H|apply sc_enter|reflexivity|apply cb_enter_orsuf]. Qed.
  Lemma Q_preamble w f : Q w -> Q (snd (preamble_ts d w f)).
  Proof. intros H. eapply Q_core; [exact H|apply sc_preamble|apply err_preamble|apply preamble_orsuf]. Qed.
  Lemma Q_logev w e : is_obs e = false -> Q w -> Q (logev w e).
  Proof. intros He H. eapply Q_core; [exact H|apply sc_logev; exact He|reflexivity|apply orsuf_same; reflexivity]. Qed.
  Lemma Q_entry w : Q w -> Q (trace_entry d w).
  Proof.
    intros H. eapply Q_core; [exact H|apply sc_entry| |].
    - unfold trace_entry. destruct (d_has_clock d); [|reflexivity]. rewrite err_set_c, err_clock. reflexivity.
    - unfold trace_entry. destruct (d_has_clock d); [|apply orsuf_refl].
      destruct (clock_cb_orsuf d w) as [pre E]. exists pre. exact E.
  Qed.
  Lemma Q_no_space w : Q w -> Q (snd (no_space w)).
  Proof.
    intros H. destruct (Q_J w H) as [R0 HJ]. destruct H as (E & _ & Ob & Ok).
    assert (J1 : J R0 (snd (no_space w))) by (eapply J_no_space; eauto).
    split; [exact E|]. split; [apply (J_HI R0); [exact J1|exact E]|].
    split; [exact Ob|exact Ok].
  Qed.

  (* ---------------------------------------------------------------- opening *)
  Lemma open_core_Q ts w : Q w -> Q (open_core d ts w).
  Proof.
    intros H. destruct (Q_J w H) as [R0 HJ].
    assert (J1 : J R0 (open_core d ts w)) by (eapply open_core_J; eauto).
    destruct H as (E & (K & cur & HH) & Ob & Ok).
    destruct (open_core_dec d ts w) as [[_ Eq]|(_ & Ho & Eq)]; rewrite Eq in *.
    - split; [exact E|]. split; [eauto|]. split; assumption.
    - destruct Ok as [Oa Onb].
      assert (Hl : len_ok w) by (unfold History.HI in HH; tauto).
      assert (Hp : w_pcargs w = user) by (unfold History.HI in HH; tauto).
      destruct (Oa w ts eq_refl Hl Hp E) as [E1 Off].
      destruct (open_do_post d ts w) as [P Env]. unfold open_post in P. unfold env_keep in Env.
      split; [exact E1|]. split; [apply (J_HI R0); assumption|].
      split; [unfold offb; intros _; replace (c_psize (w_c (open_do d ts w))) with (c_psize (w_c w)) by (symmetry; intuition); exact Off|].
      split; [replace (c_psize (w_c (open_do d ts w))) with (c_psize (w_c w)) by (symmetry; intuition); exact Oa|].
      replace (w_or (open_do d ts w)) with (w_or w) by (symmetry; intuition). exact Onb.
  Qed.

  Lemma open_fn_Q w : Q w -> Q (open_fn d w).
  Proof. intros H. rewrite open_fn_eq. apply open_core_Q, Q_preamble, H. Qed.
  Lemma open_cb_Q w : Q w -> Q (open_cb d w).
  Proof. intros H. rewrite open_cb_eq. apply open_fn_Q, Q_enter, H. Qed.

  (* ---------------------------------------------------------------- closing *)
  Lemma inb_same w w' : c_open (w_c w') = c_open (w_c w) -> c_at (w_c w') = c_at (w_c w) ->
    c_psize (w_c w') = c_psize (w_c w) -> inb w -> inb w'.
  Proof. unfold inb. intros -> -> ->. auto. Qed.

  Lemma close_cb_Q w : Q w -> inb w -> Q (close_cb d w).
  Proof.
    intros H Hb. destruct (Q_J w H) as [R0 HJ].
    assert (JL : J R0 (close_hand_lazy d (hd_ans w) (c_open (w_c w)) (close_fn d (cb_enter 2 w))))
      by (eapply close_lazy_J; eauto).
    rewrite close_cb_eq, close_hand_split.
    set (L := close_hand_lazy d (hd_ans w) (c_open (w_c w)) (close_fn d (cb_enter 2 w))) in *.
    assert (QL : Q L).
    { destruct (cb_enter_pk 2 w) as [O0 [A0 [P0 [F0 I0]]]].
      pose proof (Q_enter 2 w H) as H1.
      set (f := has_member (d_pc d) "timestamp_end").
      pose proof (Q_preamble (cb_enter 2 w) f H1) as H2.
      destruct (preamble_flags d (cb_enter 2 w) f) as (_ & Po & Pa & Pp).
      assert (Os : orsuf w (snd (preamble_ts d (cb_enter 2 w) f)))
        by (eapply orsuf_trans; [apply cb_enter_orsuf|apply preamble_orsuf]).
      unfold L. rewrite close_fn_eq. fold f.
      set (w2 := snd (preamble_ts d (cb_enter 2 w) f)) in *.
      set (ts := fst (preamble_ts d (cb_enter 2 w) f)).
      assert (O2 : c_open (w_c w2) = c_open (w_c w)) by congruence.
      destruct (close_core_dec d ts w2) as [[_ Eq]|(_ & Ho & Eq)]; rewrite Eq.
      - unfold close_hand_lazy. rewrite O2, andb_negb_r. exact H2.
      - destruct H2 as (E2 & (K2 & cur2 & HH2) & Ob2 & Ok2).
        pose proof (close_do_ne w2 ts K2 cur2 HH2 Ho (Ob2 Ho) E2) as E3.
        destruct (close_do_post d ts w2) as [P Env]. unfold close_post in P. unfold env_keep in Env.
        assert (P1 : c_open (w_c (close_do d ts w2)) = false) by intuition.
        assert (P5 : c_psize (w_c (close_do d ts w2)) = c_psize (w_c w2)) by intuition.
        assert (Po2 : w_or (close_do d ts w2) = w_or w2) by intuition.
        unfold close_hand_lazy. rewrite <- O2, Ho, P1. cbn [andb negb].
        destruct (close_give_pk d (hd_ans w) (close_do d ts w2)) as (G1 & _ & _ & _ & _ & _ & G7 & G8 & _).
        assert (EL : w_err (close_give d (hd_ans w) (close_do d ts w2)) = false) by congruence.
        split; [exact EL|].
        split.
        { apply (J_HI R0); [|exact EL].
          unfold L in JL. rewrite close_fn_eq in JL. fold f w2 ts in JL. rewrite Eq in JL.
          unfold close_hand_lazy in JL. rewrite <- O2, Ho, P1 in JL. exact JL. }
        split; [unfold offb; intros X; congruence|].
        destruct Ok2 as [Oa2 Onb2]. destruct H as (_ & _ & _ & [Oa Onb]).
        split.
        + unfold close_give. cbv zeta. destruct (a_newbuf (hd_ans w)) as [b|] eqn:Eb.
          * cbn [w_c set_c packet_set_buf c_psize]. exact (newbufs_hd w b Onb Eb).
          * cbn [w_c logev c_psize]. rewrite P5. exact Oa2.
        + rewrite G7, Po2. exact Onb2. }
    destruct (_ && _); [apply open_fn_Q|]; exact QL.
  Qed.

  Lemma wu_Q f w : (forall x, Q x -> Q (f x)) -> Q w -> Q (with_use_ts f w).
  Proof.
    intros Hf H. unfold with_use_ts.
    apply Q_setc; [|apply sc_use_ts]. apply Hf. apply Q_setc; [exact H|apply sc_use_ts].
  Qed.
  Lemma wclose_Q w : Q w -> inb w -> Q (with_use_ts (close_cb d) w).
  Proof.
    intros H Hb. unfold with_use_ts.
    apply Q_setc; [|apply sc_use_ts]. apply close_cb_Q; [apply Q_setc; [exact H|apply sc_use_ts]|exact Hb].
  Qed.

  (* ---------------------------------------------------------------- space reservation *)
  Lemma reserve2_Q n w : Q w -> Q (snd (reserve2 d n w)).
  Proof.
    intros H. unfold reserve2.
    destruct (gt_diff32 n (c_psize (w_c w)) (c_at (w_c w))) eqn:G; [|exact H].
    cbv zeta.
    assert (H1 : Q (with_use_ts (close_cb d) w)).
    { apply wclose_Q; [exact H|]. intros _. eapply gt_diff32_le; eauto. }
    set (w1 := with_use_ts (close_cb d) w) in *.
    pose proof (Q_full w1 H1) as H2.
    destruct (fst (full_cb w1)); [apply Q_no_space; exact H2|].
    pose proof (wu_Q (open_cb d) _ open_cb_Q H2) as H3.
    match goal with |- Q (snd (if ?c then _ else _)) => destruct c end; [apply Q_no_space; exact H3|exact H3].
  Qed.

  Lemma reserve_Q n w : Q w -> Q (snd (reserve d w n)).
  Proof.
    intros H. rewrite reserve_eq. unfold reserve'.
    destruct (gt_diff32 _ _ _); [apply Q_no_space; exact H|].
    destruct (_ =? _); [|apply reserve2_Q; exact H].
    pose proof (Q_full w H) as H1.
    destruct (fst (full_cb w)); [apply Q_no_space; exact H1|].
    apply reserve2_Q. apply wu_Q; [apply open_cb_Q|exact H1].
  Qed.

  (* ---------------------------------------------------------------- one tracing call *)
  Lemma is_obs_ts2 v : is_obs (ETs 2 v) = false. Proof. reflexivity. Qed.

  Theorem trace_fn_Q e args cv sv pv w :
    Q w -> inb w -> In e (d_erts d) -> args_ok d e args cv sv pv ->
    fit_opt (d_cc d) cv -> fit_opt (e_sc e) sv -> fit_opt (e_p e) pv ->
    Q (trace_fn d e args w).
  Proof.
    intros H Hb Hin Hargs F2 F3 F4. rewrite trace_fn_eq.
    pose proof (Q_entry w H) as He.
    pose proof (samepos_inb _ _ (samepos_entry d w) Hb) as Hbe.
    set (we := trace_entry d w) in *.
    destruct (negb (c_enabled (w_c we))); [exact He|].
    unfold trace_body. cbv zeta.
    set (w0 := set_c we (set_in_ts (w_c we) true)).
    assert (H0 : Q w0) by (apply Q_setc; [exact He|apply sc_in_ts]).
    assert (Hb0 : inb w0) by exact Hbe.
    destruct (rec_size_total e 0%Z args cv sv pv (c_at (w_c we)) Hin Hargs F2 F3 F4) as [ae Es]. rewrite Es.
    set (n := ae - c_at (w_c we)).
    pose proof (reserve_Q n w0 H0) as Hr.
    pose proof (R_reserve d w0 n) as Rr.
    destruct (Q_J w0 H0) as [R0 J0].
    assert (O1 : fst (reserve d w0 n) = true -> w_err (snd (reserve d w0 n)) = false ->
                 c_open (w_c (snd (reserve d w0 n))) = true).
    { eapply reserve_J; eauto; reflexivity. }
    destruct (reserve d w0 n) as [ok w1] eqn:Er. cbn [fst snd] in *.
    destruct ok; cbn [negb].
    2:{ apply Q_setc; [exact Hr|apply sc_in_ts]. }
    pose proof Hr as (E1 & (K1 & cur1 & HH1) & Ob1 & Ok1). rewrite E1.
    specialize (O1 eq_refl E1).
    destruct (rec_size_total e 0%Z args cv sv pv (c_at (w_c w1)) Hin Hargs F2 F3 F4) as [a2 Es2].
    destruct (trace_recheck_cases d e args (c_at (w_c we)) w1) as [Crc|[Crc|(_ & a3 & _ & _ & Crc)]];
      rewrite Crc; cbn [fst snd negb].
    2:{ exfalso. unfold trace_recheck in Crc. rewrite Es2 in Crc.
        destruct (_ =? _); [discriminate|]. destruct (gt_diff32 _ _ _); [|discriminate].
        apply (f_equal (fun x => w_err (snd x))) in Crc. cbn in Crc. congruence. }
    2:{ unfold recheck_discard. apply Q_setc; [apply Q_no_space; exact Hr|apply sc_in_ts]. }
    (* the record is serialized *)
    assert (Hrf : fst (trace_recheck d e args (c_at (w_c we)) w1) = true) by (rewrite Crc; reflexivity).
    destruct (recheck_fits d e args we w1 ae Es Er Hrf) as (a' & Hs' & G).
    assert (Hle : c_at (w_c w1) <= c_psize (w_c w1)).
    { destruct Rr as [[X|X]|(A & B & C & D)].
      - congruence.
      - rewrite X. apply Ob1. exact O1.
      - rewrite B, C. apply Hb0. congruence. }
    unfold gt_diff32 in G. destruct (Nat.leb_spec (c_at (w_c w1)) (c_psize (w_c w1))) as [_|]; [|lia].
    apply Nat.ltb_ge in G.
    pose proof (wf_rc _ _ _ WF) as Wr.
    pose proof (size_parts_mono _ (rec_parts_built d e 0%Z args Wr Hin) _ _ Hs') as Hm.
    unfold trace_ser. cbv zeta.
    destruct (samepos_mark d w1) as (Sm & Cm & Em & Lm).
    assert (H1' : Q (trace_mark d w1)).
    { unfold trace_mark. destruct (_ && _); [apply Q_logev; [apply is_obs_ts2|exact Hr]|exact Hr]. }
    set (w1' := trace_mark d w1) in *.
    set (ts := c_last_ts (w_c w1')).
    rewrite (size_parts_ts d e 0%Z ts args) in Hs'.
    assert (L1 : len_ok w1) by (unfold History.HI in HH1; tauto).
    assert (L1' : len_ok w1') by (rewrite Lm; exact L1).
    assert (E1' : w_err w1' = false) by (rewrite Em; exact E1).
    rewrite <- Cm in Hs', G, Hm, Hle.
    destruct (ser_parts_fit d _ (rec_parts_built d e ts args Wr Hin) w1' a' L1' E1' Hs' ltac:(lia))
      as (E2 & B2 & _ & P2 & F2' & O2 & _ & L2).
    set (w2 := ser_parts d w1' (rec_parts d e ts args)) in *.
    rewrite E2.
    destruct H1' as (_ & (K1' & cur1' & HH1') & Ob1' & Ok1').
    assert (O1' : c_open (w_c w1') = true) by (rewrite Cm; exact O1).
    assert (H2 : Q w2).
    { split; [exact E2|]. split.
      - exists K1', (cur1' ++ [rec_spec d e ts cv sv pv]).
        eapply record_HI; eauto.
      - split; [unfold offb in *; rewrite F2', P2, O2; exact Ob1'|].
        eapply okb_next; [exact Ok1'|exact P2|].
        apply orsuf_same. apply (ser_parts_keep d (rec_parts d e ts args) w1'). }
    unfold trace_commit. cbv zeta.
    apply Q_setc; [|apply sc_in_ts].
    destruct (_ =? _); [|exact H2].
    apply close_cb_Q; [exact H2|]. unfold inb. intros _. rewrite B2, P2. lia.
  Qed.

  (* ---------------------------------------------------------------- one call, whole histories *)
  Lemma Q_ret w : Q w -> Q (logev w (ERet (w_c w))).
  Proof. apply Q_logev. reflexivity. Qed.

  Theorem step_Q w k : Q w -> inb w -> call_okf k -> Q (step d w k) /\ inb (step d w k).
  Proof.
    intros H Hb Hk.
    assert (HQ : Q (step d w k)).
    { unfold step. destruct H as (E & X). rewrite E. assert (H : Q w) by (split; assumption).
      match goal with |- Q (if w_err ?W then _ else _) =>
        assert (HW : Q W); [|pose proof HW as (EW & _); rewrite EW; apply Q_ret; exact HW] end.
      destruct k as [ei args| | |b|].
      - destruct Hk as (e & cv & sv & pv & Hn & Hargs & F2 & F3 & F4). rewrite Hn.
        eapply trace_fn_Q; eauto using nth_error_In.
      - apply open_cb_Q; exact H.
      - apply close_cb_Q; assumption.
      - apply Q_setc; [exact H|apply sc_enabled].
      - destruct (_ && _); [apply close_cb_Q; assumption|exact H]. }
    split; [exact HQ|].
    destruct (Q_J w H) as [R0 J0]. destruct HQ as (E1 & _ & Ob1 & _).
    eapply step_inb; eauto using call_okf_ok.
  Qed.

  Theorem steps_Q h : forall w, Q w -> inb w -> Forall call_okf h ->
    Q (fold_left (step d) h w) /\ offb_run d w h /\ inb_run d w h.
  Proof.
    induction h as [|k h IH]; intros w H Hb Hok; cbn [fold_left offb_run inb_run]; [auto|].
    inversion Hok as [|? ? Hk Hh]; subst.
    destruct (step_Q w k H Hb Hk) as [H1 Hb1].
    destruct (IH _ H1 Hb1 Hh) as (A & B & C).
    split; [exact A|]. split; [split; [apply H1|exact B]|split; [exact Hb|exact C]].
  Qed.

  (* ---------------------------------------------------------------- the first packet *)
  Lemma calls_ok h : Forall call_okf h -> Forall (call_ok d) h.
  Proof. intros H. eapply Forall_impl; [|exact H]. intros k. apply call_okf_ok. Qed.

  Lemma first_step buf oracle :
    fits cs_size (8 * buf) -> or_ok cs_size oracle -> bufs_ok buf oracle ->
    let w0 := mk_w (init_ctx buf) oracle 0%Z [] false user in
    c_open (w_c (step d w0 COpen)) = true ->
    Q (step d w0 COpen) /\ inb (step d w0 COpen).
  Proof.
    intros Hf Ho [Ba Bn] w0 Hop.
    assert (S1 : step d w0 COpen = if w_err (open_cb d w0) then open_cb d w0
                                   else logev (open_cb d w0) (ERet (w_c (open_cb d w0)))) by reflexivity.
    assert (Hop' : c_open (w_c (open_cb d w0)) = true).
    { rewrite S1 in Hop. destruct (w_err (open_cb d w0)); exact Hop. }
    pose proof (init_HIb d user cs_size buf oracle Hf Ho) as Hb0. fold w0 in Hb0.
    assert (QO : Q (open_cb d w0) /\ inb (open_cb d w0)).
    { assert (Os : orsuf w0 (open_cb d w0)) by apply open_cb_orsuf.
      assert (X : w_err (open_cb d w0) = false /\ c_off_content (w_c (open_cb d w0)) <= c_psize (w_c (open_cb d w0)) /\
                  c_at (w_c (open_cb d w0)) = c_off_content (w_c (open_cb d w0)) /\
                  c_psize (w_c (open_cb d w0)) = 8 * buf).
      { revert Hop'. rewrite open_cb_eq, open_fn_eq.
        set (f := has_member (d_pc d) "timestamp_begin").
        set (w2 := snd (preamble_ts d (cb_enter 1 w0) f)).
        set (ts := fst (preamble_ts d (cb_enter 1 w0) f)).
        assert (SC : same_core cs_size w0 w2) by (eapply same_core_trans; [apply sc_enter|apply sc_preamble]).
        pose proof (HIb_core d user cs_size _ _ _ SC Hb0) as Hb2.
        assert (E2 : w_err w2 = false) by (unfold w2; rewrite err_preamble; reflexivity).
        destruct SC as (_ & S2 & _ & _ & _ & _ & S7 & _).
        destruct (open_core_dec d ts w2) as [[_ Eq]|(_ & Ho2 & Eq)]; rewrite Eq.
        - intros X. rewrite S7 in X. cbn in X. discriminate.
        - intros _.
          assert (Hl : len_ok w2) by (unfold HIb in Hb2; tauto).
          assert (Hp : w_pcargs w2 = user) by (unfold HIb in Hb2; tauto).
          assert (P2 : c_psize (w_c w2) = 8 * buf) by (rewrite S2; reflexivity).
          destruct (Ba w2 ts P2 Hl Hp E2) as [E3 Off].
          destruct (open_do_post d ts w2) as [P _]. unfold open_post in P.
          assert (P3 : c_psize (w_c (open_do d ts w2)) = 8 * buf) by (rewrite <- P2; intuition).
          split; [exact E3|]. split; [rewrite P3; exact Off|]. split; [intuition|exact P3]. }
      destruct X as (E1 & Off & At & Ps).
      assert (J1 : J [] (open_cb d w0)).
      { eapply first_open_J; eauto. split; intros _; reflexivity. }
      split.
      - split; [exact E1|]. split; [apply (J_HI []); assumption|].
        split; [intros _; exact Off|].
        split; [rewrite Ps; exact Ba|]. eapply newbufs_orsuf; [|exact Os]. exact Bn.
      - intros _. rewrite At. exact Off. }
    destruct QO as [QO IO]. rewrite S1. pose proof QO as (E1 & _). rewrite E1.
    split; [apply Q_ret; exact QO|apply inb_ret; exact IO].
  Qed.

  (* ---------------------------------------------------------------- C02 in full on the model *)
  Theorem run_invariants buf oracle h :
    fits cs_size (8 * buf) -> or_ok cs_size oracle -> bufs_ok buf oracle -> Forall call_okf h ->
    let w0 := mk_w (init_ctx buf) oracle 0%Z [] false user in
    let w1 := step d w0 COpen in
    c_open (w_c w1) = true ->
    w_err (run d buf user oracle (COpen :: h)) = false /\
    offb w1 /\ offb_run d w1 h /\ inb_run d w1 h.
  Proof.
    intros Hf Ho Hbufs Hc w0 w1 Hop.
    destruct (first_step buf oracle Hf Ho Hbufs Hop) as [Q1 I1]. fold w0 w1 in Q1, I1.
    destruct (steps_Q h w1 Q1 I1 Hc) as (A & B & C).
    split; [apply A|]. split; [apply Q1|]. split; assumption.
  Qed.

  Theorem no_error_run buf oracle h :
    fits cs_size (8 * buf) -> or_ok cs_size oracle -> bufs_ok buf oracle -> Forall call_okf h ->
    let w0 := mk_w (init_ctx buf) oracle 0%Z [] false user in
    c_open (w_c (step d w0 COpen)) = true ->
    w_err (run d buf user oracle (COpen :: h)) = false.
  Proof. intros Hf Ho Hb Hc w0 Hop. apply (run_invariants buf oracle h Hf Ho Hb Hc Hop). Qed.

  (* ---------------------------------------------------------------- the history theorems, premises
     reduced to: well-formed type, buffers hold header + context, well-typed sized arguments,
     first packet opened *)
  Theorem history_main_full buf oracle h :
    fits cs_size (8 * buf) -> or_ok cs_size oracle -> bufs_ok buf oracle -> Forall call_okf h ->
    let w0 := mk_w (init_ctx buf) oracle 0%Z [] false user in
    let w1 := step d w0 COpen in
    c_open (w_c w1) = true ->
    let w := run d buf user oracle (COpen :: h) in
    exists ds K cur, outs d w1 h ds /\ HI w K cur /\ flat K ++ cur = List.concat ds.
  Proof.
    intros Hf Ho Hb Hc w0 w1 Hop w.
    destruct (run_invariants buf oracle h Hf Ho Hb Hc Hop) as (E & _ & _ & I).
    exact (history_main d user cs_size WF buf oracle h Hf Ho (calls_ok h Hc) Hop I E).
  Qed.

  Theorem history_records_full buf oracle h :
    fits cs_size (8 * buf) -> or_ok cs_size oracle -> bufs_ok buf oracle -> Forall call_okf h ->
    let w0 := mk_w (init_ctx buf) oracle 0%Z [] false user in
    let w1 := step d w0 COpen in
    c_open (w_c w1) = true ->
    let w := run d buf user oracle (COpen :: h) in
    c_open (w_c w) = false ->
    exists ds, outs d w1 h ds /\ read_all d (pkts (obs (w_log w))) = Some (List.concat ds).
  Proof.
    intros Hf Ho Hb Hc w0 w1 Hop w Hcl.
    destruct (run_invariants buf oracle h Hf Ho Hb Hc Hop) as (E & _ & _ & I).
    exact (history_records d user cs_size WF buf oracle h Hf Ho (calls_ok h Hc) Hop I E Hcl).
  Qed.

  Theorem history_packets_full buf oracle h :
    fits cs_size (8 * buf) -> or_ok cs_size oracle -> bufs_ok buf oracle -> Forall call_okf h ->
    let w0 := mk_w (init_ctx buf) oracle 0%Z [] false user in
    let w1 := step d w0 COpen in
    c_open (w_c w1) = true ->
    let w := run d buf user oracle (COpen :: h) in
    exists K, Forall2 (pkt_ok d user) (pkts (obs (w_log w))) K /\
              map k_disc K = snaps 0 (obs (w_log w)) /\
              map k_seq K = map (seqn d) (seq 0 (List.length K)).
  Proof.
    intros Hf Ho Hb Hc w0 w1 Hop w.
    destruct (run_invariants buf oracle h Hf Ho Hb Hc Hop) as (E & _ & _ & I).
    exact (history_packets d user cs_size WF buf oracle h Hf Ho (calls_ok h Hc) Hop I E).
  Qed.

  Theorem history_stamps_full buf oracle h :
    fits cs_size (8 * buf) -> or_ok cs_size oracle -> bufs_ok buf oracle -> Forall call_okf h ->
    let w0 := mk_w (init_ctx buf) oracle 0%Z [] false user in
    let w1 := step d w0 COpen in
    c_open (w_c w1) = true ->
    let w := run d buf user oracle (COpen :: h) in
    c_open (w_c w) = false ->
    exists K, Forall2 (pkt_ok d user) (pkts (obs (w_log w))) K /\
              (has_tsb d = true -> map k_tsb K = stamps_of 0 (w_log w)) /\
              (has_tse d = true -> map k_tse K = stamps_of 1 (w_log w)).
  Proof.
    intros Hf Ho Hb Hc w0 w1 Hop w Hcl.
    destruct (run_invariants buf oracle h Hf Ho Hb Hc Hop) as (E & _ & _ & I).
    exact (history_stamps d user cs_size WF buf oracle h Hf Ho (calls_ok h Hc) Hop I E Hcl).
  Qed.

  (* the write position is inside the packet at every call boundary *)
  Theorem history_in_bounds_full buf oracle h :
    fits cs_size (8 * buf) -> or_ok cs_size oracle -> bufs_ok buf oracle -> Forall call_okf h ->
    let w0 := mk_w (init_ctx buf) oracle 0%Z [] false user in
    let w1 := step d w0 COpen in
    c_open (w_c w1) = true -> inb_run d w1 h.
  Proof.
    intros Hf Ho Hb Hc w0 w1 Hop. apply (run_invariants buf oracle h Hf Ho Hb Hc Hop).
  Qed.

  (* ---------------------------------------------------------------- deciding opens_ok_at *)
  (* the premise `opens_ok_at n` quantifies over all worlds; since success and end position of a
     serialization depend only on positions and shapes (Layout/SerIndep.v) it is decided by one
     computation on a zero-filled buffer *)
  Definition opens_ok_check (n : nat) : bool :=
    let st0 := mk_ss (zeros n) 0 [] in
    match (match snd (ph_build d) with
           | Some o => ser bo nk n o (VArr (d_ph_vals d)) st0 | None => Some st0 end) with
    | Some st1 =>
        match ser bo nk n (pc_op d) (VArr (pc_vals (pcms d) 0 0 0%Z user)) (mk_ss (ss_s st1) (ss_at st1) []) with
        | Some st2 => ss_at st2 <=? n
        | None => false
        end
    | None => false
    end.

  Fixpoint same_shape_refl (v : val) : same_shape v v :=
    match v with
    | VInt z => SSInt z z
    | VStr bs => SSStr bs bs eq_refl
    | VArr l => SSArr l l ((fix go (l : list val) : Forall2 same_shape l l :=
                             match l with [] => Forall2_nil _ | x :: r => Forall2_cons x x (same_shape_refl x) (go r) end) l)
    end.

  Lemma pc_vals_shape ms p s t p' s' t' : forall u,
    Forall2 same_shape (pc_vals ms p s t u) (pc_vals ms p' s' t' u).
  Proof.
    induction ms as [|[n f] ms IH]; intros u; cbn [pc_vals]; [constructor|].
    destruct (String.eqb n "packet_size"); [constructor; [constructor|apply IH]|].
    destruct (String.eqb n "timestamp_begin"); [constructor; [constructor|apply IH]|].
    destruct (String.eqb n "packet_seq_num"); [constructor; [constructor|apply IH]|].
    destruct (existsb _ pc_skips); [constructor; [constructor|apply IH]|].
    destruct u as [|x u]; (apply Forall2_cons; [|apply IH]); [constructor|apply same_shape_refl].
  Qed.

  Lemma opens_ok_check_ok n : opens_ok_check n = true -> opens_ok_at n.
  Proof.
    unfold opens_ok_check. cbv zeta. intros Hc w ts Hp Hl Hpa He.
    unfold open_do, open_fin. rewrite err_set_c. cbn [w_c set_c c_off_content].
    set (w1 := open_reset w).
    assert (W1 : c_psize (w_c w1) = n /\ c_at (w_c w1) = 0 /\ w_err w1 = false /\ w_pcargs w1 = user)
      by (unfold w1, open_reset; up; auto).
    destruct W1 as (P1 & A1 & E1 & U1).
    (* header *)
    assert (X2 : exists st1z, (match snd (ph_build d) with
                               | Some o => ser bo nk n o (VArr (d_ph_vals d)) (mk_ss (zeros n) 0 [])
                               | None => Some (mk_ss (zeros n) 0 []) end) = Some st1z /\
                 c_psize (w_c (open_hdr d w1)) = n /\ c_at (w_c (open_hdr d w1)) = ss_at st1z /\
                 w_err (open_hdr d w1) = false /\ w_pcargs (open_hdr d w1) = user).
    { unfold open_hdr. destruct (snd (ph_build d)) as [o|].
      - destruct (ser bo nk n o (VArr (d_ph_vals d)) (mk_ss (zeros n) 0 [])) as [st1z|] eqn:Ez; [|discriminate].
        exists st1z. split; [reflexivity|]. rewrite do_ser_eq, P1, A1.
        pose proof (ser_indep bo nk n o (VArr (d_ph_vals d)) (VArr (d_ph_vals d))
                      (mk_ss (c_s (w_c w1)) 0 []) (mk_ss (zeros n) 0 [])
                      (same_shape_refl _) (conj eq_refl eq_refl)) as X.
        rewrite Ez in X. destruct (ser bo nk n o _ (mk_ss (c_s (w_c w1)) 0 [])) as [st1|]; [|contradiction].
        destruct X as [Xa _]. unfold ser_ctx. up. auto.
      - exists (mk_ss (zeros n) 0 []). auto. }
    destruct X2 as (st1z & Ez & P2 & A2 & E2 & U2). rewrite Ez in Hc.
    set (w2 := open_hdr d w1) in *.
    set (w3 := open_mark d ts w2).
    assert (W3 : c_psize (w_c w3) = n /\ c_at (w_c w3) = ss_at st1z /\ w_err w3 = false /\ w_pcargs w3 = user)
      by (unfold w3, open_mark; destruct (_ && _); up; auto).
    destruct W3 as (P3 & A3 & E3 & U3).
    unfold open_pc. rewrite do_ser_eq, P3, A3, U3.
    destruct (ser bo nk n (pc_op d) (VArr (pc_vals (pcms d) 0 0 0%Z user)) (mk_ss (ss_s st1z) (ss_at st1z) []))
      as [st2z|] eqn:Ez2; [|discriminate].
    apply Nat.leb_le in Hc.
    pose proof (ser_indep bo nk n (pc_op d)
                  (VArr (pc_vals (s_mems (d_pc d)) (c_psize (w_c w)) (c_seq (w_c w)) ts user))
                  (VArr (pc_vals (pcms d) 0 0 0%Z user))
                  (mk_ss (c_s (w_c w3)) (ss_at st1z) []) (mk_ss (ss_s st1z) (ss_at st1z) [])
                  (SSArr _ _ (pc_vals_shape _ _ _ _ _ _ _ _)) (conj eq_refl eq_refl)) as X.
    rewrite Ez2 in X.
    destruct (ser bo nk n (pc_op d) _ (mk_ss (c_s (w_c w3)) (ss_at st1z) [])) as [st2|]; [|contradiction].
    destruct X as [Xa _]. unfold ser_ctx. up. split; [exact E3|]. rewrite Xa. exact Hc.
  Qed.
End NE.
