(* C06: packet life cycle and accessors (proofs; statements in Props/C06.v). *)
From Coq Require Import List Arith Bool ZArith String Lia.
Import ListNotations.
From BT.Base Require Import Bits.
From BT.Layout Require Import Model.
From BT.Tracer Require Import Model Lemmas Spec FlagProofs.

(* ------------------------------------------------------------------ frames *)
(* what a serialization keeps: everything but the buffer, the position and the saved offsets *)
Definition ser_keep (c c' : ctx) : Prop :=
  c_psize c' = c_psize c /\ c_content c' = c_content c /\ c_off_content c' = c_off_content c /\
  c_disc c' = c_disc c /\ c_seq c' = c_seq c /\ c_open c' = c_open c /\ c_in_ts c' = c_in_ts c /\
  c_enabled c' = c_enabled c /\ c_use_ts c' = c_use_ts c /\ c_last_ts c' = c_last_ts c.
Definition env_keep (w w' : world) : Prop :=
  w_or w' = w_or w /\ w_clk w' = w_clk w /\ w_pcargs w' = w_pcargs w.

Lemma ser_keep_refl c : ser_keep c c. Proof. repeat split. Qed.
Lemma ser_keep_trans c1 c2 c3 : ser_keep c1 c2 -> ser_keep c2 c3 -> ser_keep c1 c3.
Proof. unfold ser_keep. intuition congruence. Qed.
Lemma env_keep_refl w : env_keep w w. Proof. repeat split. Qed.
Lemma env_keep_trans w1 w2 w3 : env_keep w1 w2 -> env_keep w2 w3 -> env_keep w1 w3.
Proof. unfold env_keep. intuition congruence. Qed.

Lemma do_ser_keep d w o v : ser_keep (w_c w) (w_c (do_ser d w o v)) /\ env_keep w (do_ser d w o v).
Proof. rewrite do_ser_eq. destruct (ser _ _ _ _ _ _); split; repeat split. Qed.

Lemma write_saved_keep d w n v :
  ser_keep (w_c w) (w_c (write_saved d w n v)) /\ env_keep w (write_saved d w n v) /\
  c_saved (w_c (write_saved d w n v)) = c_saved (w_c w).
Proof.
  unfold write_saved. destruct (has_member _ _); [|repeat split].
  destruct (pc_member_op d n) as [[al k size off| | | |]|]; try (repeat split; fail).
  destruct (skip_index _ _ _); try (repeat split; fail).
  cbv zeta.
  match goal with |- context [do_ser d ?w0 ?o ?v] =>
    destruct (do_ser_keep d w0 o v) as [K E]; set (w1 := do_ser d w0 o v) in * end.
  unfold ser_keep, env_keep in *. up. intuition.
Qed.

Lemma ser_parts_keep d ps w : ser_keep (w_c w) (w_c (ser_parts d w ps)) /\ env_keep w (ser_parts d w ps).
Proof.
  unfold ser_parts. revert w. induction ps as [|[o v] ps IH]; intros w; cbn [fold_left].
  - split; [apply ser_keep_refl|apply env_keep_refl].
  - destruct (w_err w); [apply IH|].
    destruct (do_ser_keep d w o v) as [K1 E1]. destruct (IH (do_ser d w o v)) as [K2 E2].
    split; [eapply ser_keep_trans; eauto|eapply env_keep_trans; eauto].
Qed.

(* the preamble: possibly one clock callback *)
Lemma preamble_frame d w f :
  let w1 := snd (preamble_ts d w f) in
  same_packet (w_c w) (w_c w1) /\ c_last_ts (w_c w1) = c_last_ts (w_c w) /\
  w_err w1 = w_err w /\ w_pcargs w1 = w_pcargs w.
Proof.
  destruct (preamble_cases d w f) as [[E _]|[[E _]|[E _]]]; rewrite E; cbv zeta;
    try (repeat split; fail).
  rewrite clock_cb_eq. up. unfold same_packet. up. togs. repeat split.
Qed.

Lemma set_in_ts_id w : set_c w (set_in_ts (w_c w) (c_in_ts (w_c w))) = w.
Proof. destruct w as [[] ? ? ? ? ?]; reflexivity. Qed.
Lemma set_in_ts_id2 w : set_c w (set_in_ts (set_in_ts (w_c w) true) (c_in_ts (w_c w))) = w.
Proof. destruct w as [[] ? ? ? ? ?]; reflexivity. Qed.

(* ------------------------------------------------------------------ (a) no-ops *)
Lemma open_core_noop d ts w :
  c_open (w_c w) = true \/ (c_enabled (w_c w) = false /\ c_in_ts (w_c w) = false) ->
  open_core d ts w = w.
Proof.
  intros H. unfold open_core.
  destruct (negb (c_enabled (w_c w)) && negb (c_in_ts (w_c w))) eqn:E1.
  - rewrite andb_true_iff, !negb_true_iff in E1. destruct E1 as [_ E1].
    rewrite <- E1 at 1. apply set_in_ts_id.
  - destruct H as [H|[H1 H2]].
    + rewrite H. apply set_in_ts_id2.
    + rewrite H1, H2 in E1. discriminate.
Qed.

Lemma close_core_noop d ts w :
  c_open (w_c w) = false \/ (c_enabled (w_c w) = false /\ c_in_ts (w_c w) = false) ->
  close_core d ts w = w.
Proof.
  intros H. unfold close_core.
  destruct (negb (c_enabled (w_c w)) && negb (c_in_ts (w_c w))) eqn:E1.
  - rewrite andb_true_iff, !negb_true_iff in E1. destruct E1 as [_ E1].
    rewrite <- E1 at 1. apply set_in_ts_id.
  - destruct H as [H|[H1 H2]].
    + rewrite H. apply set_in_ts_id2.
    + rewrite H1, H2 in E1. discriminate.
Qed.

(* open on an open packet (or from outside a tracing section with tracing disabled) is exactly the
   preamble: at most one clock callback, which may advance the clock, log its two events and
   toggle is_tracing_enabled; nothing else changes *)
Theorem open_noop d w :
  let w1 := snd (preamble_ts d w (has_member (d_pc d) "timestamp_begin")) in
  c_open (w_c w) = true \/ (c_enabled (w_c w1) = false /\ c_in_ts (w_c w) = false) ->
  open_fn d w = w1.
Proof.
  intros w1 H. rewrite open_fn_eq. apply open_core_noop.
  destruct (preamble_frame d w (has_member (d_pc d) "timestamp_begin")) as [S _].
  unfold same_packet in S. fold w1 in S. destruct H as [H|[H1 H2]]; [left|right; split; auto]; intuition congruence.
Qed.

Theorem close_noop d w :
  let w1 := snd (preamble_ts d w (has_member (d_pc d) "timestamp_end")) in
  c_open (w_c w) = false \/ (c_enabled (w_c w1) = false /\ c_in_ts (w_c w) = false) ->
  close_fn d w = w1.
Proof.
  intros w1 H. rewrite close_fn_eq. apply close_core_noop.
  destruct (preamble_frame d w (has_member (d_pc d) "timestamp_end")) as [S _].
  unfold same_packet in S. fold w1 in S. destruct H as [H|[H1 H2]]; [left|right; split; auto]; intuition congruence.
Qed.

(* ------------------------------------------------------------------ (b) effective open / close *)
Lemma open_do_post d ts w : open_post (w_c w) (w_c (open_do d ts w)) /\ env_keep w (open_do d ts w).
Proof.
  unfold open_do.
  assert (K2 : ser_keep (w_c (open_reset w)) (w_c (open_hdr d (open_reset w))) /\
               env_keep (open_reset w) (open_hdr d (open_reset w))).
  { unfold open_hdr. destruct (snd (ph_build d)); [apply do_ser_keep|].
    split; [apply ser_keep_refl|apply env_keep_refl]. }
  set (w2 := open_hdr d (open_reset w)) in *.
  assert (K3 : ser_keep (w_c w2) (w_c (open_mark d ts w2)) /\ env_keep w2 (open_mark d ts w2)).
  { unfold open_mark. destruct (_ && _); split; repeat split. }
  set (w3 := open_mark d ts w2) in *.
  match goal with |- context [open_pc d ts ?p ?s w3] =>
    pose proof (do_ser_keep d w3 (pc_op d) (VArr (pc_vals (s_mems (d_pc d)) p s ts (w_pcargs w3)))) as K4;
    fold (open_pc d ts p s w3) in K4; set (w4 := open_pc d ts p s w3) in * end.
  unfold open_post, ser_keep, env_keep, open_fin, open_reset in *. up.
  destruct K2 as [K2 E2], K3 as [K3 E3], K4 as [K4 E4]. up.
  repeat match goal with H : _ /\ _ |- _ => destruct H end. repeat split. all: congruence.
Qed.

Theorem open_effective d w :
  let w1 := snd (preamble_ts d w (has_member (d_pc d) "timestamp_begin")) in
  c_open (w_c w) = false -> (c_enabled (w_c w1) = true \/ c_in_ts (w_c w) = true) ->
  open_post (w_c w1) (w_c (open_fn d w)).
Proof.
  intros w1 Ho He. rewrite open_fn_eq.
  destruct (preamble_frame d w (has_member (d_pc d) "timestamp_begin")) as [S _].
  unfold same_packet in S. fold w1 in S.
  assert (Ho1 : c_open (w_c w1) = false) by intuition congruence.
  assert (He1 : c_enabled (w_c w1) = true \/ c_in_ts (w_c w1) = true)
    by (destruct He; [left|right]; intuition congruence).
  unfold open_core. fold w1.
  destruct (negb (c_enabled (w_c w1)) && negb (c_in_ts (w_c w1))) eqn:E1.
  { rewrite andb_true_iff, !negb_true_iff in E1. destruct E1, He1; congruence. }
  rewrite Ho1. apply open_do_post.
Qed.

Lemma close_ws_keep d ts w :
  ser_keep (w_c w) (w_c (close_ws d ts w)) /\ env_keep w (close_ws d ts w).
Proof.
  unfold close_ws. cbv zeta.
  destruct (write_saved_keep d w "timestamp_end" ts) as [K1 [E1 _]].
  set (w1 := write_saved d w "timestamp_end" ts) in *.
  destruct (write_saved_keep d w1 "content_size" (Z.of_nat (c_content (w_c w1)))) as [K2 [E2 _]].
  set (w2 := write_saved d w1 "content_size" (Z.of_nat (c_content (w_c w1)))) in *.
  destruct (write_saved_keep d w2 "events_discarded" (Z.of_nat (c_disc (w_c w2)))) as [K3 [E3 _]].
  split; [eapply ser_keep_trans; [eapply ser_keep_trans|]; eauto
         |eapply env_keep_trans; [eapply env_keep_trans|]; eauto].
Qed.

Lemma close_do_post d ts w : close_post d (w_c w) (w_c (close_do d ts w)) /\ env_keep w (close_do d ts w).
Proof.
  unfold close_do.
  assert (K2 : ser_keep (w_c (close_begin w)) (w_c (close_mark d ts (close_begin w))) /\
               env_keep (close_begin w) (close_mark d ts (close_begin w))).
  { unfold close_mark. destruct (_ && _); split; repeat split. }
  set (w2 := close_mark d ts (close_begin w)) in *.
  pose proof (close_ws_keep d ts w2) as K3. set (w3 := close_ws d ts w2) in *.
  unfold close_post, ser_keep, env_keep, close_fin, close_begin in *. up.
  destruct K2 as [K2 E2], K3 as [K3 E3]. up.
  repeat match goal with H : _ /\ _ |- _ => destruct H end.
  destruct (has_member (d_pc d) "packet_seq_num"); repeat split. all: congruence.
Qed.

Theorem close_effective d w :
  let w1 := snd (preamble_ts d w (has_member (d_pc d) "timestamp_end")) in
  c_open (w_c w) = true -> (c_enabled (w_c w1) = true \/ c_in_ts (w_c w) = true) ->
  close_post d (w_c w1) (w_c (close_fn d w)).
Proof.
  intros w1 Ho He. rewrite close_fn_eq.
  destruct (preamble_frame d w (has_member (d_pc d) "timestamp_end")) as [S _].
  unfold same_packet in S. fold w1 in S.
  assert (Ho1 : c_open (w_c w1) = true) by intuition congruence.
  assert (He1 : c_enabled (w_c w1) = true \/ c_in_ts (w_c w1) = true)
    by (destruct He; [left|right]; intuition congruence).
  unfold close_core. fold w1.
  destruct (negb (c_enabled (w_c w1)) && negb (c_in_ts (w_c w1))) eqn:E1.
  { rewrite andb_true_iff, !negb_true_iff in E1. destruct E1, He1; congruence. }
  rewrite Ho1. apply close_do_post.
Qed.

(* ------------------------------------------------------------------ (d) accessors = ghost counts *)
Definition quiet (e : ev) : Prop := match e with EPacket _ _ | EDisc => False | _ => True end.
Lemma lowok_quiet b e : lowok b e -> quiet e.
Proof. destruct e; cbn; auto. Qed.
Lemma stok_quiet e : stok e -> quiet e.
Proof. destruct e; cbn; auto. Qed.

Lemma npk_app l1 l2 : npk (l1 ++ l2) = npk l1 + npk l2.
Proof. unfold npk. rewrite filter_app, app_length. reflexivity. Qed.
Lemma ndisc_app l1 l2 : ndisc (l1 ++ l2) = ndisc l1 + ndisc l2.
Proof. unfold ndisc. rewrite filter_app, app_length. reflexivity. Qed.
Lemma quiet_counts l : Forall quiet l -> npk l = 0 /\ ndisc l = 0.
Proof.
  induction 1 as [|e l He _ [IH1 IH2]]; [split; reflexivity|].
  change (e :: l) with ([e] ++ l). rewrite npk_app, ndisc_app, IH1, IH2.
  destruct e; cbn in He; try contradiction; split; reflexivity.
Qed.

Definition cnt_inv (d : dstm) (w : world) : Prop :=
  c_seq (w_c w) = (if has_member (d_pc d) "packet_seq_num" then npk (w_log w) else 0) /\
  c_disc (w_c w) = ndisc (w_log w).

Lemma cnt_quiet d w w' :
  cnt_inv d w -> c_seq (w_c w') = c_seq (w_c w) -> c_disc (w_c w') = c_disc (w_c w) ->
  ext quiet w w' -> cnt_inv d w'.
Proof.
  intros [I1 I2] H1 H2 [seg [E F]]. destruct (quiet_counts seg F) as [Q1 Q2].
  unfold cnt_inv. rewrite E, npk_app, ndisc_app, Q1, Q2, !Nat.add_0_r, H1, H2. auto.
Qed.

Lemma clock_cb_cnt d w : cnt_inv d w -> cnt_inv d (snd (clock_cb d w)).
Proof.
  intros H. eapply cnt_quiet; [exact H| | |].
  - rewrite clock_cb_eq. up. togs. reflexivity.
  - rewrite clock_cb_eq. up. togs. reflexivity.
  - eapply ext_mono; [|apply (clock_cb_blk d _ w eq_refl)]. intros e; apply lowok_quiet.
Qed.

Lemma full_cb_cnt d w : cnt_inv d w -> cnt_inv d (snd (full_cb w)).
Proof.
  intros H. rewrite full_cb_eq. eapply cnt_quiet; [exact H| | |]; up; togs; try reflexivity.
  eapply ext_logs; [reflexivity|]. repeat constructor.
Qed.

Lemma open_core_counts d ts w :
  c_seq (w_c (open_core d ts w)) = c_seq (w_c w) /\ c_disc (w_c (open_core d ts w)) = c_disc (w_c w).
Proof.
  unfold open_core. destruct (_ && _); [split; reflexivity|].
  destruct (c_open (w_c w)); [split; reflexivity|].
  destruct (open_do_post d ts w) as [P _]. unfold open_post in P. intuition.
Qed.

Lemma open_fn_cnt d w : cnt_inv d w -> cnt_inv d (open_fn d w).
Proof.
  intros H.
  destruct (preamble_frame d w (has_member (d_pc d) "timestamp_begin")) as [S _].
  unfold same_packet in S.
  eapply cnt_quiet; [exact H| | |].
  - rewrite open_fn_eq. rewrite (proj1 (open_core_counts _ _ _)). intuition.
  - rewrite open_fn_eq. rewrite (proj2 (open_core_counts _ _ _)). intuition.
  - eapply ext_mono; [|apply (open_fn_blk d _ w eq_refl)]. intros e; apply lowok_quiet.
Qed.

Lemma cb_enter_cnt d k w : cnt_inv d w -> cnt_inv d (cb_enter k w).
Proof.
  intros H. unfold cb_enter. eapply cnt_quiet; [exact H| | |]; up; togs; try reflexivity.
  eapply ext_logs; [reflexivity|]. repeat constructor.
Qed.

Lemma open_cb_cnt d w : cnt_inv d w -> cnt_inv d (open_cb d w).
Proof. intros H. rewrite open_cb_eq. apply open_fn_cnt, cb_enter_cnt, H. Qed.

Lemma close_core_cases d ts w :
  close_core d ts w = w \/ (c_open (w_c w) = true /\ close_core d ts w = close_do d ts w).
Proof.
  unfold close_core.
  destruct (negb (c_enabled (w_c w)) && negb (c_in_ts (w_c w))) eqn:E1.
  - left. rewrite andb_true_iff, !negb_true_iff in E1. destruct E1 as [_ E1].
    rewrite <- E1 at 1. apply set_in_ts_id.
  - destruct (c_open (w_c w)) eqn:E2; cbn [negb]; [right; auto|left].
    apply set_in_ts_id2.
Qed.

Lemma open_core_cases d ts w :
  open_core d ts w = w \/ (c_open (w_c w) = false /\ open_core d ts w = open_do d ts w).
Proof.
  unfold open_core.
  destruct (negb (c_enabled (w_c w)) && negb (c_in_ts (w_c w))) eqn:E1.
  - left. rewrite andb_true_iff, !negb_true_iff in E1. destruct E1 as [_ E1].
    rewrite <- E1 at 1. apply set_in_ts_id.
  - destruct (c_open (w_c w)) eqn:E2; [left|right; auto].
    apply set_in_ts_id2.
Qed.

Lemma preamble_cnt d w f : cnt_inv d w -> cnt_inv d (snd (preamble_ts d w f)).
Proof.
  intros H. destruct (preamble_cases d w f) as [[E _]|[[E _]|[E _]]]; rewrite E; auto.
  apply clock_cb_cnt, H.
Qed.

Lemma close_cb_cnt d w : cnt_inv d w -> cnt_inv d (close_cb d w).
Proof.
  intros H. rewrite close_cb_eq, close_fn_eq.
  set (f := has_member (d_pc d) "timestamp_end").
  assert (H1 : cnt_inv d (snd (preamble_ts d (cb_enter 2 w) f))) by apply preamble_cnt, cb_enter_cnt, H.
  assert (O1 : c_open (w_c (snd (preamble_ts d (cb_enter 2 w) f))) = c_open (w_c w)).
  { destruct (preamble_frame d (cb_enter 2 w) f) as [S _]. unfold same_packet in S.
    replace (c_open (w_c w)) with (c_open (w_c (cb_enter 2 w))); [intuition|].
    unfold cb_enter; up; togs; reflexivity. }
  set (w1 := snd (preamble_ts d (cb_enter 2 w) f)) in *.
  set (ts := fst (preamble_ts d (cb_enter 2 w) f)).
  destruct (close_core_cases d ts w1) as [E|[Ho E]]; rewrite E.
  - unfold close_hand. rewrite O1. destruct (c_open (w_c w)); exact H1.
  - destruct (close_do_post d ts w1) as [P _]. destruct (close_do_blk d ts w1) as [_ X].
    set (w2 := close_do d ts w1) in *. unfold close_post in P.
    destruct P as [P1 [_ [_ [P4 [_ [_ [P7 _]]]]]]].
    unfold close_hand. rewrite <- O1, Ho, P1. cbn [andb negb].
    assert (C : cnt_inv d (logev w2 (EPacket (c_psize (w_c w2))
                                       (bytes_of_stream (d_bo d) (c_s (w_c w2)) (c_psize (w_c w2) / 8))))).
    { destruct H1 as [I1 I2]. destruct X as [seg [XE XF]].
      destruct (quiet_counts seg) as [Q1 Q2].
      { eapply Forall_impl; [|exact XF]. intros e; apply stok_quiet. }
      unfold cnt_inv. up. rewrite XE, !npk_app, !ndisc_app, Q1, Q2, P4, P7, I1, I2.
      destruct (has_member (d_pc d) "packet_seq_num"); cbn; split; lia. }
    destruct (a_newbuf (hd_ans w)); [|exact C].
    unfold cnt_inv in *. up. exact C.
Qed.

Lemma with_use_ts_cnt d f w :
  (forall w, cnt_inv d w -> cnt_inv d (f w)) -> cnt_inv d w -> cnt_inv d (with_use_ts f w).
Proof.
  intros Hf H. unfold with_use_ts.
  assert (H0 : cnt_inv d (set_c w (set_use_ts (w_c w) true))) by exact H.
  apply Hf in H0. exact H0.
Qed.

Lemma no_space_cnt d w : cnt_inv d w -> cnt_inv d (snd (no_space w)).
Proof.
  intros [I1 I2]. rewrite no_space_eq. unfold cnt_inv. up. rewrite npk_app, ndisc_app, I1, I2.
  cbn. destruct (has_member _ _); split; lia.
Qed.

Lemma fail_cnt d w n : cnt_inv d w -> cnt_inv d (fail w n).
Proof.
  intros H. eapply cnt_quiet; [exact H|reflexivity|reflexivity|].
  eapply ext_logs; [reflexivity|]. repeat constructor.
Qed.

Lemma reserve_cnt d w n : cnt_inv d w -> cnt_inv d (snd (reserve d w n)).
Proof.
  apply reserve_inv.
  - apply full_cb_cnt.
  - intros; apply with_use_ts_cnt; auto. apply open_cb_cnt.
  - intros; apply with_use_ts_cnt; auto. apply close_cb_cnt.
  - apply no_space_cnt.
  - intros; apply fail_cnt; auto.
Qed.

Lemma ser_parts_cnt d ps w : c_in_ts (w_c w) = true -> cnt_inv d w -> cnt_inv d (ser_parts d w ps).
Proof.
  intros Hin H. destruct (ser_parts_keep d ps w) as [K _]. unfold ser_keep in K.
  eapply cnt_quiet; [exact H| | |]; try (intuition; fail).
  eapply ext_mono; [|apply (ser_parts_blk d ps w Hin)]. intros e; apply stok_quiet.
Qed.

Lemma trace_fn_cnt d e args w : cnt_inv d w -> cnt_inv d (trace_fn d e args w).
Proof.
  intros H. rewrite trace_fn_eq.
  assert (H1 : cnt_inv d (trace_entry d w)).
  { unfold trace_entry. destruct (d_has_clock d); [|exact H]. exact (clock_cb_cnt d w H). }
  destruct (negb _); [exact H1|].
  unfold trace_body. cbv zeta. destruct (size_parts _ _); [|apply fail_cnt; exact H1].
  match goal with |- context [reserve d ?w0 ?n] =>
    pose proof (reserve_cnt d w0 n H1) as H2;
    destruct (reserve_blk d true w0 n eq_refl) as [A2 _]; set (r := reserve d w0 n) in * end.
  destruct (negb (fst r)); [exact H2|]. destruct (w_err (snd r)); [exact H2|].
  unfold trace_ser. cbv zeta.
  assert (H3 : cnt_inv d (trace_mark d (snd r)) /\ c_in_ts (w_c (trace_mark d (snd r))) = true).
  { unfold trace_mark. destruct (_ && _); [|auto]. split; [|exact A2].
    eapply cnt_quiet; [exact H2|reflexivity|reflexivity|].
    eapply ext_logs; [reflexivity|]. repeat constructor. }
  destruct H3 as [H3 A3].
  match goal with |- context [ser_parts d ?w1 ?ps] =>
    pose proof (ser_parts_cnt d ps w1 A3 H3) as H4; set (w4 := ser_parts d w1 ps) in * end.
  destruct (w_err w4); [exact H4|].
  unfold trace_commit. cbv zeta.
  destruct (_ =? _); [apply close_cb_cnt in H4|]; exact H4.
Qed.

Lemma step_cnt d w k : cnt_inv d w -> cnt_inv d (step d w k).
Proof.
  intros H. unfold step. destruct (w_err w); [exact H|].
  match goal with |- cnt_inv d (if w_err ?W then _ else _) =>
    assert (HW : cnt_inv d W); [|destruct (w_err W); [exact HW|]] end.
  2:{ eapply cnt_quiet; [exact HW|reflexivity|reflexivity|].
      eapply ext_logs; [reflexivity|]. repeat constructor. }
  destruct k as [ei args| | |b|].
  - destruct (nth_error (d_erts d) ei); [apply trace_fn_cnt, H|apply fail_cnt, H].
  - apply open_cb_cnt, H.
  - apply close_cb_cnt, H.
  - exact H.
  - destruct (_ && _); [apply close_cb_cnt, H|exact H].
Qed.

Theorem run_counts d buf pcargs oracle h :
  let w := run d buf pcargs oracle h in
  c_seq (w_c w) = (if has_member (d_pc d) "packet_seq_num" then npk (w_log w) else 0) /\
  c_disc (w_c w) = ndisc (w_log w).
Proof.
  unfold run. set (w0 := mk_w _ _ _ _ _ _).
  assert (H0 : cnt_inv d w0) by (unfold cnt_inv; cbn; destruct (has_member _ _); auto).
  clearbody w0. revert w0 H0. induction h as [|k h IH]; intros w0 H0; cbn [fold_left]; [exact H0|].
  apply IH, step_cnt, H0.
Qed.

(* ------------------------------------------------------------------ (e) finalisation idiom *)
Lemma tog_enabled_on a c : a_toggle a <> Some false -> c_enabled c = true -> c_enabled (tog a c) = true.
Proof. unfold tog. destruct (a_toggle a) as [[|]|]; intros H1 H2; try reflexivity; [congruence|exact H2]. Qed.

Lemma close_cb_closes d w :
  c_enabled (w_c w) = true ->
  a_toggle (hd default_ans (w_or w)) <> Some false ->
  a_toggle (hd default_ans (tl (w_or w))) <> Some false ->
  c_open (w_c (close_cb d w)) = false.
Proof.
  intros He T1 T2. rewrite close_cb_eq.
  set (w0 := cb_enter 2 w).
  assert (He0 : c_enabled (w_c w0) = true) by (unfold w0, cb_enter; up; apply tog_enabled_on; auto).
  assert (C : c_open (w_c (close_fn d w0)) = false).
  { destruct (c_open (w_c w0)) eqn:Eo.
    - apply (close_effective d w0 Eo). left.
      destruct (preamble_cases d w0 (has_member (d_pc d) "timestamp_end")) as [[E _]|[[E _]|[E _]]];
        rewrite E; try exact He0.
      rewrite clock_cb_eq. up. apply tog_enabled_on; auto.
    - rewrite close_noop; [|left; exact Eo].
      destruct (preamble_frame d w0 (has_member (d_pc d) "timestamp_end")) as [S _].
      unfold same_packet in S. intuition congruence. }
  unfold close_hand. destruct (_ && _); [|exact C].
  cbv zeta. destruct (a_newbuf _); up; exact C.
Qed.

Theorem fini_flushes d w :
  w_err w = false -> c_enabled (w_c w) = true ->
  a_toggle (hd default_ans (w_or w)) <> Some false ->
  a_toggle (hd default_ans (tl (w_or w))) <> Some false ->
  let w' := step d w CFini in
  c_open (w_c w') && negb (c_at (w_c w') <=? c_off_content (w_c w')) = false.
Proof.
  intros Hn He T1 T2. cbv zeta. unfold step. rewrite Hn.
  destruct (c_open (w_c w) && negb (c_at (w_c w) <=? c_off_content (w_c w))) eqn:Ec.
  - pose proof (close_cb_closes d w He T1 T2) as C.
    destruct (w_err (close_cb d w)); up; rewrite C; reflexivity.
  - rewrite Hn. up. exact Ec.
Qed.
