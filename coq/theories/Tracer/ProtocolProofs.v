(* C06: packet life cycle and accessors (proofs; statements in Props/C06.v). *)
From Coq Require Import List Arith Bool ZArith String Lia.
Import ListNotations.
From BT.Base Require Import Bits.
From BT.Layout Require Import Model.
From BT.Tracer Require Import Model Lemmas Spec FlagProofs.

(* ------------------------------------------------------------------ frames *)
(* what a serialization keeps: everything but the buffer, the position and the saved offsets *)
Definition ser_keep (c c' : ctx) : Prop :=
  c_psize c' = c_psize c /\ c_content c' = c_content c /\ c_off_content c' = c_off_content c /\
  c_disc c' = c_disc c /\ c_seq c' = c_seq c /\ c_open c' = c_open c /\ c_in_ts c' = c_in_ts c /\
  c_enabled c' = c_enabled c /\ c_use_ts c' = c_use_ts c /\ c_last_ts c' = c_last_ts c.
Definition env_keep (w w' : world) : Prop :=
  w_or w' = w_or w /\ w_clk w' = w_clk w /\ w_pcargs w' = w_pcargs w.

Lemma ser_keep_refl c : ser_keep c c. Proof. repeat split. Qed.
Lemma ser_keep_trans c1 c2 c3 : ser_keep c1 c2 -> ser_keep c2 c3 -> ser_keep c1 c3.
Proof. unfold ser_keep. intuition congruence. Qed.
Lemma env_keep_refl w : env_keep w w. Proof. repeat split. Qed.
Lemma env_keep_trans w1 w2 w3 : env_keep w1 w2 -> env_keep w2 w3 -> env_keep w1 w3.
Proof. unfold env_keep. intuition congruence. Qed.

Lemma do_ser_keep d w o v : ser_keep (w_c w) (w_c (do_ser d w o v)) /\ env_keep w (do_ser d w o v).
Proof. rewrite do_ser_eq. destruct (ser _ _ _ _ _ _); split; repeat split. Qed.

Lemma write_saved_keep d w n v :
  ser_keep (w_c w) (w_c (write_saved d w n v)) /\ env_keep w (write_saved d w n v) /\
  c_saved (w_c (write_saved d w n v)) = c_saved (w_c w).
Proof.
  unfold write_saved. destruct (has_member _ _); [|repeat split].
  destruct (pc_member_op d n) as [[al k size off| | | |]|]; try (repeat split; fail).
  destruct (skip_index _ _ _); try (repeat split; fail).
  cbv zeta.
  match goal with |- context [do_ser d ?w0 ?o ?v] =>
    destruct (do_ser_keep d w0 o v) as [K E]; set (w1 := do_ser d w0 o v) in * end.
  unfold ser_keep, env_keep in *. up. intuition.
Qed.

Lemma ser_parts_keep d ps w : ser_keep (w_c w) (w_c (ser_parts d w ps)) /\ env_keep w (ser_parts d w ps).
Proof.
  unfold ser_parts. revert w. induction ps as [|[o v] ps IH]; intros w; cbn [fold_left].
  - split; [apply ser_keep_refl|apply env_keep_refl].
  - destruct (w_err w); [apply IH|].
    destruct (do_ser_keep d w o v) as [K1 E1]. destruct (IH (do_ser d w o v)) as [K2 E2].
    split; [eapply ser_keep_trans; eauto|eapply env_keep_trans; eauto].
Qed.

(* the preamble: possibly one clock callback *)
Lemma preamble_frame d w f :
  let w1 := snd (preamble_ts d w f) in
  same_packet (w_c w) (w_c w1) /\ c_last_ts (w_c w1) = c_last_ts (w_c w) /\
  w_err w1 = w_err w /\ w_pcargs w1 = w_pcargs w.
Proof.
  destruct (preamble_cases d w f) as [[E _]|[[E _]|[E _]]]; rewrite E; cbv zeta;
    try (repeat split; fail).
  rewrite clock_cb_eq. up. unfold same_packet. up. togs. repeat split.
Qed.

Lemma set_in_ts_id w : set_c w (set_in_ts (w_c w) (c_in_ts (w_c w))) = w.
Proof. destruct w as [[] ? ? ? ? ?]; reflexivity. Qed.
Lemma set_in_ts_id2 w : set_c w (set_in_ts (set_in_ts (w_c w) true) (c_in_ts (w_c w))) = w.
Proof. destruct w as [[] ? ? ? ? ?]; reflexivity. Qed.

(* ------------------------------------------------------------------ (a) no-ops *)
Lemma open_core_noop d ts w :
  c_open (w_c w) = true \/ (c_enabled (w_c w) = false /\ c_in_ts (w_c w) = false) ->
  open_core d ts w = w.
Proof.
  intros H. unfold open_core.
  destruct (negb (c_enabled (w_c w)) && negb (c_in_ts (w_c w))) eqn:E1.
  - rewrite andb_true_iff, !negb_true_iff in E1. destruct E1 as [_ E1].
    rewrite <- E1 at 1. apply set_in_ts_id.
  - destruct H as [H|[H1 H2]].
    + rewrite H. apply set_in_ts_id2.
    + rewrite H1, H2 in E1. discriminate.
Qed.

Lemma close_core_noop d ts w :
  c_open (w_c w) = false \/ (c_enabled (w_c w) = false /\ c_in_ts (w_c w) = false) ->
  close_core d ts w = w.
Proof.
  intros H. unfold close_core.
  destruct (negb (c_enabled (w_c w)) && negb (c_in_ts (w_c w))) eqn:E1.
  - rewrite andb_true_iff, !negb_true_iff in E1. destruct E1 as [_ E1].
    rewrite <- E1 at 1. apply set_in_ts_id.
  - destruct H as [H|[H1 H2]].
    + rewrite H. apply set_in_ts_id2.
    + rewrite H1, H2 in E1. discriminate.
Qed.

(* open on an open packet (or from outside a tracing section with tracing disabled) is exactly the
   preamble: at most one clock callback, which may advance the clock, log its two events and
   toggle is_tracing_enabled; nothing else changes *)
Theorem open_noop d w :
  let w1 := snd (preamble_ts d w (has_member (d_pc d) "timestamp_begin")) in
  c_open (w_c w) = true \/ (c_enabled (w_c w1) = false /\ c_in_ts (w_c w) = false) ->
  open_fn d w = w1.
Proof.
  intros w1 H. rewrite open_fn_eq. apply open_core_noop.
  destruct (preamble_frame d w (has_member (d_pc d) "timestamp_begin")) as [S _].
  unfold same_packet in S. fold w1 in S. destruct H as [H|[H1 H2]]; [left|right; split; auto]; intuition congruence.
Qed.

Theorem close_noop d w :
  let w1 := snd (preamble_ts d w (has_member (d_pc d) "timestamp_end")) in
  c_open (w_c w) = false \/ (c_enabled (w_c w1) = false /\ c_in_ts (w_c w) = false) ->
  close_fn d w = w1.
Proof.
  intros w1 H. rewrite close_fn_eq. apply close_core_noop.
  destruct (preamble_frame d w (has_member (d_pc d) "timestamp_end")) as [S _].
  unfold same_packet in S. fold w1 in S. destruct H as [H|[H1 H2]]; [left|right; split; auto]; intuition congruence.
Qed.

(* ------------------------------------------------------------------ (b) effective open / close *)
Lemma open_do_post d ts w : open_post (w_c w) (w_c (open_do d ts w)) /\ env_keep w (open_do d ts w).
Proof.
  unfold open_do.
  assert (K2 : ser_keep (w_c (open_reset w)) (w_c (open_hdr d (open_reset w))) /\
               env_keep (open_reset w) (open_hdr d (open_reset w))).
  { unfold open_hdr. destruct (snd (ph_build d)); [apply do_ser_keep|].
    split; [apply ser_keep_refl|apply env_keep_refl]. }
  set (w2 := open_hdr d (open_reset w)) in *.
  assert (K3 : ser_keep (w_c w2) (w_c (open_mark d ts w2)) /\ env_keep w2 (open_mark d ts w2)).
  { unfold open_mark. destruct (_ && _); split; repeat split. }
  set (w3 := open_mark d ts w2) in *.
  match goal with |- context [open_pc d ts ?p ?s w3] =>
    pose proof (do_ser_keep d w3 (pc_op d) (VArr (pc_vals (s_mems (d_pc d)) p s ts (w_pcargs w3)))) as K4;
    fold (open_pc d ts p s w3) in K4; set (w4 := open_pc d ts p s w3) in * end.
  unfold open_post, ser_keep, env_keep, open_fin, open_reset in *. up.
  destruct K2 as [K2 E2], K3 as [K3 E3], K4 as [K4 E4]. up.
  repeat match goal with H : _ /\ _ |- _ => destruct H end. repeat split. all: congruence.
Qed.

Theorem open_effective d w :
  let w1 := snd (preamble_ts d w (has_member (d_pc d) "timestamp_begin")) in
  c_open (w_c w) = false -> (c_enabled (w_c w1) = true \/ c_in_ts (w_c w) = true) ->
  open_post (w_c w1) (w_c (open_fn d w)).
Proof.
  intros w1 Ho He. rewrite open_fn_eq.
  destruct (preamble_frame d w (has_member (d_pc d) "timestamp_begin")) as [S _].
  unfold same_packet in S. fold w1 in S.
  assert (Ho1 : c_open (w_c w1) = false) by intuition congruence.
  assert (He1 : c_enabled (w_c w1) = true \/ c_in_ts (w_c w1) = true)
    by (destruct He; [left|right]; intuition congruence).
  unfold open_core. fold w1.
  destruct (negb (c_enabled (w_c w1)) && negb (c_in_ts (w_c w1))) eqn:E1.
  { rewrite andb_true_iff, !negb_true_iff in E1. destruct E1, He1; congruence. }
  rewrite Ho1. apply open_do_post.
Qed.

Lemma close_ws_keep d ts w :
  ser_keep (w_c w) (w_c (close_ws d ts w)) /\ env_keep w (close_ws d ts w).
Proof.
  unfold close_ws. cbv zeta.
  destruct (write_saved_keep d w "timestamp_end" ts) as [K1 [E1 _]].
  set (w1 := write_saved d w "timestamp_end" ts) in *.
  destruct (write_saved_keep d w1 "content_size" (Z.of_nat (c_content (w_c w1)))) as [K2 [E2 _]].
  set (w2 := write_saved d w1 "content_size" (Z.of_nat (c_content (w_c w1)))) in *.
  destruct (write_saved_keep d w2 "events_discarded" (Z.of_nat (c_disc (w_c w2)))) as [K3 [E3 _]].
  split; [eapply ser_keep_trans; [eapply ser_keep_trans|]; eauto
         |eapply env_keep_trans; [eapply env_keep_trans|]; eauto].
Qed.

Lemma close_do_post d ts w : close_post d (w_c w) (w_c (close_do d ts w)) /\ env_keep w (close_do d ts w).
Proof.
  unfold close_do.
  assert (K2 : ser_keep (w_c (close_begin w)) (w_c (close_mark d ts (close_begin w))) /\
               env_keep (close_begin w) (close_mark d ts (close_begin w))).
  { unfold close_mark. destruct (_ && _); split; repeat split. }
  set (w2 := close_mark d ts (close_begin w)) in *.
  pose proof (close_ws_keep d ts w2) as K3. set (w3 := close_ws d ts w2) in *.
  unfold close_post, ser_keep, env_keep, close_fin, close_begin in *. up.
  destruct K2 as [K2 E2], K3 as [K3 E3]. up.
  repeat match goal with H : _ /\ _ |- _ => destruct H end.
  destruct (has_member (d_pc d) "packet_seq_num"); repeat split. all: congruence.
Qed.

Theorem close_effective d w :
  let w1 := snd (preamble_ts d w (has_member (d_pc d) "timestamp_end")) in
  c_open (w_c w) = true -> (c_enabled (w_c w1) = true \/ c_in_ts (w_c w) = true) ->
  close_post d (w_c w1) (w_c (close_fn d w)).
Proof.
  intros w1 Ho He. rewrite close_fn_eq.
  destruct (preamble_frame d w (has_member (d_pc d) "timestamp_end")) as [S _].
  unfold same_packet in S. fold w1 in S.
  assert (Ho1 : c_open (w_c w1) = true) by intuition congruence.
  assert (He1 : c_enabled (w_c w1) = true \/ c_in_ts (w_c w1) = true)
    by (destruct He; [left|right]; intuition congruence).
  unfold close_core. fold w1.
  destruct (negb (c_enabled (w_c w1)) && negb (c_in_ts (w_c w1))) eqn:E1.
  { rewrite andb_true_iff, !negb_true_iff in E1. destruct E1, He1; congruence. }
  rewrite Ho1. apply close_do_post.
Qed.

Lemma open_core_dec d ts w :
  ((c_enabled (w_c w) = false /\ c_in_ts (w_c w) = false) \/ c_open (w_c w) = true) /\ open_core d ts w = w \/
  (c_enabled (w_c w) = true \/ c_in_ts (w_c w) = true) /\ c_open (w_c w) = false /\
  open_core d ts w = open_do d ts w.
Proof.
  unfold open_core.
  destruct (c_enabled (w_c w)) eqn:E1, (c_in_ts (w_c w)) eqn:E3, (c_open (w_c w)) eqn:E2; cbn [negb andb];
    try (left; split; [auto|]; first [rewrite <- E3 at 1; apply set_in_ts_id | rewrite <- E3; apply set_in_ts_id2]);
    try (right; auto; fail).
Qed.

Lemma close_core_dec d ts w :
  ((c_enabled (w_c w) = false /\ c_in_ts (w_c w) = false) \/ c_open (w_c w) = false) /\ close_core d ts w = w \/
  (c_enabled (w_c w) = true \/ c_in_ts (w_c w) = true) /\ c_open (w_c w) = true /\
  close_core d ts w = close_do d ts w.
Proof.
  unfold close_core.
  destruct (c_enabled (w_c w)) eqn:E1, (c_in_ts (w_c w)) eqn:E3, (c_open (w_c w)) eqn:E2; cbn [negb andb];
    try (left; split; [auto|]; first [rewrite <- E3 at 1; apply set_in_ts_id | rewrite <- E3; apply set_in_ts_id2]);
    try (right; auto; fail).
Qed.

(* the opening function: either nothing happens to the packet state, or a packet is opened *)
Lemma open_fn_dec d w :
  let w' := open_fn d w in
  (c_open (w_c w') = c_open (w_c w) /\ c_at (w_c w') = c_at (w_c w) /\
   c_psize (w_c w') = c_psize (w_c w) /\ c_off_content (w_c w') = c_off_content (w_c w) /\
   (c_in_ts (w_c w) = true -> c_open (w_c w) = true)) \/
  (c_open (w_c w) = false /\ c_open (w_c w') = true /\ c_at (w_c w') = c_off_content (w_c w') /\
   c_psize (w_c w') = c_psize (w_c w)).
Proof.
  cbv zeta. rewrite open_fn_eq.
  destruct (preamble_frame d w (has_member (d_pc d) "timestamp_begin")) as [S _].
  unfold same_packet in S. set (w1 := snd (preamble_ts d w _)) in *.
  set (ts := fst (preamble_ts d w _)).
  destruct (open_core_dec d ts w1) as [[C E]|[C [Ho E]]]; rewrite E.
  - left. repeat split; try (intuition congruence).
    all: intros Hi; destruct C as [[_ C]|C]; intuition congruence.
  - right. destruct (open_do_post d ts w1) as [P _]. unfold open_post in P.
    repeat split; intuition congruence.
Qed.

Lemma close_give_pk d a w :
  c_open (w_c (close_give d a w)) = c_open (w_c w) /\
  c_in_ts (w_c (close_give d a w)) = c_in_ts (w_c w) /\
  c_disc (w_c (close_give d a w)) = c_disc (w_c w) /\ c_seq (w_c (close_give d a w)) = c_seq (w_c w) /\
  c_last_ts (w_c (close_give d a w)) = c_last_ts (w_c w) /\
  c_use_ts (w_c (close_give d a w)) = c_use_ts (w_c w) /\
  w_or (close_give d a w) = w_or w /\ w_err (close_give d a w) = w_err w /\
  (c_at (w_c w) = c_psize (w_c w) -> c_at (w_c (close_give d a w)) = c_psize (w_c (close_give d a w))).
Proof.
  unfold close_give. cbv zeta. destruct (a_newbuf a); up; repeat split; auto.
  intros E. rewrite E, Nat.eqb_refl. reflexivity.
Qed.

(* ------------------------------------------------------------------ (d) accessors = ghost counts *)
Definition quiet (e : ev) : Prop := match e with EPacket _ _ | EDisc => False | _ => True end.
Lemma lowok_quiet b e : lowok b e -> quiet e.
Proof. destruct e; cbn; auto. Qed.
Lemma stok_quiet e : stok e -> quiet e.
Proof. destruct e; cbn; auto. Qed.

Lemma npk_app l1 l2 : npk (l1 ++ l2) = npk l1 + npk l2.
Proof. unfold npk. rewrite filter_app, app_length. reflexivity. Qed.
Lemma ndisc_app l1 l2 : ndisc (l1 ++ l2) = ndisc l1 + ndisc l2.
Proof. unfold ndisc. rewrite filter_app, app_length. reflexivity. Qed.
Lemma quiet_counts l : Forall quiet l -> npk l = 0 /\ ndisc l = 0.
Proof.
  induction 1 as [|e l He _ [IH1 IH2]]; [split; reflexivity|].
  change (e :: l) with ([e] ++ l). rewrite npk_app, ndisc_app, IH1, IH2.
  destruct e; cbn in He; try contradiction; split; reflexivity.
Qed.

Definition cnt_inv (d : dstm) (w : world) : Prop :=
  c_seq (w_c w) = (if has_member (d_pc d) "packet_seq_num" then npk (w_log w) else 0) /\
  c_disc (w_c w) = ndisc (w_log w).

Lemma cnt_quiet d w w' :
  cnt_inv d w -> c_seq (w_c w') = c_seq (w_c w) -> c_disc (w_c w') = c_disc (w_c w) ->
  ext quiet w w' -> cnt_inv d w'.
Proof.
  intros [I1 I2] H1 H2 [seg [E F]]. destruct (quiet_counts seg F) as [Q1 Q2].
  unfold cnt_inv. rewrite E, npk_app, ndisc_app, Q1, Q2, !Nat.add_0_r, H1, H2. auto.
Qed.

Lemma clock_cb_cnt d w : cnt_inv d w -> cnt_inv d (snd (clock_cb d w)).
Proof.
  intros H. eapply cnt_quiet; [exact H| | |].
  - rewrite clock_cb_eq. up. togs. reflexivity.
  - rewrite clock_cb_eq. up. togs. reflexivity.
  - eapply ext_mono; [|apply (clock_cb_blk d _ w eq_refl)]. intros e; apply lowok_quiet.
Qed.

Lemma full_cb_cnt d w : cnt_inv d w -> cnt_inv d (snd (full_cb w)).
Proof.
  intros H. rewrite full_cb_eq. eapply cnt_quiet; [exact H| | |]; up; togs; try reflexivity.
  eapply ext_logs; [reflexivity|]. repeat constructor.
Qed.

Lemma open_core_counts d ts w :
  c_seq (w_c (open_core d ts w)) = c_seq (w_c w) /\ c_disc (w_c (open_core d ts w)) = c_disc (w_c w).
Proof.
  unfold open_core. destruct (_ && _); [split; reflexivity|].
  destruct (c_open (w_c w)); [split; reflexivity|].
  destruct (open_do_post d ts w) as [P _]. unfold open_post in P. intuition.
Qed.

Lemma open_fn_cnt d w : cnt_inv d w -> cnt_inv d (open_fn d w).
Proof.
  intros H.
  destruct (preamble_frame d w (has_member (d_pc d) "timestamp_begin")) as [S _].
  unfold same_packet in S.
  eapply cnt_quiet; [exact H| | |].
  - rewrite open_fn_eq. rewrite (proj1 (open_core_counts _ _ _)). intuition.
  - rewrite open_fn_eq. rewrite (proj2 (open_core_counts _ _ _)). intuition.
  - eapply ext_mono; [|apply (open_fn_blk d _ w eq_refl)]. intros e; apply lowok_quiet.
Qed.

Lemma cb_enter_cnt d k w : cnt_inv d w -> cnt_inv d (cb_enter k w).
Proof.
  intros H. unfold cb_enter. eapply cnt_quiet; [exact H| | |]; up; togs; try reflexivity.
  eapply ext_logs; [reflexivity|]. repeat constructor.
Qed.

Lemma open_cb_cnt d w : cnt_inv d w -> cnt_inv d (open_cb d w).
Proof. intros H. rewrite open_cb_eq. apply open_fn_cnt, cb_enter_cnt, H. Qed.

Lemma close_core_cases d ts w :
  close_core d ts w = w \/ (c_open (w_c w) = true /\ close_core d ts w = close_do d ts w).
Proof.
  unfold close_core.
  destruct (negb (c_enabled (w_c w)) && negb (c_in_ts (w_c w))) eqn:E1.
  - left. rewrite andb_true_iff, !negb_true_iff in E1. destruct E1 as [_ E1].
    rewrite <- E1 at 1. apply set_in_ts_id.
  - destruct (c_open (w_c w)) eqn:E2; cbn [negb]; [right; auto|left].
    apply set_in_ts_id2.
Qed.

Lemma open_core_cases d ts w :
  open_core d ts w = w \/ (c_open (w_c w) = false /\ open_core d ts w = open_do d ts w).
Proof.
  unfold open_core.
  destruct (negb (c_enabled (w_c w)) && negb (c_in_ts (w_c w))) eqn:E1.
  - left. rewrite andb_true_iff, !negb_true_iff in E1. destruct E1 as [_ E1].
    rewrite <- E1 at 1. apply set_in_ts_id.
  - destruct (c_open (w_c w)) eqn:E2; [left|right; auto].
    apply set_in_ts_id2.
Qed.

Lemma preamble_cnt d w f : cnt_inv d w -> cnt_inv d (snd (preamble_ts d w f)).
Proof.
  intros H. destruct (preamble_cases d w f) as [[E _]|[[E _]|[E _]]]; rewrite E; auto.
  apply clock_cb_cnt, H.
Qed.

Lemma close_cb_cnt d w : cnt_inv d w -> cnt_inv d (close_cb d w).
Proof.
  intros H. rewrite close_cb_eq, close_fn_eq.
  set (f := has_member (d_pc d) "timestamp_end").
  assert (H1 : cnt_inv d (snd (preamble_ts d (cb_enter 2 w) f))) by apply preamble_cnt, cb_enter_cnt, H.
  assert (O1 : c_open (w_c (snd (preamble_ts d (cb_enter 2 w) f))) = c_open (w_c w)).
  { destruct (preamble_frame d (cb_enter 2 w) f) as [S _]. unfold same_packet in S.
    replace (c_open (w_c w)) with (c_open (w_c (cb_enter 2 w))); [intuition|].
    unfold cb_enter; up; togs; reflexivity. }
  set (w1 := snd (preamble_ts d (cb_enter 2 w) f)) in *.
  set (ts := fst (preamble_ts d (cb_enter 2 w) f)).
  destruct (close_core_cases d ts w1) as [E|[Ho E]]; rewrite E.
  - unfold close_hand. rewrite O1. destruct (c_open (w_c w)); exact H1.
  - destruct (close_do_post d ts w1) as [P _]. destruct (close_do_blk d ts w1) as [_ X].
    set (w2 := close_do d ts w1) in *. unfold close_post in P.
    destruct P as [P1 [_ [_ [P4 [_ [_ [P7 _]]]]]]].
    unfold close_hand. rewrite <- O1, Ho, P1. cbn [andb negb].
    assert (C : cnt_inv d (close_give d (hd_ans w) w2)).
    { assert (C0 : cnt_inv d (logev w2 (EPacket (c_psize (w_c w2))
                                       (bytes_of_stream (d_bo d) (c_s (w_c w2)) (c_psize (w_c w2) / 8))))).
      { destruct H1 as [I1 I2]. destruct X as [seg [XE XF]].
        destruct (quiet_counts seg) as [Q1 Q2].
        { eapply Forall_impl; [|exact XF]. intros e; apply stok_quiet. }
        unfold cnt_inv. up. rewrite XE, !npk_app, !ndisc_app, Q1, Q2, P4, P7, I1, I2.
        destruct (has_member (d_pc d) "packet_seq_num"); cbn; split; lia. }
      unfold close_give. cbv zeta. destruct (a_newbuf (hd_ans w)); [|exact C0].
      unfold cnt_inv in *. up. exact C0. }
    destruct (a_eager (hd_ans w)); [apply open_fn_cnt|]; exact C.
Qed.

Lemma with_use_ts_cnt d f w :
  (forall w, cnt_inv d w -> cnt_inv d (f w)) -> cnt_inv d w -> cnt_inv d (with_use_ts f w).
Proof.
  intros Hf H. unfold with_use_ts.
  assert (H0 : cnt_inv d (set_c w (set_use_ts (w_c w) true))) by exact H.
  apply Hf in H0. exact H0.
Qed.

Lemma no_space_cnt d w : cnt_inv d w -> cnt_inv d (snd (no_space w)).
Proof.
  intros [I1 I2]. rewrite no_space_eq. unfold cnt_inv. up. rewrite npk_app, ndisc_app, I1, I2.
  cbn. destruct (has_member _ _); split; lia.
Qed.

Lemma fail_cnt d w n : cnt_inv d w -> cnt_inv d (fail w n).
Proof.
  intros H. eapply cnt_quiet; [exact H|reflexivity|reflexivity|].
  eapply ext_logs; [reflexivity|]. repeat constructor.
Qed.

Lemma reserve_cnt d w n : cnt_inv d w -> cnt_inv d (snd (reserve d w n)).
Proof.
  apply reserve_inv.
  - apply full_cb_cnt.
  - intros; apply with_use_ts_cnt; auto. apply open_cb_cnt.
  - intros; apply with_use_ts_cnt; auto. apply close_cb_cnt.
  - apply no_space_cnt.
Qed.

Lemma ser_parts_cnt d ps w : c_in_ts (w_c w) = true -> cnt_inv d w -> cnt_inv d (ser_parts d w ps).
Proof.
  intros Hin H. destruct (ser_parts_keep d ps w) as [K _]. unfold ser_keep in K.
  eapply cnt_quiet; [exact H| | |]; try (intuition; fail).
  eapply ext_mono; [|apply (ser_parts_blk d ps w Hin)]. intros e; apply stok_quiet.
Qed.

Lemma trace_fn_cnt d e args w : cnt_inv d w -> cnt_inv d (trace_fn d e args w).
Proof.
  intros H. rewrite trace_fn_eq.
  assert (H1 : cnt_inv d (trace_entry d w)).
  { unfold trace_entry. destruct (d_has_clock d); [|exact H]. exact (clock_cb_cnt d w H). }
  destruct (negb _); [exact H1|].
  unfold trace_body. cbv zeta. destruct (size_parts _ _); [|apply fail_cnt; exact H1].
  match goal with |- context [reserve d ?w0 ?n] =>
    pose proof (reserve_cnt d w0 n H1) as H2;
    destruct (reserve_blk d true w0 n eq_refl) as [A2 _]; set (r := reserve d w0 n) in * end.
  destruct (negb (fst r)); [exact H2|]. destruct (w_err (snd r)); [exact H2|].
  match goal with |- context [trace_recheck d e args ?a ?x] =>
    destruct (trace_recheck_cases d e args a x) as [C|[C|(_ & a2 & _ & _ & C)]]; rewrite C; cbn [fst snd negb] end;
    [|apply fail_cnt; exact H2|exact (no_space_cnt d _ H2)].
  unfold trace_ser. cbv zeta.
  assert (H3 : cnt_inv d (trace_mark d (snd r)) /\ c_in_ts (w_c (trace_mark d (snd r))) = true).
  { unfold trace_mark. destruct (_ && _); [|auto]. split; [|exact A2].
    eapply cnt_quiet; [exact H2|reflexivity|reflexivity|].
    eapply ext_logs; [reflexivity|]. repeat constructor. }
  destruct H3 as [H3 A3].
  match goal with |- context [ser_parts d ?w1 ?ps] =>
    pose proof (ser_parts_cnt d ps w1 A3 H3) as H4; set (w4 := ser_parts d w1 ps) in * end.
  destruct (w_err w4); [exact H4|].
  unfold trace_commit. cbv zeta.
  destruct (_ =? _); [apply close_cb_cnt in H4|]; exact H4.
Qed.

Lemma step_cnt d w k : cnt_inv d w -> cnt_inv d (step d w k).
Proof.
  intros H. unfold step. destruct (w_err w); [exact H|].
  match goal with |- cnt_inv d (if w_err ?W then _ else _) =>
    assert (HW : cnt_inv d W); [|destruct (w_err W); [exact HW|]] end.
  2:{ eapply cnt_quiet; [exact HW|reflexivity|reflexivity|].
      eapply ext_logs; [reflexivity|]. repeat constructor. }
  destruct k as [ei args| | |b|].
  - destruct (nth_error (d_erts d) ei); [apply trace_fn_cnt, H|apply fail_cnt, H].
  - apply open_cb_cnt, H.
  - apply close_cb_cnt, H.
  - exact H.
  - destruct (_ && _); [apply close_cb_cnt, H|exact H].
Qed.

Theorem run_counts d buf pcargs oracle h :
  let w := run d buf pcargs oracle h in
  c_seq (w_c w) = (if has_member (d_pc d) "packet_seq_num" then npk (w_log w) else 0) /\
  c_disc (w_c w) = ndisc (w_log w).
Proof.
  unfold run. set (w0 := mk_w _ _ _ _ _ _).
  assert (H0 : cnt_inv d w0) by (unfold cnt_inv; cbn; destruct (has_member _ _); auto).
  clearbody w0. revert w0 H0. induction h as [|k h IH]; intros w0 H0; cbn [fold_left]; [exact H0|].
  apply IH, step_cnt, H0.
Qed.

(* ------------------------------------------------------------------ (e) finalisation idiom *)
Lemma tog_enabled_on a c : a_toggle a <> Some false -> c_enabled c = true -> c_enabled (tog a c) = true.
Proof. unfold tog. destruct (a_toggle a) as [[|]|]; intros H1 H2; try reflexivity; [congruence|exact H2]. Qed.

Lemma close_cb_closes d w :
  c_enabled (w_c w) = true ->
  a_toggle (hd default_ans (w_or w)) <> Some false ->
  a_toggle (hd default_ans (tl (w_or w))) <> Some false ->
  c_open (w_c (close_cb d w)) = false \/ c_at (w_c (close_cb d w)) = c_off_content (w_c (close_cb d w)).
Proof.
  intros He T1 T2. rewrite close_cb_eq.
  set (w0 := cb_enter 2 w).
  assert (He0 : c_enabled (w_c w0) = true) by (unfold w0, cb_enter; up; apply tog_enabled_on; auto).
  assert (C : c_open (w_c (close_fn d w0)) = false).
  { destruct (c_open (w_c w0)) eqn:Eo.
    - apply (close_effective d w0 Eo). left.
      destruct (preamble_cases d w0 (has_member (d_pc d) "timestamp_end")) as [[E _]|[[E _]|[E _]]];
        rewrite E; try exact He0.
      rewrite clock_cb_eq. up. apply tog_enabled_on; auto.
    - rewrite close_noop; [|left; exact Eo].
      destruct (preamble_frame d w0 (has_member (d_pc d) "timestamp_end")) as [S _].
      unfold same_packet in S. intuition congruence. }
  unfold close_hand. destruct (_ && _); [|left; exact C].
  destruct (close_give_pk d (hd_ans w) (close_fn d w0)) as [G _]. rewrite C in G.
  destruct (a_eager _); [|left; exact G].
  destruct (open_fn_dec d (close_give d (hd_ans w) (close_fn d w0))) as [[O _]|[_ [_ [A _]]]].
  - left. congruence.
  - right. exact A.
Qed.

Theorem fini_flushes d w :
  w_err w = false -> c_enabled (w_c w) = true ->
  a_toggle (hd default_ans (w_or w)) <> Some false ->
  a_toggle (hd default_ans (tl (w_or w))) <> Some false ->
  let w' := step d w CFini in
  c_open (w_c w') && negb (c_at (w_c w') <=? c_off_content (w_c w')) = false.
Proof.
  intros Hn He T1 T2. cbv zeta. unfold step. rewrite Hn.
  destruct (c_open (w_c w) && negb (c_at (w_c w) <=? c_off_content (w_c w))) eqn:Ec.
  - assert (C : c_open (w_c (close_cb d w)) &&
                negb (c_at (w_c (close_cb d w)) <=? c_off_content (w_c (close_cb d w))) = false).
    { destruct (close_cb_closes d w He T1 T2) as [C|C]; rewrite C;
        [reflexivity|rewrite Nat.leb_refl; apply andb_false_r]. }
    destruct (w_err (close_cb d w)); up; exact C.
  - rewrite Hn. up. exact Ec.
Qed.

(* ------------------------------------------------------------------ (c) callback protocol *)
Fixpoint last_ans (la : option bool) (l : list ev) : option bool :=
  match l with [] => la | EAns f :: l => last_ans (Some f) l | _ :: l => last_ans la l end.

Lemma proto_app la l1 l2 : proto la (l1 ++ l2) <-> proto la l1 /\ proto (last_ans la l1) l2.
Proof.
  revert la. induction l1 as [|e l1 IH]; intros la; [cbn; tauto|].
  destruct e as [k f o| | | | | | | |]; [destruct f|..]; cbn; rewrite ?IH; tauto.
Qed.

Definition pneutral (seg : list ev) : Prop := forall la, proto la seg.
Lemma pneutral_app s1 s2 : pneutral s1 -> pneutral s2 -> pneutral (s1 ++ s2).
Proof. intros H1 H2 la. apply proto_app. split; [apply H1|apply H2]. Qed.

Definition pn1 (e : ev) : Prop := match e with ECb k f _ => f = false \/ k = 3 | _ => True end.
Lemma pn1_seg seg : Forall pn1 seg -> pneutral seg.
Proof.
  induction 1 as [|e l He _ IH]; intros la; [exact I|].
  destruct e as [k f o| | | | | | | |]; try apply IH.
  destruct f; [|apply IH]. cbn in He. destruct He as [He|He]; [discriminate|]. subst k.
  cbn. split; [discriminate|]. split; [discriminate|apply IH].
Qed.
Lemma midok_pn1 b e : midok b e -> pn1 e.
Proof. destruct e; cbn; auto. intros [H _]; auto. Qed.
Lemma lowok_pn1 b e : lowok b e -> pn1 e.
Proof. intros; eapply midok_pn1, lowok_midok; eauto. Qed.
Lemma stok_pn1 e : stok e -> pn1 e.
Proof. intros; eapply (lowok_pn1 true), stok_lowok; eauto. Qed.
Lemma evok_false_pn1 e : evok false e -> pn1 e.
Proof. destruct e; cbn; auto. Qed.

Definition extn (w w' : world) : Prop := exists seg, w_log w' = w_log w ++ seg /\ pneutral seg.
Lemma extn_refl w : extn w w.
Proof. exists []. rewrite app_nil_r. split; [reflexivity|intros la; exact I]. Qed.
Lemma extn_trans w1 w2 w3 : extn w1 w2 -> extn w2 w3 -> extn w1 w3.
Proof.
  intros [s1 [E1 F1]] [s2 [E2 F2]]. exists (s1 ++ s2). split; [|apply pneutral_app; auto].
  rewrite E2, E1, app_assoc. reflexivity.
Qed.
Lemma ext_extn (P : ev -> Prop) w w' : (forall e, P e -> pn1 e) -> ext P w w' -> extn w w'.
Proof.
  intros H [seg [E F]]. exists seg. split; [exact E|]. apply pn1_seg.
  eapply Forall_impl; [|exact F]. exact H.
Qed.
Lemma extn_eq_log w1 w1' w2 : w_log w1' = w_log w1 -> extn w1' w2 -> extn w1 w2.
Proof. intros H [s [E F]]. exists s. rewrite <- H. auto. Qed.
Lemma extn_eq_log_r w1 w2 w2' : w_log w2' = w_log w2 -> extn w1 w2 -> extn w1 w2'.
Proof. intros H [s [E F]]. exists s. rewrite H. auto. Qed.

(* packet state invariant: an open packet is full only when its header fills the whole buffer; a
   closed packet is in the "full" state *)
Definition KK (w : world) : Prop :=
  (c_open (w_c w) = true -> c_at (w_c w) = c_psize (w_c w) -> c_off_content (w_c w) = c_psize (w_c w)) /\
  (c_open (w_c w) = false -> c_at (w_c w) = c_psize (w_c w)).

Lemma KK_same w w' :
  KK w -> c_open (w_c w') = c_open (w_c w) -> c_at (w_c w') = c_at (w_c w) ->
  c_psize (w_c w') = c_psize (w_c w) -> c_off_content (w_c w') = c_off_content (w_c w) -> KK w'.
Proof. unfold KK. intros [K1 K2] -> -> -> ->. auto. Qed.

Lemma cb_enter_pk k w :
  c_open (w_c (cb_enter k w)) = c_open (w_c w) /\ c_at (w_c (cb_enter k w)) = c_at (w_c w) /\
  c_psize (w_c (cb_enter k w)) = c_psize (w_c w) /\
  c_off_content (w_c (cb_enter k w)) = c_off_content (w_c w) /\
  c_in_ts (w_c (cb_enter k w)) = c_in_ts (w_c w).
Proof. unfold cb_enter; up; togs; repeat split. Qed.

(* the opening callback: either nothing happens to the packet state, or a packet is opened *)
Lemma open_cb_dec d w :
  let w' := open_cb d w in
  (c_open (w_c w') = c_open (w_c w) /\ c_at (w_c w') = c_at (w_c w) /\
   c_psize (w_c w') = c_psize (w_c w) /\ c_off_content (w_c w') = c_off_content (w_c w) /\
   (c_in_ts (w_c w) = true -> c_open (w_c w) = true)) \/
  (c_open (w_c w) = false /\ c_open (w_c w') = true /\ c_at (w_c w') = c_off_content (w_c w') /\
   c_psize (w_c w') = c_psize (w_c w)).
Proof.
  cbv zeta. rewrite open_cb_eq.
  destruct (cb_enter_pk 1 w) as [O0 [A0 [P0 [F0 I0]]]].
  destruct (open_fn_dec d (cb_enter 1 w)) as [[O [A [P [F X]]]]|[O [O' [A P]]]].
  - left. repeat split; try congruence. intros Hi. rewrite <- O0. apply X. congruence.
  - right. repeat split; congruence.
Qed.

(* the closing callback: nothing happens to the packet state, or the packet is closed, or (eager
   platform) it is closed and the next one is opened by the platform at once *)
Lemma close_cb_dec d w :
  let w' := close_cb d w in
  (c_open (w_c w') = c_open (w_c w) /\ c_at (w_c w') = c_at (w_c w) /\
   c_psize (w_c w') = c_psize (w_c w) /\ c_off_content (w_c w') = c_off_content (w_c w) /\
   (c_in_ts (w_c w) = true -> c_open (w_c w) = false)) \/
  (c_open (w_c w) = true /\ c_open (w_c w') = false /\ c_at (w_c w') = c_psize (w_c w')) \/
  (c_open (w_c w) = true /\ a_eager (hd_ans w) = true /\
   c_open (w_c w') = true /\ c_at (w_c w') = c_off_content (w_c w')).
Proof.
  cbv zeta. rewrite close_cb_eq, close_fn_eq.
  destruct (cb_enter_pk 2 w) as [O0 [A0 [P0 [F0 I0]]]].
  destruct (preamble_frame d (cb_enter 2 w) (has_member (d_pc d) "timestamp_end")) as [S _].
  unfold same_packet in S. set (w1 := snd (preamble_ts d (cb_enter 2 w) _)) in *.
  set (ts := fst (preamble_ts d (cb_enter 2 w) _)).
  assert (O1 : c_open (w_c w1) = c_open (w_c w)) by (intuition congruence).
  destruct (close_core_dec d ts w1) as [[C E]|[C [Ho E]]]; rewrite E.
  - left. unfold close_hand. rewrite O1. destruct (c_open (w_c w)) eqn:Eo; cbn [andb negb].
    + repeat split; try (intuition congruence).
      all: intros Hi; destruct C as [[_ C]|C]; intuition congruence.
    + repeat split; intuition congruence.
  - right. destruct (close_do_post d ts w1) as [P _]. unfold close_post in P.
    destruct P as [P1 [P2 _]]. set (w2 := close_do d ts w1) in *.
    unfold close_hand. rewrite <- O1, Ho, P1. cbn [andb negb].
    destruct (close_give_pk d (hd_ans w) w2) as [G1 [_ [_ [_ [_ [_ [_ [_ G9]]]]]]]].
    specialize (G9 P2). rewrite P1 in G1.
    destruct (a_eager (hd_ans w)) eqn:Ee; [|left; auto].
    destruct (open_fn_dec d (close_give d (hd_ans w) w2)) as [[O [A [P [F _]]]]|[_ [O [A _]]]].
    + left. split; [reflexivity|]. split; congruence.
    + right. auto.
Qed.

Lemma open_cb_KK d w : KK w -> KK (open_cb d w).
Proof.
  intros K. destruct (open_cb_dec d w) as [[O [A [P [F _]]]]|[_ [O [A _]]]].
  - eapply KK_same; eauto.
  - split; [intros _ H; congruence|congruence].
Qed.
Lemma close_cb_KK d w : KK w -> KK (close_cb d w).
Proof.
  intros K. destruct (close_cb_dec d w) as [[O [A [P [F _]]]]|[[_ [O A]]|[_ [_ [O A]]]]].
  - eapply KK_same; eauto.
  - split; [congruence|auto].
  - split; [intros _ H; congruence|congruence].
Qed.

(* KK /\ flag = 1 is kept by every block used inside _reserve_er_space *)
Definition KKin (w : world) : Prop := KK w /\ c_in_ts (w_c w) = true.

Lemma reserve_KKin d w n : KKin w -> KKin (snd (reserve d w n)).
Proof.
  intros [K Hi]. split; [|apply (reserve_blk d true w n Hi)].
  revert K. apply reserve_inv; intros w' K'.
  - rewrite full_cb_eq. eapply KK_same; [exact K'|..]; up; togs; reflexivity.
  - unfold with_use_ts.
    match goal with |- KK (set_c (open_cb d ?w0) _) =>
      assert (K0 : KK (open_cb d w0)) by (apply open_cb_KK; exact K'); exact K0 end.
  - unfold with_use_ts.
    match goal with |- KK (set_c (close_cb d ?w0) _) =>
      assert (K0 : KK (close_cb d w0)) by (apply close_cb_KK; exact K'); exact K0 end.
  - exact K'.
Qed.

(* tracer-initiated callbacks, precise shape *)
Lemma wopen d w :
  c_in_ts (w_c w) = true -> c_open (w_c w) = false ->
  let w' := with_use_ts (open_cb d) w in
  c_open (w_c w') = true /\ c_in_ts (w_c w') = true /\
  exists seg, w_log w' = w_log w ++ ECb 1 true false :: seg /\ Forall (lowok true) seg.
Proof.
  intros Hi Ho. cbv zeta. unfold with_use_ts. set (w0 := set_c w (set_use_ts (w_c w) true)).
  destruct (open_cb_shape d true w0 Hi) as [A [seg [E F]]].
  destruct (open_cb_dec d w0) as [[_ [_ [_ [_ X]]]]|[_ [O _]]].
  - specialize (X Hi). unfold w0 in X. up. congruence.
  - up. split; [exact O|]. split; [exact A|]. exists seg. split; [|exact F].
    rewrite E. unfold w0. up. rewrite Ho. reflexivity.
Qed.

Lemma close_cb_in d w :
  c_in_ts (w_c w) = true -> c_open (w_c w) = true ->
  (a_eager (hd_ans w) = false -> c_open (w_c (close_cb d w)) = false) /\
  c_in_ts (w_c (close_cb d w)) = true /\
  exists seg, w_log (close_cb d w) = w_log w ++ ECb 2 true true :: seg /\ Forall (midok true) seg.
Proof.
  intros Hi Ho.
  destruct (close_cb_shape d true w Hi) as [A [seg [E F]]].
  split; [|split; [exact A|]].
  - intros Hne. destruct (close_cb_dec d w) as [[_ [_ [_ [_ X]]]]|[[_ [O _]]|[_ [X _]]]].
    + specialize (X Hi). congruence.
    + exact O.
    + congruence.
  - exists seg. split; [|exact F]. rewrite E, Ho. reflexivity.
Qed.

Lemma wclose d w :
  c_in_ts (w_c w) = true -> c_open (w_c w) = true ->
  let w' := with_use_ts (close_cb d) w in
  (a_eager (hd_ans w) = false -> c_open (w_c w') = false) /\ c_in_ts (w_c w') = true /\
  exists seg, w_log w' = w_log w ++ ECb 2 true true :: seg /\ Forall (midok true) seg.
Proof.
  intros Hi Ho. cbv zeta. unfold with_use_ts. set (w0 := set_c w (set_use_ts (w_c w) true)).
  destruct (close_cb_in d w0 Hi Ho) as [O [A X]]. up. auto.
Qed.

(* ---- oracle consumption: the remaining answers are always a suffix of the previous ones *)
Definition orsuf (w w' : world) : Prop := exists pre, w_or w = pre ++ w_or w'.
Lemma orsuf_refl w : orsuf w w. Proof. exists []. reflexivity. Qed.
Lemma orsuf_same w w' : w_or w' = w_or w -> orsuf w w'.
Proof. intros H. exists []. rewrite H. reflexivity. Qed.
Lemma orsuf_tl w w' : w_or w' = tl (w_or w) -> orsuf w w'.
Proof. intros H. unfold orsuf. rewrite H. destruct (w_or w) as [|a l]; [exists []|exists [a]]; reflexivity. Qed.
Lemma orsuf_trans w1 w2 w3 : orsuf w1 w2 -> orsuf w2 w3 -> orsuf w1 w3.
Proof. intros [p1 E1] [p2 E2]. exists (p1 ++ p2). rewrite E1, E2, app_assoc. reflexivity. Qed.

Lemma clock_cb_orsuf d w : orsuf w (snd (clock_cb d w)).
Proof. apply orsuf_tl. rewrite clock_cb_eq. reflexivity. Qed.
Lemma full_cb_orsuf w : orsuf w (snd (full_cb w)).
Proof. apply orsuf_tl. rewrite full_cb_eq. reflexivity. Qed.
Lemma cb_enter_orsuf k w : orsuf w (cb_enter k w).
Proof. apply orsuf_tl. reflexivity. Qed.
Lemma preamble_orsuf d w f : orsuf w (snd (preamble_ts d w f)).
Proof.
  destruct (preamble_cases d w f) as [[E _]|[[E _]|[E _]]]; rewrite E; try apply orsuf_refl.
  apply clock_cb_orsuf.
Qed.
Lemma open_fn_orsuf d w : orsuf w (open_fn d w).
Proof.
  rewrite open_fn_eq. eapply orsuf_trans; [apply preamble_orsuf|].
  match goal with |- orsuf ?w1 (open_core d ?ts _) =>
    destruct (open_core_cases d ts w1) as [E|[_ E]]; rewrite E; [apply orsuf_refl|];
    apply orsuf_same, (open_do_post d ts w1) end.
Qed.
Lemma close_fn_orsuf d w : orsuf w (close_fn d w).
Proof.
  rewrite close_fn_eq. eapply orsuf_trans; [apply preamble_orsuf|].
  match goal with |- orsuf ?w1 (close_core d ?ts _) =>
    destruct (close_core_cases d ts w1) as [E|[_ E]]; rewrite E; [apply orsuf_refl|];
    apply orsuf_same, (close_do_post d ts w1) end.
Qed.
Lemma open_cb_orsuf d w : orsuf w (open_cb d w).
Proof. rewrite open_cb_eq. eapply orsuf_trans; [apply cb_enter_orsuf|apply open_fn_orsuf]. Qed.
Lemma close_cb_orsuf d w : orsuf w (close_cb d w).
Proof.
  rewrite close_cb_eq. eapply orsuf_trans; [apply cb_enter_orsuf|].
  eapply orsuf_trans; [apply close_fn_orsuf|].
  unfold close_hand. destruct (_ && _); [|apply orsuf_refl].
  match goal with |- context [close_give d ?a ?x] =>
    assert (G : orsuf x (close_give d a x)) by (apply orsuf_same, close_give_pk) end.
  destruct (a_eager _); [|exact G]. eapply orsuf_trans; [exact G|apply open_fn_orsuf].
Qed.
Lemma with_use_ts_orsuf f w : (forall w, orsuf w (f w)) -> orsuf w (with_use_ts f w).
Proof.
  intros Hf. unfold with_use_ts.
  destruct (Hf (set_c w (set_use_ts (w_c w) true))) as [pre E]. exists pre. exact E.
Qed.
Lemma reserve_orsuf d w n : orsuf w (snd (reserve d w n)).
Proof.
  apply (reserve_inv d (fun w' => orsuf w w')); try apply orsuf_refl; intros w' H.
  - eapply orsuf_trans; [exact H|apply full_cb_orsuf].
  - eapply orsuf_trans; [exact H|apply with_use_ts_orsuf, open_cb_orsuf].
  - eapply orsuf_trans; [exact H|apply with_use_ts_orsuf, close_cb_orsuf].
  - exact H.
Qed.
Lemma trace_fn_orsuf d e args w : orsuf w (trace_fn d e args w).
Proof.
  rewrite trace_fn_eq.
  assert (H1 : orsuf w (trace_entry d w)).
  { unfold trace_entry. destruct (d_has_clock d); [|apply orsuf_refl].
    destruct (clock_cb_orsuf d w) as [pre E]. exists pre. exact E. }
  destruct (negb _); [exact H1|]. eapply orsuf_trans; [exact H1|].
  set (w1 := trace_entry d w). unfold trace_body. cbv zeta.
  destruct (size_parts _ _); [|apply orsuf_same; reflexivity].
  match goal with |- context [reserve d ?w0 ?n] =>
    assert (H2 : orsuf w1 (snd (reserve d w0 n)))
      by (destruct (reserve_orsuf d w0 n) as [pre E]; exists pre; exact E);
    set (r := reserve d w0 n) in * end.
  destruct (negb (fst r)); [exact H2|]. destruct (w_err (snd r)); [exact H2|].
  match goal with |- context [trace_recheck d e args ?a ?x] =>
    destruct (trace_recheck_cases d e args a x) as [C|[C|(_ & a2 & _ & _ & C)]]; rewrite C; cbn [fst snd negb] end;
    [|exact H2|exact H2].
  eapply orsuf_trans; [exact H2|]. unfold trace_ser. cbv zeta.
  match goal with |- context [ser_parts d ?w3 ?ps] =>
    assert (H4 : orsuf (snd r) (ser_parts d w3 ps)); [|set (w4 := ser_parts d w3 ps) in *] end.
  { apply orsuf_same. rewrite (proj1 (proj2 (ser_parts_keep d _ _))).
    unfold trace_mark. destruct (_ && _); reflexivity. }
  destruct (w_err w4); [exact H4|]. eapply orsuf_trans; [exact H4|].
  unfold trace_commit. cbv zeta.
  destruct (_ =? _); [|apply orsuf_same; reflexivity].
  destruct (close_cb_orsuf d w4) as [pre E]. exists pre. exact E.
Qed.
Lemma step_orsuf d w k : orsuf w (step d w k).
Proof.
  unfold step. destruct (w_err w); [apply orsuf_refl|].
  match goal with |- orsuf w (if w_err ?W then _ else _) =>
    assert (HW : orsuf w W); [|destruct (w_err W); [exact HW|]] end.
  2:{ destruct HW as [pre E]. exists pre. exact E. }
  destruct k as [ei args| | |b|].
  - destruct (nth_error (d_erts d) ei); [apply trace_fn_orsuf|apply orsuf_same; reflexivity].
  - apply open_cb_orsuf.
  - apply close_cb_orsuf.
  - apply orsuf_same; reflexivity.
  - destruct (_ && _); [apply close_cb_orsuf|apply orsuf_refl].
Qed.

(* no remaining oracle answer is "eager" *)
Definition NE (w : world) : Prop := Forall (fun a => a_eager a = false) (w_or w).
Lemma NE_orsuf w w' : NE w -> orsuf w w' -> NE w'.
Proof. unfold NE. intros H [pre E]. rewrite E in H. apply Forall_app in H. apply H. Qed.
Lemma NE_hd w : NE w -> a_eager (hd_ans w) = false.
Proof. unfold NE, hd_ans. destruct (w_or w); intros H; [reflexivity|]. inversion H; assumption. Qed.

Lemma full_cb_pk w :
  let w' := snd (full_cb w) in
  c_open (w_c w') = c_open (w_c w) /\ c_in_ts (w_c w') = c_in_ts (w_c w) /\
  w_log w' = w_log w ++ [ECb 0 (c_in_ts (w_c w)) (c_open (w_c w)); EAns (fst (full_cb w))].
Proof. cbv zeta. rewrite full_cb_eq. up. togs. repeat split. Qed.

Lemma no_space_extn w : extn w (snd (no_space w)).
Proof. rewrite no_space_eq. exists [EDisc]. split; [reflexivity|]. intros la; exact I. Qed.

(* is_backend_full answered "not full", then the open callback *)
Lemma full_then_open d w :
  c_in_ts (w_c w) = true -> c_open (w_c w) = false -> fst (full_cb w) = false ->
  let w' := with_use_ts (open_cb d) (snd (full_cb w)) in
  c_open (w_c w') = true /\ c_in_ts (w_c w') = true /\ extn w w'.
Proof.
  intros Hi Ho Hf. cbv zeta. destruct (full_cb_pk w) as [O1 [I1 L1]].
  destruct (wopen d (snd (full_cb w))) as [O2 [I2 [seg [E F]]]]; [congruence|congruence|].
  split; [exact O2|]. split; [exact I2|].
  exists ([ECb 0 (c_in_ts (w_c w)) (c_open (w_c w)); EAns false] ++ ECb 1 true false :: seg).
  split; [rewrite E, L1, Hf, <- app_assoc; reflexivity|].
  intros la. rewrite Hi. cbn. split; [discriminate|]. split; [discriminate|].
  split; [auto|]. split; [discriminate|].
  apply pn1_seg. eapply Forall_impl; [|exact F]. intros e; apply lowok_pn1.
Qed.

Lemma full_then_nospace w :
  c_in_ts (w_c w) = true -> extn w (snd (no_space (snd (full_cb w)))).
Proof.
  intros Hi. eapply extn_trans; [|apply no_space_extn].
  destruct (full_cb_pk w) as [_ [_ L1]]. eexists. split; [exact L1|].
  intros la. rewrite Hi. cbn. split; [discriminate|]. split; [discriminate|exact I].
Qed.

Lemma reserve2_proto d n w :
  NE w -> c_in_ts (w_c w) = true -> c_open (w_c w) = true ->
  extn w (snd (reserve2 d n w)) /\ (fst (reserve2 d n w) = true -> c_open (w_c (snd (reserve2 d n w))) = true).
Proof.
  intros Hne Hi Ho. unfold reserve2.
  destruct (gt_diff32 n (c_psize (w_c w)) (c_at (w_c w))); [|split; [apply extn_refl|auto]].
  cbv zeta. destruct (wclose d w Hi Ho) as [O1 [I1 [seg [E F]]]].
  specialize (O1 (NE_hd w Hne)).
  set (w1 := with_use_ts (close_cb d) w) in *.
  assert (X1 : extn w w1).
  { exists (ECb 2 true true :: seg). split; [exact E|]. intros la. cbn.
    split; [discriminate|]. split; [auto|].
    apply pn1_seg. eapply Forall_impl; [|exact F]. intros e; apply midok_pn1. }
  destruct (fst (full_cb w1)) eqn:Hf.
  - split; [|discriminate]. eapply extn_trans; [exact X1|]. apply full_then_nospace, I1.
  - destruct (full_then_open d w1 I1 O1 Hf) as [O2 [I2 X2]].
    set (w2 := with_use_ts (open_cb d) (snd (full_cb w1))) in *.
    destruct (gt_diff32 n (c_psize (w_c w2)) (c_at (w_c w2))); cbn [fst snd].
    + split; [|discriminate]. eapply extn_trans; [exact X1|]. eapply extn_trans; [exact X2|].
      apply no_space_extn.
    + split; [|intros _; exact O2]. eapply extn_trans; eauto.
Qed.

Lemma gt_diff32_full n p : 0 < n -> gt_diff32 n p p = true.
Proof. intros H. unfold gt_diff32. rewrite Nat.leb_refl, Nat.sub_diag. apply Nat.ltb_lt, H. Qed.

Lemma reserve_proto d w n :
  NE w -> KKin w -> 0 < n ->
  extn w (snd (reserve d w n)) /\ (fst (reserve d w n) = true -> c_open (w_c (snd (reserve d w n))) = true).
Proof.
  intros Hne [[K1 K2] Hi] Hn. rewrite reserve_eq. unfold reserve'.
  destruct (gt_diff32 n (c_psize (w_c w)) (c_off_content (w_c w))) eqn:G1.
  { split; [apply no_space_extn|discriminate]. }
  destruct (c_at (w_c w) =? c_psize (w_c w)) eqn:Ea.
  - apply Nat.eqb_eq in Ea.
    assert (Ho : c_open (w_c w) = false).
    { destruct (c_open (w_c w)) eqn:Eo; [|reflexivity].
      rewrite (K1 eq_refl Ea), gt_diff32_full in G1; [discriminate|exact Hn]. }
    destruct (fst (full_cb w)) eqn:Hf.
    + split; [apply full_then_nospace, Hi|discriminate].
    + destruct (full_then_open d w Hi Ho Hf) as [O2 [I2 X2]].
      assert (Hne2 : NE (with_use_ts (open_cb d) (snd (full_cb w)))).
      { eapply NE_orsuf; [exact Hne|]. eapply orsuf_trans; [apply full_cb_orsuf|].
        apply with_use_ts_orsuf, open_cb_orsuf. }
      destruct (reserve2_proto d n _ Hne2 I2 O2) as [X3 P3]. split; [eapply extn_trans; eauto|exact P3].
  - apply Nat.eqb_neq in Ea.
    assert (Ho : c_open (w_c w) = true).
    { destruct (c_open (w_c w)) eqn:Eo; [reflexivity|]. elim Ea. apply K2. reflexivity. }
    apply reserve2_proto; assumption.
Qed.

(* the tracing function *)
Lemma trace_fn_proto d e args w :
  pos_records d -> In e (d_erts d) -> NE w -> KK w -> c_in_ts (w_c w) = false ->
  extn w (trace_fn d e args w) /\ (w_err (trace_fn d e args w) = false -> KK (trace_fn d e args w)).
Proof.
  intros Hpos Hin Hne K Hi. rewrite trace_fn_eq.
  assert (N0 : NE (trace_entry d w)).
  { eapply NE_orsuf; [exact Hne|]. unfold trace_entry. destruct (d_has_clock d); [|apply orsuf_refl].
    destruct (clock_cb_orsuf d w) as [pre E]. exists pre. exact E. }
  assert (X0 : extn w (trace_entry d w)).
  { exists (entry_seg d w). split; [apply trace_entry_log|].
    apply pn1_seg. unfold entry_seg. destruct (d_has_clock d); repeat constructor. cbn. auto. }
  assert (K0 : KK (trace_entry d w)).
  { unfold trace_entry. destruct (d_has_clock d); [|exact K]. rewrite clock_cb_eq.
    eapply KK_same; [exact K|..]; up; togs; reflexivity. }
  destruct (negb _); [split; [exact X0|intros _; exact K0]|].
  set (w1 := trace_entry d w) in *. unfold trace_body. cbv zeta.
  destruct (size_parts _ _) as [at_end|] eqn:Es.
  2:{ split; [|up; discriminate]. eapply extn_trans; [exact X0|].
      exists [EErr 4]. split; [reflexivity|intros la; exact I]. }
  pose proof (Hpos e args _ _ Hin Es) as Hlt.
  set (w2 := set_c w1 (set_in_ts (w_c w1) true)).
  assert (K2 : KKin w2) by (split; [exact K0|reflexivity]).
  destruct (reserve_proto d w2 (at_end - c_at (w_c w1)) N0 K2) as [X3 O3]; [lia|].
  pose proof (reserve_KKin d w2 (at_end - c_at (w_c w1)) K2) as [K3 I3].
  set (r := reserve d w2 (at_end - c_at (w_c w1))) in *.
  assert (X3' : extn w (snd r)) by (eapply extn_trans; [exact X0|exact X3]).
  destruct (fst r) eqn:Hok; cbn [negb].
  2:{ split; [eapply extn_eq_log_r; [|exact X3']; reflexivity|]. intros _.
      eapply KK_same; [exact K3|..]; reflexivity. }
  destruct (w_err (snd r)) eqn:Ee; [split; [exact X3'|congruence]|].
  specialize (O3 eq_refl).
  match goal with |- context [trace_recheck d e args ?a ?x] =>
    destruct (trace_recheck_cases d e args a x) as [C|[C|(_ & a2 & _ & _ & C)]]; rewrite C; cbn [fst snd negb] end.
  2:{ split; [|up; discriminate]. eapply extn_trans; [exact X3'|].
      exists [EErr 4]. split; [reflexivity|intros la; exact I]. }
  2:{ split; [eapply extn_trans; [exact X3'|]; exists [EDisc]; split; [reflexivity|intros la; exact I]|].
      intros _. eapply KK_same; [exact K3|..]; reflexivity. }
  unfold trace_ser. cbv zeta.
  assert (B1 : blk pn1 true (snd r) (trace_mark d (snd r))).
  { unfold trace_mark. apply opt_log_blk; [exact I3|]. exact I. }
  assert (O4 : c_open (w_c (trace_mark d (snd r))) = true).
  { unfold trace_mark. destruct (_ && _); exact O3. }
  set (w3 := trace_mark d (snd r)) in *.
  match goal with |- context [ser_parts d w3 ?ps] =>
    destruct (ser_parts_blk d ps w3 (proj1 B1)) as [I5 E5];
    destruct (ser_parts_keep d ps w3) as [K5 _]; set (w4 := ser_parts d w3 ps) in * end.
  assert (X5 : extn w w4).
  { eapply extn_trans; [exact X3'|]. eapply extn_trans.
    - eapply ext_extn; [|apply B1]. auto.
    - eapply ext_extn; [|exact E5]. intros e0; apply stok_pn1. }
  assert (O5 : c_open (w_c w4) = true) by (unfold ser_keep in K5; intuition congruence).
  destruct (w_err w4) eqn:Ee4; [split; [exact X5|congruence]|].
  unfold trace_commit. cbv zeta.
  destruct (c_at (w_c w4) =? c_psize (w_c w4)) eqn:Ea.
  - destruct (close_cb_in d w4 I5 O5) as [_ [_ [seg [E F]]]].
    split.
    + eapply extn_eq_log_r; [reflexivity|]. eapply extn_trans; [exact X5|].
      exists (ECb 2 true true :: seg). split; [exact E|]. intros la. cbn.
      split; [discriminate|]. split; [auto|].
      apply pn1_seg. eapply Forall_impl; [|exact F]. intros e0; apply midok_pn1.
    + intros _. destruct (close_cb_dec d w4) as [[_ [_ [_ [_ X]]]]|[[_ [O A]]|[_ [_ [O A]]]]].
      * specialize (X I5). congruence.
      * split; up; [congruence|auto].
      * split; up; [intros _ H; congruence|congruence].
  - apply Nat.eqb_neq in Ea. split.
    + eapply extn_eq_log_r; [|exact X5]. reflexivity.
    + intros _. split; up; [intros _ H; elim Ea; exact H|congruence].
Qed.

(* whole histories *)
Definition PI (w : world) : Prop :=
  proto None (w_log w) /\ (w_err w = false -> KK w /\ c_in_ts (w_c w) = false).

Lemma proto_extn w w' : proto None (w_log w) -> extn w w' -> proto None (w_log w').
Proof. intros H [seg [E F]]. rewrite E. apply proto_app. split; [exact H|apply F]. Qed.

Lemma step_PI d w k : pos_records d -> NE w -> PI w -> PI (step d w k).
Proof.
  intros Hpos Hne [HP HK]. unfold step. destruct (w_err w) eqn:Ee; [split; [exact HP|rewrite Ee; discriminate]|].
  destruct (HK eq_refl) as [K Hi]. clear HK.
  match goal with |- PI (if w_err ?W then _ else _) =>
    assert (HW : PI W); [|destruct (w_err W) eqn:Ee2; [exact HW|]] end.
  2:{ destruct HW as [HP2 HK2]. split; up.
      - apply proto_app. split; [exact HP2|exact I].
      - intros _. destruct (HK2 Ee2) as [K2 I2]. split; [|exact I2].
        eapply KK_same; [exact K2|..]; reflexivity. }
  destruct k as [ei args| | |b|].
  - destruct (nth_error (d_erts d) ei) as [e|] eqn:En.
    + destruct (trace_fn_proto d e args w Hpos (nth_error_In _ _ En) Hne K Hi) as [X KX].
      split; [eapply proto_extn; eauto|]. intros He. split; [apply KX, He|].
      apply trace_fn_flag_off; assumption.
    + split; up; [|discriminate]. apply proto_app. split; [exact HP|exact I].
  - destruct (open_cb_blk d false w Hi) as [A E]. split.
    + eapply proto_extn; [exact HP|]. eapply ext_extn; [|exact E]. apply evok_false_pn1.
    + intros _. split; [apply open_cb_KK, K|exact A].
  - destruct (close_cb_blk d false w Hi) as [A E]. split.
    + eapply proto_extn; [exact HP|]. eapply ext_extn; [|exact E]. apply evok_false_pn1.
    + intros _. split; [apply close_cb_KK, K|exact A].
  - split; [exact HP|]. intros _. split; [|exact Hi]. eapply KK_same; [exact K|..]; reflexivity.
  - destruct (_ && _); [|split; [exact HP|intros _; auto]].
    destruct (close_cb_blk d false w Hi) as [A E]. split.
    + eapply proto_extn; [exact HP|]. eapply ext_extn; [|exact E]. apply evok_false_pn1.
    + intros _. split; [apply close_cb_KK, K|exact A].
Qed.

Lemma steps_PI d h w : pos_records d -> NE w -> PI w -> PI (fold_left (step d) h w).
Proof.
  intros Hpos. revert w. induction h as [|k h IH]; intros w Hne H; cbn [fold_left]; auto.
  apply IH; [eapply NE_orsuf; [exact Hne|apply step_orsuf]|apply step_PI; auto].
Qed.

(* C06 (c): hypotheses: every event record has positive size; the history starts with an opening
   of the first packet that takes effect; the platform never opens the next packet itself from its
   close callback (no "eager" answer) *)
Theorem run_proto d buf pcargs oracle h :
  pos_records d ->
  Forall (fun a => a_eager a = false) oracle ->
  c_open (w_c (run d buf pcargs oracle [COpen])) = true ->
  proto None (w_log (run d buf pcargs oracle (COpen :: h))).
Proof.
  intros Hpos Hne Hopen. unfold run in *. cbn [fold_left] in *.
  set (w0 := mk_w _ _ _ _ _ _) in *.
  apply steps_PI; [exact Hpos|apply (NE_orsuf w0); [exact Hne|apply step_orsuf]|].
  assert (F0 : flag_inv (step d w0 COpen)).
  { apply step_flag_inv. split; [constructor|]. intros _. split; reflexivity. }
  split.
  - unfold step. cbn [w_err w0]. fold w0.
    destruct (open_cb_blk d false w0 eq_refl) as [_ E].
    assert (P1 : proto None (w_log (open_cb d w0))).
    { eapply (proto_extn w0); [exact I|]. eapply ext_extn; [|exact E]. apply evok_false_pn1. }
    destruct (w_err (open_cb d w0)); [exact P1|]. up. apply proto_app. split; [exact P1|exact I].
  - intros He. split; [|apply F0, He].
    destruct (open_cb_dec d w0) as [[O _]|[_ [O [A _]]]].
    + exfalso. revert Hopen. unfold step. cbn [w_err w0]. fold w0.
      destruct (w_err (open_cb d w0)); up; rewrite O; cbn; discriminate.
    + revert He. unfold step. cbn [w_err w0]. fold w0. intros He.
      destruct (w_err (open_cb d w0)) eqn:Ee; [cbn in He; congruence|].
      split; up; [intros _ H; congruence|congruence].
Qed.

(* for the non-vacuity examples *)
Lemma align_up_ge at_ a : 0 < a -> at_ <= align_up at_ a.
Proof.
  intros Ha. unfold align_up.
  pose proof (Nat.div_mod (at_ + (a - 1)) a ltac:(lia)) as E.
  pose proof (Nat.mod_upper_bound (at_ + (a - 1)) a ltac:(lia)) as B.
  rewrite (Nat.mul_comm a) in E. lia.
Qed.
