(* Vocabulary of the tracer properties C05, C06, C07, C16: predicates over worlds and logs used in
   the statements of Props/C*.v (definitions only, no proofs; the model is Tracer/Model.v). *)
From Coq Require Import List Arith Bool ZArith String Sorted.
Import ListNotations.
From BT.Base Require Import Bits.
From BT.Layout Require Import Model.
From BT.Tracer Require Import Model.

(* ------------------------------------------------------------------ C07 *)
(* every context field except is_tracing_enabled and cur_last_event_ts *)
Definition same_packet (c c' : ctx) : Prop :=
  c_s c' = c_s c /\ c_psize c' = c_psize c /\ c_at c' = c_at c /\ c_content c' = c_content c /\
  c_off_content c' = c_off_content c /\ c_disc c' = c_disc c /\ c_seq c' = c_seq c /\
  c_open c' = c_open c /\ c_in_ts c' = c_in_ts c /\ c_use_ts c' = c_use_ts c /\
  c_saved c' = c_saved c.

(* the world after the entry clock sample of a tracing call (first statement of trace_fn) *)
Definition entry_world (d : dstm) (w : world) : world :=
  if d_has_clock d
  then let (t, w') := clock_cb d w in set_c w' (set_last_ts (w_c w') t)
  else w.

(* the events logged by that clock callback *)
Definition clock_seg (d : dstm) (w : world) : list ev :=
  if d_has_clock d
  then [ECb 3 (c_in_ts (w_c w)) (c_open (w_c w));
        ESample ((w_clk w + Z.of_nat (a_inc (hd default_ans (w_or w)))) mod 2 ^ Z.of_nat (d_clock_bits d))%Z]
  else [].

(* h is a list of tracing calls, each of which finds tracing disabled after its entry clock sample
   when h is run from w *)
Fixpoint disabled_calls (d : dstm) (w : world) (h : list call) : Prop :=
  match h with
  | [] => True
  | k :: h' =>
      (exists ei args, k = CTrace ei args) /\ c_enabled (w_c (entry_world d w)) = false /\
      disabled_calls d (step d w k) h'
  end.

(* ------------------------------------------------------------------ C06 *)
(* ghost counts: packets handed over, event records discarded *)
Definition npk (l : list ev) : nat :=
  List.length (filter (fun e => match e with EPacket _ _ => true | _ => false end) l).
Definition ndisc (l : list ev) : nat :=
  List.length (filter (fun e => match e with EDisc => true | _ => false end) l).

(* postconditions of an effective opening / closing, relative to the context c handed to the
   function after its preamble *)
Definition open_post (c c' : ctx) : Prop :=
  c_open c' = true /\ c_at c' = c_off_content c' /\
  c_psize c' = c_psize c /\ c_content c' = c_content c /\ c_disc c' = c_disc c /\ c_seq c' = c_seq c /\
  c_in_ts c' = c_in_ts c /\ c_enabled c' = c_enabled c /\ c_use_ts c' = c_use_ts c /\
  c_last_ts c' = c_last_ts c.
Definition close_post (d : dstm) (c c' : ctx) : Prop :=
  c_open c' = false /\ c_at c' = c_psize c' /\ c_content c' = c_at c /\
  c_seq c' = (if has_member (d_pc d) "packet_seq_num" then S (c_seq c) else c_seq c) /\
  c_psize c' = c_psize c /\ c_off_content c' = c_off_content c /\ c_disc c' = c_disc c /\
  c_in_ts c' = c_in_ts c /\ c_enabled c' = c_enabled c /\ c_use_ts c' = c_use_ts c /\
  c_last_ts c' = c_last_ts c.

(* ------------------------------------------------------------------ C05 *)
(* the most recent clock sample in a log (cur: the one before the log starts) *)
Fixpoint last_sample (cur : option Z) (l : list ev) : option Z :=
  match l with
  | [] => cur
  | ESample v :: l => last_sample (Some v) l
  | _ :: l => last_sample cur l
  end.
(* every timestamp written is the most recent clock sample at that moment *)
Fixpoint tsok (cur : option Z) (l : list ev) : Prop :=
  match l with
  | [] => True
  | ESample v :: l => tsok (Some v) l
  | ETs _ v :: l => cur = Some v /\ tsok cur l
  | _ :: l => tsok cur l
  end.
(* values returned by the clock callback / timestamps written (beginning, end, record), in log order *)
Definition samples (l : list ev) : list Z :=
  flat_map (fun e => match e with ESample v => [v] | _ => [] end) l.
Definition stamps (l : list ev) : list Z :=
  flat_map (fun e => match e with ETs _ v => [v] | _ => [] end) l.
(* hypothesis `nowrap` of C05: the values returned by the clock never decrease, i.e. no reduction
   modulo 2^d_clock_bits happened during the run *)
Definition nowrap (l : list ev) : Prop := StronglySorted Z.le (samples l).

(* ------------------------------------------------------------------ C06 (c): callback protocol *)
(* la: the most recent answer of is_backend_full before the log.  Every tracer-initiated (flag = 1)
   open callback entry finds no packet open and the closest preceding answer is "not full"; every
   tracer-initiated close callback entry finds a packet open *)
Fixpoint proto (la : option bool) (l : list ev) : Prop :=
  match l with
  | [] => True
  | EAns f :: l => proto (Some f) l
  | ECb k true o :: l =>
      (k = 1 -> o = false /\ la = Some false) /\ (k = 2 -> o = true) /\ proto la l
  | _ :: l => proto la l
  end.
(* hypothesis: every event record occupies at least one bit (S13 in DESIGN.md: zero-size records
   are possible in principle) *)
Definition pos_records (d : dstm) : Prop :=
  forall e args a a', In e (d_erts d) -> size_parts (rec_parts d e 0%Z args) a = Some a' -> a < a'.

(* ------------------------------------------------------------------ C07 (b): atomicity *)
(* equal worlds except for is_tracing_enabled and for the toggle decisions (a_toggle) of the
   remaining oracle answers *)
Definition erase_toggle (a : ans) : ans := mk_ans (a_full a) None (a_newbuf a) (a_inc a) (a_eager a).
Definition sim (w w' : world) : Prop :=
  set_enabled (w_c w) true = set_enabled (w_c w') true /\
  map erase_toggle (w_or w) = map erase_toggle (w_or w') /\
  w_clk w = w_clk w' /\ w_log w = w_log w' /\ w_err w = w_err w' /\ w_pcargs w = w_pcargs w'.
