(* Meaning of the regenerated public tracing function (Gen/CSkelFuns.v fn_trace: the template text of
   <prefix><dst>_trace_<ert> in barectf.c.j2, parsed by tools/c2coq.py) on the worlds of Tracer/Model.v, and
   the theorem that it IS Model.trace_fn.

   Leaves (modelling decisions):
     {% if def_clk_type %} ... {% endif %}      d_has_clock d
     sctx->cur_last_event_ts = <clock cb>       Model.clock_cb + set_last_ts
     !ctx->is_tracing_enabled                   negb (c_enabled c)
     ctx->in_tracing_section = n                Model.set_in_ts
     er_at = ctx->at                            local
     er_size = _er_size_<dst>_<ert>(...)        Model.size_parts of the record's parts from the CURRENT position
                                                (no size: the arguments do not have the shape of the record type;
                                                 the model stops with error 4)
     !_reserve_er_space(ctx, er_size)           Model.reserve (= the regenerated C function: CSkelProofs.skel_reserve);
                                                the model stops when the reservation raised the error flag (a store
                                                outside the buffer while opening) although it succeeded
     er_size > (ctx->packet_size - ctx->at)     Model.gt_diff32
     ctx->events_discarded++                    incr_disc + ghost event EDisc
     _serialize_er_<dst>_<ert>(...)             ghost event ETs 2 (record timestamp) + Model.ser_parts with the
                                                saved timestamp; the model stops when a store is outside the buffer
     _commit_er(ctx)                            the regenerated _commit_er run by CSkel.run_fun *)
From Coq Require Import List Arith Bool ZArith String.
Import ListNotations.
From BT.Base Require Import Bits.
From BT.Layout Require Import Model.
From BT.Tracer Require Import Model CSkel.
Local Open Scope string_scope.

Section T.
  Variable d : dstm.
  Variable funs : list (string * cfun).
  Variable e : ertm.
  Variable args : list val.

  Record locals := mk_l { l_at : nat; l_size : nat }.

  Inductive tout :=
  | TNext (w : world) (l : locals)
  | TJump (lbl : string) (w : world) (l : locals)
  | TStop (w : world)                 (* return, or the model's sticky error *)
  | TErr.

  Definition t_exp (c : ctx) (l : locals) (x : cexp) : option nat :=
    match x with
    | XField f => rd_field c f
    | XParam p => if String.eqb p "er_at" then Some (l_at l)
                  else if String.eqb p "er_size" then Some (l_size l) else None
    | XConst n => Some n
    | _ => None
    end.

  (* Some (b, w, stop): stop = the model's sticky error after a successful reservation *)
  Definition t_cond (w : world) (l : locals) (k : ccond) : option (bool * world * bool) :=
    match k with
    | KNotField f =>
        if String.eqb f "is_tracing_enabled" then Some (negb (c_enabled (w_c w)), w, false) else None
    | KNotReserve x =>
        if String.eqb x "er_size"
        then let r := reserve d w (l_size l) in
             Some (negb (fst r), snd r, fst r && w_err (snd r))
        else None
    | KNe a b =>
        match t_exp (w_c w) l a, t_exp (w_c w) l b with
        | Some x, Some y => Some (negb (Nat.eqb x y), w, false) | _, _ => None end
    | KGt a (XSub x y) =>
        match t_exp (w_c w) l a, t_exp (w_c w) l x, t_exp (w_c w) l y with
        | Some va, Some vx, Some vy => Some (gt_diff32 va vx vy, w, false) | _, _, _ => None end
    | _ => None
    end.

  Fixpoint t_exec (s : cstmt) (w : world) (l : locals) {struct s} : tout :=
    let go := fix go (b : list cstmt) (w : world) (l : locals) : tout :=
                match b with
                | [] => TNext w l
                | s :: b => match t_exec s w l with TNext w l => go b w l | o => o end
                end in
    match s with
    | SIfCfg k body =>
        if String.eqb k "def_clk_type" then (if d_has_clock d then go body w l else TNext w l) else TErr
    | SSampleClock =>
        let r := clock_cb d w in TNext (set_c (snd r) (set_last_ts (w_c (snd r)) (fst r))) l
    | SIf k body =>
        match t_cond w l k with
        | Some (_, w, true) => TStop w
        | Some (true, w, false) => go body w l
        | Some (false, w, false) => TNext w l
        | None => TErr
        end
    | SAssign f x =>
        if String.eqb f "in_tracing_section"
        then match x with
             | XConst n => TNext (set_c w (set_in_ts (w_c w) (negb (Nat.eqb n 0)))) l
             | _ => TErr end
        else TErr
    | SLocal x v =>
        if String.eqb x "er_at"
        then match t_exp (w_c w) l v with Some n => TNext w (mk_l n (l_size l)) | None => TErr end
        else TErr
    | SLocalSize x =>
        if String.eqb x "er_size"
        then match size_parts (rec_parts d e 0%Z args) (c_at (w_c w)) with
             | Some at_end => TNext w (mk_l (l_at l) (at_end - c_at (w_c w)))
             | None => TStop (fail w 4)
             end
        else TErr
    | SInc f =>
        if String.eqb f "events_discarded" then TNext (logev (set_c w (incr_disc (w_c w))) EDisc) l else TErr
    | SSerialize =>
        let w := if d_has_clock d && has_member_o (d_eh d) "timestamp"
                 then logev w (ETs 2 (c_last_ts (w_c w))) else w in
        let w := ser_parts d w (rec_parts d e (c_last_ts (w_c w)) args) in
        if w_err w then TStop w else TNext w l
    | SCallFn fn =>
        match lookup fn funs with
        | Some f => match run_fun d funs [] f w with Some (_, w) => TNext w l | None => TErr end
        | None => TErr
        end
    | SGoto lbl => TJump lbl w l
    | SLabel _ => TNext w l
    | SReturnVoid => TStop w
    | _ => TErr
    end.

  Fixpoint t_run (fuel : nat) (body : list cstmt) (w : world) (l : locals) : option world :=
    match fuel with
    | 0 => None
    | S fuel =>
        match body with
        | [] => Some w
        | s :: r =>
            match t_exec s w l with
            | TNext w l => t_run fuel r w l
            | TJump lbl w l => match skip_to lbl r with Some r' => t_run fuel r' w l | None => None end
            | TStop w => Some w
            | TErr => None
            end
        end
    end.

  Definition run_trace (f : cfun) (w : world) : option world :=
    t_run (S (List.length (cf_body f))) (cf_body f) w (mk_l 0 0).
End T.
