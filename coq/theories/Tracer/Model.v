(* Runtime state machine of the generated tracer (barectf.c.j2) for one data stream type, with a
   scriptable conformant platform (api.adoc).  Hand-written; tied to /repo by running the compiled
   generated C on the same histories and oracles (harness/props/tracer_common.py) and diffing
   callback order, flag values, every context field after every call and every emitted packet.

   Counters and positions are unbounded nat (no uint32_t wrap-around, see Layout/Model.v). *)
From Coq Require Import List Arith Bool ZArith String.
Import ListNotations.
From BT.Base Require Import Bits.
From BT.Layout Require Import Model.

(* ------------------------------------------------------------------ configuration (one stream) *)
Record ertm := mk_ert { e_id : nat; e_sc : option sft; e_p : option sft }.
Record dstm := mk_dst {
  d_bo : byte_order;
  d_native_known : bool;
  d_ph : option sft;            (* packet header: subset of magic, uuid, stream_id *)
  d_ph_vals : list val;         (* their constant values *)
  d_pc : sft;                   (* packet context: features then user members *)
  d_eh : option sft;            (* event record header: subset of id, timestamp *)
  d_cc : option sft;
  d_erts : list ertm;
  d_has_clock : bool;
  d_clock_bits : nat;           (* width of the clock's C type: returned values are reduced to it *)
}.

Definition pc_skips : list string := ["timestamp_end"; "events_discarded"; "content_size"]%string.
Definition has_member (s : sft) (n : string) : bool := existsb (fun m => String.eqb (fst m) n) (s_mems s).
Definition has_member_o (s : option sft) (n : string) : bool :=
  match s with Some s => has_member s n | None => false end.

(* cgen.create_ds_ops: one builder for packet header -> packet context, another one for
   event header -> common context -> (copy per event record type) specific context -> payload *)
Definition ph_build (d : dstm) : option nat * option op :=
  match d_ph d with Some s => let r := build_root [] None s in (fst r, Some (snd r)) | None => (None, None) end.
Definition pc_op (d : dstm) : op := snd (build_root pc_skips (fst (ph_build d)) (d_pc d)).
Definition eh_build (d : dstm) : option nat * option op :=
  match d_eh d with Some s => let r := build_root [] None s in (fst r, Some (snd r)) | None => (None, None) end.
Definition cc_build (d : dstm) : option nat * option op :=
  match d_cc d with
  | Some s => let r := build_root [] (fst (eh_build d)) s in (fst r, Some (snd r))
  | None => (fst (eh_build d), None) end.
Definition sc_build (d : dstm) (e : ertm) : option nat * option op :=
  match e_sc e with
  | Some s => let r := build_root [] (fst (cc_build d)) s in (fst r, Some (snd r))
  | None => (fst (cc_build d), None) end.
Definition p_build (d : dstm) (e : ertm) : option nat * option op :=
  match e_p e with
  | Some s => let r := build_root [] (fst (sc_build d e)) s in (fst r, Some (snd r))
  | None => (fst (sc_build d e), None) end.

(* the op of a packet context member (ds_op_pkt_ctx_op) *)
Fixpoint member_op (ms : list (string * ft)) (os : list op) (n : string) : option op :=
  match ms, os with
  | (k, _) :: ms, o :: os => if String.eqb k n then Some o else member_op ms os n
  | _, _ => None
  end.
Definition pc_member_op (d : dstm) (n : string) : option op :=
  match pc_op d with OBlock _ os => member_op (s_mems (d_pc d)) os n | _ => None end.
(* index of a skipped member among the skipped ones, in packet context order *)
Fixpoint skip_index (ms : list (string * ft)) (n : string) (i : nat) : option nat :=
  match ms with
  | [] => None
  | (k, _) :: ms =>
      if String.eqb k n then Some i
      else skip_index ms n (if existsb (String.eqb k) pc_skips then S i else i)
  end.

(* ------------------------------------------------------------------ state *)
Record ctx := mk_ctx {
  c_s : stream; c_psize : nat; c_at : nat; c_content : nat; c_off_content : nat;
  c_disc : nat; c_seq : nat; c_open : bool; c_in_ts : bool; c_enabled : bool;
  c_use_ts : bool; c_last_ts : Z; c_saved : list nat }.

(* one oracle answer is consumed by every callback invocation *)
Record ans := mk_ans { a_full : bool; a_toggle : option bool; a_newbuf : option nat; a_inc : nat;
                       a_eager : bool }.
Definition default_ans := mk_ans false None None 1 false.

Inductive ev :=
| ECb (kind : nat) (flag : bool) (is_open : bool)
      (* callback entry: 0 is_backend_full, 1 open_packet, 2 close_packet, 3 clock; with the values of
         the in-tracing-section flag and of packet_is_open at that moment *)
| EAns (full : bool)                        (* answer of is_backend_full (ghost: not printed) *)
| EStore (flag : bool)                      (* a serialization into the packet buffer, with the flag (ghost) *)
| ETs (kind : nat) (v : Z)                  (* a timestamp written: 0 packet beginning, 1 packet end, 2 record (ghost) *)
| ESample (v : Z)                           (* value returned by the clock callback (ghost) *)
| EDisc                                     (* events_discarded incremented (ghost) *)
| EPacket (size_bits : nat) (content : list Z)   (* bytes handed over in the close callback *)
| ERet (c : ctx)                            (* context after a public call returned *)
| EErr (code : nat).                        (* 1: store outside the packet buffer; 2: former assert of
                                               _reserve_er_space, no longer produced (S18 repaired) *)

Record world := mk_w { w_c : ctx; w_or : list ans; w_clk : Z; w_log : list ev; w_err : bool;
                       w_pcargs : list val }.

Definition set_c (w : world) (c : ctx) : world := mk_w c (w_or w) (w_clk w) (w_log w) (w_err w) (w_pcargs w).
Definition logev (w : world) (e : ev) : world := mk_w (w_c w) (w_or w) (w_clk w) (w_log w ++ [e]) (w_err w) (w_pcargs w).
Definition fail (w : world) (code : nat) : world :=
  mk_w (w_c w) (w_or w) (w_clk w) (w_log w ++ [EErr code]) true (w_pcargs w).
Definition pop (w : world) : ans * world :=
  match w_or w with
  | [] => (default_ans, w)
  | a :: r => (a, mk_w (w_c w) r (w_clk w) (w_log w) (w_err w) (w_pcargs w))
  end.

Definition upd_at (c : ctx) (s : stream) (a : nat) : ctx :=
  mk_ctx s (c_psize c) a (c_content c) (c_off_content c) (c_disc c) (c_seq c) (c_open c) (c_in_ts c)
         (c_enabled c) (c_use_ts c) (c_last_ts c) (c_saved c).
Definition set_in_ts (c : ctx) (b : bool) : ctx :=
  mk_ctx (c_s c) (c_psize c) (c_at c) (c_content c) (c_off_content c) (c_disc c) (c_seq c) (c_open c) b
         (c_enabled c) (c_use_ts c) (c_last_ts c) (c_saved c).
Definition set_enabled (c : ctx) (b : bool) : ctx :=
  mk_ctx (c_s c) (c_psize c) (c_at c) (c_content c) (c_off_content c) (c_disc c) (c_seq c) (c_open c) (c_in_ts c)
         b (c_use_ts c) (c_last_ts c) (c_saved c).
Definition set_use_ts (c : ctx) (b : bool) : ctx :=
  mk_ctx (c_s c) (c_psize c) (c_at c) (c_content c) (c_off_content c) (c_disc c) (c_seq c) (c_open c) (c_in_ts c)
         (c_enabled c) b (c_last_ts c) (c_saved c).
Definition set_last_ts (c : ctx) (t : Z) : ctx :=
  mk_ctx (c_s c) (c_psize c) (c_at c) (c_content c) (c_off_content c) (c_disc c) (c_seq c) (c_open c) (c_in_ts c)
         (c_enabled c) (c_use_ts c) t (c_saved c).
Definition incr_disc (c : ctx) : ctx :=
  mk_ctx (c_s c) (c_psize c) (c_at c) (c_content c) (c_off_content c) (S (c_disc c)) (c_seq c) (c_open c) (c_in_ts c)
         (c_enabled c) (c_use_ts c) (c_last_ts c) (c_saved c).

(* barectf_init; the C leaves content_size / off_content uninitialised: the harness zeroes the
   context memory first and the model does the same (S10 in DESIGN.md) *)
Definition init_ctx (buf_bytes : nat) : ctx :=
  mk_ctx (zeros (8 * buf_bytes)) (8 * buf_bytes) 0 0 0 0 0 false false true false 0%Z [].

Section Stream.
  Variable d : dstm.

  Definition apply_toggle (w : world) (a : ans) : world :=
    match a_toggle a with Some b => set_c w (set_enabled (w_c w) b) | None => w end.

  (* clock source callback: monotone by construction *)
  Definition clock_cb (w : world) : Z * world :=
    let w := logev w (ECb 3 (c_in_ts (w_c w)) (c_open (w_c w))) in
    let (a, w) := pop w in
    let t := ((w_clk w + Z.of_nat (a_inc a)) mod 2 ^ Z.of_nat (d_clock_bits d))%Z in
    let w := mk_w (w_c w) (w_or w) t (w_log w ++ [ESample t]) (w_err w) (w_pcargs w) in
    (t, apply_toggle w a).

  Definition full_cb (w : world) : bool * world :=
    let w := logev w (ECb 0 (c_in_ts (w_c w)) (c_open (w_c w))) in
    let (a, w) := pop w in
    (a_full a, apply_toggle (logev w (EAns (a_full a))) a).

  Definition do_ser (w : world) (o : op) (v : val) : world :=
    let w := logev w (EStore (c_in_ts (w_c w))) in
    let c := w_c w in
    match ser (d_bo d) (d_native_known d) (c_psize c) o v (mk_ss (c_s c) (c_at c) []) with
    | Some st =>
        set_c w (mk_ctx (ss_s st) (c_psize c) (ss_at st) (c_content c) (c_off_content c) (c_disc c) (c_seq c)
                        (c_open c) (c_in_ts c) (c_enabled c) (c_use_ts c) (c_last_ts c)
                        (c_saved c ++ ss_saved st))
    | None => fail w 1
    end.

  Definition preamble_ts (w : world) (feature : bool) : Z * world :=
    if d_has_clock d && feature then
      if c_use_ts (w_c w) then (c_last_ts (w_c w), w) else clock_cb w
    else (0%Z, w).

  (* values of the packet context members at opening time *)
  Fixpoint pc_vals (ms : list (string * ft)) (psize seq : nat) (ts : Z) (user : list val) : list val :=
    match ms with
    | [] => []
    | (n, _) :: ms =>
        if String.eqb n "packet_size" then VInt (Z.of_nat psize) :: pc_vals ms psize seq ts user
        else if String.eqb n "timestamp_begin" then VInt ts :: pc_vals ms psize seq ts user
        else if String.eqb n "packet_seq_num" then VInt (Z.of_nat seq) :: pc_vals ms psize seq ts user
        else if existsb (String.eqb n) pc_skips then VInt 0 :: pc_vals ms psize seq ts user
        else match user with
             | u :: user => u :: pc_vals ms psize seq ts user
             | [] => VInt 0 :: pc_vals ms psize seq ts user
             end
    end.

  (* <prefix><dst>_open_packet *)
  Definition open_fn (w : world) : world :=
    let (ts, w) := preamble_ts w (has_member (d_pc d) "timestamp_begin") in
    let c := w_c w in
    let saved := c_in_ts c in
    if negb (c_enabled c) && negb saved then set_c w (set_in_ts c false)
    else
      let c := set_in_ts c true in
      if c_open c then set_c w (set_in_ts c saved)
      else
        let w := set_c w (mk_ctx (c_s c) (c_psize c) 0 (c_content c) (c_off_content c) (c_disc c) (c_seq c)
                                 (c_open c) true (c_enabled c) (c_use_ts c) (c_last_ts c) []) in
        let w := match snd (ph_build d) with
                 | Some o => do_ser w o (VArr (d_ph_vals d)) | None => w end in
        let w := if d_has_clock d && has_member (d_pc d) "timestamp_begin" then logev w (ETs 0 ts) else w in
        let w := do_ser w (pc_op d)
                        (VArr (pc_vals (s_mems (d_pc d)) (c_psize c) (c_seq c) ts (w_pcargs w))) in
        let c := w_c w in
        set_c w (mk_ctx (c_s c) (c_psize c) (c_at c) (c_content c) (c_at c) (c_disc c) (c_seq c)
                        true saved (c_enabled c) (c_use_ts c) (c_last_ts c) (c_saved c)).

  (* serialize-write-saved-int-statements.j2: go back to the saved offset and write *)
  Definition write_saved (w : world) (name : string) (v : Z) : world :=
    if has_member (d_pc d) name then
      match pc_member_op d name, skip_index (s_mems (d_pc d)) name 0 with
      | Some (OBits al _ size off), Some i =>
          let c := w_c w in
          let w := set_c w (upd_at c (c_s c) (nth i (c_saved c) 0)) in
          let sv := c_saved (w_c w) in
          let w := do_ser w (OBits al KWrite size off) (VInt v) in
          let c := w_c w in
          set_c w (mk_ctx (c_s c) (c_psize c) (c_at c) (c_content c) (c_off_content c) (c_disc c) (c_seq c)
                          (c_open c) (c_in_ts c) (c_enabled c) (c_use_ts c) (c_last_ts c) sv)
      | _, _ => fail w 3
      end
    else w.

  (* <prefix><dst>_close_packet *)
  Definition close_fn (w : world) : world :=
    let (ts, w) := preamble_ts w (has_member (d_pc d) "timestamp_end") in
    let c := w_c w in
    let saved := c_in_ts c in
    if negb (c_enabled c) && negb saved then set_c w (set_in_ts c false)
    else
      let c := set_in_ts c true in
      if negb (c_open c) then set_c w (set_in_ts c saved)
      else
        let c := mk_ctx (c_s c) (c_psize c) (c_at c) (c_at c) (c_off_content c) (c_disc c) (c_seq c)
                        (c_open c) true (c_enabled c) (c_use_ts c) (c_last_ts c) (c_saved c) in
        let w := set_c w c in
        let w := if d_has_clock d && has_member (d_pc d) "timestamp_end" then logev w (ETs 1 ts) else w in
        let w := write_saved w "timestamp_end" ts in
        let w := write_saved w "content_size" (Z.of_nat (c_content (w_c w))) in
        let w := write_saved w "events_discarded" (Z.of_nat (c_disc (w_c w))) in
        let c := w_c w in
        set_c w (mk_ctx (c_s c) (c_psize c) (c_psize c) (c_content c) (c_off_content c) (c_disc c)
                        (if has_member (d_pc d) "packet_seq_num" then S (c_seq c) else c_seq c)
                        false saved (c_enabled c) (c_use_ts c) (c_last_ts c) (c_saved c)).

  (* platform callbacks (conformant platform of api.adoc): open_packet calls the opening function;
     close_packet calls the closing function, takes the packet, may install another buffer *)
  Definition open_cb (w : world) : world :=
    let w := logev w (ECb 1 (c_in_ts (w_c w)) (c_open (w_c w))) in
    let (a, w) := pop w in
    let w := apply_toggle w a in
    open_fn w.

  Definition packet_set_buf (c : ctx) (bytes : nat) : ctx :=
    (* the platform's new buffer is zero-filled *)
    mk_ctx (zeros (8 * bytes)) (8 * bytes) (if c_at c =? c_psize c then 8 * bytes else c_at c) (c_content c)
           (c_off_content c) (c_disc c) (c_seq c) (c_open c) (c_in_ts c) (c_enabled c) (c_use_ts c)
           (c_last_ts c) (c_saved c).

  Definition close_cb (w : world) : world :=
    let w := logev w (ECb 2 (c_in_ts (w_c w)) (c_open (w_c w))) in
    let (a, w) := pop w in
    let w := apply_toggle w a in
    let was_open := c_open (w_c w) in
    let w := close_fn w in
    let c := w_c w in
    (* the platform hands the packet over only if one was really closed *)
    if was_open && negb (c_open c) then
      let w := logev w (EPacket (c_psize c) (bytes_of_stream (d_bo d) (c_s c) (c_psize c / 8))) in
      let w := match a_newbuf a with
               | Some b => set_c w (packet_set_buf (w_c w) b)
               | None => w
               end in
      (* "eager" (double-buffering) platform: opens the next packet itself right away *)
      if a_eager a then open_fn w else w
    else w.

  Definition with_use_ts (f : world -> world) (w : world) : world :=
    let w := set_c w (set_use_ts (w_c w) true) in
    let w := f w in
    set_c w (set_use_ts (w_c w) false).

  (* `er_size > (a - b)` in uint32_t arithmetic: when b > a the difference wraps to almost 2^32
     and the comparison is false for every realistic er_size *)
  Definition gt_diff32 (er_size a b : nat) : bool := if b <=? a then a - b <? er_size else false.

  (* _reserve_er_space *)
  Definition no_space (w : world) : bool * world := (false, logev (set_c w (incr_disc (w_c w))) EDisc).
  Definition reserve (w : world) (er_size : nat) : bool * world :=
    let c := w_c w in
    if gt_diff32 er_size (c_psize c) (c_off_content c) then no_space w
    else
      let r1 : bool * world :=
        if c_at c =? c_psize c then
          let (full, w) := full_cb w in
          if full then (false, w) else (true, with_use_ts open_cb w)
        else (true, w) in
      if negb (fst r1) then no_space (snd r1)
      else
        let w := snd r1 in
        let c := w_c w in
        if gt_diff32 er_size (c_psize c) (c_at c) then
          let w := with_use_ts close_cb w in
          let (full, w) := full_cb w in
          if full then no_space w
          else
            let w := with_use_ts open_cb w in
            let c := w_c w in
            (* the record does not fit the packet just opened (the platform may have installed a
               smaller buffer): discarded and counted (was an assert before the repair of S18) *)
            if gt_diff32 er_size (c_psize c) (c_at c) then no_space w else (true, w)
        else (true, w).

  Fixpoint eh_vals (ms : list (string * ft)) (id : nat) (ts : Z) : list val :=
    match ms with
    | [] => []
    | (n, _) :: ms => (if String.eqb n "id" then VInt (Z.of_nat id) else VInt ts) :: eh_vals ms id ts
    end.

  (* the parts of an event record in serialization order, with their argument values;
     args = values of the present user scopes in order (common ctx, specific ctx, payload) *)
  Definition opt_part (o : option op) (args : list val) : list (op * val) * list val :=
    match o with
    | Some o => match args with a :: r => ([(o, a)], r) | [] => ([(o, VArr [])], []) end
    | None => ([], args)
    end.
  Definition rec_parts (e : ertm) (ts : Z) (args : list val) : list (op * val) :=
    let h := match snd (eh_build d), d_eh d with
             | Some o, Some s => [(o, VArr (eh_vals (s_mems s) (e_id e) ts))] | _, _ => [] end in
    let r1 := opt_part (snd (cc_build d)) args in
    let r2 := opt_part (snd (sc_build d e)) (snd r1) in
    let r3 := opt_part (snd (p_build d e)) (snd r2) in
    h ++ fst r1 ++ fst r2 ++ fst r3.

  Fixpoint size_parts (ps : list (op * val)) (a : nat) : option nat :=
    match ps with
    | [] => Some a
    | (o, v) :: ps => match size_op o v a with Some a' => size_parts ps a' | None => None end
    end.

  Definition ser_parts (w : world) (ps : list (op * val)) : world :=
    fold_left (fun w pv => if w_err w then w else do_ser w (fst pv) (snd pv)) ps w.

  (* <prefix><dst>_trace_<ert> *)
  Definition trace_fn (e : ertm) (args : list val) (w : world) : world :=
    let w := if d_has_clock d
             then let (t, w) := clock_cb w in set_c w (set_last_ts (w_c w) t) else w in
    let c := w_c w in
    if negb (c_enabled c) then w
    else
      let w := set_c w (set_in_ts c true) in
      match size_parts (rec_parts e 0%Z args) (c_at c) with
      | None => fail w 4
      | Some at_end =>
          let (ok, w) := reserve w (at_end - c_at c) in
          if negb ok then set_c w (set_in_ts (w_c w) false)
          else if w_err w then w
          else
            (* repair of S9: when the reservation moved the position (packet switch) the size is
               computed again at the new position; a record that does not fit is discarded *)
            let r2 : bool * world :=
              if c_at (w_c w) =? c_at c then (true, w)
              else match size_parts (rec_parts e 0%Z args) (c_at (w_c w)) with
                   | None => (false, fail w 4)
                   | Some at_end2 =>
                       if gt_diff32 (at_end2 - c_at (w_c w)) (c_psize (w_c w)) (c_at (w_c w))
                       then let (_, w) := no_space w in (false, set_c w (set_in_ts (w_c w) false))
                       else (true, w)
                   end in
            if negb (fst r2) then snd r2
            else
              let w := snd r2 in
              let w := if d_has_clock d && has_member_o (d_eh d) "timestamp"
                       then logev w (ETs 2 (c_last_ts (w_c w))) else w in
              let w := ser_parts w (rec_parts e (c_last_ts (w_c w)) args) in
              if w_err w then w
              else
                let w := if c_at (w_c w) =? c_psize (w_c w) then close_cb w else w in
                set_c w (set_in_ts (w_c w) false)
      end.

  Inductive call :=
  | CTrace (ei : nat) (args : list val)
  | COpen | CClose              (* platform-initiated: the platform runs its open / close routine *)
  | CEnable (b : bool)
  | CFini.                      (* documented finalisation idiom *)

  Definition step (w : world) (k : call) : world :=
    if w_err w then w
    else
      let w :=
        match k with
        | CTrace ei args =>
            match nth_error (d_erts d) ei with Some e => trace_fn e args w | None => fail w 5 end
        | COpen => open_cb w
        | CClose => close_cb w
        | CEnable b => set_c w (set_enabled (w_c w) b)
        | CFini =>
            let c := w_c w in
            if c_open c && negb (c_at c <=? c_off_content c) then close_cb w else w
        end in
      if w_err w then w else logev w (ERet (w_c w)).

  Definition run (buf_bytes : nat) (pcargs : list val) (oracle : list ans) (h : list call) : world :=
    fold_left step h (mk_w (init_ctx buf_bytes) oracle 0%Z [] false pcargs).
End Stream.

(* ------------------------------------------------------------------ log encoding for the diff *)
Definition zb (b : bool) : Z := if b then 1%Z else 0%Z.
Definition enc_ev (e : ev) : list Z :=
  match e with
  | ECb k f o => [1; Z.of_nat k; zb f; zb o]%Z
  | EAns _ | EStore _ | ETs _ _ | ESample _ | EDisc => []
  | EPacket n bytes => [2%Z; Z.of_nat n; Z.of_nat (List.length bytes)] ++ bytes
  | ERet c => [3%Z; Z.of_nat (c_at c); Z.of_nat (c_psize c); Z.of_nat (c_content c); Z.of_nat (c_off_content c);
               Z.of_nat (c_disc c); Z.of_nat (c_seq c); zb (c_open c); zb (c_in_ts c); zb (c_enabled c);
               zb (c_use_ts c); c_last_ts c]
  | EErr code => [4%Z; Z.of_nat code]
  end.
Definition enc_log (w : world) : list Z := flat_map enc_ev (w_log w).
