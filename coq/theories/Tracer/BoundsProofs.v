(* C02 / C03 at the tracer level.
   - len_ok: the packet buffer never changes length (every store is inside it or is flagged as an
     error), for every reachable world;
   - a record whose size, computed at the position where it is finally written, fits the packet is
     serialized without any store outside the buffer and ends exactly at start + size;
   - what a successful / failed reservation guarantees. *)
From Coq Require Import List Arith Bool ZArith String Lia PeanoNat.
Import ListNotations.
From BT.Base Require Import Bits BitsProofs.
From BT.Layout Require Import Model BuildProofs RoundTrip RecordProofs SizeProofs.
From BT.Tracer Require Import Model Lemmas.

Definition len_ok (w : world) : Prop := List.length (c_s (w_c w)) = c_psize (w_c w).

Definition wf_osft (o : option sft) : bool := match o with Some s => wf_sft s | None => true end.
Definition wf_ert (e : ertm) : bool := wf_osft (e_sc e) && wf_osft (e_p e).
Definition wf_rec (d : dstm) : bool := wf_osft (d_eh d) && wf_osft (d_cc d) && forallb wf_ert (d_erts d).

(* ------------------------------------------------------------------ len_ok is an invariant *)
Lemma do_ser_len d w o v : len_ok w -> len_ok (do_ser d w o v).
Proof.
  unfold len_ok. intros H. rewrite do_ser_eq.
  destruct (ser _ _ _ o v _) as [st|] eqn:E; prj; [|exact H].
  unfold ser_ctx; prj.
  destruct (ser_good_all (d_bo d) (d_native_known d) (c_psize (w_c w)) o v
              (mk_ss (c_s (w_c w)) (c_at (w_c w)) []) st H E) as [L _]. exact L.
Qed.
Lemma logev_len w e : len_ok w -> len_ok (logev w e). Proof. unfold len_ok; up; auto. Qed.
Lemma tog_len a w : len_ok w -> len_ok (set_c w (tog a (w_c w))).
Proof. unfold len_ok; up. rewrite tog_s, tog_psize. auto. Qed.

Lemma clock_cb_len d w : len_ok w -> len_ok (snd (clock_cb d w)).
Proof. rewrite clock_cb_eq. unfold len_ok; prj. rewrite tog_s, tog_psize. auto. Qed.
Lemma full_cb_len w : len_ok w -> len_ok (snd (full_cb w)).
Proof. rewrite full_cb_eq. unfold len_ok; prj. rewrite tog_s, tog_psize. auto. Qed.
Lemma preamble_len d w f : len_ok w -> len_ok (snd (preamble_ts d w f)).
Proof.
  intros H. destruct (preamble_cases d w f) as [[E _]|[[E _]|[E _]]]; rewrite E; cbn [snd]; auto.
  apply clock_cb_len, H.
Qed.

Lemma write_saved_len d w n v : len_ok w -> len_ok (write_saved d w n v).
Proof.
  intros H. unfold write_saved.
  destruct (has_member (d_pc d) n); [|exact H].
  destruct (pc_member_op d n) as [[al k size off| | | |]|]; try (unfold len_ok in *; up; exact H).
  destruct (skip_index _ n 0); [|unfold len_ok in *; up; exact H].
  cbv zeta.
  match goal with |- len_ok (set_c ?W _) => assert (L : len_ok W) end.
  { apply do_ser_len. unfold len_ok in *; up. exact H. }
  unfold len_ok in *; up. exact L.
Qed.

Lemma open_fn_len d w : len_ok w -> len_ok (open_fn d w).
Proof.
  intros H. rewrite open_fn_eq. apply (preamble_len d w (has_member (d_pc d) "timestamp_begin")) in H.
  set (w1 := snd (preamble_ts d w _)) in *. set (ts := fst (preamble_ts d w _)).
  unfold open_core.
  destruct (_ && _); [unfold len_ok in *; up; exact H|].
  destruct (c_open _); [unfold len_ok in *; up; exact H|].
  unfold open_do, open_fin, open_pc, open_mark, open_hdr, open_reset.
  match goal with |- len_ok (set_c ?W _) => assert (L : len_ok W) end.
  { apply do_ser_len.
    assert (L0 : len_ok (set_c w1 (mk_ctx (c_s (w_c w1)) (c_psize (w_c w1)) 0 (c_content (w_c w1))
                 (c_off_content (w_c w1)) (c_disc (w_c w1)) (c_seq (w_c w1)) (c_open (w_c w1)) true
                 (c_enabled (w_c w1)) (c_use_ts (w_c w1)) (c_last_ts (w_c w1)) [])))
      by (unfold len_ok in *; up; exact H).
    destruct (snd (ph_build d)); destruct (_ && _); try apply logev_len; try apply do_ser_len; exact L0. }
  unfold len_ok in *; up. exact L.
Qed.

Lemma close_fn_len d w : len_ok w -> len_ok (close_fn d w).
Proof.
  intros H. rewrite close_fn_eq. apply (preamble_len d w (has_member (d_pc d) "timestamp_end")) in H.
  set (w1 := snd (preamble_ts d w _)) in *. set (ts := fst (preamble_ts d w _)).
  unfold close_core.
  destruct (_ && _); [unfold len_ok in *; up; exact H|].
  destruct (negb _); [unfold len_ok in *; up; exact H|].
  unfold close_do, close_fin, close_ws, close_mark, close_begin.
  match goal with |- len_ok (set_c ?W _) => assert (L : len_ok W) end.
  { repeat apply write_saved_len. destruct (_ && _); try apply logev_len; unfold len_ok in *; up; exact H. }
  unfold len_ok in *; up. exact L.
Qed.

Lemma cb_enter_len k w : len_ok w -> len_ok (cb_enter k w).
Proof. unfold len_ok, cb_enter; prj. rewrite tog_s, tog_psize. auto. Qed.
Lemma open_cb_len d w : len_ok w -> len_ok (open_cb d w).
Proof. intros H. rewrite open_cb_eq. apply open_fn_len, cb_enter_len, H. Qed.
Lemma close_cb_len d w : len_ok w -> len_ok (close_cb d w).
Proof.
  intros H. rewrite close_cb_eq.
  assert (L : len_ok (close_fn d (cb_enter 2 w))) by (apply close_fn_len, cb_enter_len, H).
  unfold close_hand. destruct (_ && _); [|exact L].
  assert (L2 : len_ok (close_give d (hd_ans w) (close_fn d (cb_enter 2 w)))).
  { unfold close_give. cbv zeta.
    destruct (a_newbuf _) as [b|]; [|apply logev_len, L].
    unfold len_ok; up. unfold zeros. apply repeat_length. }
  destruct (a_eager _); [apply open_fn_len|]; exact L2.
Qed.
Lemma with_use_ts_len f w : (forall x, len_ok x -> len_ok (f x)) -> len_ok w -> len_ok (with_use_ts f w).
Proof.
  intros Hf H. unfold with_use_ts.
  assert (L : len_ok (f (set_c w (set_use_ts (w_c w) true)))) by (apply Hf; unfold len_ok in *; up; exact H).
  unfold len_ok in *; up. exact L.
Qed.
Lemma no_space_len w : len_ok w -> len_ok (snd (no_space w)).
Proof. rewrite no_space_eq. unfold len_ok; up. auto. Qed.
Lemma fail_len w k : len_ok w -> len_ok (fail w k). Proof. unfold len_ok; up; auto. Qed.

Lemma reserve_len d w n : len_ok w -> len_ok (snd (reserve d w n)).
Proof.
  apply (reserve_inv d len_ok).
  - apply full_cb_len.
  - intros x Hx. apply with_use_ts_len; [apply open_cb_len|exact Hx].
  - intros x Hx. apply with_use_ts_len; [apply close_cb_len|exact Hx].
  - apply no_space_len.
Qed.

Lemma ser_parts_len d ps : forall w, len_ok w -> len_ok (ser_parts d w ps).
Proof.
  unfold ser_parts. induction ps as [|p ps IH]; intros w H; cbn [fold_left]; [exact H|].
  apply IH. destruct (w_err w); [exact H|apply do_ser_len, H].
Qed.

Lemma trace_fn_len d e args w : len_ok w -> len_ok (trace_fn d e args w).
Proof.
  intros H. rewrite trace_fn_eq.
  assert (L0 : len_ok (trace_entry d w)).
  { unfold trace_entry. destruct (d_has_clock d); [|exact H].
    pose proof (clock_cb_len d w H) as L. unfold len_ok in *; up. exact L. }
  destruct (negb _); [exact L0|].
  unfold trace_body. set (w0 := trace_entry d w) in *.
  assert (L1 : len_ok (set_c w0 (set_in_ts (w_c w0) true))) by (unfold len_ok in *; up; exact L0).
  destruct (size_parts _ _) as [ae|]; [|apply fail_len, L1].
  cbv zeta.
  pose proof (reserve_len d _ (ae - c_at (w_c w0)) L1) as L2.
  destruct (negb (fst _)); [unfold len_ok in *; up; exact L2|].
  destruct (w_err _); [exact L2|].
  match goal with |- context [trace_recheck d e args ?a ?x] =>
    destruct (trace_recheck_cases d e args a x) as [Crc|[Crc|(_ & a2 & _ & _ & Crc)]]; rewrite Crc; cbn [fst snd negb] end;
    [|apply fail_len, L2|unfold recheck_discard; pose proof (no_space_len _ L2) as L2'; unfold len_ok in *; up; exact L2'].
  unfold trace_ser, trace_mark, trace_commit. cbv zeta.
  match goal with |- len_ok (if w_err ?W then _ else _) => assert (L3 : len_ok W) end.
  { apply ser_parts_len. destruct (_ && _); [apply logev_len|]; exact L2. }
  destruct (w_err _); [exact L3|].
  match goal with |- len_ok (set_c ?W _) => assert (L4 : len_ok W) end.
  { destruct (_ =? _); [apply close_cb_len|]; exact L3. }
  unfold len_ok in *; up. exact L4.
Qed.

Lemma step_len d w k : len_ok w -> len_ok (step d w k).
Proof.
  intros H. unfold step. destruct (w_err w); [exact H|].
  match goal with |- len_ok (if w_err ?W then _ else _) => assert (L : len_ok W) end.
  { destruct k as [ei args| | |b|].
    - destruct (nth_error _ _); [apply trace_fn_len|apply fail_len]; exact H.
    - apply open_cb_len, H.
    - apply close_cb_len, H.
    - unfold len_ok in *; up; exact H.
    - destruct (_ && _); [apply close_cb_len|]; exact H. }
  destruct (w_err _); [exact L|apply logev_len, L].
Qed.

Theorem run_len_ok d buf pcargs oracle h : len_ok (run d buf pcargs oracle h).
Proof.
  unfold run.
  assert (H0 : len_ok (mk_w (init_ctx buf) oracle 0%Z [] false pcargs)).
  { unfold len_ok, init_ctx; prj. unfold zeros. apply repeat_length. }
  revert H0. generalize (mk_w (init_ctx buf) oracle 0%Z [] false pcargs).
  induction h as [|k h IH]; intros w H; cbn [fold_left]; [exact H|]. apply IH, step_len, H.
Qed.

(* ------------------------------------------------------------------ a record that fits is written in bounds *)
Definition built_part (p : op * val) : Prop :=
  exists st s, wf_sft s = true /\ fst p = snd (build_root [] st s).

Definition built_op (o : op) : Prop := exists st s, wf_sft s = true /\ o = snd (build_root [] st s).

Lemma opt_part_built o args :
  match o with Some x => built_op x | None => True end -> Forall built_part (fst (opt_part o args)).
Proof.
  destruct o as [x|]; cbn [opt_part]; [|constructor].
  intros (st & s & Hwf & ->).
  destruct args; cbn [fst]; (constructor; [exists st, s; auto|constructor]).
Qed.

Lemma rec_parts_built d e ts args : wf_rec d = true -> In e (d_erts d) ->
  Forall built_part (rec_parts d e ts args).
Proof.
  intros Hwf Hin. unfold wf_rec in Hwf. apply andb_true_iff in Hwf. destruct Hwf as [Hwf He].
  apply andb_true_iff in Hwf. destruct Hwf as [Hh Hc].
  rewrite forallb_forall in He. specialize (He e Hin). unfold wf_ert in He.
  apply andb_true_iff in He. destruct He as [Hs Hp].
  unfold rec_parts. cbv zeta.
  apply Forall_app; split; [|apply Forall_app; split; [|apply Forall_app; split]].
  - unfold eh_build. destruct (d_eh d) as [s|]; cbn [snd]; [|constructor].
    constructor; [|constructor]. exists None, s. auto.
  - apply opt_part_built. unfold cc_build. destruct (d_cc d) as [s|]; cbn [snd]; [|exact I].
    eexists _, s. split; [exact Hc|reflexivity].
  - apply opt_part_built. unfold sc_build. destruct (e_sc e) as [s|]; cbn [snd]; [|exact I].
    eexists _, s. split; [exact Hs|reflexivity].
  - apply opt_part_built. unfold p_build. destruct (e_p e) as [s|]; cbn [snd]; [|exact I].
    eexists _, s. split; [exact Hp|reflexivity].
Qed.

(* the size of a record does not depend on the timestamp value *)
Lemma eh_vals_shape ms id t1 t2 : Forall2 same_shape (eh_vals ms id t1) (eh_vals ms id t2).
Proof. induction ms as [|[n f] ms IH]; cbn [eh_vals]; constructor; auto. destruct (String.eqb n "id"); constructor. Qed.

Lemma size_parts_ts d e t1 t2 args a :
  size_parts (rec_parts d e t1 args) a = size_parts (rec_parts d e t2 args) a.
Proof.
  unfold rec_parts.
  destruct (snd (eh_build d)) as [o|]; [|reflexivity].
  destruct (d_eh d) as [s|]; [|reflexivity].
  cbn [app size_parts].
  rewrite (size_shape o (VArr (eh_vals (s_mems s) (e_id e) t1)) (VArr (eh_vals (s_mems s) (e_id e) t2)) a).
  - reflexivity.
  - constructor. apply eh_vals_shape.
Qed.

(* serialization of parts whose computed end fits *)
Lemma ser_parts_fit d ps : Forall built_part ps ->
  forall w a', len_ok w -> w_err w = false ->
    size_parts ps (c_at (w_c w)) = Some a' -> a' <= c_psize (w_c w) ->
    let w' := ser_parts d w ps in
    w_err w' = false /\ c_at (w_c w') = a' /\ c_at (w_c w) <= a' /\ c_psize (w_c w') = c_psize (w_c w) /\
    c_off_content (w_c w') = c_off_content (w_c w) /\ c_open (w_c w') = c_open (w_c w) /\
    c_disc (w_c w') = c_disc (w_c w) /\ len_ok w'.
Proof.
  unfold ser_parts. induction 1 as [|[o v] ps Hp Hps IH]; intros w a' Hl He Hs Ha; cbn [fold_left size_parts] in *.
  - injection Hs as <-. cbv zeta. repeat split; auto.
  - destruct (size_op o v (c_at (w_c w))) as [a1|] eqn:E; [|discriminate].
    rewrite He. destruct Hp as (st & s & Hwf & Ho). cbn [fst snd] in *. subst o.
    destruct v as [z|bs|vs]; try (unfold build_root in E; cbn [snd size_op] in E; discriminate).
    (* a1 <= a' : monotonicity of the remaining parts, via a dummy world *)
    assert (Hmono : a1 <= a').
    { clear -Hps Hs. revert a1 Hs. induction Hps as [|[o v] ps Hp Hps IHp]; intros a1 Hs; cbn [size_parts] in Hs.
      - injection Hs as <-. lia.
      - destruct (size_op o v a1) as [a2|] eqn:E2; [|discriminate].
        specialize (IHp a2 Hs). destruct Hp as (st & s & Hwf & Ho). cbn [fst] in Ho. subst o.
        destruct v as [z|bs|vs]; try (unfold build_root in E2; cbn [snd size_op] in E2; discriminate).
        destruct (ser_fits_root LE false (Nat.max a2 a1) s Hwf st vs (mk_ss (repeat false (Nat.max a2 a1)) a1 [])
                    a2 (repeat_length _ _) E2 ltac:(lia)) as [M _]. cbn [ss_at] in M. lia. }
    destruct (ser_fits_root (d_bo d) (d_native_known d) (c_psize (w_c w)) s Hwf st vs
                (mk_ss (c_s (w_c w)) (c_at (w_c w)) []) a1 Hl E ltac:(lia)) as [M [s' [Es Ls]]].
    cbn [ss_at ss_saved] in *.
    set (w1 := do_ser d w (snd (build_root [] st s)) (VArr vs)).
    assert (W1 : w1 = mk_w (ser_ctx (w_c w) (mk_ss s' a1 [])) (w_or w) (w_clk w)
                            (w_log w ++ [EStore (c_in_ts (w_c w))]) (w_err w) (w_pcargs w)).
    { unfold w1. rewrite do_ser_eq, Es. reflexivity. }
    assert (L1 : len_ok w1) by (rewrite W1; unfold len_ok, ser_ctx; prj; exact Ls).
    assert (E1 : w_err w1 = false) by (rewrite W1; prj; exact He).
    assert (A1 : c_at (w_c w1) = a1) by (rewrite W1; unfold ser_ctx; prj; reflexivity).
    assert (P1 : c_psize (w_c w1) = c_psize (w_c w)) by (rewrite W1; unfold ser_ctx; prj; reflexivity).
    specialize (IH w1 a' L1 E1). rewrite A1, P1 in IH. specialize (IH Hs Ha). cbv zeta in IH.
    destruct IH as (I1 & I2 & I3 & I4 & I5 & I6 & I7 & I8).
    cbv zeta. repeat split; auto; try lia.
    + rewrite I5, W1. unfold ser_ctx; prj. reflexivity.
    + rewrite I6, W1. unfold ser_ctx; prj. reflexivity.
    + rewrite I7, W1. unfold ser_ctx; prj. reflexivity.
Qed.

(* what a successful reservation guarantees *)
Lemma reserve2_ok_nf d n w w1 : reserve2 d n w = (true, w1) ->
  gt_diff32 n (c_psize (w_c w1)) (c_at (w_c w1)) = false.
Proof.
  unfold reserve2. intros H.
  destruct (gt_diff32 n (c_psize (w_c w)) (c_at (w_c w))) eqn:G.
  - cbv zeta in H. destruct (fst (full_cb _)); [rewrite no_space_eq in H; discriminate|].
    match type of H with (if ?b then _ else _) = _ => destruct b eqn:G2 end.
    + rewrite no_space_eq in H; discriminate.
    + injection H as <-. exact G2.
  - injection H as <-. exact G.
Qed.
(* since the repair of S18 a successful reservation guarantees the space even when the platform
   installed a smaller buffer: no "no error" premise any more *)
Lemma reserve_ok_nf d w n w1 : reserve d w n = (true, w1) ->
  gt_diff32 n (c_psize (w_c w1)) (c_at (w_c w1)) = false.
Proof.
  rewrite reserve_eq. unfold reserve'. intros H.
  destruct (gt_diff32 n _ (c_off_content _)); [rewrite no_space_eq in H; discriminate|].
  destruct (_ =? _).
  - destruct (fst (full_cb w)); [rewrite no_space_eq in H; discriminate|].
    eapply reserve2_ok_nf; eauto.
  - eapply reserve2_ok_nf; eauto.
Qed.
Lemma reserve2_ok d n w w1 : reserve2 d n w = (true, w1) -> w_err w1 = false ->
  gt_diff32 n (c_psize (w_c w1)) (c_at (w_c w1)) = false.
Proof. intros H _. eapply reserve2_ok_nf; eauto. Qed.
Lemma reserve_ok d w n w1 : reserve d w n = (true, w1) -> w_err w1 = false ->
  gt_diff32 n (c_psize (w_c w1)) (c_at (w_c w1)) = false.
Proof. intros H _. eapply reserve_ok_nf; eauto. Qed.

(* C02, record part: if the size computed before the reservation is also the record's size at the
   position reached after it (size_stable: always true when no packet switch happened), every store
   of the record is inside the packet and the record ends at start + size *)
Theorem record_in_bounds d e args w0 w1 n :
  wf_rec d = true -> In e (d_erts d) ->
  reserve d w0 n = (true, w1) -> w_err w1 = false -> len_ok w1 ->
  c_at (w_c w1) <= c_psize (w_c w1) ->
  size_parts (rec_parts d e 0%Z args) (c_at (w_c w1)) = Some (c_at (w_c w1) + n) ->    (* size_stable *)
  forall ts,
  let w2 := ser_parts d w1 (rec_parts d e ts args) in
  w_err w2 = false /\ c_at (w_c w2) = c_at (w_c w1) + n /\ c_at (w_c w2) <= c_psize (w_c w2) /\ len_ok w2.
Proof.
  intros Hwf Hin Hr He Hl Hat Hst ts.
  pose proof (reserve_ok d w0 n w1 Hr He) as G. unfold gt_diff32 in G.
  destruct (Nat.leb_spec (c_at (w_c w1)) (c_psize (w_c w1))) as [_|]; [|lia].
  apply Nat.ltb_ge in G.
  rewrite (size_parts_ts d e 0%Z ts args) in Hst.
  destruct (ser_parts_fit d _ (rec_parts_built d e ts args Hwf Hin) w1 _ Hl He Hst ltac:(lia))
    as (A & B & _ & P & _ & _ & _ & L).
  cbv zeta. rewrite P. repeat split; auto. lia.
Qed.

(* ------------------------------------------------------------------ after the repairs of S9 and S18 *)
(* sizes computed by the size pass never go backwards *)
Lemma size_parts_mono ps : Forall built_part ps -> forall a a', size_parts ps a = Some a' -> a <= a'.
Proof.
  induction 1 as [|[o v] ps Hp Hps IHp]; intros a1 a' Hs; cbn [size_parts] in Hs.
  - injection Hs as <-. lia.
  - destruct (size_op o v a1) as [a2|] eqn:E2; [|discriminate].
    specialize (IHp a2 a' Hs). destruct Hp as (st & s & Hwf & Ho). cbn [fst] in Ho. subst o.
    destruct v as [z|bs|vs]; try (unfold build_root in E2; cbn [snd size_op] in E2; discriminate).
    destruct (ser_fits_root LE false (Nat.max a2 a1) s Hwf st vs (mk_ss (repeat false (Nat.max a2 a1)) a1 [])
                a2 (repeat_length _ _) E2 ltac:(lia)) as [M _]. cbn [ss_at] in M. lia.
Qed.

(* what the tracing function knows when it starts serializing the record: the size of the record AT
   THE POSITION WHERE IT IS WRITTEN fits the space left in the packet *)
Lemma recheck_fits d e args w w1 at_end :
  size_parts (rec_parts d e 0%Z args) (c_at (w_c w)) = Some at_end ->
  reserve d (set_c w (set_in_ts (w_c w) true)) (at_end - c_at (w_c w)) = (true, w1) ->
  fst (trace_recheck d e args (c_at (w_c w)) w1) = true ->
  exists a', size_parts (rec_parts d e 0%Z args) (c_at (w_c w1)) = Some a' /\
             gt_diff32 (a' - c_at (w_c w1)) (c_psize (w_c w1)) (c_at (w_c w1)) = false.
Proof.
  intros Hs Hr Hc. unfold trace_recheck in Hc.
  destruct (c_at (w_c w1) =? c_at (w_c w)) eqn:Ea.
  - apply Nat.eqb_eq in Ea. exists at_end. rewrite Ea. split; [exact Hs|].
    pose proof (reserve_ok_nf d _ _ w1 Hr) as G. rewrite Ea in G. exact G.
  - destruct (size_parts (rec_parts d e 0%Z args) (c_at (w_c w1))) as [a2|] eqn:E2; [|discriminate].
    exists a2. split; [reflexivity|].
    destruct (gt_diff32 _ _ _); [discriminate|reflexivity].
Qed.

(* C02, record part, after both repairs: no size_stable premise.  w: the world in which the tracing
   function computes the size; w1: the world after a successful reservation that passed the
   post-switch check: every store of the record is inside the packet, and the record occupies
   exactly the size the size pass gives at the position where it is written *)
Theorem record_in_bounds_repaired d e args w w1 at_end :
  wf_rec d = true -> In e (d_erts d) ->
  size_parts (rec_parts d e 0%Z args) (c_at (w_c w)) = Some at_end ->
  reserve d (set_c w (set_in_ts (w_c w) true)) (at_end - c_at (w_c w)) = (true, w1) ->
  fst (trace_recheck d e args (c_at (w_c w)) w1) = true ->
  w_err w1 = false -> len_ok w1 -> c_at (w_c w1) <= c_psize (w_c w1) ->
  forall ts,
  let w2 := ser_parts d w1 (rec_parts d e ts args) in
  w_err w2 = false /\ size_parts (rec_parts d e 0%Z args) (c_at (w_c w1)) = Some (c_at (w_c w2)) /\
  c_at (w_c w1) <= c_at (w_c w2) /\ c_at (w_c w2) <= c_psize (w_c w2) /\ len_ok w2.
Proof.
  intros Hwf Hin Hs Hr Hc He Hl Hat ts.
  destruct (recheck_fits d e args w w1 at_end Hs Hr Hc) as (a' & Hs' & G).
  pose proof (size_parts_mono _ (rec_parts_built d e 0%Z args Hwf Hin) _ _ Hs') as Hm.
  unfold gt_diff32 in G. destruct (Nat.leb_spec (c_at (w_c w1)) (c_psize (w_c w1))) as [_|]; [|lia].
  apply Nat.ltb_ge in G.
  pose proof Hs' as Hs''. rewrite (size_parts_ts d e 0%Z ts args) in Hs''.
  destruct (ser_parts_fit d _ (rec_parts_built d e ts args Hwf Hin) w1 _ Hl He Hs'' ltac:(lia))
    as (A & B & C & P & _ & _ & _ & L).
  cbv zeta. rewrite P, B. repeat split; auto. lia.
Qed.
