(* The error flag of the tracer model is sticky: once a serialization failed (or an assertion of
   the generated code would have), every later world of the run has the flag. *)
From Coq Require Import List Arith Bool ZArith String Lia.
Import ListNotations.
From BT.Base Require Import Bits.
From BT.Layout Require Import Model.
From BT.Tracer Require Import Model Lemmas.

Definition sticky (f : world -> world) : Prop := forall w, w_err w = true -> w_err (f w) = true.

Lemma sticky_comp f g : sticky f -> sticky g -> sticky (fun w => g (f w)).
Proof. intros F G w H. apply G, F, H. Qed.

Section E.
  Variable d : dstm.

  Lemma err_set_c w c : w_err (set_c w c) = w_err w. Proof. reflexivity. Qed.
  Lemma err_logev w e : w_err (logev w e) = w_err w. Proof. reflexivity. Qed.
  Lemma err_fail w k : w_err (fail w k) = true. Proof. reflexivity. Qed.
  Lemma err_clock w : w_err (snd (clock_cb d w)) = w_err w. Proof. rewrite clock_cb_eq. reflexivity. Qed.
  Lemma err_full w : w_err (snd (full_cb w)) = w_err w. Proof. rewrite full_cb_eq. reflexivity. Qed.
  Lemma err_no_space w : w_err (snd (no_space w)) = w_err w. Proof. reflexivity. Qed.
  Lemma err_cb_enter k w : w_err (cb_enter k w) = w_err w. Proof. reflexivity. Qed.

  Lemma err_preamble w f : w_err (snd (preamble_ts d w f)) = w_err w.
  Proof.
    destruct (preamble_cases d w f) as [[-> _]|[[-> _]|[-> _]]]; try reflexivity. apply err_clock.
  Qed.

  Lemma sticky_do_ser o v : sticky (fun w => do_ser d w o v).
  Proof. intros w H. rewrite do_ser_eq. destruct (ser _ _ _ _ _ _); prj; auto. Qed.

  Lemma sticky_write_saved n v : sticky (fun w => write_saved d w n v).
  Proof.
    intros w H. unfold write_saved. destruct (has_member _ _); [|exact H].
    destruct (pc_member_op d n) as [[al k size off| | | |]|]; try reflexivity.
    destruct (skip_index _ _ _); [|reflexivity].
    rewrite err_set_c. apply sticky_do_ser. rewrite err_set_c. exact H.
  Qed.

  Lemma sticky_open_core ts : sticky (open_core d ts).
  Proof.
    intros w H. unfold open_core. destruct (_ && _); [exact H|]. destruct (c_open _); [exact H|].
    unfold open_do, open_fin. rewrite err_set_c. unfold open_pc. apply sticky_do_ser.
    unfold open_mark. destruct (_ && _); rewrite ?err_logev; unfold open_hdr;
      (destruct (snd (ph_build d)); [apply sticky_do_ser|]); unfold open_reset; rewrite err_set_c; exact H.
  Qed.

  Lemma sticky_open_fn : sticky (open_fn d).
  Proof. intros w H. rewrite open_fn_eq. apply sticky_open_core. rewrite err_preamble. exact H. Qed.

  Lemma sticky_close_core ts : sticky (close_core d ts).
  Proof.
    intros w H. unfold close_core. destruct (_ && _); [exact H|]. destruct (negb _); [exact H|].
    unfold close_do, close_fin. rewrite err_set_c. unfold close_ws.
    apply sticky_write_saved. apply sticky_write_saved. apply sticky_write_saved.
    unfold close_mark. destruct (_ && _); rewrite ?err_logev; unfold close_begin; rewrite err_set_c; exact H.
  Qed.

  Lemma sticky_close_fn : sticky (close_fn d).
  Proof. intros w H. rewrite close_fn_eq. apply sticky_close_core. rewrite err_preamble. exact H. Qed.

  Lemma sticky_open_cb : sticky (open_cb d).
  Proof. intros w H. rewrite open_cb_eq. apply sticky_open_fn. exact H. Qed.

  Lemma err_close_give a w : w_err (close_give d a w) = w_err w.
  Proof. unfold close_give. cbv zeta. destruct (a_newbuf a); reflexivity. Qed.

  (* with an eager platform the handover runs the opening function, which may fail: no longer an
     equality *)
  Lemma sticky_close_hand a b : sticky (close_hand d a b).
  Proof.
    intros w H. unfold close_hand. destruct (_ && _); [|exact H].
    destruct (a_eager a); [apply sticky_open_fn|]; rewrite err_close_give; exact H.
  Qed.
  Lemma err_close_hand_back a b w : w_err (close_hand d a b w) = false -> w_err w = false.
  Proof.
    intros H. destruct (w_err w) eqn:E; [|reflexivity].
    rewrite (sticky_close_hand a b w E) in H. discriminate.
  Qed.
  Lemma err_close_hand_lazy a b w : a_eager a = false -> w_err (close_hand d a b w) = w_err w.
  Proof.
    intros Ha. unfold close_hand. destruct (_ && _); [|reflexivity]. rewrite Ha. apply err_close_give.
  Qed.

  Lemma sticky_close_cb : sticky (close_cb d).
  Proof. intros w H. rewrite close_cb_eq. apply sticky_close_hand. apply sticky_close_fn. exact H. Qed.

  Lemma sticky_with_use_ts f : sticky f -> sticky (with_use_ts f).
  Proof. intros F w H. unfold with_use_ts. rewrite err_set_c. apply F. rewrite err_set_c. exact H. Qed.

  Lemma sticky_reserve n : sticky (fun w => snd (reserve d w n)).
  Proof.
    intros w H. apply (reserve_inv d (fun w => w_err w = true)); auto.
    - intros x Hx. rewrite err_full. exact Hx.
    - apply sticky_with_use_ts, sticky_open_cb.
    - apply sticky_with_use_ts, sticky_close_cb.
  Qed.

  Lemma sticky_ser_parts ps : sticky (fun w => ser_parts d w ps).
  Proof.
    unfold ser_parts. induction ps as [|p ps IH]; intros w H; cbn [fold_left]; [exact H|].
    apply IH. rewrite H. exact H.
  Qed.

  Lemma ser_parts_err w ps : w_err w = true -> ser_parts d w ps = w.
  Proof.
    unfold ser_parts. revert w. induction ps as [|p ps IH]; intros w H; cbn [fold_left]; [reflexivity|].
    rewrite H. apply IH. exact H.
  Qed.

  Lemma sticky_trace_entry : sticky (trace_entry d).
  Proof. intros w H. unfold trace_entry. destruct (d_has_clock d); [|exact H]. rewrite err_set_c, err_clock. exact H. Qed.

  Lemma sticky_trace_fn e args : sticky (trace_fn d e args).
  Proof.
    intros w H. rewrite trace_fn_eq. pose proof (sticky_trace_entry w H) as H1.
    destruct (negb _); [exact H1|].
    unfold trace_body. destruct (size_parts _ _); [|reflexivity].
    set (w0 := set_c _ _).
    assert (H2 : w_err (snd (reserve d w0 (n - c_at (w_c (trace_entry d w))))) = true)
      by (apply sticky_reserve; exact H1).
    destruct (negb (fst _)); [rewrite err_set_c; exact H2|]. rewrite H2. exact H2.
  Qed.

  Lemma sticky_step k : sticky (fun w => step d w k).
  Proof. intros w H. unfold step. rewrite H. exact H. Qed.
End E.
