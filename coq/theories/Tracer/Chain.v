(* Chains of event records in a stream: the region [a, b) of a stream is a sequence of event
   records, each of which the packet-level reader decodes from ANY stream that agrees with this
   one on the record's own bits.  (Proofs only; used by Tracer/History.v.) *)
From Coq Require Import List Arith Bool ZArith String Lia PeanoNat.
Import ListNotations.
From BT.Base Require Import Bits BitsProofs.
From BT.Layout Require Import Model.
From BT.Tracer Require Import Model Decode.

Definition rcd := (Z * list (list dval))%type.

Section C.
  Variable t : tstream.

  Fixpoint chain (s : stream) (a b : nat) (rs : list rcd) : Prop :=
    match rs with
    | [] => a = b
    | r :: rs => exists m, a < m /\ m <= b /\
        (forall s'' lim', agree a m s'' s -> m <= lim' ->
           dec_record t s'' lim' a = Some (fst r, snd r, m)) /\
        chain s m b rs
    end.

  Lemma chain_le s rs : forall a b, chain s a b rs -> a <= b.
  Proof.
    induction rs as [|r rs IH]; intros a b H; cbn [chain] in H; [lia|].
    destruct H as (m & A & B & _ & _). lia.
  Qed.

  Lemma chain_agree s s' rs : forall a b, chain s a b rs -> agree a b s' s -> chain s' a b rs.
  Proof.
    induction rs as [|r rs IH]; intros a b H Hag; cbn [chain] in *; [exact H|].
    destruct H as (m & A & B & D & C). exists m. repeat split; auto.
    - intros s'' lim' G L. apply D; [|exact L]. intros p Hp. rewrite (G p Hp). apply Hag. lia.
    - apply IH; [exact C|]. intros p Hp. apply Hag. lia.
  Qed.

  Lemma chain_app s rs rs' : forall a m b, chain s a m rs -> chain s m b rs' -> chain s a b (rs ++ rs').
  Proof.
    induction rs as [|r rs IH]; intros a m b H H'; cbn [chain app] in *; [subst; exact H'|].
    destruct H as (m1 & A & B & D & C). pose proof (chain_le _ _ _ _ H').
    exists m1. repeat split; auto; [lia|]. eapply IH; eauto.
  Qed.

  (* the reader's record loop over a chain *)
  Lemma chain_dec s rs : forall a b s'' fuel acc, chain s a b rs -> agree a b s'' s -> b - a < fuel ->
    dec_records t s'' fuel b a acc = Some (rev acc ++ rs).
  Proof.
    induction rs as [|r rs IH]; intros a b s'' fuel acc H Hag Hf; cbn [chain] in H.
    - subst b. destruct fuel as [|fuel]; [lia|]. cbn [dec_records].
      rewrite Nat.leb_refl, Nat.eqb_refl, app_nil_r. reflexivity.
    - destruct H as (m & A & B & D & C).
      destruct fuel as [|fuel]; [lia|]. cbn [dec_records].
      destruct (Nat.leb_spec b a); [lia|].
      rewrite (D s'' b) by (try lia; intros p Hp; apply Hag; lia).
      destruct (Nat.eqb_spec m a); [lia|].
      rewrite (IH m b s'' fuel ((fst r, snd r) :: acc) C) by (try lia; intros p Hp; apply Hag; lia).
      cbn [rev]. rewrite <- app_assoc. destruct r; reflexivity.
  Qed.
End C.
