From Coq Require Import List Arith Bool ZArith Lia PeanoNat.
Import ListNotations.
From BT.Tracer Require Import Model Multi.

Lemma nth_upd_same {A} (l : list A) i f d : i < length l -> nth i (upd_nth l i f) d = f (nth i l d).
Proof.
  revert i. induction l as [|x r IH]; intros [|i] H; cbn in *; try lia; auto. apply IH. lia.
Qed.
Lemma nth_upd_other {A} (l : list A) i j f d : i <> j -> nth j (upd_nth l i f) d = nth j l d.
Proof.
  revert i j. induction l as [|x r IH]; intros [|i] [|j] H; cbn; auto; try lia.
Qed.
Lemma length_upd {A} (l : list A) i f : length (upd_nth l i f) = length l.
Proof. revert i. induction l as [|x r IH]; intros [|i]; cbn; auto. Qed.

(* frame: a call on context i leaves every other context (its buffer, counters, log, oracle,
   emitted packets) unchanged *)
Theorem mstep_frame dflt ds ws c j dw : j <> fst c -> nth j (mstep dflt ds ws c) dw = nth j ws dw.
Proof. intros H. unfold mstep. apply nth_upd_other. auto. Qed.

Lemma mrun_length dflt ds h : forall ws, length (mrun dflt ds ws h) = length ws.
Proof.
  unfold mrun. induction h as [|c h IH]; intros ws; cbn [fold_left]; [reflexivity|].
  rewrite IH. unfold mstep. apply length_upd.
Qed.

(* for every interleaving, each context ends exactly where its own calls alone lead it *)
Theorem interleaving_independent dflt ds h : forall ws i dw, i < length ws ->
  nth i (mrun dflt ds ws h) dw = fold_left (step (dst_of ds i dflt)) (proj_calls i h) (nth i ws dw).
Proof.
  unfold mrun. induction h as [|c h IH]; intros ws i dw Hi; cbn [fold_left]; [reflexivity|].
  rewrite IH by (unfold mstep; rewrite length_upd; exact Hi).
  unfold proj_calls. cbn [filter].
  destruct (Nat.eqb_spec (fst c) i) as [E|E].
  - cbn [map fold_left]. f_equal. unfold mstep. rewrite E. rewrite nth_upd_same by exact Hi. reflexivity.
  - f_equal. apply mstep_frame. auto.
Qed.

(* two interleavings with the same per-context sub-histories give the same contexts *)
Corollary interleavings_agree dflt ds h h' ws i dw : i < length ws ->
  proj_calls i h = proj_calls i h' ->
  nth i (mrun dflt ds ws h) dw = nth i (mrun dflt ds ws h') dw.
Proof. intros Hi E. rewrite !interleaving_independent by exact Hi. rewrite E. reflexivity. Qed.
