(* Canonical encodings (lists of Z) of TSDL streams and operation trees, used by the correspondence
   runs to compare the model's generators with what /repo really produced. *)
From Coq Require Import List Arith Bool ZArith String Ascii.
Import ListNotations.
From BT.Base Require Import Bits.
From BT.Layout Require Import Model.
From BT.Tracer Require Import Model Decode.

Definition zn (n : nat) : Z := Z.of_nat n.
Definition enc_str (s : string) : list Z :=
  zn (String.length s) :: map (fun a => zn (nat_of_ascii a)) (list_ascii_of_string s).
Fixpoint enc_ttype (t : ttype) : list Z :=
  match t with
  | TInt sg size al => [0%Z; zb sg; zn size; zn al]
  | TFloat size al => [1%Z; zn size; zn al]
  | TStr => [2%Z]
  | TArr n e => [3%Z; zn n] ++ enc_ttype e
  | TSeq l e => [4%Z] ++ enc_str l ++ enc_ttype e
  end.
Definition enc_tstruct (t : tstruct) : list Z :=
  [zn (t_minal t); zn (List.length (t_fields t))] ++
  flat_map (fun f => enc_str (fst f) ++ enc_ttype (snd f)) (t_fields t).
Definition enc_otstruct (o : option tstruct) : list Z :=
  match o with Some t => 1%Z :: enc_tstruct t | None => [0%Z] end.
Definition enc_tstream (t : tstream) : list Z :=
  [match ts_bo t with LE => 0%Z | BE => 1%Z end] ++ enc_otstruct (ts_ph t) ++ enc_tstruct (ts_pc t) ++
  enc_otstruct (ts_eh t) ++ enc_otstruct (ts_ec t) ++ [zn (List.length (ts_events t))] ++
  flat_map (fun e => te_id e :: enc_otstruct (te_ctx e) ++ enc_otstruct (te_fields e)) (ts_events t).

Definition enc_on (o : option nat) : Z := match o with Some k => zn (S k) | None => 0%Z end.
Fixpoint enc_op (o : op) : list Z :=
  match o with
  | OBits al k size off => [0%Z; zn al; match k with KWrite => 0%Z | KSkip => 1%Z end; zn size; enc_on off]
  | OStr al => [1%Z; zn al]
  | OUuid al => [2%Z; zn al]
  | OArr al len body => [3%Z; zn al; enc_on len] ++ enc_op body
  | OBlock al body => [4%Z; zn al; zn (List.length body)] ++ flat_map enc_op body
  end.
Definition enc_oop (o : option op) : list Z := match o with Some o => 1%Z :: enc_op o | None => [0%Z] end.

(* all the operation trees cgen builds for a data stream type, in a fixed order *)
Definition stream_ops (d : dstm) : list (option op) :=
  [snd (ph_build d); Some (pc_op d); snd (eh_build d); snd (cc_build d)] ++
  flat_map (fun e => [snd (sc_build d e); snd (p_build d e)]) (d_erts d).

Fixpoint list_Z_eqb (a b : list Z) : bool :=
  match a, b with [], [] => true | x :: a, y :: b => Z.eqb x y && list_Z_eqb a b | _, _ => false end.
Definition ops_agree (d : dstm) (real : list (option op)) : bool :=
  list_Z_eqb (flat_map enc_oop (stream_ops d)) (flat_map enc_oop real).
Definition tsdl_agree (d : dstm) (real : tstream) : bool :=
  list_Z_eqb (enc_tstream (tstream_of_dst d)) (enc_tstream real).
