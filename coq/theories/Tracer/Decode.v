(* Packet-level CTF reader: packet header, packet context, then event records up to the content
   size, dispatching on the event header `id`.  Uses only TSDL-level information (tstruct's, the
   event id table) and Layout.Model.dec. *)
From Coq Require Import List Arith Bool ZArith String.
Import ListNotations.
From BT.Base Require Import Bits.
From BT.Layout Require Import Model.

Record tevent := mk_tev { te_id : Z; te_ctx : option tstruct; te_fields : option tstruct }.
Record tstream := mk_tst {
  ts_bo : byte_order;
  ts_ph : option tstruct;           (* trace { packet.header } *)
  ts_pc : tstruct;                  (* stream { packet.context } *)
  ts_eh : option tstruct;           (* stream { event.header } *)
  ts_ec : option tstruct;           (* stream { event.context } *)
  ts_events : list tevent }.

Definition field_of (fs : list (string * ttype)) (vs : list dval) (n : string) : option Z :=
  (fix go (fs : list (string * ttype)) (vs : list dval) : option Z :=
     match fs, vs with
     | (k, _) :: fs, v :: vs =>
         if String.eqb k n then match v with DInt z => Some z | _ => None end else go fs vs
     | _, _ => None end) fs vs.

Section P.
  Variable t : tstream.
  Variable s : stream.

  Definition dec_opt (lim : nat) (o : option tstruct) (at_ : nat) : option (list dval * nat) :=
    match o with Some ts => dec_struct (ts_bo t) s lim ts at_ | None => Some ([], at_) end.

  Definition find_event (id : Z) : option tevent :=
    find (fun e => Z.eqb (te_id e) id) (ts_events t).

  (* one event record at `at_`; returns (event id, scopes header/common ctx/specific ctx/payload, end) *)
  Definition dec_record (lim at_ : nat) : option (Z * list (list dval) * nat) :=
    match dec_opt lim (ts_eh t) at_ with
    | Some (hv, a1) =>
        let id := match ts_eh t with
                  | Some eh => match field_of (t_fields eh) hv "id" with Some z => z | None => 0%Z end
                  | None => 0%Z end in
        match find_event id with
        | Some e =>
            match dec_opt lim (ts_ec t) a1 with
            | Some (cv, a2) =>
                match dec_opt lim (te_ctx e) a2 with
                | Some (sv, a3) =>
                    match dec_opt lim (te_fields e) a3 with
                    | Some (pv, a4) => Some (id, [hv; cv; sv; pv], a4)
                    | None => None end
                | None => None end
            | None => None end
        | None => None end
    | None => None end.

  Fixpoint dec_records (fuel : nat) (lim at_ : nat) (acc : list (Z * list (list dval)))
    : option (list (Z * list (list dval))) :=
    match fuel with
    | 0 => None
    | S fuel =>
        if lim <=? at_ then (if at_ =? lim then Some (rev acc) else None)
        else match dec_record lim at_ with
             | Some (id, sc, a') =>
                 (* a zero-size record would never advance: stop (cannot be seen by a reader) *)
                 if a' =? at_ then None else dec_records fuel lim a' ((id, sc) :: acc)
             | None => None end
    end.

  (* whole packet: sizes come from the packet context fields themselves *)
  Definition dec_packet (total_bits : nat)
    : option (list dval * list dval * list (Z * list (list dval))) :=
    match dec_opt total_bits (ts_ph t) 0 with
    | Some (hv, a1) =>
        match dec_struct (ts_bo t) s total_bits (ts_pc t) a1 with
        | Some (cv, a2) =>
            match field_of (t_fields (ts_pc t)) cv "content_size" with
            | Some csz =>
                let lim := Z.to_nat csz in
                if total_bits <? lim then None
                else match dec_records (S total_bits) lim a2 [] with
                     | Some recs => Some (hv, cv, recs)
                     | None => None end
            | None => None end
        | None => None end
    | None => None end.
End P.

(* flattening for the comparison with the harness: ints as is, strings / arrays length-prefixed *)
Fixpoint flat_dval (d : dval) : list Z :=
  match d with
  | DInt z => [z]
  | DStr bs => Z.of_nat (List.length bs) :: bs
  | DArr l => Z.of_nat (List.length l) :: flat_map flat_dval l
  end.
Definition flat_packet (p : list dval * list dval * list (Z * list (list dval))) : list Z :=
  match p with (hv, cv, recs) =>
    flat_map flat_dval hv ++ flat_map flat_dval cv ++ [Z.of_nat (List.length recs)] ++
    flat_map (fun r => fst r :: flat_map (fun sc => flat_map flat_dval sc) (snd r)) recs end.
Definition dec_packet_bytes (t : tstream) (bytes : list Z) : list Z :=
  match dec_packet t (stream_of_bytes (ts_bo t) bytes) (8 * List.length bytes) with
  | Some p => 1%Z :: flat_packet p
  | None => [0%Z] end.

(* model of the stream / event blocks written by metadata.j2 for one data stream type *)
From BT.Tracer Require Import Model.
Definition tstream_of_dst (d : dstm) : tstream :=
  mk_tst (d_bo d) (option_map tsdl_of_sft (d_ph d)) (tsdl_of_sft (d_pc d))
         (option_map tsdl_of_sft (d_eh d)) (option_map tsdl_of_sft (d_cc d))
         (map (fun e => mk_tev (Z.of_nat (e_id e)) (option_map tsdl_of_sft (e_sc e))
                               (option_map tsdl_of_sft (e_p e))) (d_erts d)).
