(* Whole-history theorems (C01 / C03 / C04): for every well-formed data stream type, every platform
   behaviour (oracle) and every history of calls that starts by opening the first packet, what the
   packet-level CTF reader (Tracer/Decode.v: TSDL-level information only) finds in the packets
   handed to the back end. *)
From Coq Require Import List Arith Bool ZArith String Lia PeanoNat.
Import ListNotations.
From BT.Base Require Import Bits BitsProofs BytesProofs.
From BT.Layout Require Import Model BuildProofs RoundTrip RecordProofs PosProofs.
From BT.Tracer Require Import Model Decode RecordDecode Lemmas Spec BoundsProofs OutcomeProofs Chain Holes History
  HistoryOpen HistoryClose HistoryRecord HistoryStep HistoryBounds ErrMono.

(* the event records the reader finds in the packets handed over, in order; None if it rejects one *)
Fixpoint read_all (d : dstm) (ps : list (nat * list Z)) : option (list rcd) :=
  match ps with
  | [] => Some []
  | p :: ps =>
      match dec_packet (tstream_of_dst d) (stream_of_bytes (d_bo d) (snd p)) (8 * List.length (snd p)), read_all d ps with
      | Some (_, _, recs), Some r => Some (recs ++ r)
      | _, _ => None
      end
  end.

Section M.
  Variable d : dstm.
  Variable user : list val.
  Variable cs_size : nat.
  Hypothesis WF : wf_d d user cs_size.

  Lemma read_all_ok ps K : Forall2 (pkt_ok d user) ps K -> read_all d ps = Some (flat K).
  Proof.
    induction 1 as [|p k ps K (_ & A & B) _ IH]; [reflexivity|].
    cbn [read_all]. rewrite A. unfold History.t in B. rewrite B, IH. reflexivity.
  Qed.

  Theorem history_main buf oracle h :
    fits cs_size (8 * buf) -> or_ok cs_size oracle -> Forall (call_ok d) h ->
    let w0 := mk_w (init_ctx buf) oracle 0%Z [] false user in
    let w1 := step d w0 COpen in
    c_open (w_c w1) = true -> inb_run d w1 h ->
    let w := run d buf user oracle (COpen :: h) in
    w_err w = false ->
    exists ds K cur, outs d w1 h ds /\ HI d user cs_size w K cur /\ flat K ++ cur = List.concat ds.
  Proof.
    intros Hf Ho Hc w0 w1 Hop Hb w He.
    assert (Ew : w = fold_left (step d) h w1) by reflexivity.
    assert (E1 : w_err w1 = false).
    { destruct (w_err w1) eqn:X; [|reflexivity]. rewrite Ew, (fold_sticky d h w1 X) in He. discriminate. }
    assert (J1 : J d user cs_size [] w1).
    { assert (S1 : w1 = if w_err (open_cb d w0) then open_cb d w0
                        else logev (open_cb d w0) (ERet (w_c (open_cb d w0)))) by reflexivity.
      destruct (w_err (open_cb d w0)) eqn:X; [left; rewrite S1; exact X|].
      rewrite S1 in Hop |- *.
      apply J_ret. apply (first_open_J d user cs_size WF w0 (init_HIb d user cs_size buf oracle Hf Ho)); auto.
      split; intros _; reflexivity. }
    rewrite Ew in He.
    destruct (history_J d user cs_size WF h w1 [] J1 Hc Hb He) as (ds & O & [X|(K & cur & H & F)]); [congruence|].
    exists ds, K, cur. rewrite Ew. auto.
  Qed.

  (* C03 / C01: when the history ends with no packet open, the reader finds, in the packets handed
     over and in call order, exactly the records of the accepted calls *)
  Theorem history_records buf oracle h :
    fits cs_size (8 * buf) -> or_ok cs_size oracle -> Forall (call_ok d) h ->
    let w0 := mk_w (init_ctx buf) oracle 0%Z [] false user in
    let w1 := step d w0 COpen in
    c_open (w_c w1) = true -> inb_run d w1 h ->
    let w := run d buf user oracle (COpen :: h) in
    w_err w = false -> c_open (w_c w) = false ->
    exists ds, outs d w1 h ds /\ read_all d (pkts (obs (w_log w))) = Some (List.concat ds).
  Proof.
    intros Hf Ho Hc w0 w1 Hop Hb w He Hcl.
    destruct (history_main buf oracle h Hf Ho Hc Hop Hb He) as (ds & K & cur & O & H & F).
    exists ds. split; [exact O|].
    destruct H as (_ & _ & _ & _ & _ & H6 & _ & _ & _ & _ & H11).
    fold w in H11, H6. rewrite Hcl in H11. destruct H11 as (-> & _). rewrite app_nil_r in F.
    rewrite <- F. apply read_all_ok. exact H6.
  Qed.

  (* C04: every packet handed over decodes to its specification *)
  Theorem history_packets buf oracle h :
    fits cs_size (8 * buf) -> or_ok cs_size oracle -> Forall (call_ok d) h ->
    let w0 := mk_w (init_ctx buf) oracle 0%Z [] false user in
    let w1 := step d w0 COpen in
    c_open (w_c w1) = true -> inb_run d w1 h ->
    let w := run d buf user oracle (COpen :: h) in
    w_err w = false ->
    exists K, Forall2 (pkt_ok d user) (pkts (obs (w_log w))) K /\
              map k_disc K = snaps 0 (obs (w_log w)) /\
              map k_seq K = map (seqn d) (seq 0 (List.length K)).
  Proof.
    intros Hf Ho Hc w0 w1 Hop Hb w He.
    destruct (history_main buf oracle h Hf Ho Hc Hop Hb He) as (ds & K & cur & O & H & F).
    exists K. unfold History.HI in H. tauto.
  Qed.

  (* C05 on the decoded packets: the beginning / end timestamps in the specification of the i-th
     packet handed over are the i-th values written as packet beginning / end timestamps (ghost
     events ETs 0 / ETs 1, about which Tracer/TimeProofs.v proves: each is the latest clock sample,
     non-decreasing in writing order) *)
  Theorem history_stamps buf oracle h :
    fits cs_size (8 * buf) -> or_ok cs_size oracle -> Forall (call_ok d) h ->
    let w0 := mk_w (init_ctx buf) oracle 0%Z [] false user in
    let w1 := step d w0 COpen in
    c_open (w_c w1) = true -> inb_run d w1 h ->
    let w := run d buf user oracle (COpen :: h) in
    w_err w = false -> c_open (w_c w) = false ->
    exists K, Forall2 (pkt_ok d user) (pkts (obs (w_log w))) K /\
              (has_tsb d = true -> map k_tsb K = stamps_of 0 (w_log w)) /\
              (has_tse d = true -> map k_tse K = stamps_of 1 (w_log w)).
  Proof.
    intros Hf Ho Hc w0 w1 Hop Hb w He Hcl.
    destruct (history_main buf oracle h Hf Ho Hc Hop Hb He) as (ds & K & cur & O & H & F).
    exists K. destruct H as (_ & _ & _ & _ & _ & H6 & _ & _ & _ & _ & H11).
    fold w in H11, H6. rewrite Hcl in H11. destruct H11 as (_ & _ & T1 & T2).
    split; [exact H6|]. unfold obs in T1, T2. rewrite !stamps_of_obs in * by lia.
    split; intros Hh; [rewrite (T1 Hh), app_nil_r|rewrite (T2 Hh)]; reflexivity.
  Qed.

  (* ---------------------------------------------------------------- weaker premise *)
  (* `inb_run` (position inside the packet at call boundaries) follows from `offb_run`: the content
     offset of every open packet is inside its buffer at call boundaries, i.e. every buffer holds the
     packet header and context - the precondition of C02 (Tracer/HistoryBounds.v, after the repairs
     of S9 / S18 in /repo) *)
  Lemma inb_from_offb buf oracle h :
    fits cs_size (8 * buf) -> or_ok cs_size oracle -> Forall (call_ok d) h ->
    let w0 := mk_w (init_ctx buf) oracle 0%Z [] false user in
    let w1 := step d w0 COpen in
    c_open (w_c w1) = true -> offb w1 -> offb_run d w1 h ->
    w_err (run d buf user oracle (COpen :: h)) = false ->
    inb_run d w1 h.
  Proof.
    intros Hf Ho Hc w0 w1 Hop Hb1 Hb He.
    assert (Ew : run d buf user oracle (COpen :: h) = fold_left (step d) h w1) by reflexivity.
    rewrite Ew in He.
    assert (E1 : w_err w1 = false).
    { destruct (w_err w1) eqn:X; [|reflexivity]. rewrite (fold_sticky d h w1 X) in He. discriminate. }
    assert (S1 : w1 = if w_err (open_cb d w0) then open_cb d w0
                      else logev (open_cb d w0) (ERet (w_c (open_cb d w0)))) by reflexivity.
    destruct (w_err (open_cb d w0)) eqn:X; [rewrite S1 in E1; congruence|].
    assert (J1 : J d user cs_size [] w1).
    { rewrite S1 in Hop |- *. apply J_ret.
      apply (first_open_J d user cs_size WF w0 (init_HIb d user cs_size buf oracle Hf Ho)); auto.
      split; intros _; reflexivity. }
    assert (I1 : inb w1).
    { rewrite S1 in Hb1 |- *. apply inb_ret.
      eapply R_inb; [apply R_open_cb| |apply offb_ret; exact Hb1].
      unfold inb, w0. cbn. discriminate. }
    exact (inb_run_of_offb d user cs_size WF h w1 [] J1 Hc I1 He Hb).
  Qed.

  Theorem history_records_offb buf oracle h :
    fits cs_size (8 * buf) -> or_ok cs_size oracle -> Forall (call_ok d) h ->
    let w0 := mk_w (init_ctx buf) oracle 0%Z [] false user in
    let w1 := step d w0 COpen in
    c_open (w_c w1) = true -> offb w1 -> offb_run d w1 h ->
    let w := run d buf user oracle (COpen :: h) in
    w_err w = false -> c_open (w_c w) = false ->
    exists ds, outs d w1 h ds /\ read_all d (pkts (obs (w_log w))) = Some (List.concat ds).
  Proof.
    intros Hf Ho Hc w0 w1 Hop Hb1 Hb w He Hcl.
    exact (history_records buf oracle h Hf Ho Hc Hop (inb_from_offb buf oracle h Hf Ho Hc Hop Hb1 Hb He) He Hcl).
  Qed.

  Theorem history_packets_offb buf oracle h :
    fits cs_size (8 * buf) -> or_ok cs_size oracle -> Forall (call_ok d) h ->
    let w0 := mk_w (init_ctx buf) oracle 0%Z [] false user in
    let w1 := step d w0 COpen in
    c_open (w_c w1) = true -> offb w1 -> offb_run d w1 h ->
    let w := run d buf user oracle (COpen :: h) in
    w_err w = false ->
    exists K, Forall2 (pkt_ok d user) (pkts (obs (w_log w))) K /\
              map k_disc K = snaps 0 (obs (w_log w)) /\
              map k_seq K = map (seqn d) (seq 0 (List.length K)).
  Proof.
    intros Hf Ho Hc w0 w1 Hop Hb1 Hb w He.
    exact (history_packets buf oracle h Hf Ho Hc Hop (inb_from_offb buf oracle h Hf Ho Hc Hop Hb1 Hb He) He).
  Qed.

  (* C02 over whole histories: under the same premises the write position is inside the packet at
     every call boundary *)
  Theorem history_in_bounds buf oracle h :
    fits cs_size (8 * buf) -> or_ok cs_size oracle -> Forall (call_ok d) h ->
    let w0 := mk_w (init_ctx buf) oracle 0%Z [] false user in
    let w1 := step d w0 COpen in
    c_open (w_c w1) = true -> offb w1 -> offb_run d w1 h ->
    w_err (run d buf user oracle (COpen :: h)) = false ->
    inb_run d w1 h.
  Proof. exact (inb_from_offb buf oracle h). Qed.
End M.

(* boolean form of the in-bounds premise, for concrete histories *)
Definition inbb (w : world) : bool := implb (c_open (w_c w)) (c_at (w_c w) <=? c_psize (w_c w)).
Fixpoint inb_runb (d : dstm) (w : world) (h : list call) : bool :=
  match h with [] => true | k :: h => inbb w && inb_runb d (step d w k) h end.
Lemma inb_runb_ok d h : forall w, inb_runb d w h = true -> inb_run d w h.
Proof.
  induction h as [|k h IH]; intros w H; cbn [inb_runb inb_run] in *; [exact I|].
  apply andb_true_iff in H. destruct H as [A B]. split; [|apply IH; exact B].
  unfold inbb, inb in *. intros Ho. rewrite Ho in A. cbn in A. apply Nat.leb_le. exact A.
Qed.

Definition offbb (w : world) : bool := implb (c_open (w_c w)) (c_off_content (w_c w) <=? c_psize (w_c w)).
Fixpoint offb_runb (d : dstm) (w : world) (h : list call) : bool :=
  match h with [] => true | k :: h => offbb (step d w k) && offb_runb d (step d w k) h end.
Lemma offbb_ok w : offbb w = true -> offb w.
Proof. unfold offbb, offb. intros A Ho. rewrite Ho in A. cbn in A. apply Nat.leb_le. exact A. Qed.
Lemma offb_runb_ok d h : forall w, offb_runb d w h = true -> offb_run d w h.
Proof.
  induction h as [|k h IH]; intros w H; cbn [offb_runb offb_run] in *; [exact I|].
  apply andb_true_iff in H. destruct H as [A B]. split; [apply offbb_ok; exact A|apply IH; exact B].
Qed.
