(* Late fields of the packet context (timestamp_end, content_size, events_discarded): where their
   holes are, which operation the generator built for each, and that the offset saved at opening
   time is the position the closing function writes to.  (Proofs only.) *)
From Coq Require Import List Arith Bool ZArith String Lia PeanoNat.
Import ListNotations.
From BT.Base Require Import Bits BitsProofs.
From BT.Layout Require Import Model BuildProofs RoundTrip RecordProofs SizeProofs FillProofs FillBuild.
From BT.Tracer Require Import Model.

(* late members are unsigned integers (barectf: feature field types are unsigned integer types) *)
Definition late_int (ms : list (string * ft)) : bool :=
  forallb (fun m => if existsb (String.eqb (fst m)) pc_skips
                    then match snd m with FInt false _ _ => true | _ => false end else true) ms.

(* holes in increasing order, disjoint *)
Fixpoint ordered (lo : nat) (hs : list hole) : Prop :=
  match hs with [] => True | h :: r => lo <= h_pos h /\ ordered (h_pos h + h_size h) r end.

Lemma ordered_weaken lo lo' hs : lo' <= lo -> ordered lo hs -> ordered lo' hs.
Proof. destruct hs; cbn [ordered]; [auto|]. intros H [A B]. split; [lia|exact B]. Qed.

Lemma ordered_in lo hs h : ordered lo hs -> In h hs -> lo <= h_pos h.
Proof.
  revert lo. induction hs as [|x r IH]; intros lo H Hin; [contradiction|]. cbn [ordered] in H.
  destruct H as [A B]. destruct Hin as [->|Hin]; [exact A|]. specialize (IH _ B Hin). lia.
Qed.

Lemma ordered_disjoint hs : forall lo i j hi hj, ordered lo hs -> i < j ->
  nth_error hs i = Some hi -> nth_error hs j = Some hj -> h_pos hi + h_size hi <= h_pos hj.
Proof.
  induction hs as [|x r IH]; intros lo i j hi hj H Hij Ei Ej; [destruct i; discriminate|].
  cbn [ordered] in H. destruct H as [A B].
  destruct j as [|j]; [lia|]. cbn [nth_error] in Ej.
  destruct i as [|i]; cbn [nth_error] in Ei.
  - injection Ei as <-. apply (ordered_in _ r hj B). eapply nth_error_In; eauto.
  - eapply (IH _ i j); eauto. lia.
Qed.

Section H.
  Variable bo : byte_order.
  Variable nk : bool.
  Variable lim : nat.

  Lemma late_skip_ft n f : late_int [(n, f)] = true -> existsb (String.eqb n) pc_skips = true ->
    exists size al, f = FInt false size al /\ skip_ft pc_skips n f = Some (size, al).
  Proof.
    unfold late_int. cbn [forallb fst snd]. intros H Ex. rewrite Ex in H.
    destruct f as [[|] size al| | | | |]; try discriminate. exists size, al. split; [reflexivity|].
    unfold skip_ft. rewrite Ex. reflexivity.
  Qed.

  Lemma skip_ft_none n f : existsb (String.eqb n) pc_skips = false -> skip_ft pc_skips n f = None.
  Proof. unfold skip_ft. intros ->. reflexivity. Qed.

  (* the holes of a structure are ordered *)
  Lemma enc_skip_ordered ms : forallb (fun m => wfr_top (snd m)) ms = true ->
    forall vs env fv s a hs s1 a1 hs1, List.length s = lim -> members_ok_skip pc_skips fv env ms vs ->
      enc_skip bo lim pc_skips ms vs (s, a) hs = Some (s1, a1, hs1) ->
      exists nh, hs1 = hs ++ nh /\ ordered a nh.
  Proof.
    induction ms as [|[n f] ms IH]; intros Hwf vs env fv s a hs s1 a1 hs1 Hl Hok H.
    - destruct vs; [|discriminate]. cbn [enc_skip fst snd] in H. injection H as <- <- <-.
      exists []. rewrite app_nil_r. split; [reflexivity|exact I].
    - destruct vs as [|v vs]; [discriminate|]. cbn [enc_skip fst snd] in H.
      cbn [forallb snd] in Hwf. apply andb_true_iff in Hwf. destruct Hwf as [Hf Hms].
      cbn [members_ok_skip] in Hok. destruct Hok as (Hv & _ & Hrest).
      destruct (skip_ft pc_skips n f) as [[size al]|] eqn:Esk.
      + destruct v as [z|bs|l]; try discriminate.
        pose proof (align_up_ge a al (skip_ft_pos pc_skips n f size al Hf Esk)) as Hge.
        destruct (IH Hms vs _ fv s (align_up a al + size) _ s1 a1 hs1 Hl Hrest H) as (nh & E & O).
        exists (mk_hole (align_up a al) size n :: nh). split.
        * rewrite E, <- app_assoc. reflexivity.
        * cbn [ordered h_pos h_size]. split; [exact Hge|exact O].
      + destruct (enc bo lim f v (s, a)) as [[s2 a2]|] eqn:E2; [|discriminate].
        destruct (rt_top bo lim f Hf v s a s2 a2 Hl Hv E2) as (A2 & L2 & _).
        destruct (IH Hms vs _ fv s2 a2 hs s1 a1 hs1 L2 Hrest H) as (nh & E & O).
        exists nh. split; [exact E|]. eapply ordered_weaken; [|exact O]. exact A2.
  Qed.

  (* the operation built for a late member, its index among the saved offsets, its hole *)
  Lemma hole_ops ms : forallb (fun m => wf_top (snd m)) ms = true -> late_int ms = true ->
    forall st vs s a hs s1 a1 hs1, cons st a ->
      enc_skip bo lim pc_skips ms vs (s, a) hs = Some (s1, a1, hs1) ->
      forall N, existsb (String.eqb N) pc_skips = true -> In N (map fst ms) ->
        exists al size off j h,
          member_op ms (snd (build_members pc_skips st ms)) N = Some (OBits al KSkip size off) /\
          skip_index ms N (List.length hs) = Some j /\ nth_error hs1 j = Some h /\ List.length hs <= j /\
          h_name h = N /\ h_size h = size /\ al_ok al /\ h_pos h mod al = 0 /\ cons off (h_pos h).
  Proof.
    induction ms as [|[n f] ms IH]; intros Hwf Hlate st vs s a hs s1 a1 hs1 Hc H N HN Hin; [contradiction|].
    destruct vs as [|v vs]; [discriminate|]. cbn [enc_skip fst snd] in H.
    cbn [forallb snd] in Hwf. apply andb_true_iff in Hwf. destruct Hwf as [Hf Hms].
    assert (Hl1 : late_int [(n, f)] = true /\ late_int ms = true).
    { unfold late_int in *. cbn [forallb] in *. apply andb_true_iff in Hlate. destruct Hlate as [A B].
      rewrite A, B. auto. }
    destruct Hl1 as [Hl1 Hl2].
    cbn [build_members snd fst member_op skip_index].
    destruct (existsb (String.eqb n) pc_skips) eqn:Ex.
    - destruct (late_skip_ft n f Hl1 Ex) as (size & al & -> & Esk). rewrite Esk in H.
      destruct v as [z|bs|l]; try discriminate.
      cbn [wf_top wf_elem] in Hf. pose proof (al_okb_ok _ Hf) as Ha.
      pose proof (try_align_cons 0 st al a Ha Hc) as Hc1.
      destruct (String.eqb_spec n N) as [->|Hne].
      + (* this member *)
        cbn [build snd skip_of]. rewrite Ex.
        assert (Hnth : nth_error hs1 (List.length hs) = Some (mk_hole (align_up a al) size N)).
        { clear -H. revert H. generalize (align_up a al + size). intros a2 H.
          assert (G : forall ms vs s a hs0 s1 a1 hs1, enc_skip bo lim pc_skips ms vs (s, a) hs0 = Some (s1, a1, hs1) ->
                        exists nh, hs1 = hs0 ++ nh).
          { clear. induction ms as [|[n f] ms IH]; intros vs s a hs0 s1 a1 hs1 H.
            - destruct vs; [|discriminate]. cbn in H. injection H as <- <- <-. exists []. rewrite app_nil_r. reflexivity.
            - destruct vs as [|v vs]; [discriminate|]. cbn [enc_skip fst snd] in H.
              destruct (skip_ft pc_skips n f) as [[sz al]|].
              + destruct v; try discriminate. destruct (IH _ _ _ _ _ _ _ H) as [nh ->].
                eexists. rewrite <- app_assoc. reflexivity.
              + destruct (enc bo lim f v (s, a)) as [[s2 a2]|]; [|discriminate]. eapply IH; eauto. }
          destruct (G _ _ _ _ _ _ _ _ H) as [nh ->].
          rewrite <- app_assoc. rewrite nth_error_app2 by lia. rewrite Nat.sub_diag. reflexivity. }
        exists al, size, (try_align 0 st al), (List.length hs), (mk_hole (align_up a al) size N).
        cbn [h_name h_size h_pos]. repeat split; auto.
        apply align_up_mod. apply al_ok_pos. exact Ha.
      + destruct Hin as [E|Hin]; [cbn [fst] in E; contradiction|].
        destruct (IH Hms Hl2 (bump (try_align 0 st al) size) vs s (align_up a al + size)
                     (hs ++ [mk_hole (align_up a al) size n]) s1 a1 hs1
                     (cons_bump _ _ _ Hc1) H N HN Hin) as (al' & size' & off & j & h & A & B & C & D & E).
        rewrite app_length in B, D. cbn [List.length] in B, D. rewrite Nat.add_1_r in B.
        exists al', size', off, j, h. repeat split; try tauto. lia.
    - rewrite (skip_ft_none n f Ex) in H.
      destruct (enc bo lim f v (s, a)) as [[s2 a2]|] eqn:E2; [|discriminate].
      destruct (ser_build_top bo nk lim f Hf st v (mk_ss s a []) Hc) as [_ Hcons].
      specialize (Hcons s2 a2 E2).
      destruct (String.eqb_spec n N) as [->|Hne]; [rewrite HN in Ex; discriminate|].
      destruct Hin as [E|Hin]; [cbn [fst] in E; contradiction|].
      exact (IH Hms Hl2 (fst (build 0 st f)) vs s2 a2 hs s1 a1 hs1 Hcons H N HN Hin).
  Qed.
  (* names of the holes: late names, members of the structure, no duplicate *)
  Lemma enc_skip_names ms : NoDup (map fst ms) ->
    forall vs s a hs s1 a1 hs1, enc_skip bo lim pc_skips ms vs (s, a) hs = Some (s1, a1, hs1) ->
      exists nh, hs1 = hs ++ nh /\ NoDup (map h_name nh) /\
        Forall (fun h => existsb (String.eqb (h_name h)) pc_skips = true /\ In (h_name h) (map fst ms)) nh.
  Proof.
    induction ms as [|[n f] ms IH]; intros Hnd vs s a hs s1 a1 hs1 H.
    - destruct vs; [|discriminate]. cbn [enc_skip fst snd] in H. injection H as <- <- <-.
      exists []. rewrite app_nil_r. repeat split; constructor.
    - destruct vs as [|v vs]; [discriminate|]. cbn [enc_skip fst snd] in H.
      cbn [map fst] in Hnd. inversion Hnd as [|? ? Hn Hms]; subst.
      destruct (skip_ft pc_skips n f) as [[size al]|] eqn:Esk.
      + destruct v as [z|bs|l]; try discriminate.
        destruct (IH Hms vs s _ _ s1 a1 hs1 H) as (nh & E & ND & F).
        exists (mk_hole (align_up a al) size n :: nh). split; [rewrite E, <- app_assoc; reflexivity|].
        split.
        * cbn [map h_name]. constructor; [|exact ND]. intros Hin. apply Hn.
          rewrite in_map_iff in Hin. destruct Hin as (h & Eh & Hh).
          rewrite Forall_forall in F. destruct (F h Hh) as [_ X]. rewrite Eh in X. exact X.
        * constructor.
          -- cbn [h_name map fst]. split; [|left; reflexivity].
             unfold skip_ft in Esk. destruct (existsb (String.eqb n) pc_skips); [reflexivity|discriminate].
          -- eapply Forall_impl; [|exact F]. cbn beta. intros h [X Y]. split; [exact X|right; exact Y].
      + destruct (enc bo lim f v (s, a)) as [[s2 a2]|] eqn:E2; [|discriminate].
        destruct (IH Hms vs s2 a2 hs s1 a1 hs1 H) as (nh & E & ND & F).
        exists nh. repeat split; auto.
        eapply Forall_impl; [|exact F]. cbn beta. intros h [X Y]. split; [exact X|right; exact Y].
  Qed.
End H.

Lemma has_member_in s n : has_member s n = true <-> In n (map fst (s_mems s)).
Proof.
  unfold has_member. rewrite existsb_exists. split.
  - intros (m & Hm & E). apply String.eqb_eq in E. subst. apply in_map. exact Hm.
  - rewrite in_map_iff. intros (m & E & Hm). exists m. split; [exact Hm|]. apply String.eqb_eq. exact E.
Qed.
