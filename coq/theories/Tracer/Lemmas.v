(* Shared proof infrastructure for the tracer model (proofs only; the model is Tracer/Model.v):
   normal forms of the leaf blocks (pop, callbacks, do_ser), pair-free forms of reserve / trace_fn,
   log-extension relation, a generic "invariant inside a tracing section" theorem for reserve. *)
From Coq Require Import List Arith Bool ZArith String Lia.
Import ListNotations.
From BT.Base Require Import Bits.
From BT.Layout Require Import Model.
From BT.Tracer Require Import Model.

Ltac prj :=
  cbn [w_c w_or w_clk w_log w_err w_pcargs c_s c_psize c_at c_content c_off_content c_disc c_seq
       c_open c_in_ts c_enabled c_use_ts c_last_ts c_saved fst snd] in *.
Ltac unf :=
  unfold set_c, logev, fail, upd_at, set_in_ts, set_enabled, set_use_ts, set_last_ts, incr_disc,
         packet_set_buf in *.
Ltac up := unf; prj.

(* ------------------------------------------------------------------ pairs *)
Lemma let_pair {A B C} (p : A * B) (f : A -> B -> C) : (let (a, b) := p in f a b) = f (fst p) (snd p).
Proof. destruct p; reflexivity. Qed.

(* ------------------------------------------------------------------ leaf blocks: normal forms *)
Definition tog (a : ans) (c : ctx) : ctx :=
  match a_toggle a with Some b => set_enabled c b | None => c end.
Definition hd_ans (w : world) : ans := hd default_ans (w_or w).

Lemma tog_s a c : c_s (tog a c) = c_s c. Proof. unfold tog; destruct (a_toggle a); reflexivity. Qed.
Lemma tog_psize a c : c_psize (tog a c) = c_psize c. Proof. unfold tog; destruct (a_toggle a); reflexivity. Qed.
Lemma tog_at a c : c_at (tog a c) = c_at c. Proof. unfold tog; destruct (a_toggle a); reflexivity. Qed.
Lemma tog_content a c : c_content (tog a c) = c_content c. Proof. unfold tog; destruct (a_toggle a); reflexivity. Qed.
Lemma tog_off a c : c_off_content (tog a c) = c_off_content c. Proof. unfold tog; destruct (a_toggle a); reflexivity. Qed.
Lemma tog_disc a c : c_disc (tog a c) = c_disc c. Proof. unfold tog; destruct (a_toggle a); reflexivity. Qed.
Lemma tog_seq a c : c_seq (tog a c) = c_seq c. Proof. unfold tog; destruct (a_toggle a); reflexivity. Qed.
Lemma tog_open a c : c_open (tog a c) = c_open c. Proof. unfold tog; destruct (a_toggle a); reflexivity. Qed.
Lemma tog_in_ts a c : c_in_ts (tog a c) = c_in_ts c. Proof. unfold tog; destruct (a_toggle a); reflexivity. Qed.
Lemma tog_use_ts a c : c_use_ts (tog a c) = c_use_ts c. Proof. unfold tog; destruct (a_toggle a); reflexivity. Qed.
Lemma tog_last_ts a c : c_last_ts (tog a c) = c_last_ts c. Proof. unfold tog; destruct (a_toggle a); reflexivity. Qed.
Lemma tog_saved a c : c_saved (tog a c) = c_saved c. Proof. unfold tog; destruct (a_toggle a); reflexivity. Qed.
#[export] Hint Rewrite tog_s tog_psize tog_at tog_content tog_off tog_disc tog_seq tog_open tog_in_ts
  tog_use_ts tog_last_ts tog_saved : tog.
Ltac togs := autorewrite with tog in *.

Lemma apply_toggle_eq w a : apply_toggle w a = set_c w (tog a (w_c w)).
Proof. unfold apply_toggle, tog. destruct (a_toggle a); [reflexivity|]. destruct w; reflexivity. Qed.

Lemma pop_eq w :
  pop w = (hd_ans w, mk_w (w_c w) (tl (w_or w)) (w_clk w) (w_log w) (w_err w) (w_pcargs w)).
Proof. unfold pop, hd_ans. destruct w as [c o k l e p]; prj. destruct o; reflexivity. Qed.

Definition clk_next (d : dstm) (w : world) : Z :=
  ((w_clk w + Z.of_nat (a_inc (hd_ans w))) mod 2 ^ Z.of_nat (d_clock_bits d))%Z.

Lemma clock_cb_eq d w :
  clock_cb d w =
  (clk_next d w,
   mk_w (tog (hd_ans w) (w_c w)) (tl (w_or w)) (clk_next d w)
        (w_log w ++ [ECb 3 (c_in_ts (w_c w)) (c_open (w_c w)); ESample (clk_next d w)])
        (w_err w) (w_pcargs w)).
Proof.
  unfold clock_cb. rewrite pop_eq. unfold clk_next, hd_ans. rewrite apply_toggle_eq. up.
  rewrite <- app_assoc. reflexivity.
Qed.

Lemma full_cb_eq w :
  full_cb w =
  (a_full (hd_ans w),
   mk_w (tog (hd_ans w) (w_c w)) (tl (w_or w)) (w_clk w)
        (w_log w ++ [ECb 0 (c_in_ts (w_c w)) (c_open (w_c w)); EAns (a_full (hd_ans w))])
        (w_err w) (w_pcargs w)).
Proof.
  unfold full_cb. rewrite pop_eq. unfold hd_ans. rewrite apply_toggle_eq. up.
  rewrite <- app_assoc. reflexivity.
Qed.

Definition ser_ctx (c : ctx) (st : sstate) : ctx :=
  mk_ctx (ss_s st) (c_psize c) (ss_at st) (c_content c) (c_off_content c) (c_disc c) (c_seq c)
         (c_open c) (c_in_ts c) (c_enabled c) (c_use_ts c) (c_last_ts c) (c_saved c ++ ss_saved st).

Lemma do_ser_eq d w o v :
  do_ser d w o v =
  match ser (d_bo d) (d_native_known d) (c_psize (w_c w)) o v (mk_ss (c_s (w_c w)) (c_at (w_c w)) []) with
  | Some st => mk_w (ser_ctx (w_c w) st) (w_or w) (w_clk w) (w_log w ++ [EStore (c_in_ts (w_c w))])
                    (w_err w) (w_pcargs w)
  | None => mk_w (w_c w) (w_or w) (w_clk w) (w_log w ++ [EStore (c_in_ts (w_c w)); EErr 1]) true
                 (w_pcargs w)
  end.
Proof.
  unfold do_ser. up.
  destruct (ser _ _ _ _ _ _); up; [reflexivity|]. rewrite <- app_assoc. reflexivity.
Qed.

Lemma no_space_eq w :
  no_space w = (false, mk_w (incr_disc (w_c w)) (w_or w) (w_clk w) (w_log w ++ [EDisc]) (w_err w) (w_pcargs w)).
Proof. reflexivity. Qed.

(* ------------------------------------------------------------------ log extension *)
Definition ext (P : ev -> Prop) (w w' : world) : Prop :=
  exists seg, w_log w' = w_log w ++ seg /\ Forall P seg.

Lemma ext_refl P w : ext P w w.
Proof. exists []. rewrite app_nil_r. auto. Qed.
Lemma ext_same P w w' : w_log w' = w_log w -> ext P w w'.
Proof. intros H. exists []. rewrite app_nil_r. auto. Qed.
Lemma ext_trans P w1 w2 w3 : ext P w1 w2 -> ext P w2 w3 -> ext P w1 w3.
Proof.
  intros [s1 [E1 F1]] [s2 [E2 F2]]. exists (s1 ++ s2). split.
  - rewrite E2, E1, app_assoc. reflexivity.
  - apply Forall_app; auto.
Qed.
Lemma ext_mono (P Q : ev -> Prop) w w' : (forall e, P e -> Q e) -> ext P w w' -> ext Q w w'.
Proof. intros H [s [E F]]. exists s. split; auto. eapply Forall_impl; eauto. Qed.
Lemma ext_logs P w w' l : w_log w' = w_log w ++ l -> Forall P l -> ext P w w'.
Proof. intros; exists l; auto. Qed.
Lemma ext_eq_log P w1 w1' w2 : w_log w1' = w_log w1 -> ext P w1' w2 -> ext P w1 w2.
Proof. intros H [s [E F]]. exists s. rewrite <- H. auto. Qed.
Lemma ext_eq_log_r P w1 w2 w2' : w_log w2' = w_log w2 -> ext P w1 w2 -> ext P w1 w2'.
Proof. intros H [s [E F]]. exists s. rewrite H. auto. Qed.

(* ------------------------------------------------------------------ pair-free forms *)
(* stages of the opening function *)
Definition open_reset (w : world) : world :=
  let c := w_c w in
  set_c w (mk_ctx (c_s c) (c_psize c) 0 (c_content c) (c_off_content c) (c_disc c) (c_seq c)
                  (c_open c) true (c_enabled c) (c_use_ts c) (c_last_ts c) []).
Definition open_hdr (d : dstm) (w : world) : world :=
  match snd (ph_build d) with Some o => do_ser d w o (VArr (d_ph_vals d)) | None => w end.
Definition open_mark (d : dstm) (ts : Z) (w : world) : world :=
  if d_has_clock d && has_member (d_pc d) "timestamp_begin" then logev w (ETs 0 ts) else w.
Definition open_pc (d : dstm) (ts : Z) (psize seq : nat) (w : world) : world :=
  do_ser d w (pc_op d) (VArr (pc_vals (s_mems (d_pc d)) psize seq ts (w_pcargs w))).
Definition open_fin (saved : bool) (w : world) : world :=
  let c := w_c w in
  set_c w (mk_ctx (c_s c) (c_psize c) (c_at c) (c_content c) (c_at c) (c_disc c) (c_seq c)
                  true saved (c_enabled c) (c_use_ts c) (c_last_ts c) (c_saved c)).
Definition open_do (d : dstm) (ts : Z) (w : world) : world :=
  open_fin (c_in_ts (w_c w))
    (open_pc d ts (c_psize (w_c w)) (c_seq (w_c w)) (open_mark d ts (open_hdr d (open_reset w)))).

Definition open_core (d : dstm) (ts : Z) (w : world) : world :=
  if negb (c_enabled (w_c w)) && negb (c_in_ts (w_c w)) then set_c w (set_in_ts (w_c w) false)
  else if c_open (w_c w) then set_c w (set_in_ts (set_in_ts (w_c w) true) (c_in_ts (w_c w)))
  else open_do d ts w.

Lemma open_fn_eq d w :
  open_fn d w = open_core d (fst (preamble_ts d w (has_member (d_pc d) "timestamp_begin")))
                            (snd (preamble_ts d w (has_member (d_pc d) "timestamp_begin"))).
Proof. unfold open_fn. rewrite let_pair. reflexivity. Qed.

(* stages of the closing function *)
Definition close_begin (w : world) : world :=
  let c := w_c w in
  set_c w (mk_ctx (c_s c) (c_psize c) (c_at c) (c_at c) (c_off_content c) (c_disc c) (c_seq c)
                  (c_open c) true (c_enabled c) (c_use_ts c) (c_last_ts c) (c_saved c)).
Definition close_mark (d : dstm) (ts : Z) (w : world) : world :=
  if d_has_clock d && has_member (d_pc d) "timestamp_end" then logev w (ETs 1 ts) else w.
Definition close_ws (d : dstm) (ts : Z) (w : world) : world :=
  let w := write_saved d w "timestamp_end" ts in
  let w := write_saved d w "content_size" (Z.of_nat (c_content (w_c w))) in
  write_saved d w "events_discarded" (Z.of_nat (c_disc (w_c w))).
Definition close_fin (d : dstm) (saved : bool) (w : world) : world :=
  let c := w_c w in
  set_c w (mk_ctx (c_s c) (c_psize c) (c_psize c) (c_content c) (c_off_content c) (c_disc c)
                  (if has_member (d_pc d) "packet_seq_num" then S (c_seq c) else c_seq c)
                  false saved (c_enabled c) (c_use_ts c) (c_last_ts c) (c_saved c)).
Definition close_do (d : dstm) (ts : Z) (w : world) : world :=
  close_fin d (c_in_ts (w_c w)) (close_ws d ts (close_mark d ts (close_begin w))).

Definition close_core (d : dstm) (ts : Z) (w : world) : world :=
  if negb (c_enabled (w_c w)) && negb (c_in_ts (w_c w)) then set_c w (set_in_ts (w_c w) false)
  else if negb (c_open (w_c w)) then set_c w (set_in_ts (set_in_ts (w_c w) true) (c_in_ts (w_c w)))
  else close_do d ts w.

Lemma close_fn_eq d w :
  close_fn d w = close_core d (fst (preamble_ts d w (has_member (d_pc d) "timestamp_end")))
                              (snd (preamble_ts d w (has_member (d_pc d) "timestamp_end"))).
Proof. unfold close_fn. rewrite let_pair. reflexivity. Qed.

(* the world a platform callback hands to the opening / closing function *)
Definition cb_enter (k : nat) (w : world) : world :=
  mk_w (tog (hd_ans w) (w_c w)) (tl (w_or w)) (w_clk w)
       (w_log w ++ [ECb k (c_in_ts (w_c w)) (c_open (w_c w))]) (w_err w) (w_pcargs w).

Lemma open_cb_eq d w : open_cb d w = open_fn d (cb_enter 1 w).
Proof. unfold open_cb. rewrite pop_eq. rewrite apply_toggle_eq. reflexivity. Qed.

(* the platform takes the closed packet (and may install another buffer) *)
Definition close_give (d : dstm) (a : ans) (w : world) : world :=
  let c := w_c w in
  let w := logev w (EPacket (c_psize c) (bytes_of_stream (d_bo d) (c_s c) (c_psize c / 8))) in
  match a_newbuf a with
  | Some b => set_c w (packet_set_buf (w_c w) b)
  | None => w
  end.
(* ... and, on an "eager" (double-buffering) platform, opens the next packet itself *)
Definition close_hand (d : dstm) (a : ans) (was_open : bool) (w : world) : world :=
  if was_open && negb (c_open (w_c w)) then
    if a_eager a then open_fn d (close_give d a w) else close_give d a w
  else w.

Lemma close_cb_eq d w :
  close_cb d w = close_hand d (hd_ans w) (c_open (w_c w)) (close_fn d (cb_enter 2 w)).
Proof.
  unfold close_cb. rewrite pop_eq. rewrite apply_toggle_eq. unfold close_hand, cb_enter. up.
  rewrite tog_open. reflexivity.
Qed.

Definition reserve2 (d : dstm) (n : nat) (w : world) : bool * world :=
  if gt_diff32 n (c_psize (w_c w)) (c_at (w_c w)) then
    let w := with_use_ts (close_cb d) w in
    if fst (full_cb w) then no_space (snd (full_cb w))
    else
      let w := with_use_ts (open_cb d) (snd (full_cb w)) in
      if gt_diff32 n (c_psize (w_c w)) (c_at (w_c w)) then no_space w else (true, w)
  else (true, w).

Definition reserve' (d : dstm) (w : world) (n : nat) : bool * world :=
  if gt_diff32 n (c_psize (w_c w)) (c_off_content (w_c w)) then no_space w
  else if c_at (w_c w) =? c_psize (w_c w) then
         if fst (full_cb w) then no_space (snd (full_cb w))
         else reserve2 d n (with_use_ts (open_cb d) (snd (full_cb w)))
       else reserve2 d n w.

Lemma reserve_eq d w n : reserve d w n = reserve' d w n.
Proof.
  unfold reserve, reserve', reserve2.
  destruct (gt_diff32 n (c_psize (w_c w)) (c_off_content (w_c w))); [reflexivity|].
  destruct (c_at (w_c w) =? c_psize (w_c w)).
  - rewrite let_pair. destruct (fst (full_cb w)); cbn [fst snd negb]; [reflexivity|].
    match goal with |- context [gt_diff32 n ?a ?b] => destruct (gt_diff32 n a b); [|reflexivity] end.
    rewrite let_pair. reflexivity.
  - cbn [fst snd negb].
    destruct (gt_diff32 n (c_psize (w_c w)) (c_at (w_c w))); [|reflexivity].
    rewrite let_pair. reflexivity.
Qed.

Definition trace_entry (d : dstm) (w : world) : world :=
  if d_has_clock d
  then set_c (snd (clock_cb d w)) (set_last_ts (w_c (snd (clock_cb d w))) (fst (clock_cb d w)))
  else w.

Definition trace_commit (d : dstm) (w : world) : world :=
  let w := if c_at (w_c w) =? c_psize (w_c w) then close_cb d w else w in
  set_c w (set_in_ts (w_c w) false).

Definition trace_mark (d : dstm) (w : world) : world :=
  if d_has_clock d && has_member_o (d_eh d) "timestamp" then logev w (ETs 2 (c_last_ts (w_c w))) else w.

Definition trace_ser (d : dstm) (e : ertm) (args : list val) (w : world) : world :=
  let w1 := trace_mark d w in
  let w2 := ser_parts d w1 (rec_parts d e (c_last_ts (w_c w1)) args) in
  if w_err w2 then w2 else trace_commit d w2.

(* after a successful reservation that moved the position: size computed again at the new
   position (at0: the position before the reservation); false: the call ends here *)
Definition trace_recheck (d : dstm) (e : ertm) (args : list val) (at0 : nat) (w : world) : bool * world :=
  if c_at (w_c w) =? at0 then (true, w)
  else match size_parts (rec_parts d e 0%Z args) (c_at (w_c w)) with
       | None => (false, fail w 4)
       | Some at_end2 =>
           if gt_diff32 (at_end2 - c_at (w_c w)) (c_psize (w_c w)) (c_at (w_c w))
           then (false, set_c (snd (no_space w)) (set_in_ts (w_c (snd (no_space w))) false))
           else (true, w)
       end.

Definition trace_body (d : dstm) (e : ertm) (args : list val) (w : world) : world :=
  let w0 := set_c w (set_in_ts (w_c w) true) in
  match size_parts (rec_parts d e 0%Z args) (c_at (w_c w)) with
  | None => fail w0 4
  | Some at_end =>
      let r := reserve d w0 (at_end - c_at (w_c w)) in
      if negb (fst r) then set_c (snd r) (set_in_ts (w_c (snd r)) false)
      else if w_err (snd r) then snd r
      else
        let r2 := trace_recheck d e args (c_at (w_c w)) (snd r) in
        if negb (fst r2) then snd r2 else trace_ser d e args (snd r2)
  end.

(* the recheck either ends the call or hands the same world over to the serialization *)
Lemma trace_recheck_true d e args at0 w : fst (trace_recheck d e args at0 w) = true -> snd (trace_recheck d e args at0 w) = w.
Proof.
  unfold trace_recheck. destruct (_ =? _); [reflexivity|].
  destruct (size_parts _ _); [|discriminate]. destruct (gt_diff32 _ _ _); [discriminate|reflexivity].
Qed.

Definition recheck_discard (w : world) : world :=
  set_c (snd (no_space w)) (set_in_ts (w_c (snd (no_space w))) false).

Lemma trace_recheck_cases d e args at0 w :
  trace_recheck d e args at0 w = (true, w) \/
  trace_recheck d e args at0 w = (false, fail w 4) \/
  (c_at (w_c w) <> at0 /\
   exists a2, size_parts (rec_parts d e 0%Z args) (c_at (w_c w)) = Some a2 /\
              gt_diff32 (a2 - c_at (w_c w)) (c_psize (w_c w)) (c_at (w_c w)) = true /\
              trace_recheck d e args at0 w = (false, recheck_discard w)).
Proof.
  unfold trace_recheck. destruct (_ =? _) eqn:Ea; [left; reflexivity|].
  apply Nat.eqb_neq in Ea.
  destruct (size_parts _ _) as [a2|]; [|right; left; reflexivity].
  destruct (gt_diff32 _ _ _) eqn:G; [|left; reflexivity].
  right; right. split; [exact Ea|]. exists a2. auto.
Qed.

Lemma trace_fn_eq d e args w :
  trace_fn d e args w =
  if negb (c_enabled (w_c (trace_entry d w))) then trace_entry d w
  else trace_body d e args (trace_entry d w).
Proof.
  unfold trace_fn, trace_entry, trace_body, trace_recheck, trace_ser, trace_commit, trace_mark.
  destruct (d_has_clock d).
  - rewrite let_pair.
    destruct (negb _); [reflexivity|].
    destruct (size_parts _ _); [|reflexivity].
    rewrite let_pair. reflexivity.
  - destruct (negb _); [reflexivity|].
    destruct (size_parts _ _); [|reflexivity].
    rewrite let_pair. reflexivity.
Qed.

Lemma preamble_cases d w f :
  preamble_ts d w f = (0%Z, w) /\ (d_has_clock d && f = false) \/
  preamble_ts d w f = (c_last_ts (w_c w), w) /\ c_use_ts (w_c w) = true /\ d_has_clock d && f = true \/
  preamble_ts d w f = clock_cb d w /\ c_use_ts (w_c w) = false /\ d_has_clock d && f = true.
Proof.
  unfold preamble_ts. destruct (d_has_clock d && f); [|left; auto].
  destruct (c_use_ts (w_c w)); [right; left; auto | right; right; auto].
Qed.

(* ------------------------------------------------------------------ generic invariant for reserve *)
Section ReserveInv.
  Variable d : dstm.
  Variable I : world -> Prop.
  Hypothesis I_full : forall w, I w -> I (snd (full_cb w)).
  Hypothesis I_open : forall w, I w -> I (with_use_ts (open_cb d) w).
  Hypothesis I_close : forall w, I w -> I (with_use_ts (close_cb d) w).
  Hypothesis I_nospace : forall w, I w -> I (snd (no_space w)).

  Lemma reserve2_inv n w : I w -> I (snd (reserve2 d n w)).
  Proof.
    intros H. unfold reserve2.
    destruct (gt_diff32 n (c_psize (w_c w)) (c_at (w_c w))); [|exact H].
    cbv zeta. destruct (fst (full_cb _)); [apply I_nospace, I_full, I_close, H|].
    match goal with |- context [if ?b then _ else _] => destruct b end; cbn [snd].
    - apply I_nospace, I_open, I_full, I_close, H.
    - apply I_open, I_full, I_close, H.
  Qed.

  Theorem reserve_inv w n : I w -> I (snd (reserve d w n)).
  Proof.
    intros H. rewrite reserve_eq. unfold reserve'.
    destruct (gt_diff32 _ _ _); [apply I_nospace, H|].
    destruct (_ =? _); [|apply reserve2_inv, H].
    destruct (fst (full_cb w)); [apply I_nospace, I_full, H|].
    apply reserve2_inv, I_open, I_full, H.
  Qed.
End ReserveInv.
