(* The packet-level reader's dec_record returns the traced event record: event dispatch on the
   header id, then the four scopes (uses Layout.RecordProofs.scopes_rt). *)
From Coq Require Import List Arith Bool ZArith String Lia PeanoNat.
Import ListNotations.
From BT.Base Require Import Bits BitsProofs.
From BT.Layout Require Import Model BuildProofs RoundTrip RecordProofs.
From BT.Tracer Require Import Model Decode.

Lemma find_event_in d e :
  NoDup (map e_id (d_erts d)) -> In e (d_erts d) ->
  find_event (tstream_of_dst d) (Z.of_nat (e_id e)) =
  Some (mk_tev (Z.of_nat (e_id e)) (option_map tsdl_of_sft (e_sc e)) (option_map tsdl_of_sft (e_p e))).
Proof.
  unfold find_event, tstream_of_dst. cbn [ts_events].
  induction (d_erts d) as [|x xs IH]; intros Hnd Hin; [contradiction|].
  cbn [map find te_id]. inversion Hnd as [|? ? Hx Hxs]; subst.
  destruct Hin as [->|Hin].
  - rewrite Z.eqb_refl. reflexivity.
  - destruct (Z.eqb_spec (Z.of_nat (e_id x)) (Z.of_nat (e_id e))) as [E|E].
    + exfalso. apply Hx. apply Nat2Z.inj in E. rewrite E. apply in_map. exact Hin.
    + apply IH; assumption.
Qed.

Lemma dec_opt_map d s lim o a :
  dec_opt (tstream_of_dst d) s lim (option_map tsdl_of_sft o) a = dec_o (d_bo d) s lim o a.
Proof. destruct o; reflexivity. Qed.

(* value of the header's id field as the reader sees it *)
Definition header_id (eh : option sft) (hv : list val) : Z :=
  match eh with
  | Some s => match field_of (t_fields (tsdl_of_sft s)) (canon_members (s_mems s) hv) "id" with
              | Some z => z | None => 0%Z end
  | None => 0%Z
  end.

Theorem record_decode d e nk lim st1 st2 st3 st4 hv cv sv pv ss0 ss1 ss2 ss3 ss4 :
  NoDup (map e_id (d_erts d)) -> In e (d_erts d) ->
  header_id (d_eh d) hv = Z.of_nat (e_id e) ->
  ok_opt (d_eh d) hv -> ok_opt (d_cc d) cv -> ok_opt (e_sc e) sv -> ok_opt (e_p e) pv ->
  List.length (ss_s ss0) = lim ->
  ser_opt (d_bo d) nk lim (d_eh d) st1 hv ss0 = Some ss1 ->
  ser_opt (d_bo d) nk lim (d_cc d) st2 cv ss1 = Some ss2 ->
  ser_opt (d_bo d) nk lim (e_sc e) st3 sv ss2 = Some ss3 ->
  ser_opt (d_bo d) nk lim (e_p e) st4 pv ss3 = Some ss4 ->
  forall s'' lim', agree (ss_at ss0) (ss_at ss4) s'' (ss_s ss4) -> ss_at ss4 <= lim' ->
    dec_record (tstream_of_dst d) s'' lim' (ss_at ss0) =
    Some (Z.of_nat (e_id e),
          [canon_o (d_eh d) hv; canon_o (d_cc d) cv; canon_o (e_sc e) sv; canon_o (e_p e) pv],
          ss_at ss4).
Proof.
  intros Hnd Hin Hid O1 O2 O3 O4 L0 E1 E2 E3 E4 s'' lim' Hag Hl.
  destruct (scopes_rt (d_bo d) nk lim (d_eh d) (d_cc d) (e_sc e) (e_p e) st1 st2 st3 st4
              hv cv sv pv ss0 ss1 ss2 ss3 ss4 O1 O2 O3 O4 L0 E1 E2 E3 E4) as (_ & _ & _ & D).
  destruct (D s'' lim' Hag Hl) as (D1 & D2 & D3 & D4).
  unfold dec_record.
  change (ts_eh (tstream_of_dst d)) with (option_map tsdl_of_sft (d_eh d)).
  change (ts_ec (tstream_of_dst d)) with (option_map tsdl_of_sft (d_cc d)).
  rewrite dec_opt_map, D1.
  assert (Hidz : match option_map tsdl_of_sft (d_eh d) with
                 | Some eh => match field_of (t_fields eh) (canon_o (d_eh d) hv) "id" with
                              | Some z => z | None => 0%Z end
                 | None => 0%Z end = Z.of_nat (e_id e)).
  { rewrite <- Hid. unfold header_id, canon_o. destruct (d_eh d); reflexivity. }
  rewrite Hidz. rewrite (find_event_in d e Hnd Hin). cbn [te_ctx te_fields].
  rewrite dec_opt_map, D2. rewrite dec_opt_map, D3. rewrite dec_opt_map, D4. reflexivity.
Qed.
