(* Non-vacuity of Tracer/NoError.v: its premises hold for the example data stream type and history
   of Tracer/Examples.v, and the absence of error of that run is obtained THROUGH the theorem. *)
From Coq Require Import List Arith Bool ZArith String Lia PeanoNat.
Import ListNotations.
From BT.Base Require Import Bits.
From BT.Layout Require Import Model BuildProofs RoundTrip RecordProofs PosProofs FillProofs SizeTotal.
From BT.Tracer Require Import Model Decode RecordDecode Spec BoundsProofs Holes History HistoryRecord HistoryStep
  HistoryBounds HistoryMain HistoryExample Examples NoError.

(* a 16-byte buffer holds the 8-byte packet context of ex_d: decided by one computation *)
Lemma ex_opens_ok : opens_ok_at ex_d [] 128.
Proof. apply opens_ok_check_ok. vm_compute. reflexivity. Qed.

Lemma ex_bufs_ok : bufs_ok ex_d [] 16 ex_or.
Proof. split; [exact ex_opens_ok|]. unfold newbufs_ok, ex_or. repeat constructor. Qed.

Lemma ex_calls_f : Forall (call_okf ex_d) ex_tail.
Proof.
  unfold ex_tail, ex_h, ex_tr. cbn [tl].
  repeat (constructor; [try exact I; try (eexists _, [], [], [VInt _]; split; [reflexivity|];
                        split; [|cbn; auto];
                        unfold args_ok, ok_opt, ex_d; cbn [d_cc e_sc e_p nth_error d_erts];
                        split; [reflexivity|split; [reflexivity|split; [split; [reflexivity|apply ints_ok; cbn [s_mems]; ints]|reflexivity]]])|]).
  constructor.
Qed.

Example no_error_example : w_err (run ex_d 16 [] ex_or (COpen :: ex_tail)) = false.
Proof.
  apply (no_error_run ex_d [] 16 ex_wf 16 ex_or ex_tail).
  - unfold fits; cbn; lia.
  - repeat constructor.
  - exact ex_bufs_ok.
  - exact ex_calls_f.
  - vm_compute. reflexivity.
Qed.

(* the same run through the full history theorem: the reader finds exactly the accepted records *)
Example history_full_example :
  exists ds, outs ex_d (step ex_d (mk_w (init_ctx 16) ex_or 0%Z [] false []) COpen) ex_tail ds /\
    read_all ex_d (pkts (obs (w_log (run ex_d 16 [] ex_or (COpen :: ex_tail))))) = Some (List.concat ds).
Proof.
  apply (history_records_full ex_d [] 16 ex_wf 16 ex_or ex_tail).
  - unfold fits; cbn; lia.
  - repeat constructor.
  - exact ex_bufs_ok.
  - exact ex_calls_f.
  - vm_compute. reflexivity.
  - vm_compute. reflexivity.
Qed.

(* ---------------------------------------------------------------- why `call_okf` and not `call_ok` *)
(* the payload is a static array of two bytes; the call passes ONE element: the arguments are well
   typed in the sense of `call_ok` (RoundTrip.val_ok does not constrain the number of elements of a
   static array: in C the parameter is a pointer), but the size pass of the model has no result and
   the tracing function flags `fail 4` *)
Definition ex_da : dstm :=
  mk_dst LE true None []
         (mk_sft 8 [("packet_size"%string, u16); ("content_size"%string, u16); ("timestamp_begin"%string, u8);
                    ("timestamp_end"%string, u8); ("events_discarded"%string, u8); ("packet_seq_num"%string, u8)])
         (Some (mk_sft 8 [("id"%string, u8); ("timestamp"%string, u8)])) None
         [mk_ert 0 None (Some (mk_sft 8 [("x"%string, FSArr 2 u8)]))] true 8.

Lemma ex_da_wf : wf_d ex_da [] 16.
Proof.
  constructor; try (timeout 5 reflexivity).
  - repeat constructor; intros [].
  - unfold pcms, ex_da. cbn [d_pc s_mems map fst].
    repeat (constructor; [cbn [In]; intuition discriminate|]). constructor.
  - exists 8. unfold pcms, ex_da. cbn [d_pc s_mems In]. tauto.
  - intros fv psize seq ts. apply ints_ok_skip. unfold pcms, ex_da. cbn [d_pc s_mems pc_vals].
    cbn [String.eqb Ascii.eqb Bool.eqb existsb pc_skips orb]. ints.
  - intros e ts [<-|[]]. unfold hdr_vals, ex_da, ok_opt. cbn [d_eh]. split; [reflexivity|].
    apply ints_ok. cbn [s_mems eh_vals e_id]. ints.
  - intros e ts [<-|[]]. unfold header_id, hdr_vals, ex_da. cbn [d_eh s_mems eh_vals e_id tsdl_of_sft t_fields map fst snd tsdl_of_ft].
    cbn [canon_members canon field_of String.eqb Ascii.eqb Bool.eqb]. reflexivity.
Qed.

Theorem no_error_needs_sized_arguments :
  exists d user cs_size buf oracle h,
    wf_d d user cs_size /\ fits cs_size (8 * buf) /\ or_ok cs_size oracle /\ bufs_ok d user buf oracle /\
    Forall (call_ok d) h /\
    c_open (w_c (step d (mk_w (init_ctx buf) oracle 0%Z [] false user) COpen)) = true /\
    w_err (run d buf user oracle (COpen :: h)) = true.
Proof.
  exists ex_da, [], 16, 16, [], [CTrace 0 [VArr [VArr [VInt 1]]]].
  split; [exact ex_da_wf|]. split; [unfold fits; cbn; lia|]. split; [constructor|].
  split; [split; [apply opens_ok_check_ok; vm_compute; reflexivity|constructor]|].
  split.
  - constructor; [|constructor].
    eexists _, [], [], [VArr [VInt 1]]. split; [reflexivity|].
    unfold args_ok, ok_opt, ex_da; cbn [d_cc e_sc e_p nth_error d_erts].
    split; [reflexivity|split; [reflexivity|split; [|reflexivity]]].
    split; [reflexivity|]. cbn. repeat split; auto.
  - split; vm_compute; reflexivity.
Qed.
