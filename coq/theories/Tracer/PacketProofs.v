(* C04: what the opening / closing functions hand to the serializer, and where the late fields go. *)
From Coq Require Import List Arith Bool ZArith String Lia PeanoNat.
Import ListNotations.
From BT.Base Require Import Bits BitsProofs.
From BT.Layout Require Import Model BuildProofs RoundTrip RecordProofs SizeProofs.
From BT.Tracer Require Import Model Lemmas Spec.

(* value of a packet context member, by name, in the list handed to the serializer *)
Fixpoint val_of (ms : list (string * ft)) (vs : list val) (n : string) : option val :=
  match ms, vs with
  | (k, _) :: ms, v :: vs => if String.eqb k n then Some v else val_of ms vs n
  | _, _ => None
  end.

Lemma pc_vals_packet_size ms psize seq ts user :
  existsb (fun m => String.eqb (fst m) "packet_size") ms = true ->
  val_of ms (pc_vals ms psize seq ts user) "packet_size" = Some (VInt (Z.of_nat psize)).
Proof.
  revert user. induction ms as [|[n f] ms IH]; intros user H; cbn [existsb fst] in H; [discriminate|].
  cbn [pc_vals].
  destruct (String.eqb n "packet_size") eqn:E1.
  - cbn [val_of]. rewrite E1. reflexivity.
  - cbn [orb] in H.
    destruct (String.eqb n "timestamp_begin"); [cbn [val_of]; rewrite E1; apply IH; exact H|].
    destruct (String.eqb n "packet_seq_num"); [cbn [val_of]; rewrite E1; apply IH; exact H|].
    destruct (existsb (String.eqb n) pc_skips); [cbn [val_of]; rewrite E1; apply IH; exact H|].
    destruct user; cbn [val_of]; rewrite E1; apply IH; exact H.
Qed.

Lemma pc_vals_seq ms psize seq ts user :
  existsb (fun m => String.eqb (fst m) "packet_seq_num") ms = true ->
  val_of ms (pc_vals ms psize seq ts user) "packet_seq_num" = Some (VInt (Z.of_nat seq)).
Proof.
  revert user. induction ms as [|[n f] ms IH]; intros user H; cbn [existsb fst] in H; [discriminate|].
  cbn [pc_vals].
  destruct (String.eqb n "packet_size") eqn:E1.
  - assert (E2 : String.eqb n "packet_seq_num" = false).
    { apply String.eqb_eq in E1. subst n. reflexivity. }
    rewrite E2 in H. cbn [orb] in H. cbn [val_of]. rewrite E2. apply IH; exact H.
  - destruct (String.eqb n "timestamp_begin") eqn:E3.
    + assert (E2 : String.eqb n "packet_seq_num" = false).
      { apply String.eqb_eq in E3. subst n. reflexivity. }
      rewrite E2 in H. cbn [orb] in H. cbn [val_of]. rewrite E2. apply IH; exact H.
    + destruct (String.eqb n "packet_seq_num") eqn:E2.
      * cbn [val_of]. rewrite E2. reflexivity.
      * cbn [orb] in H.
        destruct (existsb (String.eqb n) pc_skips); [cbn [val_of]; rewrite E2; apply IH; exact H|].
        destruct user; cbn [val_of]; rewrite E2; apply IH; exact H.
Qed.

Lemma pc_vals_ts_begin ms psize seq ts user :
  existsb (fun m => String.eqb (fst m) "timestamp_begin") ms = true ->
  val_of ms (pc_vals ms psize seq ts user) "timestamp_begin" = Some (VInt ts).
Proof.
  revert user. induction ms as [|[n f] ms IH]; intros user H; cbn [existsb fst] in H; [discriminate|].
  cbn [pc_vals].
  destruct (String.eqb n "packet_size") eqn:E1.
  - assert (E2 : String.eqb n "timestamp_begin" = false).
    { apply String.eqb_eq in E1. subst n. reflexivity. }
    rewrite E2 in H. cbn [orb] in H. cbn [val_of]. rewrite E2. apply IH; exact H.
  - destruct (String.eqb n "timestamp_begin") eqn:E3.
    + cbn [val_of]. rewrite E3. reflexivity.
    + cbn [orb] in H.
      destruct (String.eqb n "packet_seq_num"); [cbn [val_of]; rewrite E3; apply IH; exact H|].
      destruct (existsb (String.eqb n) pc_skips); [cbn [val_of]; rewrite E3; apply IH; exact H|].
      destruct user; cbn [val_of]; rewrite E3; apply IH; exact H.
Qed.

(* a late field is filled exactly at the offset saved when it was skipped: skipping from position
   `a` saves align_up a al; the later write (same operation, KWrite) from that saved position
   stores the value's bits at [saved, saved + size) and nowhere else *)
Theorem fill_position bo nk lim al size off z s a sv :
  al_ok al ->
  (match off with Some k => k = align_up a al mod 8 | None => True end) ->
  ser bo nk lim (OBits al KSkip size off) (VInt 0) (mk_ss s a sv) =
    Some (mk_ss s (align_up a al + size) (sv ++ [align_up a al])) /\
  (align_up a al + size <= lim ->
   ser bo nk lim (OBits al KWrite size off) (VInt z) (mk_ss s (align_up a al) []) =
     Some (mk_ss (write_bits (align_up a al) (enc_int bo size z) s) (align_up a al + size) [])).
Proof.
  intros Ha Hoff. split; [reflexivity|]. intros Hfit.
  rewrite ser_bits_eq. cbn [ss_at ss_s ss_saved].
  assert (Hid : align_up (align_up a al) al = align_up a al).
  { apply align_up_aligned; [apply al_ok_pos; exact Ha|apply align_up_mod; apply al_ok_pos; exact Ha]. }
  rewrite Hid.
  assert (Hpos : bits_pos_of nk al size off (align_up a al) = align_up a al).
  { unfold bits_pos_of. apply (bits_pos nk al size off (align_up a al) Ha).
    - apply align_up_mod. apply al_ok_pos. exact Ha.
    - exact Hoff. }
  rewrite Hpos.
  destruct (Nat.leb_spec (align_up a al + size) lim); [reflexivity|lia].
Qed.
