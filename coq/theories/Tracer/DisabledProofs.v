(* C07 (a), (c): a tracing call that finds tracing disabled has no effect (proofs). *)
From Coq Require Import List Arith Bool ZArith String Lia.
Import ListNotations.
From BT.Base Require Import Bits.
From BT.Layout Require Import Model.
From BT.Tracer Require Import Model Lemmas Spec.

Lemma same_packet_refl c : same_packet c c.
Proof. repeat split. Qed.
Lemma same_packet_trans c1 c2 c3 : same_packet c1 c2 -> same_packet c2 c3 -> same_packet c1 c3.
Proof. unfold same_packet. intuition congruence. Qed.

Lemma entry_world_eq d w : entry_world d w = trace_entry d w.
Proof. unfold entry_world, trace_entry. destruct (d_has_clock d); [|reflexivity]. rewrite let_pair. reflexivity. Qed.

Lemma entry_world_frame d w :
  same_packet (w_c w) (w_c (entry_world d w)) /\
  w_err (entry_world d w) = w_err w /\ w_pcargs (entry_world d w) = w_pcargs w /\
  w_log (entry_world d w) = w_log w ++ clock_seg d w.
Proof.
  rewrite entry_world_eq. unfold trace_entry, clock_seg. destruct (d_has_clock d).
  - rewrite clock_cb_eq. up. unfold same_packet. up. togs. repeat split; reflexivity.
  - rewrite app_nil_r. repeat split; reflexivity.
Qed.

(* C07 (a) *)
Theorem trace_fn_disabled d e args w :
  c_enabled (w_c (entry_world d w)) = false ->
  trace_fn d e args w = entry_world d w /\
  same_packet (w_c w) (w_c (trace_fn d e args w)) /\
  w_err (trace_fn d e args w) = w_err w /\
  w_log (trace_fn d e args w) = w_log w ++ clock_seg d w.
Proof.
  intros H. assert (E : trace_fn d e args w = entry_world d w).
  { rewrite trace_fn_eq, <- entry_world_eq, H. reflexivity. }
  rewrite E. destruct (entry_world_frame d w) as [A [B [_ C]]]. auto.
Qed.

(* without a clock, or when the clock callback does not toggle, "disabled on entry" is enough *)
Lemma entry_enabled_no_toggle d w :
  (d_has_clock d = false \/ a_toggle (hd default_ans (w_or w)) = None) ->
  c_enabled (w_c (entry_world d w)) = c_enabled (w_c w).
Proof.
  rewrite entry_world_eq. unfold trace_entry. destruct (d_has_clock d); [|reflexivity].
  intros [H|H]; [discriminate|]. rewrite clock_cb_eq. up. unfold tog, hd_ans. rewrite H. reflexivity.
Qed.

(* ------------------------------------------------------------------ (c) *)
Lemma step_disabled d w ei args :
  c_enabled (w_c (entry_world d w)) = false ->
  same_packet (w_c w) (w_c (step d w (CTrace ei args))).
Proof.
  intros H. unfold step. destruct (w_err w); [apply same_packet_refl|].
  match goal with |- same_packet _ (w_c (if w_err ?W then _ else _)) =>
    assert (S : same_packet (w_c w) (w_c W)); [|destruct (w_err W); exact S] end.
  destruct (nth_error (d_erts d) ei) as [e|]; [|apply same_packet_refl].
  apply trace_fn_disabled, H.
Qed.

Theorem disabled_calls_frame d h w :
  disabled_calls d w h -> same_packet (w_c w) (w_c (fold_left (step d) h w)).
Proof.
  revert w. induction h as [|k h IH]; intros w H; cbn [fold_left]; [apply same_packet_refl|].
  destruct H as [[ei [args ->]] [H1 H2]].
  eapply same_packet_trans; [apply step_disabled, H1|apply IH, H2].
Qed.

(* C07 (c): after re-enabling, the context is the one left by the last recorded event record (same
   buffer content, same position, same packet, same counters): the next record is appended there *)
Theorem reenable_resumes d h w :
  disabled_calls d w h ->
  let w' := fold_left (step d) (h ++ [CEnable true]) w in
  same_packet (w_c w) (w_c w') /\ (w_err w' = false -> c_enabled (w_c w') = true).
Proof.
  intros H w'. unfold w'. rewrite fold_left_app. cbn [fold_left].
  pose proof (disabled_calls_frame d h w H) as S. set (w1 := fold_left (step d) h w) in *.
  unfold step. destruct (w_err w1) eqn:E1; [split; [exact S|congruence]|]. up. rewrite E1. up.
  split; [|reflexivity]. unfold same_packet in *. up. exact S.
Qed.

