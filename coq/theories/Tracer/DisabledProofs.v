(* C07 (a), (c): a tracing call that finds tracing disabled has no effect (proofs). *)
From Coq Require Import List Arith Bool ZArith String Lia.
Import ListNotations.
From BT.Base Require Import Bits.
From BT.Layout Require Import Model.
From BT.Tracer Require Import Model Lemmas Spec.
From BT.Tracer Require FlagProofs.

Lemma same_packet_refl c : same_packet c c.
Proof. repeat split. Qed.
Lemma same_packet_trans c1 c2 c3 : same_packet c1 c2 -> same_packet c2 c3 -> same_packet c1 c3.
Proof. unfold same_packet. intuition congruence. Qed.

Lemma entry_world_eq d w : entry_world d w = trace_entry d w.
Proof. unfold entry_world, trace_entry. destruct (d_has_clock d); [|reflexivity]. rewrite let_pair. reflexivity. Qed.

Lemma entry_world_frame d w :
  same_packet (w_c w) (w_c (entry_world d w)) /\
  w_err (entry_world d w) = w_err w /\ w_pcargs (entry_world d w) = w_pcargs w /\
  w_log (entry_world d w) = w_log w ++ clock_seg d w.
Proof.
  rewrite entry_world_eq. unfold trace_entry, clock_seg. destruct (d_has_clock d).
  - rewrite clock_cb_eq. up. unfold same_packet. up. togs. repeat split; reflexivity.
  - rewrite app_nil_r. repeat split; reflexivity.
Qed.

(* C07 (a) *)
Theorem trace_fn_disabled d e args w :
  c_enabled (w_c (entry_world d w)) = false ->
  trace_fn d e args w = entry_world d w /\
  same_packet (w_c w) (w_c (trace_fn d e args w)) /\
  w_err (trace_fn d e args w) = w_err w /\
  w_log (trace_fn d e args w) = w_log w ++ clock_seg d w.
Proof.
  intros H. assert (E : trace_fn d e args w = entry_world d w).
  { rewrite trace_fn_eq, <- entry_world_eq, H. reflexivity. }
  rewrite E. destruct (entry_world_frame d w) as [A [B [_ C]]]. auto.
Qed.

(* without a clock, or when the clock callback does not toggle, "disabled on entry" is enough *)
Lemma entry_enabled_no_toggle d w :
  (d_has_clock d = false \/ a_toggle (hd default_ans (w_or w)) = None) ->
  c_enabled (w_c (entry_world d w)) = c_enabled (w_c w).
Proof.
  rewrite entry_world_eq. unfold trace_entry. destruct (d_has_clock d); [|reflexivity].
  intros [H|H]; [discriminate|]. rewrite clock_cb_eq. up. unfold tog, hd_ans. rewrite H. reflexivity.
Qed.

(* ------------------------------------------------------------------ (c) *)
Lemma step_disabled d w ei args :
  c_enabled (w_c (entry_world d w)) = false ->
  same_packet (w_c w) (w_c (step d w (CTrace ei args))).
Proof.
  intros H. unfold step. destruct (w_err w); [apply same_packet_refl|].
  match goal with |- same_packet _ (w_c (if w_err ?W then _ else _)) =>
    assert (S : same_packet (w_c w) (w_c W)); [|destruct (w_err W); exact S] end.
  destruct (nth_error (d_erts d) ei) as [e|]; [|apply same_packet_refl].
  apply trace_fn_disabled, H.
Qed.

Theorem disabled_calls_frame d h w :
  disabled_calls d w h -> same_packet (w_c w) (w_c (fold_left (step d) h w)).
Proof.
  revert w. induction h as [|k h IH]; intros w H; cbn [fold_left]; [apply same_packet_refl|].
  destruct H as [[ei [args ->]] [H1 H2]].
  eapply same_packet_trans; [apply step_disabled, H1|apply IH, H2].
Qed.

(* C07 (c): after re-enabling, the context is the one left by the last recorded event record (same
   buffer content, same position, same packet, same counters): the next record is appended there *)
Theorem reenable_resumes d h w :
  disabled_calls d w h ->
  let w' := fold_left (step d) (h ++ [CEnable true]) w in
  same_packet (w_c w) (w_c w') /\ (w_err w' = false -> c_enabled (w_c w') = true).
Proof.
  intros H w'. unfold w'. rewrite fold_left_app. cbn [fold_left].
  pose proof (disabled_calls_frame d h w H) as S. set (w1 := fold_left (step d) h w) in *.
  unfold step. destruct (w_err w1) eqn:E1; [split; [exact S|congruence]|]. up. rewrite E1. up.
  split; [|reflexivity]. unfold same_packet in *. up. exact S.
Qed.


(* ------------------------------------------------------------------ (b) atomicity w.r.t. the switch *)
Definition csim (c c' : ctx) : Prop := set_enabled c true = set_enabled c' true.

Lemma csim_fields c c' :
  csim c c' ->
  c_s c = c_s c' /\ c_psize c = c_psize c' /\ c_at c = c_at c' /\ c_content c = c_content c' /\
  c_off_content c = c_off_content c' /\ c_disc c = c_disc c' /\ c_seq c = c_seq c' /\
  c_open c = c_open c' /\ c_in_ts c = c_in_ts c' /\ c_use_ts c = c_use_ts c' /\
  c_last_ts c = c_last_ts c' /\ c_saved c = c_saved c'.
Proof. unfold csim, set_enabled. intros H. injection H. intros. repeat split; assumption. Qed.

Lemma csim_intro c c' :
  c_s c = c_s c' -> c_psize c = c_psize c' -> c_at c = c_at c' -> c_content c = c_content c' ->
  c_off_content c = c_off_content c' -> c_disc c = c_disc c' -> c_seq c = c_seq c' ->
  c_open c = c_open c' -> c_in_ts c = c_in_ts c' -> c_use_ts c = c_use_ts c' ->
  c_last_ts c = c_last_ts c' -> c_saved c = c_saved c' -> csim c c'.
Proof. unfold csim, set_enabled. intros. congruence. Qed.

Lemma csim_tog a c : csim (tog a c) c.
Proof. apply csim_intro; togs; reflexivity. Qed.
Lemma csim_trans c1 c2 c3 : csim c1 c2 -> csim c2 c3 -> csim c1 c3.
Proof. unfold csim. congruence. Qed.
Lemma csim_sym c1 c2 : csim c1 c2 -> csim c2 c1.
Proof. unfold csim. congruence. Qed.

Lemma sim_intro w w' :
  csim (w_c w) (w_c w') -> map erase_toggle (w_or w) = map erase_toggle (w_or w') ->
  w_clk w = w_clk w' -> w_log w = w_log w' -> w_err w = w_err w' -> w_pcargs w = w_pcargs w' -> sim w w'.
Proof. unfold sim, csim. auto 10. Qed.

Lemma erase_hd l l' :
  map erase_toggle l = map erase_toggle l' ->
  a_full (hd default_ans l) = a_full (hd default_ans l') /\
  a_newbuf (hd default_ans l) = a_newbuf (hd default_ans l') /\
  a_inc (hd default_ans l) = a_inc (hd default_ans l') /\
  map erase_toggle (tl l) = map erase_toggle (tl l').
Proof.
  destruct l as [|a l], l' as [|a' l']; cbn [map hd tl]; intros H; try discriminate; [repeat split|].
  injection H as H1 H2 H3 H4. repeat split; assumption.
Qed.

Lemma erase_hd_eager l l' :
  map erase_toggle l = map erase_toggle l' -> a_eager (hd default_ans l) = a_eager (hd default_ans l').
Proof.
  destruct l as [|a l], l' as [|a' l']; cbn [map hd tl]; intros H; try discriminate; [reflexivity|].
  injection H as H1 H2 H3 H4 H5. assumption.
Qed.

Ltac simd H :=
  let C := fresh "C" in let O := fresh "O" in let K := fresh "K" in let L := fresh "L" in
  let E := fresh "E" in let P := fresh "P" in
  match type of H with sim ?a ?b =>
    assert (C : csim (w_c a) (w_c b)) by (exact (proj1 H)); destruct H as [_ [O [K [L [E P]]]]] end.

Lemma clock_cb_sim d w w' :
  sim w w' -> fst (clock_cb d w) = fst (clock_cb d w') /\ sim (snd (clock_cb d w)) (snd (clock_cb d w')).
Proof.
  intros H. simd H. destruct (erase_hd _ _ O) as [_ [_ [I T]]].
  destruct (csim_fields _ _ C) as [_ [_ [_ [_ [_ [_ [_ [Ho [Hi _]]]]]]]]].
  rewrite !clock_cb_eq. cbn [fst snd].
  assert (N : clk_next d w = clk_next d w') by (unfold clk_next, hd_ans; rewrite K, I; reflexivity).
  split; [exact N|]. apply sim_intro; up; try congruence.
  eapply csim_trans; [apply csim_tog|]. eapply csim_trans; [exact C|]. apply csim_sym, csim_tog.
Qed.

Lemma full_cb_sim w w' :
  sim w w' -> fst (full_cb w) = fst (full_cb w') /\ sim (snd (full_cb w)) (snd (full_cb w')).
Proof.
  intros H. simd H. destruct (erase_hd _ _ O) as [F [_ [_ T]]].
  destruct (csim_fields _ _ C) as [_ [_ [_ [_ [_ [_ [_ [Ho [Hi _]]]]]]]]].
  rewrite !full_cb_eq. cbn [fst snd]. unfold hd_ans. split; [exact F|].
  apply sim_intro; up; try congruence.
  eapply csim_trans; [apply csim_tog|]. eapply csim_trans; [exact C|]. apply csim_sym, csim_tog.
Qed.

Lemma do_ser_sim d w w' o v : sim w w' -> sim (do_ser d w o v) (do_ser d w' o v).
Proof.
  intros H. simd H.
  destruct (csim_fields _ _ C) as [F1 [F2 [F3 [F4 [F5 [F6 [F7 [F8 [F9 [F10 [F11 F12]]]]]]]]]]].
  rewrite !do_ser_eq. rewrite <- F1, <- F2, <- F3, <- F9.
  destruct (ser _ _ _ _ _ _); apply sim_intro; up; try congruence.
  apply csim_intro; unfold ser_ctx; up; congruence.
Qed.

Lemma setc_sim w w' c c' : sim w w' -> csim c c' -> sim (set_c w c) (set_c w' c').
Proof. intros H Hc. simd H. apply sim_intro; up; assumption. Qed.
Lemma logev_sim w w' e : sim w w' -> sim (logev w e) (logev w' e).
Proof. intros H. simd H. apply sim_intro; up; congruence. Qed.
Lemma fail_sim w w' n : sim w w' -> sim (fail w n) (fail w' n).
Proof. intros H. simd H. apply sim_intro; up; congruence. Qed.
Lemma sim_csim w w' : sim w w' -> csim (w_c w) (w_c w').
Proof. intros H. apply H. Qed.

Lemma write_saved_sim d w w' n v : sim w w' -> sim (write_saved d w n v) (write_saved d w' n v).
Proof.
  intros H. unfold write_saved. destruct (has_member _ _); [|exact H].
  destruct (pc_member_op d n) as [[al k size off| | | |]|]; try (apply fail_sim, H).
  destruct (skip_index _ _ _); try (apply fail_sim, H).
  cbv zeta.
  destruct (csim_fields _ _ (sim_csim _ _ H)) as [F1 [F2 [F3 [F4 [F5 [F6 [F7 [F8 [F9 [F10 [F11 F12]]]]]]]]]]].
  match goal with |- sim (set_c (do_ser d ?w0 ?o ?v) _) (set_c (do_ser d ?w0' _ _) _) =>
    assert (S0 : sim (do_ser d w0 o v) (do_ser d w0' o v)) end.
  { apply do_ser_sim. apply setc_sim; [exact H|]. apply csim_intro; up; congruence. }
  apply setc_sim; [exact S0|].
  destruct (csim_fields _ _ (sim_csim _ _ S0)) as [G1 [G2 [G3 [G4 [G5 [G6 [G7 [G8 [G9 [G10 [G11 G12]]]]]]]]]]].
  apply csim_intro; up; congruence.
Qed.

Lemma preamble_sim d w w' f :
  sim w w' ->
  fst (preamble_ts d w f) = fst (preamble_ts d w' f) /\ sim (snd (preamble_ts d w f)) (snd (preamble_ts d w' f)).
Proof.
  intros H.
  destruct (csim_fields _ _ (sim_csim _ _ H)) as [F1 [F2 [F3 [F4 [F5 [F6 [F7 [F8 [F9 [F10 [F11 F12]]]]]]]]]]].
  unfold preamble_ts. destruct (d_has_clock d && f); [|split; [reflexivity|exact H]].
  rewrite <- F10. destruct (c_use_ts (w_c w)); [split; [exact F11|exact H]|].
  apply clock_cb_sim, H.
Qed.

Lemma open_do_sim d ts w w' : sim w w' -> sim (open_do d ts w) (open_do d ts w').
Proof.
  intros H.
  destruct (csim_fields _ _ (sim_csim _ _ H)) as [F1 [F2 [F3 [F4 [F5 [F6 [F7 [F8 [F9 [F10 [F11 F12]]]]]]]]]]].
  unfold open_do. rewrite <- F2, <- F7, <- F9.
  assert (S1 : sim (open_reset w) (open_reset w')).
  { unfold open_reset. apply setc_sim; [exact H|]. apply csim_intro; up; congruence. }
  assert (S2 : sim (open_hdr d (open_reset w)) (open_hdr d (open_reset w'))).
  { unfold open_hdr. destruct (snd (ph_build d)); [apply do_ser_sim|]; exact S1. }
  set (w2 := open_hdr d (open_reset w)) in *. set (w2' := open_hdr d (open_reset w')) in *.
  assert (S3 : sim (open_mark d ts w2) (open_mark d ts w2')).
  { unfold open_mark. destruct (_ && _); [apply logev_sim|]; exact S2. }
  set (w3 := open_mark d ts w2) in *. set (w3' := open_mark d ts w2') in *.
  match goal with |- sim (open_fin _ ?W) (open_fin _ ?W') => assert (S4 : sim W W') end.
  { unfold open_pc. replace (w_pcargs w3') with (w_pcargs w3) by apply S3. apply do_ser_sim, S3. }
  unfold open_fin. apply setc_sim; [exact S4|].
  destruct (csim_fields _ _ (sim_csim _ _ S4)) as [G1 [G2 [G3 [G4 [G5 [G6 [G7 [G8 [G9 [G10 [G11 G12]]]]]]]]]]].
  apply csim_intro; up; congruence.
Qed.

Lemma close_do_sim d ts w w' : sim w w' -> sim (close_do d ts w) (close_do d ts w').
Proof.
  intros H.
  destruct (csim_fields _ _ (sim_csim _ _ H)) as [F1 [F2 [F3 [F4 [F5 [F6 [F7 [F8 [F9 [F10 [F11 F12]]]]]]]]]]].
  unfold close_do. rewrite <- F9.
  assert (S1 : sim (close_begin w) (close_begin w')).
  { unfold close_begin. apply setc_sim; [exact H|]. apply csim_intro; up; congruence. }
  assert (S2 : sim (close_mark d ts (close_begin w)) (close_mark d ts (close_begin w'))).
  { unfold close_mark. destruct (_ && _); [apply logev_sim|]; exact S1. }
  set (w2 := close_mark d ts (close_begin w)) in *. set (w2' := close_mark d ts (close_begin w')) in *.
  assert (S3 : sim (close_ws d ts w2) (close_ws d ts w2')).
  { unfold close_ws. cbv zeta.
    assert (A1 : sim (write_saved d w2 "timestamp_end" ts) (write_saved d w2' "timestamp_end" ts))
      by apply write_saved_sim, S2.
    set (x1 := write_saved d w2 "timestamp_end" ts) in *. set (x1' := write_saved d w2' "timestamp_end" ts) in *.
    replace (c_content (w_c x1')) with (c_content (w_c x1))
      by apply (csim_fields _ _ (sim_csim _ _ A1)).
    assert (A2 : sim (write_saved d x1 "content_size" (Z.of_nat (c_content (w_c x1))))
                     (write_saved d x1' "content_size" (Z.of_nat (c_content (w_c x1)))))
      by apply write_saved_sim, A1.
    set (x2 := write_saved d x1 "content_size" _) in *. set (x2' := write_saved d x1' "content_size" _) in *.
    replace (c_disc (w_c x2')) with (c_disc (w_c x2)) by apply (csim_fields _ _ (sim_csim _ _ A2)).
    apply write_saved_sim, A2. }
  unfold close_fin. apply setc_sim; [exact S3|].
  destruct (csim_fields _ _ (sim_csim _ _ S3)) as [G1 [G2 [G3 [G4 [G5 [G6 [G7 [G8 [G9 [G10 [G11 G12]]]]]]]]]]].
  destruct (has_member (d_pc d) "packet_seq_num"); apply csim_intro; up; congruence.
Qed.

(* inside a tracing section the opening / closing functions do not look at the switch *)
Lemma open_core_sim d ts w w' :
  c_in_ts (w_c w) = true -> sim w w' -> sim (open_core d ts w) (open_core d ts w').
Proof.
  intros Hi H.
  destruct (csim_fields _ _ (sim_csim _ _ H)) as [F1 [F2 [F3 [F4 [F5 [F6 [F7 [F8 [F9 [F10 [F11 F12]]]]]]]]]]].
  unfold open_core. rewrite <- F9, <- F8, Hi, !andb_false_r.
  destruct (c_open (w_c w)) eqn:Eo; [|apply open_do_sim, H].
  apply setc_sim; [exact H|]. apply csim_intro; up; congruence.
Qed.

Lemma close_core_sim d ts w w' :
  c_in_ts (w_c w) = true -> sim w w' -> sim (close_core d ts w) (close_core d ts w').
Proof.
  intros Hi H.
  destruct (csim_fields _ _ (sim_csim _ _ H)) as [F1 [F2 [F3 [F4 [F5 [F6 [F7 [F8 [F9 [F10 [F11 F12]]]]]]]]]]].
  unfold close_core. rewrite <- F9, <- F8, Hi, !andb_false_r.
  destruct (c_open (w_c w)) eqn:Eo; cbn [negb]; [apply close_do_sim, H|].
  apply setc_sim; [exact H|]. apply csim_intro; up; congruence.
Qed.

Lemma preamble_in_ts d w f : c_in_ts (w_c (snd (preamble_ts d w f))) = c_in_ts (w_c w).
Proof.
  destruct (preamble_cases d w f) as [[E _]|[[E _]|[E _]]]; rewrite E; try reflexivity.
  rewrite clock_cb_eq. up. togs. reflexivity.
Qed.

Lemma open_fn_sim d w w' : c_in_ts (w_c w) = true -> sim w w' -> sim (open_fn d w) (open_fn d w').
Proof.
  intros Hi H. rewrite !open_fn_eq.
  destruct (preamble_sim d w w' (has_member (d_pc d) "timestamp_begin") H) as [E S]. rewrite <- E.
  apply open_core_sim; [rewrite preamble_in_ts; exact Hi|exact S].
Qed.

Lemma close_fn_sim d w w' : c_in_ts (w_c w) = true -> sim w w' -> sim (close_fn d w) (close_fn d w').
Proof.
  intros Hi H. rewrite !close_fn_eq.
  destruct (preamble_sim d w w' (has_member (d_pc d) "timestamp_end") H) as [E S]. rewrite <- E.
  apply close_core_sim; [rewrite preamble_in_ts; exact Hi|exact S].
Qed.

Lemma cb_enter_sim k w w' : sim w w' -> sim (cb_enter k w) (cb_enter k w').
Proof.
  intros H. simd H. destruct (erase_hd _ _ O) as [_ [_ [_ T]]].
  destruct (csim_fields _ _ C) as [_ [_ [_ [_ [_ [_ [_ [Ho [Hi _]]]]]]]]].
  unfold cb_enter. apply sim_intro; up; try congruence.
  eapply csim_trans; [apply csim_tog|]. eapply csim_trans; [exact C|]. apply csim_sym, csim_tog.
Qed.

Lemma open_cb_sim d w w' : c_in_ts (w_c w) = true -> sim w w' -> sim (open_cb d w) (open_cb d w').
Proof.
  intros Hi H. rewrite !open_cb_eq. apply open_fn_sim; [|apply cb_enter_sim, H].
  unfold cb_enter; up; togs; exact Hi.
Qed.

Lemma packet_set_buf_csim c c' n : csim c c' -> csim (packet_set_buf c n) (packet_set_buf c' n).
Proof.
  intros H. destruct (csim_fields _ _ H) as [F1 [F2 [F3 [F4 [F5 [F6 [F7 [F8 [F9 [F10 [F11 F12]]]]]]]]]]].
  unfold packet_set_buf. rewrite <- F2, <- F3. apply csim_intro; up; congruence.
Qed.

Lemma close_give_sim d a a' w w' :
  a_newbuf a = a_newbuf a' -> sim w w' -> sim (close_give d a w) (close_give d a' w').
Proof.
  intros B S1.
  destruct (csim_fields _ _ (sim_csim _ _ S1)) as [G1 [G2 _]].
  unfold close_give. cbv zeta. rewrite <- G1, <- G2, <- B.
  match goal with |- context [logev w ?e] => pose proof (logev_sim w w' e S1) as S2 end.
  destruct (a_newbuf _); [|exact S2].
  apply setc_sim; [exact S2|]. apply packet_set_buf_csim, (sim_csim _ _ S2).
Qed.

Lemma close_cb_sim d w w' : c_in_ts (w_c w) = true -> sim w w' -> sim (close_cb d w) (close_cb d w').
Proof.
  intros Hi H. rewrite !close_cb_eq.
  assert (I1 : c_in_ts (w_c (close_fn d (cb_enter 2 w))) = true).
  { rewrite FlagProofs.close_fn_flag. unfold cb_enter; up; togs; exact Hi. }
  assert (S1 : sim (close_fn d (cb_enter 2 w)) (close_fn d (cb_enter 2 w'))).
  { apply close_fn_sim; [|apply cb_enter_sim, H]. unfold cb_enter; up; togs; exact Hi. }
  set (x := close_fn d (cb_enter 2 w)) in *. set (x' := close_fn d (cb_enter 2 w')) in *.
  destruct (csim_fields _ _ (sim_csim _ _ H)) as [_ [_ [_ [_ [_ [_ [_ [Ho _]]]]]]]].
  destruct (csim_fields _ _ (sim_csim _ _ S1)) as [G1 [G2 [G3 [G4 [G5 [G6 [G7 [G8 [G9 [G10 [G11 G12]]]]]]]]]]].
  destruct (erase_hd _ _ (proj1 (proj2 H))) as [_ [B _]].
  pose proof (erase_hd_eager _ _ (proj1 (proj2 H))) as Eg.
  unfold close_hand. rewrite <- Ho, <- G8. destruct (_ && _); [|exact S1].
  unfold hd_ans. rewrite <- Eg.
  pose proof (close_give_sim d _ _ x x' B S1) as S2.
  destruct (a_eager _); [|exact S2].
  apply open_fn_sim; [|exact S2].
  rewrite <- I1. unfold close_give. cbv zeta. destruct (a_newbuf _); reflexivity.
Qed.

Lemma with_use_ts_sim f w w' :
  (forall w w', c_in_ts (w_c w) = true -> sim w w' -> sim (f w) (f w')) ->
  c_in_ts (w_c w) = true -> sim w w' -> sim (with_use_ts f w) (with_use_ts f w').
Proof.
  intros Hf Hi H. unfold with_use_ts.
  destruct (csim_fields _ _ (sim_csim _ _ H)) as [F1 [F2 [F3 [F4 [F5 [F6 [F7 [F8 [F9 [F10 [F11 F12]]]]]]]]]]].
  match goal with |- sim (set_c (f ?a) _) (set_c (f ?b) _) => assert (S1 : sim (f a) (f b)) end.
  { apply Hf; [exact Hi|]. apply setc_sim; [exact H|]. apply csim_intro; up; congruence. }
  apply setc_sim; [exact S1|].
  destruct (csim_fields _ _ (sim_csim _ _ S1)) as [G1 [G2 [G3 [G4 [G5 [G6 [G7 [G8 [G9 [G10 [G11 G12]]]]]]]]]]].
  apply csim_intro; up; congruence.
Qed.

Lemma no_space_sim w w' : sim w w' -> sim (snd (no_space w)) (snd (no_space w')).
Proof.
  intros H. rewrite !no_space_eq. cbn [snd].
  destruct (csim_fields _ _ (sim_csim _ _ H)) as [F1 [F2 [F3 [F4 [F5 [F6 [F7 [F8 [F9 [F10 [F11 F12]]]]]]]]]]].
  simd H. apply sim_intro; up; try congruence. apply csim_intro; up; congruence.
Qed.

(* relation R := sim /\ flag = 1 through _reserve_er_space *)
Definition simin (w w' : world) : Prop := sim w w' /\ c_in_ts (w_c w) = true.

Lemma simin_flag w w' : simin w w' -> c_in_ts (w_c w') = true.
Proof. intros [H Hi]. destruct (csim_fields _ _ (sim_csim _ _ H)) as [_ [_ [_ [_ [_ [_ [_ [_ [F9 _]]]]]]]]]. congruence. Qed.

Lemma wopen_simin d w w' : simin w w' -> simin (with_use_ts (open_cb d) w) (with_use_ts (open_cb d) w').
Proof.
  intros [H Hi]. split; [apply with_use_ts_sim; [apply open_cb_sim|exact Hi|exact H]|].
  apply (FlagProofs.with_use_ts_blk (FlagProofs.evok true) true (open_cb d) w); [|exact Hi].
  intros; apply FlagProofs.open_cb_blk; assumption.
Qed.
Lemma wclose_simin d w w' : simin w w' -> simin (with_use_ts (close_cb d) w) (with_use_ts (close_cb d) w').
Proof.
  intros [H Hi]. split; [apply with_use_ts_sim; [apply close_cb_sim|exact Hi|exact H]|].
  apply (FlagProofs.with_use_ts_blk (FlagProofs.evok true) true (close_cb d) w); [|exact Hi].
  intros; apply FlagProofs.close_cb_blk; assumption.
Qed.
Lemma full_simin w w' : simin w w' -> fst (full_cb w) = fst (full_cb w') /\ simin (snd (full_cb w)) (snd (full_cb w')).
Proof.
  intros [H Hi]. destruct (full_cb_sim w w' H) as [E S]. split; [exact E|]. split; [exact S|].
  rewrite full_cb_eq. up. togs. exact Hi.
Qed.

Lemma no_space_simin w w' : simin w w' -> simin (snd (no_space w)) (snd (no_space w')).
Proof. intros [H Hi]. split; [apply no_space_sim, H|exact Hi]. Qed.

Lemma reserve2_sim d n w w' :
  simin w w' ->
  fst (reserve2 d n w) = fst (reserve2 d n w') /\ simin (snd (reserve2 d n w)) (snd (reserve2 d n w')).
Proof.
  intros H.
  destruct (csim_fields _ _ (sim_csim _ _ (proj1 H))) as [_ [F2 [F3 _]]].
  unfold reserve2. rewrite <- F2, <- F3.
  destruct (gt_diff32 n (c_psize (w_c w)) (c_at (w_c w))); [|split; [reflexivity|exact H]].
  cbv zeta. pose proof (wclose_simin d w w' H) as S1.
  destruct (full_simin _ _ S1) as [E2 S2]. rewrite <- E2.
  destruct (fst (full_cb (with_use_ts (close_cb d) w))).
  - split; [reflexivity|]. split; [apply no_space_sim, S2|apply S2].
  - pose proof (wopen_simin d _ _ S2) as S3.
    destruct (csim_fields _ _ (sim_csim _ _ (proj1 S3))) as [_ [G2 [G3 _]]].
    rewrite <- G2, <- G3.
    destruct (gt_diff32 n _ _).
    + split; [reflexivity|apply no_space_simin, S3].
    + split; [reflexivity|exact S3].
Qed.

Lemma reserve_sim d w w' n :
  simin w w' ->
  fst (reserve d w n) = fst (reserve d w' n) /\ simin (snd (reserve d w n)) (snd (reserve d w' n)).
Proof.
  intros H. rewrite !reserve_eq.
  destruct (csim_fields _ _ (sim_csim _ _ (proj1 H))) as [_ [F2 [F3 [_ [F5 _]]]]].
  unfold reserve'. rewrite <- F2, <- F3, <- F5.
  destruct (gt_diff32 _ _ _).
  { split; [reflexivity|]. split; [apply no_space_sim, H|apply H]. }
  destruct (_ =? _); [|apply reserve2_sim, H].
  destruct (full_simin _ _ H) as [E2 S2]. rewrite <- E2.
  destruct (fst (full_cb w)).
  - split; [reflexivity|]. split; [apply no_space_sim, S2|apply S2].
  - apply reserve2_sim, wopen_simin, S2.
Qed.

Lemma ser_parts_sim d ps w w' : sim w w' -> sim (ser_parts d w ps) (ser_parts d w' ps).
Proof.
  unfold ser_parts. revert w w'. induction ps as [|[o v] ps IH]; intros w w' H; cbn [fold_left]; [exact H|].
  replace (w_err w') with (w_err w) by apply H.
  destruct (w_err w); apply IH; [exact H|apply do_ser_sim, H].
Qed.

Lemma trace_recheck_sim d e args at0 w w' :
  sim w w' ->
  fst (trace_recheck d e args at0 w) = fst (trace_recheck d e args at0 w') /\
  sim (snd (trace_recheck d e args at0 w)) (snd (trace_recheck d e args at0 w')).
Proof.
  intros H.
  destruct (csim_fields _ _ (sim_csim _ _ H)) as [F1 [F2 [F3 _]]].
  unfold trace_recheck. rewrite <- F2, <- F3.
  destruct (_ =? _); [split; [reflexivity|exact H]|].
  destruct (size_parts _ _); [|split; [reflexivity|apply fail_sim, H]].
  destruct (gt_diff32 _ _ _); [|split; [reflexivity|exact H]].
  split; [reflexivity|]. cbn [snd fst].
  pose proof (no_space_sim w w' H) as S1. apply setc_sim; [exact S1|].
  destruct (csim_fields _ _ (sim_csim _ _ S1)) as [Q1 [Q2 [Q3 [Q4 [Q5 [Q6 [Q7 [Q8 [Q9 [Q10 [Q11 Q12]]]]]]]]]]].
  apply csim_intro; up; congruence.
Qed.

(* C07 (b): the part of a tracing call after the enabled test does not depend on the switch nor on
   the toggles performed by the callbacks it invokes *)
Theorem trace_body_sim d e args w w' :
  sim w w' -> sim (trace_body d e args w) (trace_body d e args w').
Proof.
  intros H.
  destruct (csim_fields _ _ (sim_csim _ _ H)) as [F1 [F2 [F3 [F4 [F5 [F6 [F7 [F8 [F9 [F10 [F11 F12]]]]]]]]]]].
  unfold trace_body. cbv zeta. rewrite <- F3.
  assert (S0 : simin (set_c w (set_in_ts (w_c w) true)) (set_c w' (set_in_ts (w_c w') true))).
  { split; [|reflexivity]. apply setc_sim; [exact H|]. apply csim_intro; up; congruence. }
  destruct (size_parts _ _) as [at_end|]; [|apply fail_sim, S0].
  destruct (reserve_sim d _ _ (at_end - c_at (w_c w)) S0) as [E1 [S1 I1]].
  set (r := reserve d (set_c w (set_in_ts (w_c w) true)) (at_end - c_at (w_c w))) in *.
  set (r' := reserve d (set_c w' (set_in_ts (w_c w') true)) (at_end - c_at (w_c w))) in *.
  rewrite <- E1.
  destruct (csim_fields _ _ (sim_csim _ _ S1)) as [G1 [G2 [G3 [G4 [G5 [G6 [G7 [G8 [G9 [G10 [G11 G12]]]]]]]]]]].
  destruct (negb (fst r)).
  { apply setc_sim; [exact S1|]. apply csim_intro; up; congruence. }
  replace (w_err (snd r')) with (w_err (snd r)) by apply S1.
  destruct (w_err (snd r)); [exact S1|].
  destruct (trace_recheck_sim d e args (c_at (w_c w)) (snd r) (snd r') S1) as [E2 S2r].
  rewrite <- E2.
  destruct (fst (trace_recheck d e args (c_at (w_c w)) (snd r))) eqn:Ef; cbn [negb]; [|exact S2r].
  rewrite (trace_recheck_true d e args _ (snd r) Ef).
  rewrite (trace_recheck_true d e args _ (snd r')) by (rewrite <- E2; reflexivity).
  clear S2r.
  unfold trace_ser. cbv zeta.
  assert (S2 : sim (trace_mark d (snd r)) (trace_mark d (snd r'))).
  { unfold trace_mark. rewrite <- G11. destruct (_ && _); [apply logev_sim|]; exact S1. }
  assert (L2 : c_last_ts (w_c (trace_mark d (snd r'))) = c_last_ts (w_c (trace_mark d (snd r))))
    by (symmetry; apply (csim_fields _ _ (sim_csim _ _ S2))).
  rewrite L2.
  match goal with |- context [ser_parts d (trace_mark d (snd r)) ?ps] =>
    pose proof (ser_parts_sim d ps _ _ S2) as S3;
    destruct (FlagProofs.ser_parts_blk d ps (trace_mark d (snd r))) as [I3 _];
    [unfold trace_mark; destruct (_ && _); exact I1|];
    set (x := ser_parts d (trace_mark d (snd r)) ps) in *;
    set (x' := ser_parts d (trace_mark d (snd r')) ps) in * end.
  replace (w_err x') with (w_err x) by apply S3.
  destruct (w_err x); [exact S3|].
  unfold trace_commit. cbv zeta.
  destruct (csim_fields _ _ (sim_csim _ _ S3)) as [J1 [J2 [J3 _]]].
  rewrite <- J2, <- J3.
  assert (S4 : sim (if c_at (w_c x) =? c_psize (w_c x) then close_cb d x else x)
                   (if c_at (w_c x) =? c_psize (w_c x) then close_cb d x' else x')).
  { destruct (_ =? _); [apply close_cb_sim; [exact I3|exact S3]|exact S3]. }
  apply setc_sim; [exact S4|].
  destruct (csim_fields _ _ (sim_csim _ _ S4)) as [Q1 [Q2 [Q3 [Q4 [Q5 [Q6 [Q7 [Q8 [Q9 [Q10 [Q11 Q12]]]]]]]]]]].
  apply csim_intro; up; congruence.
Qed.

Lemma entry_world_sim d w w' : sim w w' -> sim (entry_world d w) (entry_world d w').
Proof.
  intros H. rewrite !entry_world_eq. unfold trace_entry. destruct (d_has_clock d); [|exact H].
  destruct (clock_cb_sim d w w' H) as [E S]. rewrite <- E. apply setc_sim; [exact S|].
  destruct (csim_fields _ _ (sim_csim _ _ S)) as [Q1 [Q2 [Q3 [Q4 [Q5 [Q6 [Q7 [Q8 [Q9 [Q10 [Q11 Q12]]]]]]]]]]].
  apply csim_intro; up; congruence.
Qed.

Theorem trace_fn_atomic d e args w w' :
  sim w w' ->
  c_enabled (w_c (entry_world d w)) = true -> c_enabled (w_c (entry_world d w')) = true ->
  sim (trace_fn d e args w) (trace_fn d e args w').
Proof.
  intros H E1 E2. rewrite !trace_fn_eq, <- !entry_world_eq, E1, E2. cbn [negb].
  apply trace_body_sim, entry_world_sim, H.
Qed.

(* in particular: same outcome as with an oracle that never toggles *)
Definition no_toggles (w : world) : world :=
  mk_w (w_c w) (map erase_toggle (w_or w)) (w_clk w) (w_log w) (w_err w) (w_pcargs w).
Lemma sim_no_toggles w : sim w (no_toggles w).
Proof.
  apply sim_intro; try reflexivity. unfold no_toggles. up. rewrite map_map.
  apply map_ext. intros a. reflexivity.
Qed.

(* every block used inside a tracing call after the enabled test *)
Theorem blocks_atomic d w w' :
  sim w w' -> c_in_ts (w_c w) = true ->
  (forall n, fst (reserve d w n) = fst (reserve d w' n) /\ sim (snd (reserve d w n)) (snd (reserve d w' n))) /\
  sim (open_cb d w) (open_cb d w') /\ sim (close_cb d w) (close_cb d w') /\
  (fst (full_cb w) = fst (full_cb w') /\ sim (snd (full_cb w)) (snd (full_cb w'))) /\
  (fst (clock_cb d w) = fst (clock_cb d w') /\ sim (snd (clock_cb d w)) (snd (clock_cb d w'))) /\
  (forall ps, sim (ser_parts d w ps) (ser_parts d w' ps)).
Proof.
  intros H Hi. split; [|split; [|split; [|split; [|split]]]].
  - intros n. destruct (reserve_sim d w w' n (conj H Hi)) as [E [S _]]. auto.
  - apply open_cb_sim; assumption.
  - apply close_cb_sim; assumption.
  - apply full_cb_sim, H.
  - apply clock_cb_sim, H.
  - intros ps. apply ser_parts_sim, H.
Qed.
