(* Closing a packet: the late fields are filled, the packet handed over decodes to its
   specification (Tracer/History.v). *)
From Coq Require Import List Arith Bool ZArith String Lia PeanoNat.
Import ListNotations.
From BT.Base Require Import Bits BitsProofs BytesProofs.
From BT.Layout Require Import Model BuildProofs RoundTrip RecordProofs SizeProofs FillProofs FillBuild.
From BT.Tracer Require Import Model Decode RecordDecode Lemmas Spec BoundsProofs Chain Holes History
  HistoryOpen ErrMono.

Section CL.
  Variable d : dstm.
  Variable user : list val.
  Variable cs_size : nat.
  Hypothesis WF : wf_d d user cs_size.

  Notation bo := (d_bo d).
  Notation nk := (d_native_known d).

  (* one late field written back *)
  Lemma write_saved_hole w N v al size off j h :
    has_member (d_pc d) N = true -> pc_member_op d N = Some (OBits al KSkip size off) ->
    skip_index (pcms d) N 0 = Some j -> nth j (c_saved (w_c w)) 0 = h_pos h -> h_size h = size ->
    al_ok al -> h_pos h mod al = 0 -> cons off (h_pos h) -> len_ok w ->
    w_err (write_saved d w N v) = false ->
    let w' := write_saved d w N v in
    c_s (w_c w') = write_bits (h_pos h) (enc_int bo size v) (c_s (w_c w)) /\
    h_pos h + size <= c_psize (w_c w) /\
    c_saved (w_c w') = c_saved (w_c w) /\ c_psize (w_c w') = c_psize (w_c w) /\
    c_content (w_c w') = c_content (w_c w) /\ c_off_content (w_c w') = c_off_content (w_c w) /\
    c_disc (w_c w') = c_disc (w_c w) /\ c_seq (w_c w') = c_seq (w_c w) /\ c_open (w_c w') = c_open (w_c w) /\
    c_in_ts (w_c w') = c_in_ts (w_c w) /\ c_enabled (w_c w') = c_enabled (w_c w) /\
    w_or w' = w_or w /\ w_pcargs w' = w_pcargs w /\ obs (w_log w') = obs (w_log w) /\ w_err w = false.
  Proof.
    intros HM HO HI HN HS Ha Hmod Hc Hl He. cbv zeta.
    unfold write_saved in *. unfold pcms in HI. rewrite HM, HO, HI in *.
    rewrite err_set_c in He. destruct (do_ser_ok _ _ _ _ He) as (st & S & A).
    set (w1 := set_c w (upd_at (w_c w) (c_s (w_c w)) (nth j (c_saved (w_c w)) 0))) in *.
    unfold after_ser in A.
    assert (W1 : c_s (w_c w1) = c_s (w_c w) /\ c_at (w_c w1) = h_pos h /\ c_psize (w_c w1) = c_psize (w_c w))
      by (unfold w1; up; rewrite HN; auto).
    destruct W1 as (W1s & W1a & W1p). rewrite W1s, W1a, W1p in S.
    rewrite ser_bits_eq in S. cbn [ss_at ss_s ss_saved] in S.
    rewrite (align_up_aligned _ _ (al_ok_pos _ Ha) Hmod) in S.
    assert (Hpos : bits_pos_of nk al size off (h_pos h) = h_pos h).
    { unfold bits_pos_of. apply (bits_pos nk al size off (h_pos h) Ha Hmod).
      destruct off; exact Hc. }
    rewrite Hpos in S.
    destruct (Nat.leb_spec (h_pos h + size) (c_psize (w_c w))) as [Hfit|]; [|discriminate].
    injection S as <-. cbn [ss_s ss_at ss_saved] in A.
    destruct A as (A1 & _ & _ & A4 & A5 & A6 & A7 & A8 & A9 & A10 & A11 & _ & _ & A14 & _ & A16 & A17 & _ & A19).
    up. unfold w1 in *. up. repeat split; auto.
  Qed.

  (* all holes named in F hold their final value, the others and the rest of the stream are as in s0 *)
  Definition filled (hs : list hole) (fv : string -> Z) (s0 s : stream) (F : list string) : Prop :=
    List.length s = List.length s0 /\
    (forall p, (forall h, In h hs -> In (h_name h) F -> ~ in_hole h p) -> get s p = get s0 p) /\
    (forall h, In h hs -> In (h_name h) F ->
       read_bits (h_pos h) (h_size h) s = enc_int bo (h_size h) (fv (h_name h))).

  Lemma filled_init hs fv s : filled hs fv s s [].
  Proof. repeat split; auto. intros h _ []. Qed.

  Lemma nth_error_inj_name hs i j (hi hj : hole) : NoDup (map h_name hs) ->
    nth_error hs i = Some hi -> nth_error hs j = Some hj -> h_name hi = h_name hj -> i = j.
  Proof.
    intros ND Ei Ej En.
    assert (Li : i < List.length hs) by (apply nth_error_Some; congruence).
    assert (Lj : j < List.length hs) by (apply nth_error_Some; congruence).
    rewrite NoDup_nth_error in ND. apply ND; [rewrite map_length; exact Li|].
    rewrite !nth_error_map, Ei, Ej. cbn. f_equal. exact En.
  Qed.

  Lemma holes_disjoint hs lo (h h' : hole) : ordered lo hs -> NoDup (map h_name hs) -> In h hs -> In h' hs ->
    h_name h <> h_name h' ->
    h_pos h + h_size h <= h_pos h' \/ h_pos h' + h_size h' <= h_pos h.
  Proof.
    intros O ND Hh Hh' Hne.
    destruct (In_nth_error _ _ Hh) as [i Ei]. destruct (In_nth_error _ _ Hh') as [j Ej].
    destruct (Nat.lt_trichotomy i j) as [L|[E|L]].
    - left. eapply ordered_disjoint; eauto.
    - subst j. rewrite Ei in Ej. injection Ej as <-. contradiction.
    - right. eapply ordered_disjoint; eauto.
  Qed.

  Lemma write_saved_filled c tsb hs fv s0 w N F :
    hdr_ctx_ok d user c tsb hs -> c_saved (w_c w) = c_saved c -> c_psize (w_c w) = c_psize c -> len_ok w ->
    List.length s0 = c_psize c ->
    existsb (String.eqb N) pc_skips = true ->
    filled hs fv s0 (c_s (w_c w)) F -> w_err (write_saved d w N (fv N)) = false ->
    let w' := write_saved d w N (fv N) in
    filled hs fv s0 (c_s (w_c w')) (N :: F) /\ len_ok w' /\
    c_saved (w_c w') = c_saved (w_c w) /\ c_psize (w_c w') = c_psize (w_c w) /\
    c_content (w_c w') = c_content (w_c w) /\ c_off_content (w_c w') = c_off_content (w_c w) /\
    c_disc (w_c w') = c_disc (w_c w) /\ c_seq (w_c w') = c_seq (w_c w) /\ c_open (w_c w') = c_open (w_c w) /\
    c_in_ts (w_c w') = c_in_ts (w_c w) /\ c_enabled (w_c w') = c_enabled (w_c w) /\
    w_or w' = w_or w /\ w_pcargs w' = w_pcargs w /\ obs (w_log w') = obs (w_log w) /\ w_err w = false.
  Proof.
    intros (G1 & G2 & G3 & G4 & G5 & _) Hsv Hps Hl Hl0 HN (F1 & F2 & F3) He. cbv zeta.
    destruct (has_member (d_pc d) N) eqn:HM.
    - destruct (G5 N HN HM) as (al & size & off & j & h & B1 & B2 & B3 & B4 & B5 & B6 & B7 & B8).
      assert (Hnth : nth j (c_saved (w_c w)) 0 = h_pos h).
      { rewrite Hsv, G1. apply nth_error_nth. rewrite nth_error_map, B3. reflexivity. }
      destruct (write_saved_hole w N (fv N) al size off j h HM B1 B2 Hnth B5 B6 B7 B8 Hl He)
        as (W1 & W2 & W3 & W4 & W5 & W6 & W7 & W8 & W9 & W10 & W11 & W12 & W13 & W14 & W15).
      assert (Hin : In h hs) by (eapply nth_error_In; eauto).
      assert (Hlen : h_pos h + List.length (enc_int bo size (fv N)) <= List.length (c_s (w_c w)))
        by (rewrite length_enc_int; unfold len_ok in Hl; lia).
      split; [|repeat split; auto; unfold len_ok; rewrite W1, W4, length_write_bits by exact Hlen; exact Hl].
      unfold filled. rewrite W1. split; [rewrite length_write_bits by exact Hlen; exact F1|]. split.
      + intros p Hp. rewrite get_write_bits_out; [| exact Hlen |].
        * apply F2. intros h' Hh' HF. apply Hp; [exact Hh'|right; exact HF].
        * rewrite length_enc_int. specialize (Hp h Hin (or_introl (eq_sym B4))). unfold in_hole in Hp. lia.
      + intros h' Hh' [E|HF].
        * assert (h' = h).
          { destruct (In_nth_error _ _ Hh') as [j' Ej'].
            pose proof (nth_error_inj_name hs j' j h' h G3 Ej' B3 ltac:(congruence)) as ->. congruence. }
          subst h'. rewrite B5, B4. rewrite <- (length_enc_int bo size (fv N)) at 1.
          apply read_write_same. exact Hlen.
        * destruct (String.eqb_spec (h_name h') N) as [E|Hne].
          -- assert (h' = h).
             { destruct (In_nth_error _ _ Hh') as [j' Ej'].
               pose proof (nth_error_inj_name hs j' j h' h G3 Ej' B3 ltac:(congruence)) as ->. congruence. }
             subst h'. rewrite B5, B4. rewrite <- (length_enc_int bo size (fv N)) at 1.
             apply read_write_same. exact Hlen.
          -- rewrite <- (F3 h' Hh' HF). apply read_bits_agree. intros p Hp.
             apply get_write_bits_out; [exact Hlen|]. rewrite length_enc_int.
             destruct (holes_disjoint hs 0 h h' G2 G3 Hin Hh' ltac:(congruence)); lia.
    - assert (E : write_saved d w N (fv N) = w) by (unfold write_saved; rewrite HM; reflexivity).
      rewrite E in *. split; [|repeat split; auto].
      unfold filled. split; [exact F1|]. split.
      + intros p Hp. apply F2. intros h Hh HF. apply Hp; [exact Hh|right; exact HF].
      + intros h Hh [E'|HF]; [|apply F3; auto].
        rewrite Forall_forall in G4. destruct (G4 h Hh) as (_ & _ & X). rewrite E', X in HM. discriminate.
  Qed.

  (* the content size as the reader finds it in the decoded packet context *)
  Lemma field_of_content fv ms : NoDup (map fst ms) ->
    forall vs env al, In ("content_size"%string, FInt false cs_size al) ms ->
      members_ok_skip pc_skips fv env ms vs ->
      field_of (map (fun m => (fst m, tsdl_of_ft (snd m))) ms) (canon_members ms (subst pc_skips fv ms vs))
               "content_size" = Some (fv "content_size"%string mod 2 ^ Z.of_nat cs_size)%Z.
  Proof.
    unfold field_of.
    induction ms as [|[n f] ms IH]; intros ND vs env al Hin Hok; [contradiction|].
    destruct vs as [|v vs]; [contradiction|].
    cbn [members_ok_skip] in Hok. destruct Hok as (_ & _ & Hrest).
    cbn [map fst] in ND. inversion ND as [|? ? Hn Hms]; subst.
    cbn [map canon_members subst fst snd].
    destruct (String.eqb_spec n "content_size") as [->|Hne].
    - destruct Hin as [E|Hin].
      + injection E as ->. cbn [skip_ft existsb String.eqb Ascii.eqb Bool.eqb orb canon].
        change (skip_ft pc_skips "content_size" (FInt false cs_size al)) with (Some (cs_size, al)).
        unfold Z_of_bits. cbn [andb]. rewrite Z_of_bits_u_bits_of_Z. reflexivity.
      + exfalso. apply Hn. apply (in_map fst) in Hin. exact Hin.
    - destruct Hin as [E|Hin]; [injection E as E _; congruence|].
      eapply IH; eauto.
  Qed.

  Lemma length_bytes_of_stream s n : List.length (bytes_of_stream bo s n) = n.
  Proof. unfold bytes_of_stream. rewrite map_length, seq_length. reflexivity. Qed.

  Lemma seqn_S n : (if has_member (d_pc d) "packet_seq_num" then S (seqn d n) else seqn d n) = seqn d (S n).
  Proof. unfold seqn. destruct (has_member _ _); reflexivity. Qed.

  Lemma close_do_HI w ts K cur :
    HI d user cs_size w K cur -> c_open (w_c w) = true -> c_at (w_c w) <= c_psize (w_c w) ->
    w_err (close_do d ts w) = false ->
    let w' := close_do d ts w in
    exists k, k_recs k = cur /\ k_disc k = c_disc (w_c w) /\ k_seq k = c_seq (w_c w) /\
      k_psize k = c_psize (w_c w) /\ k_content k = c_at (w_c w) /\ k_tse k = ts /\
      pkt_ok d user (c_psize (w_c w'), bytes_of_stream bo (c_s (w_c w')) (c_psize (w_c w') / 8)) k /\
      c_open (w_c w') = false /\ c_at (w_c w') = c_psize (w_c w') /\ c_psize (w_c w') = c_psize (w_c w) /\
      c_disc (w_c w') = c_disc (w_c w) /\ c_seq (w_c w') = seqn d (S (List.length K)) /\
      c_in_ts (w_c w') = c_in_ts (w_c w) /\ c_enabled (w_c w') = c_enabled (w_c w) /\ len_ok w' /\
      w_or w' = w_or w /\ w_pcargs w' = w_pcargs w /\
      obs (w_log w') = obs (w_log w) ++ (if has_tse d then [ETs 1 ts] else []) /\ w_err w = false /\
      ts_ok d w K [k_tsb k].
  Proof.
    intros (H1 & H2 & (n & H3) & H4 & H5 & H6 & H7 & H8 & H9 & H10 & H11) Hop Hat He. cbv zeta.
    rewrite Hop in H11. destruct H11 as (tsb & hs & HC & CH & TS).
    set (k := mk_pk (c_psize (w_c w)) (c_seq (w_c w)) tsb ts (c_at (w_c w)) (c_disc (w_c w)) cur).
    exists k.
    unfold close_do in *.
    remember (close_mark d ts (close_begin w)) as w1 eqn:W1.
    assert (C1 : c_s (w_c w1) = c_s (w_c w) /\ c_psize (w_c w1) = c_psize (w_c w) /\ c_content (w_c w1) = c_at (w_c w) /\
                 c_off_content (w_c w1) = c_off_content (w_c w) /\ c_disc (w_c w1) = c_disc (w_c w) /\
                 c_seq (w_c w1) = c_seq (w_c w) /\ c_open (w_c w1) = c_open (w_c w) /\ c_saved (w_c w1) = c_saved (w_c w) /\
                 c_enabled (w_c w1) = c_enabled (w_c w) /\ w_or w1 = w_or w /\ w_pcargs w1 = w_pcargs w /\
                 obs (w_log w1) = obs (w_log w) ++ (if has_tse d then [ETs 1 ts] else []) /\ w_err w1 = w_err w).
    { rewrite W1. unfold close_mark, close_begin, has_tse. destruct (_ && _); up; repeat split; auto.
      - rewrite obs_app. cbn. reflexivity.
      - rewrite app_nil_r. reflexivity. }
    destruct C1 as (C1s & C1p & C1c & C1o & C1d & C1q & C1n & C1v & C1e & C1r & C1g & C1l & C1x).
    assert (L1 : len_ok w1) by (unfold len_ok; rewrite C1s, C1p; exact H1).
    unfold close_ws, close_fin in He. rewrite err_set_c in He.
    remember (write_saved d w1 "timestamp_end" ts) as w2 eqn:W2.
    remember (write_saved d w2 "content_size" (Z.of_nat (c_content (w_c w2)))) as w3 eqn:W3.
    remember (write_saved d w3 "events_discarded" (Z.of_nat (c_disc (w_c w3)))) as w4 eqn:W4.
    assert (EW : close_ws d ts w1 = w4) by (rewrite W4, W3, W2; reflexivity).
    assert (E3 : w_err w3 = false).
    { destruct (w_err w3) eqn:X; [|reflexivity]. rewrite W4 in He.
      rewrite (sticky_write_saved d _ _ w3 X) in He. discriminate. }
    assert (E2 : w_err w2 = false).
    { destruct (w_err w2) eqn:X; [|reflexivity]. rewrite W3 in E3.
      rewrite (sticky_write_saved d _ _ w2 X) in E3. discriminate. }
    unfold len_ok in H1.
    (* first write *)
    assert (T1 : ts = fvk k "timestamp_end") by reflexivity.
    rewrite T1 in W2. rewrite W2 in E2.
    destruct (write_saved_filled (w_c w) tsb hs (fvk k) (c_s (w_c w)) w1 "timestamp_end" [] HC C1v C1p L1 H1
                eq_refl ltac:(rewrite C1s; apply filled_init) E2)
      as (F2 & L2 & A2). rewrite <- W2 in F2, L2, A2.
    destruct A2 as (A2v & A2p & A2c & A2o & A2d & A2q & A2n & A2i & A2e & A2r & A2g & A2l & _).
    (* second write *)
    assert (T2 : Z.of_nat (c_content (w_c w2)) = fvk k "content_size") by (rewrite A2c, C1c; reflexivity).
    rewrite T2 in W3. rewrite W3 in E3.
    destruct (write_saved_filled (w_c w) tsb hs (fvk k) (c_s (w_c w)) w2 "content_size" _ HC
                ltac:(rewrite A2v; exact C1v) ltac:(rewrite A2p; exact C1p) L2 H1 eq_refl F2 E3)
      as (F3 & L3 & A3). rewrite <- W3 in F3, L3, A3.
    destruct A3 as (A3v & A3p & A3c & A3o & A3d & A3q & A3n & A3i & A3e & A3r & A3g & A3l & _).
    (* third write *)
    assert (T3 : Z.of_nat (c_disc (w_c w3)) = fvk k "events_discarded") by (rewrite A3d, A2d, C1d; reflexivity).
    rewrite T3 in W4. rewrite W4 in He.
    destruct (write_saved_filled (w_c w) tsb hs (fvk k) (c_s (w_c w)) w3 "events_discarded" _ HC
                ltac:(rewrite A3v, A2v; exact C1v) ltac:(rewrite A3p, A2p; exact C1p) L3 H1 eq_refl F3 He)
      as (F4 & L4 & A4). rewrite <- W4 in F4, L4, A4.
    destruct A4 as (A4v & A4p & A4c & A4o & A4d & A4q & A4n & A4i & A4e & A4r & A4g & A4l & _).
    rewrite EW. unfold close_fin. up.
    assert (Ps : c_psize (w_c w4) = c_psize (w_c w)) by congruence.
    split; [reflexivity|]. split; [reflexivity|]. split; [reflexivity|]. split; [reflexivity|].
    split; [reflexivity|]. split; [reflexivity|].
    split.
    2:{ destruct TS as [TS1 TS2].
        repeat split; auto; try congruence.
        - rewrite A4q, A3q, A2q, C1q, H10. apply seqn_S.
        - rewrite <- C1x. destruct (w_err w1) eqn:X; [|reflexivity].
          rewrite (sticky_write_saved d _ _ w1 X) in E2. discriminate. }
    (* the packet handed over *)
    destruct F4 as (Fl & Fo & Ff).
    destruct HC as (G1 & G2 & G3 & G4 & G5 & G6).
    assert (Hall : forall h, In h hs -> In (h_name h) ["events_discarded"; "content_size"; "timestamp_end"]%string).
    { intros h Hh. rewrite Forall_forall in G4. destruct (G4 h Hh) as (_ & X & _).
      unfold pc_skips in X. cbn [existsb] in X. rewrite !orb_true_iff in X.
      destruct X as [X|[X|[X|X]]]; [apply String.eqb_eq in X; rewrite X; cbn; tauto..|discriminate]. }
    pose proof (chain_le _ _ _ _ _ CH) as Hoa.
    set (s3 := c_s (w_c w4)) in *.
    assert (Hl3 : List.length s3 = 8 * n) by (rewrite Fl, H1; exact H3).
    unfold pkt_ok. cbn [fst snd]. change (k_psize k) with (c_psize (w_c w)). rewrite Ps, H3.
    rewrite (Nat.mul_comm 8 n), Nat.div_mul by lia. rewrite (Nat.mul_comm n 8).
    rewrite length_bytes_of_stream.
    split; [reflexivity|]. split; [reflexivity|].
    rewrite stream_of_bytes_of_stream by lia.
    replace (firstn (8 * n) s3) with s3 by (rewrite <- Hl3; symmetry; apply firstn_all).
    destruct (G6 (fvk k) s3 (8 * n) ltac:(lia)) as (a_h & D1 & D2).
    { intros p Hp Hnh. apply Fo. intros h Hh _. apply Hnh. exact Hh. }
    { intros h Hh. apply Ff; [exact Hh|apply Hall; exact Hh]. }
    unfold dec_packet. change (ts_bo (t d)) with bo. rewrite D1, D2.
    destruct (wf_cs _ _ _ WF) as [al Hcs].
    change (t_fields (ts_pc (t d))) with (map (fun m => (fst m, tsdl_of_ft (snd m))) (pcms d)).
    unfold pc_open_vals.
    rewrite (field_of_content (fvk k) (pcms d) (wf_names _ _ _ WF) _ [] al Hcs (wf_pcv _ _ _ WF _ _ _ _)).
    assert (Hv : (fvk k "content_size" mod 2 ^ Z.of_nat cs_size)%Z = Z.of_nat (c_at (w_c w))).
    { change (fvk k "content_size") with (Z.of_nat (c_at (w_c w))).
      apply Z.mod_small. unfold fits in H4. lia. }
    rewrite Hv, Nat2Z.id.
    destruct (Nat.ltb_spec (8 * n) (c_at (w_c w))); [lia|].
    rewrite (chain_dec (t d) (c_s (w_c w)) cur (c_off_content (w_c w)) (c_at (w_c w)) s3 (S (8 * n)) [] CH);
      [reflexivity| |lia].
    intros p Hp. apply Fo. intros h Hh _ [X Y]. rewrite Forall_forall in G4. destruct (G4 h Hh) as (Z1 & _). lia.
  Qed.
End CL.
