(* C05: timestamps are consistent snapshots of a monotonic clock (proofs; statements in Props/C05.v). *)
From Coq Require Import List Arith Bool ZArith String Lia Sorted.
Import ListNotations.
From BT.Base Require Import Bits.
From BT.Layout Require Import Model.
From BT.Tracer Require Import Model Lemmas Spec FlagProofs ProtocolProofs.

(* ------------------------------------------------------------------ list level *)
Lemma last_sample_app cur l1 l2 : last_sample cur (l1 ++ l2) = last_sample (last_sample cur l1) l2.
Proof. revert cur. induction l1 as [|e l1 IH]; intros cur; [reflexivity|]. destruct e; cbn; apply IH. Qed.

Lemma tsok_app cur l1 l2 : tsok cur (l1 ++ l2) <-> tsok cur l1 /\ tsok (last_sample cur l1) l2.
Proof.
  revert cur. induction l1 as [|e l1 IH]; intros cur; [cbn; tauto|].
  destruct e; cbn; try apply IH. rewrite IH. tauto.
Qed.

(* events that neither sample the clock nor write a timestamp *)
Definition tneutral (e : ev) : Prop := match e with ESample _ | ETs _ _ => False | _ => True end.

Lemma tneutral_seg cur l : Forall tneutral l -> tsok cur l /\ last_sample cur l = cur.
Proof. induction 1 as [|e l He _ IH]; [split; reflexivity|]. destruct e; cbn in *; try contradiction; exact IH. Qed.

Lemma tn_ext w w' :
  ext tneutral w w' ->
  (tsok None (w_log w) -> tsok None (w_log w')) /\
  last_sample None (w_log w') = last_sample None (w_log w).
Proof.
  intros [seg [E F]]. rewrite E. destruct (tneutral_seg (last_sample None (w_log w)) seg F) as [T L].
  split; [intros H; apply tsok_app; auto|rewrite last_sample_app; exact L].
Qed.

Lemma samples_app l1 l2 : samples (l1 ++ l2) = samples l1 ++ samples l2.
Proof. apply flat_map_app. Qed.
Lemma stamps_app l1 l2 : stamps (l1 ++ l2) = stamps l1 ++ stamps l2.
Proof. apply flat_map_app. Qed.

Lemma SS_cons_le (a b : Z) l : (a <= b)%Z -> StronglySorted Z.le (b :: l) -> StronglySorted Z.le (a :: l).
Proof.
  intros H S. inversion S as [|? ? S1 F1]; subst. constructor; auto.
  eapply Forall_impl; [|exact F1]. intros; lia.
Qed.

Lemma stamps_sorted_from cur l :
  tsok (Some cur) l -> StronglySorted Z.le (cur :: samples l) -> StronglySorted Z.le (cur :: stamps l).
Proof.
  revert cur. induction l as [|e l IH]; intros cur T S; [exact S|].
  destruct e; cbn [tsok] in T; try (apply IH; assumption).
  - (* ETs *) destruct T as [Ec T]. inversion Ec; subst v. cbn [stamps flat_map app].
    pose proof (IH cur T S) as S'. constructor; [exact S'|].
    constructor; [lia|]. inversion S'; assumption.
  - (* ESample *) cbn [samples flat_map app] in S. fold (samples l) in S.
    inversion S as [|? ? S1 F1]; subst. inversion F1 as [|? ? Hle _]; subst.
    apply (SS_cons_le cur v); [exact Hle|]. apply IH; assumption.
Qed.

Lemma stamps_sorted l : tsok None l -> nowrap l -> StronglySorted Z.le (stamps l).
Proof.
  unfold nowrap. induction l as [|e l IH]; intros T S; [constructor|].
  destruct e; cbn [tsok] in T; try (apply IH; assumption).
  - destruct T as [Ec _]. discriminate.
  - cbn [samples flat_map app] in S. fold (samples l) in S.
    pose proof (stamps_sorted_from v l T S) as S'. inversion S'; assumption.
Qed.

Lemma tsok_split cur l1 k v l2 : tsok cur (l1 ++ ETs k v :: l2) -> last_sample cur l1 = Some v.
Proof. intros T. apply tsok_app in T. destruct T as [_ T]. cbn in T. apply T. Qed.

Lemma last_sample_in l v : last_sample None l = Some v -> In (ESample v) l.
Proof.
  assert (G : forall cur, last_sample cur l = Some v -> cur = Some v \/ In (ESample v) l).
  { induction l as [|e l IH]; intros cur H; [left; exact H|].
    destruct e; cbn [last_sample] in H;
      try (destruct (IH _ H) as [X|X]; [left; exact X|right; right; exact X]).
    destruct (IH _ H) as [X|X]; [right; left; congruence|right; right; exact X]. }
  intros H. destruct (G None H) as [X|X]; [discriminate|exact X].
Qed.

(* ------------------------------------------------------------------ neutral blocks *)
Lemma do_ser_tn d w o v : ext tneutral w (do_ser d w o v).
Proof.
  rewrite do_ser_eq. destruct (ser _ _ _ _ _ _); (eapply ext_logs; [reflexivity|]); repeat constructor.
Qed.

Lemma write_saved_tn d w n v : ext tneutral w (write_saved d w n v).
Proof.
  unfold write_saved. destruct (has_member _ _); [|apply ext_refl].
  destruct (pc_member_op d n) as [[al k size off| | | |]|];
    try (eapply ext_logs; [reflexivity|]; repeat constructor; fail).
  destruct (skip_index _ _ _); try (eapply ext_logs; [reflexivity|]; repeat constructor; fail).
  cbv zeta.
  match goal with |- ext _ _ (set_c (do_ser d ?w0 ?o ?v) _) =>
    eapply (ext_eq_log_r _ _ (do_ser d w0 o v)); [reflexivity|];
    eapply (ext_eq_log _ _ w0); [reflexivity|apply do_ser_tn] end.
Qed.

Lemma ser_parts_tn d ps w : ext tneutral w (ser_parts d w ps).
Proof.
  unfold ser_parts. revert w. induction ps as [|[o v] ps IH]; intros w; cbn [fold_left]; [apply ext_refl|].
  destruct (w_err w); [apply IH|]. eapply ext_trans; [apply do_ser_tn|apply IH].
Qed.

(* ------------------------------------------------------------------ invariants *)
(* cur_last_event_ts is the most recent sample (when there is a clock) *)
Definition fresh (d : dstm) (w : world) : Prop :=
  d_has_clock d = true -> last_sample None (w_log w) = Some (c_last_ts (w_c w)).
(* anywhere *)
Definition TI (d : dstm) (w : world) : Prop :=
  tsok None (w_log w) /\ (c_use_ts (w_c w) = true -> fresh d w).
(* inside a tracing call, between the entry sample and the commit *)
Definition FI (d : dstm) (w : world) : Prop :=
  tsok None (w_log w) /\ fresh d w /\ c_use_ts (w_c w) = false.

Lemma open_do_time d ts w :
  tsok None (w_log w) ->
  (d_has_clock d && has_member (d_pc d) "timestamp_begin" = true -> last_sample None (w_log w) = Some ts) ->
  tsok None (w_log (open_do d ts w)) /\
  last_sample None (w_log (open_do d ts w)) = last_sample None (w_log w).
Proof.
  intros T L. unfold open_do.
  assert (X2 : ext tneutral w (open_hdr d (open_reset w))).
  { eapply (ext_eq_log _ _ (open_reset w)); [reflexivity|]. unfold open_hdr.
    destruct (snd (ph_build d)); [apply do_ser_tn|apply ext_refl]. }
  destruct (tn_ext _ _ X2) as [T2 L2]. specialize (T2 T). set (w2 := open_hdr d (open_reset w)) in *.
  assert (X3 : tsok None (w_log (open_mark d ts w2)) /\
               last_sample None (w_log (open_mark d ts w2)) = last_sample None (w_log w)).
  { unfold open_mark. destruct (d_has_clock d && has_member (d_pc d) "timestamp_begin"); [|auto].
    up. split.
    - apply tsok_app. split; [exact T2|]. cbn. rewrite L2. auto.
    - rewrite last_sample_app. cbn. exact L2. }
  destruct X3 as [T3 L3]. set (w3 := open_mark d ts w2) in *.
  match goal with |- context [open_pc d ts ?p ?s w3] =>
    pose proof (do_ser_tn d w3 (pc_op d) (VArr (pc_vals (s_mems (d_pc d)) p s ts (w_pcargs w3)))) as X4;
    fold (open_pc d ts p s w3) in X4; set (w4 := open_pc d ts p s w3) in * end.
  destruct (tn_ext _ _ X4) as [T4 L4]. unfold open_fin. up. split; [auto|congruence].
Qed.

Lemma close_do_time d ts w :
  tsok None (w_log w) ->
  (d_has_clock d && has_member (d_pc d) "timestamp_end" = true -> last_sample None (w_log w) = Some ts) ->
  tsok None (w_log (close_do d ts w)) /\
  last_sample None (w_log (close_do d ts w)) = last_sample None (w_log w).
Proof.
  intros T L. unfold close_do.
  assert (X2 : tsok None (w_log (close_mark d ts (close_begin w))) /\
               last_sample None (w_log (close_mark d ts (close_begin w))) = last_sample None (w_log w)).
  { unfold close_mark. destruct (d_has_clock d && has_member (d_pc d) "timestamp_end"); [|auto].
    unfold close_begin. up. split.
    - apply tsok_app. split; [exact T|]. cbn. auto.
    - rewrite last_sample_app. reflexivity. }
  destruct X2 as [T2 L2]. set (w2 := close_mark d ts (close_begin w)) in *.
  assert (X3 : ext tneutral w2 (close_ws d ts w2)).
  { unfold close_ws. cbv zeta.
    eapply ext_trans; [eapply ext_trans|]; apply write_saved_tn. }
  destruct (tn_ext _ _ X3) as [T3 L3]. unfold close_fin. up. split; [auto|congruence].
Qed.

(* the preamble hands over a timestamp that is the most recent sample *)
Lemma preamble_time d w f :
  TI d w ->
  let w1 := snd (preamble_ts d w f) in
  let ts := fst (preamble_ts d w f) in
  tsok None (w_log w1) /\
  (d_has_clock d && f = true -> last_sample None (w_log w1) = Some ts) /\
  c_use_ts (w_c w1) = c_use_ts (w_c w) /\ c_last_ts (w_c w1) = c_last_ts (w_c w) /\
  (c_use_ts (w_c w) = true -> w1 = w).
Proof.
  intros [T F]. destruct (preamble_cases d w f) as [[E C]|[[E [U C]]|[E [U C]]]]; rewrite E; cbv zeta; up.
  - repeat split; auto. rewrite C. discriminate.
  - repeat split; auto. intros _. apply F; auto. apply andb_true_iff in C. apply C.
  - rewrite clock_cb_eq. up. togs. repeat split; auto.
    + apply tsok_app. split; [exact T|]. cbn. exact I.
    + intros _. rewrite last_sample_app. reflexivity.
    + congruence.
Qed.

Lemma open_fn_time d w : TI d w -> TI d (open_fn d w).
Proof.
  intros H. rewrite open_fn_eq.
  destruct (preamble_time d w (has_member (d_pc d) "timestamp_begin") H) as [T1 [L1 [U1 [S1 W1]]]].
  set (w1 := snd (preamble_ts d w _)) in *. set (ts := fst (preamble_ts d w _)) in *.
  destruct (open_core_cases d ts w1) as [E|[_ E]]; rewrite E.
  - split; [exact T1|]. intros U. rewrite U1 in U. rewrite (W1 U). apply H. rewrite <- (W1 U). congruence.
  - destruct (open_do_time d ts w1 T1 L1) as [T2 L2]. split; [exact T2|].
    destruct (open_do_post d ts w1) as [P _]. unfold open_post in P.
    intros U Hc. rewrite L2.
    assert (U' : c_use_ts (w_c w) = true) by (intuition congruence).
    rewrite (W1 U'). destruct H as [_ F]. rewrite (F U' Hc). f_equal.
    rewrite <- (W1 U'). intuition congruence.
Qed.

Lemma close_fn_time d w : TI d w -> TI d (close_fn d w).
Proof.
  intros H. rewrite close_fn_eq.
  destruct (preamble_time d w (has_member (d_pc d) "timestamp_end") H) as [T1 [L1 [U1 [S1 W1]]]].
  set (w1 := snd (preamble_ts d w _)) in *. set (ts := fst (preamble_ts d w _)) in *.
  destruct (close_core_cases d ts w1) as [E|[_ E]]; rewrite E.
  - split; [exact T1|]. intros U. rewrite U1 in U. rewrite (W1 U). apply H. rewrite <- (W1 U). congruence.
  - destruct (close_do_time d ts w1 T1 L1) as [T2 L2]. split; [exact T2|].
    destruct (close_do_post d ts w1) as [P _]. unfold close_post in P.
    intros U Hc. rewrite L2.
    assert (U' : c_use_ts (w_c w) = true) by (intuition congruence).
    rewrite (W1 U'). destruct H as [_ F]. rewrite (F U' Hc). f_equal.
    rewrite <- (W1 U'). intuition congruence.
Qed.

Lemma TI_neutral d w w' :
  TI d w -> ext tneutral w w' -> c_use_ts (w_c w') = c_use_ts (w_c w) ->
  c_last_ts (w_c w') = c_last_ts (w_c w) -> TI d w'.
Proof.
  intros [T F] X U L. destruct (tn_ext _ _ X) as [T' L']. split; [auto|].
  intros U' Hc. rewrite L', L. apply F; congruence.
Qed.

Lemma cb_enter_time d k w : TI d w -> TI d (cb_enter k w).
Proof.
  intros H. eapply TI_neutral; [exact H| | |]; unfold cb_enter; up; togs; try reflexivity.
  eapply ext_logs; [reflexivity|]. repeat constructor.
Qed.

Lemma open_cb_time d w : TI d w -> TI d (open_cb d w).
Proof. intros H. rewrite open_cb_eq. apply open_fn_time, cb_enter_time, H. Qed.

Lemma close_cb_time d w : TI d w -> TI d (close_cb d w).
Proof.
  intros H. rewrite close_cb_eq.
  assert (H1 : TI d (close_fn d (cb_enter 2 w))) by apply close_fn_time, cb_enter_time, H.
  set (w1 := close_fn d (cb_enter 2 w)) in *.
  unfold close_hand. destruct (_ && _); [|exact H1].
  assert (H2 : TI d (close_give d (hd_ans w) w1)).
  { unfold close_give. cbv zeta. eapply TI_neutral; [exact H1| | |].
    - destruct (a_newbuf _); (eapply ext_logs; [reflexivity|]); repeat constructor.
    - destruct (a_newbuf _); reflexivity.
    - destruct (a_newbuf _); reflexivity. }
  destruct (a_eager _); [apply open_fn_time|]; exact H2.
Qed.

Lemma with_use_ts_FI d f w :
  (forall w, TI d w -> TI d (f w)) -> (forall w, c_use_ts (w_c (f w)) = c_use_ts (w_c w)) ->
  FI d w -> FI d (with_use_ts f w).
Proof.
  intros Hf Hu [T [F U]]. unfold with_use_ts.
  assert (H0 : TI d (set_c w (set_use_ts (w_c w) true))) by (split; [exact T|intros _; exact F]).
  apply Hf in H0. destruct H0 as [T1 F1].
  split; [exact T1|]. split; [|reflexivity].
  apply F1. rewrite Hu. reflexivity.
Qed.

Lemma FI_neutral d w w' :
  FI d w -> ext tneutral w w' -> c_use_ts (w_c w') = c_use_ts (w_c w) ->
  c_last_ts (w_c w') = c_last_ts (w_c w) -> FI d w'.
Proof.
  intros [T [F U]] X U' L. destruct (tn_ext _ _ X) as [T' L']. split; [auto|]. split; [|congruence].
  intros Hc. rewrite L', L. apply F, Hc.
Qed.

Lemma reserve_FI d w n : FI d w -> FI d (snd (reserve d w n)).
Proof.
  apply reserve_inv.
  - intros w' H. rewrite full_cb_eq. eapply FI_neutral; [exact H| | |]; up; togs; try reflexivity.
    eapply ext_logs; [reflexivity|]. repeat constructor.
  - intros w' H. apply with_use_ts_FI; [apply open_cb_time|apply open_cb_use|exact H].
  - intros w' H. apply with_use_ts_FI; [apply close_cb_time|apply close_cb_use|exact H].
  - intros w' H. rewrite no_space_eq. eapply FI_neutral; [exact H| | |]; try reflexivity.
    eapply ext_logs; [reflexivity|]. repeat constructor.
Qed.

(* global invariant *)
Definition GI (w : world) : Prop := tsok None (w_log w) /\ c_use_ts (w_c w) = false.

Lemma GI_TI d w : GI w -> TI d w.
Proof. intros [T U]. split; [exact T|]. rewrite U. discriminate. Qed.

Lemma trace_entry_FI d w : GI w -> FI d (trace_entry d w).
Proof.
  intros [T U]. unfold trace_entry. destruct (d_has_clock d) eqn:Hc.
  - rewrite clock_cb_eq. up. unfold FI, fresh. up. togs. split; [|split; [|exact U]].
    + apply tsok_app. split; [exact T|]. cbn. exact I.
    + intros _. rewrite last_sample_app. reflexivity.
  - split; [exact T|]. split; [|exact U]. intros X. congruence.
Qed.

Lemma trace_fn_GI d e args w : GI w -> GI (trace_fn d e args w).
Proof.
  intros H. split; [|apply trace_fn_use, H].
  rewrite trace_fn_eq. pose proof (trace_entry_FI d w H) as H1.
  destruct (negb _); [apply H1|].
  unfold trace_body. cbv zeta. destruct (size_parts _ _).
  2:{ up. apply tsok_app. split; [apply H1|exact I]. }
  match goal with |- context [reserve d ?w0 ?n] =>
    assert (H2 : FI d (snd (reserve d w0 n))) by (apply reserve_FI; exact H1);
    set (r := reserve d w0 n) in * end.
  destruct (negb (fst r)); [apply H2|]. destruct (w_err (snd r)); [apply H2|].
  match goal with |- context [trace_recheck d e args ?a ?x] =>
    destruct (trace_recheck_cases d e args a x) as [Crc|[Crc|(_ & a2 & _ & _ & Crc)]]; rewrite Crc; cbn [fst snd negb] end;
    [|up; apply tsok_app; split; [apply H2|exact I]|up; apply tsok_app; split; [apply H2|exact I]].
  unfold trace_ser. cbv zeta.
  assert (H3 : FI d (trace_mark d (snd r))).
  { unfold trace_mark. destruct (d_has_clock d && has_member_o (d_eh d) "timestamp") eqn:C; [|exact H2].
    destruct H2 as [T2 [F2 U2]]. apply andb_true_iff in C. destruct C as [C _].
    unfold FI, fresh. up. split; [|split; [|exact U2]].
    - apply tsok_app. split; [exact T2|]. cbn. split; [apply F2, C|exact I].
    - intros _. rewrite last_sample_app. cbn. apply F2, C. }
  match goal with |- context [ser_parts d ?w1 ?ps] =>
    assert (H4 : FI d (ser_parts d w1 ps)); [|set (w4 := ser_parts d w1 ps) in *] end.
  { destruct (ser_parts_keep d (rec_parts d e (c_last_ts (w_c (trace_mark d (snd r)))) args)
                             (trace_mark d (snd r))) as [K _]. unfold ser_keep in K.
    eapply FI_neutral; [exact H3|apply ser_parts_tn| |]; intuition. }
  destruct (w_err w4); [apply H4|].
  unfold trace_commit. cbv zeta.
  assert (H5 : TI d w4) by (apply GI_TI; split; apply H4).
  destruct (_ =? _); [apply close_cb_time in H5|]; apply H5.
Qed.

Lemma step_GI d w k : GI w -> GI (step d w k).
Proof.
  intros H. unfold step. destruct (w_err w); [exact H|].
  match goal with |- GI (if w_err ?W then _ else _) =>
    assert (HW : GI W); [|destruct (w_err W); [exact HW|]] end.
  2:{ destruct HW as [T U]. split; [|exact U]. up. apply tsok_app. split; [exact T|exact I]. }
  destruct k as [ei args| | |b|].
  - destruct (nth_error (d_erts d) ei); [apply trace_fn_GI, H|].
    destruct H as [T U]. split; [|exact U]. up. apply tsok_app. split; [exact T|exact I].
  - split; [apply (open_cb_time d w (GI_TI d w H))|rewrite open_cb_use; apply H].
  - split; [apply (close_cb_time d w (GI_TI d w H))|rewrite close_cb_use; apply H].
  - exact H.
  - destruct (_ && _); [|exact H].
    split; [apply (close_cb_time d w (GI_TI d w H))|rewrite close_cb_use; apply H].
Qed.

Theorem run_tsok d buf pcargs oracle h : tsok None (w_log (run d buf pcargs oracle h)).
Proof.
  unfold run. set (w0 := mk_w _ _ _ _ _ _).
  assert (H0 : GI w0) by (split; [exact I|reflexivity]).
  clearbody w0. revert w0 H0. induction h as [|k h IH]; intros w0 H0; cbn [fold_left]; [apply H0|].
  apply IH, step_GI, H0.
Qed.

(* every timestamp written is the most recent clock sample, hence a previously returned value *)
Theorem ts_is_latest_sample d buf pcargs oracle h l1 k v l2 :
  w_log (run d buf pcargs oracle h) = l1 ++ ETs k v :: l2 ->
  last_sample None l1 = Some v /\ In (ESample v) l1.
Proof.
  intros E. pose proof (run_tsok d buf pcargs oracle h) as T. rewrite E in T.
  apply tsok_split in T. split; [exact T|apply last_sample_in, T].
Qed.

Theorem ts_monotone d buf pcargs oracle h :
  nowrap (w_log (run d buf pcargs oracle h)) ->
  StronglySorted Z.le (stamps (w_log (run d buf pcargs oracle h))).
Proof. apply stamps_sorted, run_tsok. Qed.

(* pairwise form: an earlier timestamp is at most any later one (packet beginning <= its records
   <= its end <= beginning of the next packet, in the order they are written) *)
Theorem ts_pairwise d buf pcargs oracle h l1 k1 v1 l2 k2 v2 :
  nowrap (w_log (run d buf pcargs oracle h)) ->
  w_log (run d buf pcargs oracle h) = l1 ++ ETs k1 v1 :: l2 -> In (ETs k2 v2) l2 -> (v1 <= v2)%Z.
Proof.
  intros N E Hin. pose proof (ts_monotone d buf pcargs oracle h N) as S. rewrite E in S.
  rewrite stamps_app in S. cbn [stamps flat_map app] in S. fold (stamps l2) in S.
  assert (S2 : StronglySorted Z.le (v1 :: stamps l2)).
  { clear -S. induction (stamps l1) as [|a l IH]; [exact S|]. inversion S; auto. }
  inversion S2 as [|? ? _ F]; subst. rewrite Forall_forall in F. apply F.
  unfold stamps. apply in_flat_map. exists (ETs k2 v2). split; [exact Hin|left; reflexivity].
Qed.

(* ------------------------------------------------------------------ record timestamp = entry sample *)
Lemma open_fn_last d w : c_last_ts (w_c (open_fn d w)) = c_last_ts (w_c w).
Proof.
  rewrite open_fn_eq.
  destruct (preamble_frame d w (has_member (d_pc d) "timestamp_begin")) as [_ [L _]].
  set (w1 := snd (preamble_ts d w _)) in *. set (ts := fst (preamble_ts d w _)).
  destruct (open_core_cases d ts w1) as [E|[_ E]]; rewrite E; [exact L|].
  destruct (open_do_post d ts w1) as [P _]. unfold open_post in P. intuition congruence.
Qed.

Lemma close_fn_last d w : c_last_ts (w_c (close_fn d w)) = c_last_ts (w_c w).
Proof.
  rewrite close_fn_eq.
  destruct (preamble_frame d w (has_member (d_pc d) "timestamp_end")) as [_ [L _]].
  set (w1 := snd (preamble_ts d w _)) in *. set (ts := fst (preamble_ts d w _)).
  destruct (close_core_cases d ts w1) as [E|[_ E]]; rewrite E; [exact L|].
  destruct (close_do_post d ts w1) as [P _]. unfold close_post in P. intuition congruence.
Qed.

Lemma open_cb_last d w : c_last_ts (w_c (open_cb d w)) = c_last_ts (w_c w).
Proof. rewrite open_cb_eq, open_fn_last. unfold cb_enter; up; togs; reflexivity. Qed.

Lemma close_cb_last d w : c_last_ts (w_c (close_cb d w)) = c_last_ts (w_c w).
Proof.
  rewrite close_cb_eq.
  assert (H : c_last_ts (w_c (close_fn d (cb_enter 2 w))) = c_last_ts (w_c w)).
  { rewrite close_fn_last. unfold cb_enter; up; togs; reflexivity. }
  unfold close_hand. destruct (_ && _); [|exact H].
  destruct (close_give_pk d (hd_ans w) (close_fn d (cb_enter 2 w))) as [_ [_ [_ [_ [L _]]]]].
  destruct (a_eager _); [rewrite open_fn_last|]; congruence.
Qed.

Lemma reserve_last d w n : c_last_ts (w_c (snd (reserve d w n))) = c_last_ts (w_c w).
Proof.
  apply (reserve_inv d (fun w' => c_last_ts (w_c w') = c_last_ts (w_c w))); try reflexivity; intros w' H.
  - rewrite full_cb_eq. up. togs. exact H.
  - unfold with_use_ts. up. rewrite open_cb_last. exact H.
  - unfold with_use_ts. up. rewrite close_cb_last. exact H.
  - exact H.
Qed.

Definition rec_ts_is (t : Z) (e : ev) : Prop := match e with ETs 2 v => v = t | _ => True end.
Lemma evok_rec_ts t e : evok true e -> rec_ts_is t e.
Proof. destruct e as [| | |k v| | | | |]; cbn; auto. intros H. do 3 (destruct k as [|k]; auto). congruence. Qed.
Lemma stok_rec_ts t e : stok e -> rec_ts_is t e.
Proof. destruct e as [| | |k v| | | | |]; cbn; auto; try contradiction. intros H. do 3 (destruct k as [|k]; auto). congruence. Qed.

Lemma trace_body_rec_ts d e args w :
  ext (rec_ts_is (c_last_ts (w_c w))) w (trace_body d e args w).
Proof.
  unfold trace_body. cbv zeta. destruct (size_parts _ _).
  2:{ eapply ext_logs; [reflexivity|]. repeat constructor. }
  match goal with |- context [reserve d ?w0 ?n] =>
    destruct (reserve_blk d true w0 n eq_refl) as [A E];
    pose proof (reserve_last d w0 n) as L;
    assert (E' : ext (rec_ts_is (c_last_ts (w_c w))) w (snd (reserve d w0 n)))
      by (eapply (ext_eq_log _ _ w0); [reflexivity|]; eapply ext_mono; [|exact E];
          intros; apply evok_rec_ts; auto);
    clear E; set (r := reserve d w0 n) in * end.
  up. destruct (negb (fst r)).
  { eapply ext_eq_log_r; [|exact E']. reflexivity. }
  destruct (w_err (snd r)); [exact E'|].
  eapply ext_trans; [exact E'|].
  match goal with |- context [trace_recheck d e args ?a ?x] =>
    destruct (trace_recheck_cases d e args a x) as [Crc|[Crc|(_ & a2 & _ & _ & Crc)]]; rewrite Crc; cbn [fst snd negb] end;
    [|eapply ext_logs; [reflexivity|]; repeat constructor|eapply ext_logs; [reflexivity|]; repeat constructor].
  unfold trace_ser. cbv zeta.
  assert (B1 : blk (rec_ts_is (c_last_ts (w_c w))) true (snd r) (trace_mark d (snd r))).
  { unfold trace_mark. apply opt_log_blk; [exact A|]. cbn. exact L. }
  eapply ext_trans; [apply B1|].
  match goal with |- context [ser_parts d ?w1 ?ps] =>
    destruct (ser_parts_blk d ps w1 (proj1 B1)) as [A4 E4]; set (w4 := ser_parts d w1 ps) in * end.
  assert (E4' : ext (rec_ts_is (c_last_ts (w_c w))) (trace_mark d (snd r)) w4).
  { eapply ext_mono; [|exact E4]. intros; apply stok_rec_ts; auto. }
  destruct (w_err w4); [exact E4'|]. eapply ext_trans; [exact E4'|].
  unfold trace_commit. cbv zeta.
  match goal with |- ext _ _ (set_c ?W _) => apply (ext_eq_log_r _ _ W); [reflexivity|] end.
  destruct (_ =? _); [|apply ext_refl].
  eapply ext_mono; [|apply (close_cb_blk d true w4 A4)]. intros; apply evok_rec_ts; auto.
Qed.

(* each record's timestamp is the sample taken at the entry of its tracing call *)
Theorem trace_fn_record_ts d e args w :
  d_has_clock d = true ->
  exists rest,
    w_log (trace_fn d e args w) =
      w_log w ++ [ECb 3 (c_in_ts (w_c w)) (c_open (w_c w)); ESample (clk_next d w)] ++ rest /\
    Forall (rec_ts_is (clk_next d w)) rest.
Proof.
  intros Hc. rewrite trace_fn_eq.
  assert (L : w_log (trace_entry d w) =
              w_log w ++ [ECb 3 (c_in_ts (w_c w)) (c_open (w_c w)); ESample (clk_next d w)]).
  { rewrite trace_entry_log. unfold entry_seg. rewrite Hc. reflexivity. }
  assert (T : c_last_ts (w_c (trace_entry d w)) = clk_next d w).
  { unfold trace_entry. rewrite Hc. rewrite clock_cb_eq. reflexivity. }
  destruct (negb _).
  - exists []. rewrite app_nil_r. split; [exact L|constructor].
  - destruct (trace_body_rec_ts d e args (trace_entry d w)) as [seg [E F]].
    exists seg. rewrite T in F. split; [|exact F]. rewrite E, L, <- app_assoc. reflexivity.
Qed.
