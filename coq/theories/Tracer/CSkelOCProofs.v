(* The regenerated packet opening / closing functions (Gen/CSkelFuns.v fn_open, fn_close), run by
   Tracer/CSkelOC.v, ARE Model.open_fn / Model.close_fn - for every data stream type and world. *)
From Coq Require Import List Arith Bool ZArith String.
Import ListNotations.
From BT.Base Require Import Bits.
From BT.Layout Require Import Model.
From BT.Tracer Require Import Model Lemmas Spec FlagProofs ProtocolProofs CSkel CSkelOC.
From BT.Gen Require Import CSkelFuns.
Local Open Scope string_scope.

Local Opaque preamble_ts do_ser write_saved has_member ph_build pc_op pc_vals.

Lemma do_ser_psize d w o v : c_psize (w_c (do_ser d w o v)) = c_psize (w_c w).
Proof. destruct (do_ser_keep d w o v) as [K _]. unfold ser_keep in K. tauto. Qed.
Lemma do_ser_seq d w o v : c_seq (w_c (do_ser d w o v)) = c_seq (w_c w).
Proof. destruct (do_ser_keep d w o v) as [K _]. unfold ser_keep in K. tauto. Qed.
Lemma do_ser_pcargs d w o v : w_pcargs (do_ser d w o v) = w_pcargs w.
Proof. destruct (do_ser_keep d w o v) as [_ K]. unfold env_keep in K. tauto. Qed.

Theorem skel_open d w : run_oc d fn_open w = Some (open_fn d w).
Proof.
  unfold open_fn.
  destruct (preamble_ts d w (has_member (d_pc d) "timestamp_begin")) as [ts w0] eqn:Hp.
  cbn. rewrite Hp. cbn.
  destruct (c_enabled (w_c w0)) eqn:He, (c_in_ts (w_c w0)) eqn:Hi; cbn; try reflexivity.
  all: destruct (c_open (w_c w0)) eqn:Ho; cbn; try reflexivity.
  all: destruct (snd (ph_build d)) as [o|] eqn:Hph; cbn.
  all: destruct (d_has_clock d && has_member (d_pc d) "timestamp_begin") eqn:Hts; cbn.
  all: try reflexivity.
  all: rewrite ?do_ser_psize, ?do_ser_seq, ?do_ser_pcargs; cbn; rewrite ?do_ser_psize, ?do_ser_seq, ?do_ser_pcargs; cbn; try reflexivity.
  all: unfold set_c, set_in_ts, upd_at; cbn; rewrite ?do_ser_psize, ?do_ser_seq, ?do_ser_pcargs; cbn; rewrite ?He, ?Hi, ?Ho; reflexivity.
Qed.

Theorem skel_close d w : run_oc d fn_close w = Some (close_fn d w).
Proof.
  unfold close_fn.
  destruct (preamble_ts d w (has_member (d_pc d) "timestamp_end")) as [ts w0] eqn:Hp.
  cbn. rewrite Hp. cbn.
  destruct (c_enabled (w_c w0)) eqn:He, (c_in_ts (w_c w0)) eqn:Hi; cbn; try reflexivity.
  all: destruct (c_open (w_c w0)) eqn:Ho; cbn; try reflexivity.
  all: destruct (d_has_clock d && has_member (d_pc d) "timestamp_end") eqn:Hts; cbn.
  all: destruct (has_member (d_pc d) "packet_seq_num") eqn:Hsq; cbn.
  all: unfold set_c, set_in_ts, upd_at; cbn; rewrite ?He, ?Hi, ?Ho; try reflexivity.
Qed.
