(* The trivial accessors of barectf.c.j2, regenerated (Gen/CSkelFuns.v accessors: which context field each one
   returns, directly or through one delegation), read on the model context: each returns the field the
   documentation says it returns; <prefix>enable_tracing only writes is_tracing_enabled (Model.step CEnable). *)
From Coq Require Import List Arith Bool ZArith String.
Import ListNotations.
From BT.Base Require Import Bits.
From BT.Layout Require Import Model.
From BT.Tracer Require Import Model CSkel.
From BT.Gen Require Import CSkelFuns.
Local Open Scope string_scope.

Definition b2n (b : bool) : nat := if b then 1 else 0.

Definition field_val (c : ctx) (f : string) : option nat :=
  if String.eqb f "packet_size" then Some (c_psize c)
  else if String.eqb f "events_discarded" then Some (c_disc c)
  else if String.eqb f "sequence_number" then Some (c_seq c)
  else if String.eqb f "packet_is_open" then Some (b2n (c_open c))
  else if String.eqb f "in_tracing_section" then Some (b2n (c_in_ts c))
  else if String.eqb f "is_tracing_enabled" then Some (b2n (c_enabled c))
  else None.     (* buf: an address, not a number of the model *)

Fixpoint acc_val (fuel : nat) (c : ctx) (a : accessor) : option nat :=
  match a with
  | AField f => field_val c f
  | ABytesOf f => match field_val c f with Some n => Some (n / 8) | None => None end
  | AAddrOf _ => None
  | ASame g => match fuel with
               | 0 => None
               | S fuel => match lookup g accessors with Some a' => acc_val fuel c a' | None => None end
               end
  end.

Definition acc (c : ctx) (name : string) : option nat :=
  match lookup name accessors with Some a => acc_val 2 c a | None => None end.

Theorem accessors_truth c :
  acc c "packet_size" = Some (c_psize c) /\
  acc c "packet_buf_size" = Some (c_psize c / 8) /\
  acc c "packet_events_discarded" = Some (c_disc c) /\
  acc c "discarded_event_records_count" = Some (c_disc c) /\
  acc c "packet_sequence_number" = Some (c_seq c) /\
  acc c "packet_is_open" = Some (b2n (c_open c)) /\
  acc c "is_in_tracing_section" = Some (b2n (c_in_ts c)) /\
  acc c "is_tracing_enabled" = Some (b2n (c_enabled c)).
Proof. repeat split; reflexivity. Qed.

(* the address accessors: packet_buf returns the field `buf`, packet_buf_addr delegates to it, the flag
   pointer accessor returns the address of the very field is_in_tracing_section reads *)
Theorem address_accessors :
  lookup "packet_buf" accessors = Some (AField "buf") /\
  lookup "packet_buf_addr" accessors = Some (ASame "packet_buf") /\
  lookup "is_in_tracing_section_ptr" accessors = Some (AAddrOf "in_tracing_section") /\
  lookup "is_in_tracing_section" accessors = Some (AField "in_tracing_section").
Proof. repeat split; reflexivity. Qed.

Theorem enable_tracing_field : enable_tracing_sets = "is_tracing_enabled".
Proof. reflexivity. Qed.
