(* Whole-history statement for C01 / C03 / C04: what the packet-level CTF reader finds in the
   packets handed to the back end, for every history of calls and every platform behaviour of the
   tracer model.  Definitions and the invariant; the proofs of preservation are in
   Tracer/HistoryOpen.v, HistoryClose.v, HistoryTrace.v. *)
From Coq Require Import List Arith Bool ZArith String Lia PeanoNat.
Import ListNotations.
From BT.Base Require Import Bits BitsProofs BytesProofs.
From BT.Layout Require Import Model BuildProofs RoundTrip RecordProofs SizeProofs FillProofs FillBuild.
From BT.Layout Require Import PosProofs.
From BT.Tracer Require Import Model Decode RecordDecode Lemmas Spec BoundsProofs Chain Holes.

(* observable part of a log for this file: packets handed over, discards, packet beginning / end
   timestamps written (ghost events ETs 0 / ETs 1 of the model, the subject of C05) *)
Definition is_obs (e : ev) : bool :=
  match e with EPacket _ _ | EDisc => true | ETs k _ => k <? 2 | _ => false end.
Definition obs (l : list ev) : list ev := filter is_obs l.
Definition pkts (o : list ev) : list (nat * list Z) :=
  flat_map (fun e => match e with EPacket n b => [(n, b)] | _ => [] end) o.
(* value of the discarded event records counter at each packet handed over *)
Fixpoint snaps (n : nat) (o : list ev) : list nat :=
  match o with
  | [] => []
  | EDisc :: o => snaps (S n) o
  | EPacket _ _ :: o => n :: snaps n o
  | _ :: o => snaps n o
  end.
Definition ndo (o : list ev) : nat := List.length (filter (fun e => match e with EDisc => true | _ => false end) o).

(* values of the timestamps of one kind written so far (0: packet beginning, 1: packet end) *)
Definition stamps_of (kind : nat) (o : list ev) : list Z :=
  flat_map (fun e => match e with ETs k v => if k =? kind then [v] else [] | _ => [] end) o.
Lemma stamps_of_app k o o' : stamps_of k (o ++ o') = stamps_of k o ++ stamps_of k o'.
Proof. apply flat_map_app. Qed.

Lemma stamps_of_obs k l : k < 2 -> stamps_of k (filter is_obs l) = stamps_of k l.
Proof.
  intros Hk. induction l as [|e l IH]; [reflexivity|].
  destruct e as [c f o|f|f|k' v|v| |n b|c|c]; cbn [filter is_obs]; try exact IH;
    try (change (stamps_of k (?e :: ?l)) with (stamps_of k [e] ++ stamps_of k l); cbn; exact IH).
  destruct (Nat.ltb_spec k' 2) as [A|A].
  - unfold stamps_of in *. cbn [flat_map]. rewrite IH. reflexivity.
  - unfold stamps_of in *. cbn [flat_map]. destruct (Nat.eqb_spec k' k); [lia|]. cbn. exact IH.
Qed.

Lemma obs_app l l' : obs (l ++ l') = obs l ++ obs l'.
Proof. apply filter_app. Qed.
Lemma pkts_app o o' : pkts (o ++ o') = pkts o ++ pkts o'.
Proof. apply flat_map_app. Qed.
Lemma ndo_app o o' : ndo (o ++ o') = ndo o + ndo o'.
Proof. unfold ndo. rewrite filter_app, app_length. reflexivity. Qed.
Lemma snaps_app o : forall n o', snaps n (o ++ o') = snaps n o ++ snaps (n + ndo o) o'.
Proof.
  induction o as [|e o IH]; intros n o'; cbn [app snaps].
  - unfold ndo. cbn. rewrite Nat.add_0_r. reflexivity.
  - destruct e; cbn [snaps]; rewrite ?IH; unfold ndo; cbn [filter List.length]; fold (ndo o);
      rewrite ?Nat.add_succ_r; try reflexivity.
Qed.
Lemma ndisc_obs l : ndisc l = ndo (obs l).
Proof.
  unfold ndisc, ndo, obs. induction l as [|e l IH]; [reflexivity|].
  destruct e as [k f o|f|f|k v|v| |n b|c|c]; cbn [filter is_obs]; try exact IH.
  - destruct (k <? 2); cbn [filter]; exact IH.
  - cbn [filter List.length]. rewrite IH. reflexivity.
Qed.

Lemma pkts_ts o k v : pkts (o ++ [ETs k v]) = pkts o.
Proof. rewrite pkts_app. cbn. apply app_nil_r. Qed.
Lemma snaps_ts o n k v : snaps n (o ++ [ETs k v]) = snaps n o.
Proof. rewrite snaps_app. cbn. apply app_nil_r. Qed.
Lemma ndo_ts o k v : ndo (o ++ [ETs k v]) = ndo o.
Proof. rewrite ndo_app. cbn. apply Nat.add_0_r. Qed.

(* ghost description of one closed packet *)
Record pk := mk_pk { k_psize : nat; k_seq : nat; k_tsb : Z; k_tse : Z; k_content : nat; k_disc : nat;
                     k_recs : list rcd }.

Section Hist.
  Variable d : dstm.
  Variable user : list val.           (* arguments of the packet opening function *)
  Variable cs_size : nat.             (* size of the content_size member *)

  Definition t := tstream_of_dst d.
  Definition pcms := s_mems (d_pc d).

  Definition fvk (k : pk) (n : string) : Z :=
    if String.eqb n "timestamp_end" then k_tse k
    else if String.eqb n "content_size" then Z.of_nat (k_content k)
    else if String.eqb n "events_discarded" then Z.of_nat (k_disc k) else 0%Z.
  Definition pc_open_vals (psize seq : nat) (tsb : Z) : list val := pc_vals pcms psize seq tsb user.
  (* what the reader must find in the packet context: the opening-time values, with the late
     members replaced by their closing-time values *)
  Definition pc_final (k : pk) : list val :=
    subst pc_skips (fvk k) pcms (pc_open_vals (k_psize k) (k_seq k) (k_tsb k)).
  Definition spec_packet (k : pk) : list dval * list dval * list rcd :=
    (canon_o (d_ph d) (d_ph_vals d), canon_members pcms (pc_final k), k_recs k).
  Definition pkt_ok (p : nat * list Z) (k : pk) : Prop :=
    fst p = k_psize k /\ 8 * List.length (snd p) = k_psize k /\
    dec_packet t (stream_of_bytes (d_bo d) (snd p)) (k_psize k) = Some (spec_packet k).

  Definition seqn (n : nat) : nat := if has_member (d_pc d) "packet_seq_num" then n else 0.

  (* values of the event record header members *)
  Definition hdr_vals (e : ertm) (ts : Z) : list val :=
    match d_eh d with Some s => eh_vals (s_mems s) (e_id e) ts | None => [] end.
  (* the event record a tracing call must leave in the stream *)
  Definition rec_spec (e : ertm) (ts : Z) (cv sv pv : list val) : rcd :=
    (Z.of_nat (e_id e),
     [canon_o (d_eh d) (hdr_vals e ts); canon_o (d_cc d) cv; canon_o (e_sc e) sv; canon_o (e_p e) pv]).

  (* static well-formedness of the data stream type *)
  Record wf_d : Prop := {
    wf_ph : wf_osft (d_ph d) = true;
    wf_pc : wf_sft (d_pc d) = true;
    wf_rc : wf_rec d = true;
    wf_ids : NoDup (map e_id (d_erts d));
    wf_names : NoDup (map fst pcms);
    wf_late : late_int pcms = true;
    wf_cs : exists al, In ("content_size"%string, FInt false cs_size al) pcms;
    wf_phv : ok_opt (d_ph d) (d_ph_vals d);
    wf_pcv : forall fv psize seq ts, members_ok_skip pc_skips fv [] pcms (pc_vals pcms psize seq ts user);
    wf_ehv : forall e ts, In e (d_erts d) -> ok_opt (d_eh d) (hdr_vals e ts);
    (* the reader finds the event record type ID in the header (or there is a single type, ID 0) *)
    wf_hid : forall e ts, In e (d_erts d) -> header_id (d_eh d) (hdr_vals e ts) = Z.of_nat (e_id e);
    (* every event record occupies at least one bit (S13 in DESIGN.md) *)
    wf_pos : forallb (fun e => pos_o (d_eh d) || pos_o (d_cc d) || pos_o (e_sc e) || pos_o (e_p e))
                     (d_erts d) = true;
  }.

  (* header + context of the open packet, as any later reader will see them *)
  Definition hdr_ctx_ok (c : ctx) (tsb : Z) (hs : list hole) : Prop :=
    c_saved c = map h_pos hs /\ ordered 0 hs /\ NoDup (map h_name hs) /\
    Forall (fun h => h_pos h + h_size h <= c_off_content c /\
                     existsb (String.eqb (h_name h)) pc_skips = true /\
                     has_member (d_pc d) (h_name h) = true) hs /\
    (forall N, existsb (String.eqb N) pc_skips = true -> has_member (d_pc d) N = true ->
       exists al size off j h,
         pc_member_op d N = Some (OBits al KSkip size off) /\ skip_index pcms N 0 = Some j /\
         nth_error hs j = Some h /\ h_name h = N /\ h_size h = size /\ al_ok al /\
         h_pos h mod al = 0 /\ cons off (h_pos h)) /\
    (forall fv s_fin lim', c_off_content c <= lim' ->
       (forall p, p < c_off_content c -> (forall h, In h hs -> ~ in_hole h p) -> get s_fin p = get (c_s c) p) ->
       (forall h, In h hs -> read_bits (h_pos h) (h_size h) s_fin = enc_int (d_bo d) (h_size h) (fv (h_name h))) ->
       exists a_h,
         dec_opt t s_fin lim' (ts_ph t) 0 = Some (canon_o (d_ph d) (d_ph_vals d), a_h) /\
         dec_struct (d_bo d) s_fin lim' (ts_pc t) a_h =
           Some (canon_members pcms (subst pc_skips fv pcms (pc_open_vals (c_psize c) (c_seq c) tsb)),
                 c_off_content c)).

  (* packet beginning / end timestamps: the values the specification of each packet carries are
     the values of the ghost events ETs 0 / ETs 1 logged when they were written (cur_tsb: the
     beginning timestamp of the open packet, if any) *)
  Definition has_tsb : bool := d_has_clock d && has_member (d_pc d) "timestamp_begin".
  Definition has_tse : bool := d_has_clock d && has_member (d_pc d) "timestamp_end".
  Definition ts_ok (w : world) (K : list pk) (cur_tsb : list Z) : Prop :=
    (has_tsb = true -> stamps_of 0 (obs (w_log w)) = map k_tsb K ++ cur_tsb) /\
    (has_tse = true -> stamps_of 1 (obs (w_log w)) = map k_tse K).

  Definition fits (n : nat) : Prop := (Z.of_nat n < 2 ^ Z.of_nat cs_size)%Z.
  Definition or_ok (o : list ans) : Prop :=
    Forall (fun a => match a_newbuf a with Some b => fits (8 * b) | None => True end) o.

  (* the invariant: K describes the packets handed over so far, cur the records of the open packet *)
  Definition HI (w : world) (K : list pk) (cur : list rcd) : Prop :=
    len_ok w /\ w_pcargs w = user /\ (exists n, c_psize (w_c w) = 8 * n) /\ fits (c_psize (w_c w)) /\
    or_ok (w_or w) /\
    Forall2 pkt_ok (pkts (obs (w_log w))) K /\
    map k_disc K = snaps 0 (obs (w_log w)) /\ c_disc (w_c w) = ndo (obs (w_log w)) /\
    map k_seq K = map seqn (seq 0 (List.length K)) /\ c_seq (w_c w) = seqn (List.length K) /\
    if c_open (w_c w)
    then exists tsb hs, hdr_ctx_ok (w_c w) tsb hs /\
                        chain t (c_s (w_c w)) (c_off_content (w_c w)) (c_at (w_c w)) cur /\
                        ts_ok w K [tsb]
    else cur = [] /\ c_at (w_c w) = c_psize (w_c w) /\ ts_ok w K [].

  (* the part of the invariant that does not speak about the open packet *)
  Definition HIb (w : world) (K : list pk) : Prop :=
    len_ok w /\ w_pcargs w = user /\ (exists n, c_psize (w_c w) = 8 * n) /\ fits (c_psize (w_c w)) /\
    or_ok (w_or w) /\
    Forall2 pkt_ok (pkts (obs (w_log w))) K /\
    map k_disc K = snaps 0 (obs (w_log w)) /\ c_disc (w_c w) = ndo (obs (w_log w)) /\
    map k_seq K = map seqn (seq 0 (List.length K)) /\ c_seq (w_c w) = seqn (List.length K).
  Lemma HI_base w K cur : HI w K cur -> HIb w K.
  Proof. unfold HI, HIb. tauto. Qed.

  (* changes that the invariant does not see *)
  Definition same_core (w w' : world) : Prop :=
    c_s (w_c w') = c_s (w_c w) /\ c_psize (w_c w') = c_psize (w_c w) /\ c_at (w_c w') = c_at (w_c w) /\
    c_off_content (w_c w') = c_off_content (w_c w) /\ c_disc (w_c w') = c_disc (w_c w) /\
    c_seq (w_c w') = c_seq (w_c w) /\ c_open (w_c w') = c_open (w_c w) /\
    c_saved (w_c w') = c_saved (w_c w) /\ w_pcargs w' = w_pcargs w /\
    obs (w_log w') = obs (w_log w) /\ (or_ok (w_or w) -> or_ok (w_or w')).

  Lemma or_ok_tl o : or_ok o -> or_ok (tl o).
  Proof. destruct o; [auto|]. intros H. inversion H; auto. Qed.

  Lemma hdr_ctx_ok_core c c' tsb hs :
    c_s c' = c_s c -> c_psize c' = c_psize c -> c_off_content c' = c_off_content c ->
    c_seq c' = c_seq c -> c_saved c' = c_saved c -> hdr_ctx_ok c tsb hs -> hdr_ctx_ok c' tsb hs.
  Proof. unfold hdr_ctx_ok. intros -> -> -> -> ->. auto. Qed.

  Lemma hdr_ctx_ok_frame c c' tsb hs :
    (forall p, p < c_off_content c -> get (c_s c') p = get (c_s c) p) ->
    c_psize c' = c_psize c -> c_off_content c' = c_off_content c ->
    c_seq c' = c_seq c -> c_saved c' = c_saved c -> hdr_ctx_ok c tsb hs -> hdr_ctx_ok c' tsb hs.
  Proof.
    unfold hdr_ctx_ok. intros Hs -> -> -> -> (A & B & C & D & E & F). repeat split; auto.
    intros fv s_fin lim' Hl Hout Hin. apply F; auto.
    intros p Hp Hnh. rewrite Hout by auto. apply Hs. exact Hp.
  Qed.

  Lemma same_core_refl w : same_core w w.
  Proof. unfold same_core. repeat split; auto. Qed.
  Lemma same_core_trans w1 w2 w3 : same_core w1 w2 -> same_core w2 w3 -> same_core w1 w3.
  Proof. unfold same_core. intuition congruence. Qed.

  Lemma ts_ok_obs w w' K c : obs (w_log w') = obs (w_log w) -> ts_ok w K c -> ts_ok w' K c.
  Proof. unfold ts_ok. intros ->. auto. Qed.

  Lemma HIb_core w w' K : same_core w w' -> HIb w K -> HIb w' K.
  Proof.
    intros (A1 & A2 & A3 & A4 & A5 & A6 & A7 & A8 & A9 & A10 & A11)
           (H1 & H2 & H3 & H4 & H5 & H6 & H7 & H8 & H9 & H10).
    unfold HIb, len_ok. rewrite A1, A2, A5, A6, A9, A10. repeat split; auto.
  Qed.

  Lemma HI_core w w' K cur : same_core w w' -> HI w K cur -> HI w' K cur.
  Proof.
    intros (A1 & A2 & A3 & A4 & A5 & A6 & A7 & A8 & A9 & A10 & A11)
           (H1 & H2 & H3 & H4 & H5 & H6 & H7 & H8 & H9 & H10 & H11).
    unfold HI, len_ok. rewrite A1, A2, A3, A4, A5, A6, A7, A9, A10.
    repeat split; auto.
    unfold ts_ok in *. rewrite A10.
    destruct (c_open (w_c w)); [|exact H11].
    destruct H11 as (tsb & hs & X & Y). exists tsb, hs.
    split; [|exact Y].
    eapply hdr_ctx_ok_core; [..|exact X]; auto.
  Qed.
End Hist.
