(* Meaning of the regenerated packet opening / closing functions (Gen/CSkelFuns.v fn_open, fn_close: the
   template text of <prefix><dst>_open_packet / _close_packet in barectf.c.j2, parsed by tools/c2coq.py)
   on the worlds of Tracer/Model.v.  Tracer/CSkelOCProofs.v proves they are Model.open_fn / Model.close_fn.

   Leaves (modelling decisions):
     {{ macros.open_close_func_preamble(dst, <feature>) }}   Model.preamble_ts for the member that feature creates
                                    (the macro text itself is compared with the known text by c2coq.py) and the
                                    local saved_in_tracing_section
     ctx->at = 0                    rewind; the list of saved offsets is rebuilt by this opening
     {% if pkt_header_op %}         the stream type has a packet header (snd (ph_build d))
     <packet header serialization>  Model.do_ser of the header operation on the header constants
     <packet context serialization> ghost event ETs 0 + Model.do_ser of the context operation on Model.pc_vals
                                    (total size, beginning timestamp, sequence number, user members; the late
                                    members are skipped and their offsets saved)
     the write-back block of <name> ghost event ETs 1 (timestamp_end) + Model.write_saved
     {% if 'packet_seq_num' in ... %}   has_member (d_pc d) "packet_seq_num" *)
From Coq Require Import List Arith Bool ZArith String.
Import ListNotations.
From BT.Base Require Import Bits.
From BT.Layout Require Import Model.
From BT.Tracer Require Import Model CSkel.
Local Open Scope string_scope.

Section OC.
  Variable d : dstm.

  Record ol := mk_ol { o_ts : Z; o_saved : bool }.

  Inductive oout :=
  | ONx (w : world) (l : ol)
  | OJp (lbl : string) (w : world) (l : ol)
  | OSt (w : world)
  | OEr.

  Fixpoint o_cond (c : ctx) (l : ol) (k : ccond) : option bool :=
    match k with
    | KAnd a b => match o_cond c l a, o_cond c l b with Some x, Some y => Some (x && y) | _, _ => None end
    | KNotField f =>
        if String.eqb f "is_tracing_enabled" then Some (negb (c_enabled c))
        else if String.eqb f "packet_is_open" then Some (negb (c_open c)) else None
    | KNotLocal x => if String.eqb x "saved_in_tracing_section" then Some (negb (o_saved l)) else None
    | KField f => if String.eqb f "packet_is_open" then Some (c_open c) else None
    | _ => None
    end.

  Definition o_assign (w : world) (l : ol) (f : string) (x : cexp) : option world :=
    let c := w_c w in
    if String.eqb f "in_tracing_section" then
      match x with
      | XConst n => Some (set_c w (set_in_ts c (negb (Nat.eqb n 0))))
      | XParam p => if String.eqb p "saved_in_tracing_section" then Some (set_c w (set_in_ts c (o_saved l))) else None
      | _ => None
      end
    else if String.eqb f "at" then
      match x with
      | XConst 0 => Some (set_c w (mk_ctx (c_s c) (c_psize c) 0 (c_content c) (c_off_content c) (c_disc c) (c_seq c)
                                          (c_open c) (c_in_ts c) (c_enabled c) (c_use_ts c) (c_last_ts c) []))
      | XField g => if String.eqb g "packet_size" then Some (set_c w (upd_at c (c_s c) (c_psize c))) else None
      | _ => None
      end
    else if String.eqb f "off_content" then
      match x with
      | XField g => if String.eqb g "at"
                    then Some (set_c w (mk_ctx (c_s c) (c_psize c) (c_at c) (c_content c) (c_at c) (c_disc c) (c_seq c)
                                               (c_open c) (c_in_ts c) (c_enabled c) (c_use_ts c) (c_last_ts c) (c_saved c)))
                    else None
      | _ => None
      end
    else if String.eqb f "content_size" then
      match x with
      | XField g => if String.eqb g "at"
                    then Some (set_c w (mk_ctx (c_s c) (c_psize c) (c_at c) (c_at c) (c_off_content c) (c_disc c) (c_seq c)
                                               (c_open c) (c_in_ts c) (c_enabled c) (c_use_ts c) (c_last_ts c) (c_saved c)))
                    else None
      | _ => None
      end
    else if String.eqb f "packet_is_open" then
      match x with
      | XConst n => Some (set_c w (mk_ctx (c_s c) (c_psize c) (c_at c) (c_content c) (c_off_content c) (c_disc c) (c_seq c)
                                          (negb (Nat.eqb n 0)) (c_in_ts c) (c_enabled c) (c_use_ts c) (c_last_ts c) (c_saved c)))
      | _ => None
      end
    else None.

  Fixpoint o_exec (s : cstmt) (w : world) (l : ol) {struct s} : oout :=
    let go := fix go (b : list cstmt) (w : world) (l : ol) : oout :=
                match b with
                | [] => ONx w l
                | s :: b => match o_exec s w l with ONx w l => go b w l | o => o end
                end in
    match s with
    | SPreamble m =>
        let r := preamble_ts d w (has_member (d_pc d) m) in
        ONx (snd r) (mk_ol (fst r) (c_in_ts (w_c (snd r))))
    | SIf k body =>
        match o_cond (w_c w) l k with
        | Some true => go body w l
        | Some false => ONx w l
        | None => OEr
        end
    | SIfCfg k body =>
        if String.eqb k "pkt_header_op"
        then match snd (ph_build d) with Some _ => go body w l | None => ONx w l end
        else if String.eqb k "has_packet_seq_num"
        then (if has_member (d_pc d) "packet_seq_num" then go body w l else ONx w l)
        else OEr
    | SAssign f x => match o_assign w l f x with Some w => ONx w l | None => OEr end
    | SSerializePH =>
        match snd (ph_build d) with
        | Some o => ONx (do_ser d w o (VArr (d_ph_vals d))) l
        | None => OEr
        end
    | SSerializePC =>
        let w := if d_has_clock d && has_member (d_pc d) "timestamp_begin" then logev w (ETs 0 (o_ts l)) else w in
        ONx (do_ser d w (pc_op d)
                    (VArr (pc_vals (s_mems (d_pc d)) (c_psize (w_c w)) (c_seq (w_c w)) (o_ts l) (w_pcargs w)))) l
    | SWriteSaved name src =>
        if String.eqb src "ts" then
          if String.eqb name "timestamp_end" then
            let w := if d_has_clock d && has_member (d_pc d) "timestamp_end" then logev w (ETs 1 (o_ts l)) else w in
            ONx (write_saved d w name (o_ts l)) l
          else OEr
        else if String.eqb name "content_size" then ONx (write_saved d w name (Z.of_nat (c_content (w_c w)))) l
        else if String.eqb name "events_discarded" then ONx (write_saved d w name (Z.of_nat (c_disc (w_c w)))) l
        else OEr
    | SInc f =>
        if String.eqb f "sequence_number"
        then let c := w_c w in
             ONx (set_c w (mk_ctx (c_s c) (c_psize c) (c_at c) (c_content c) (c_off_content c) (c_disc c) (S (c_seq c))
                                  (c_open c) (c_in_ts c) (c_enabled c) (c_use_ts c) (c_last_ts c) (c_saved c))) l
        else OEr
    | SGoto lbl => OJp lbl w l
    | SLabel _ => ONx w l
    | SReturnVoid => OSt w
    | _ => OEr
    end.

  Fixpoint o_run (fuel : nat) (body : list cstmt) (w : world) (l : ol) : option world :=
    match fuel with
    | 0 => None
    | S fuel =>
        match body with
        | [] => Some w
        | s :: r =>
            match o_exec s w l with
            | ONx w l => o_run fuel r w l
            | OJp lbl w l => match skip_to lbl r with Some r' => o_run fuel r' w l | None => None end
            | OSt w => Some w
            | OEr => None
            end
        end
    end.

  Definition run_oc (f : cfun) (w : world) : option world :=
    o_run (S (List.length (cf_body f))) (cf_body f) w (mk_ol 0%Z false).
End OC.
