(* Regression examples (by vm_compute): the histories that used to witness S9 (stale er_size after a
   packet switch) and S18 (smaller buffer installed by the closing callback during a switch) against
   the full-strength C02 statement.  Both defects are repaired in /repo (the size is computed again
   after a switch; the assert of _reserve_er_space became a discard) and in the model: the former
   witnesses now end without error, with the offending record discarded and counted. *)
From Coq Require Import List Arith Bool ZArith String.
Import ListNotations.
From BT.Base Require Import Bits.
From BT.Layout Require Import Model.
From BT.Tracer Require Import Model.


(* magic 32, packet_size / content_size 32 bits (content starts at bit 96), 8-bit record id,
   e0 = one 16-bit member, e1 = one 64-bit member aligned 64 *)
Definition d_s9 : dstm :=
  mk_dst LE true (Some (mk_sft 8 [("magic"%string, FInt false 32 8)])) [VInt 3254525889]
         (mk_sft 8 [("packet_size"%string, FInt false 32 8); ("content_size"%string, FInt false 32 8)])
         (Some (mk_sft 8 [("id"%string, FInt false 8 8)])) None
         [mk_ert 0 None (Some (mk_sft 1 [("a"%string, FInt false 16 8)]));
          mk_ert 1 None (Some (mk_sft 1 [("b"%string, FInt false 64 64)]))] false 64.
Definition h_s9 : list call := [COpen; CTrace 0 [VArr [VInt 1]]; CTrace 1 [VArr [VInt 2]]].

Definition has_err (code : nat) (l : list ev) : bool :=
  existsb (fun e => match e with EErr c => Nat.eqb c code | _ => false end) l.

Definition n_disc (l : list ev) : nat :=
  List.length (filter (fun e => match e with EDisc => true | _ => false end) l).
Definition in_bounds (w : world) : bool :=
  (c_at (w_c w) <=? c_psize (w_c w)) && (List.length (c_s (w_c w)) =? c_psize (w_c w)).

(* buffers of 21, 22, 23 bytes: the second record is sized 72 bits at bit 120, the packet is
   switched, and the record needs 96 bits at bit 96 of the new packet (88 available at most): before
   the repair the 64-bit member was stored past the buffer (EErr 1); now the size is computed again,
   the record is discarded (one EDisc, events_discarded = 1) and nothing is written out of bounds *)
Lemma s9_regression :
  forallb (fun buf => let w := run d_s9 buf [] [] h_s9 in
                      negb (w_err w) && (n_disc (w_log w) =? 1) && (c_disc (w_c w) =? 1) && in_bounds w &&
                      c_open (w_c w) && (c_at (w_c w) =? c_off_content (w_c w)))
          [21; 22; 23] = true
  /\ (let w := run d_s9 24 [] [] h_s9 in negb (w_err w) && (n_disc (w_log w) =? 0)) = true.
Proof. vm_compute. split; reflexivity. Qed.

(* header 64 bits, records of 48 bits, buffer of 16 bytes; the closing callback invoked for the
   second record installs a 13-byte buffer: the fit test was made against the 16-byte packet *)
Definition d_s18 : dstm :=
  mk_dst LE true None []
         (mk_sft 8 [("packet_size"%string, FInt false 32 8); ("content_size"%string, FInt false 32 8)])
         None None [mk_ert 0 None (Some (mk_sft 1 [("a"%string, FInt false 48 8)]))] false 64.
Definition h_s18 : list call := [COpen; CTrace 0 [VArr [VInt 1]]; CTrace 0 [VArr [VInt 2]]].
Definition o_s18 : list ans := [default_ans; mk_ans false None (Some 13) 1 false; default_ans; default_ans].
(* before the repair: EErr 2 (the assert); now the second record, which does not fit the 13-byte
   packet just opened (104 - 64 = 40 bits available, 48 needed), is discarded and counted *)
Lemma s18_regression :
  (let w := run d_s18 16 [] o_s18 h_s18 in
   negb (w_err w) && negb (has_err 2 (w_log w)) && (n_disc (w_log w) =? 1) && (c_disc (w_c w) =? 1) &&
   in_bounds w && (c_psize (w_c w) =? 104) && c_open (w_c w) && (c_at (w_c w) =? c_off_content (w_c w))) = true
  /\ w_err (run d_s18 16 [] [] h_s18) = false.
Proof. vm_compute. split; reflexivity. Qed.
