(* Concrete witnesses (by vm_compute) that the full-strength C02 statement is false for the faithful
   model of the unchanged tracer: S9 (stale er_size after a packet switch) and S18 (smaller buffer
   installed by the closing callback during a switch).  Both are replayed on the compiled C by the
   check (known findings). *)
From Coq Require Import List Arith Bool ZArith String.
Import ListNotations.
From BT.Base Require Import Bits.
From BT.Layout Require Import Model.
From BT.Tracer Require Import Model.


(* magic 32, packet_size / content_size 32 bits (content starts at bit 96), 8-bit record id,
   e0 = one 16-bit member, e1 = one 64-bit member aligned 64 *)
Definition d_s9 : dstm :=
  mk_dst LE true (Some (mk_sft 8 [("magic"%string, FInt false 32 8)])) [VInt 3254525889]
         (mk_sft 8 [("packet_size"%string, FInt false 32 8); ("content_size"%string, FInt false 32 8)])
         (Some (mk_sft 8 [("id"%string, FInt false 8 8)])) None
         [mk_ert 0 None (Some (mk_sft 1 [("a"%string, FInt false 16 8)]));
          mk_ert 1 None (Some (mk_sft 1 [("b"%string, FInt false 64 64)]))] false 64.
Definition h_s9 : list call := [COpen; CTrace 0 [VArr [VInt 1]]; CTrace 1 [VArr [VInt 2]]].

Definition has_err (code : nat) (l : list ev) : bool :=
  existsb (fun e => match e with EErr c => Nat.eqb c code | _ => false end) l.

(* buffers of 21, 22, 23 bytes: the second record is sized 72 bits at bit 120, the packet is
   switched, and the record needs 96 bits at bit 96: the 64-bit member is stored past the buffer *)
Lemma s9_witness :
  forallb (fun buf => let w := run d_s9 buf [] [] h_s9 in w_err w && has_err 1 (w_log w)) [21; 22; 23] = true
  /\ w_err (run d_s9 24 [] [] h_s9) = false.
Proof. vm_compute. split; reflexivity. Qed.

(* header 64 bits, records of 48 bits, buffer of 16 bytes; the closing callback invoked for the
   second record installs a 13-byte buffer: the fit test was made against the 16-byte packet *)
Definition d_s18 : dstm :=
  mk_dst LE true None []
         (mk_sft 8 [("packet_size"%string, FInt false 32 8); ("content_size"%string, FInt false 32 8)])
         None None [mk_ert 0 None (Some (mk_sft 1 [("a"%string, FInt false 48 8)]))] false 64.
Definition h_s18 : list call := [COpen; CTrace 0 [VArr [VInt 1]]; CTrace 0 [VArr [VInt 2]]].
Definition o_s18 : list ans := [default_ans; mk_ans false None (Some 13) 1 false; default_ans; default_ans].
Lemma s18_witness :
  (let w := run d_s18 16 [] o_s18 h_s18 in w_err w && has_err 2 (w_log w)) = true
  /\ w_err (run d_s18 16 [] [] h_s18) = false.
Proof. vm_compute. split; reflexivity. Qed.
