(* The regenerated control functions of barectf.c.j2 (Gen/CSkelFuns.v, tools/c2coq.py), run by the
   semantics of Tracer/CSkel.v, ARE the hand-written model functions of Tracer/Model.v. *)
From Coq Require Import List Arith Bool ZArith String.
Import ListNotations.
From BT.Base Require Import Bits.
From BT.Layout Require Import Model.
From BT.Tracer Require Import Model CSkel.
From BT.Gen Require Import CSkelFuns.
Local Open Scope string_scope.

Local Opaque gt_diff32 full_cb open_cb close_cb zeros.

Ltac skel_step :=
  match goal with
  | |- context [let (_, _) := ?p in _] => destruct p eqn:?; cbn
  | |- context [if ?c then _ else _] => destruct c eqn:?; cbn
  end.

Theorem skel_reserve d w n :
  run_fun d skel_funs [("er_size", n)] fn_reserve_er_space w =
  Some (Some (if fst (reserve d w n) then 1 else 0), snd (reserve d w n)).
Proof.
  unfold reserve, no_space, with_use_ts.
  cbn.
  repeat skel_step; try reflexivity.
  all: repeat match goal with H : (_, _) = (_, _) |- _ => inversion H; clear H; subst end.
  all: cbn in *; try congruence; try reflexivity.
Qed.

(* _commit_er: the commit step of Model.trace_fn *)
Theorem skel_commit d w :
  run_fun d skel_funs [] fn_commit_er w =
  Some (None, if Nat.eqb (c_at (w_c w)) (c_psize (w_c w)) then close_cb d w else w).
Proof. cbn. destruct (Nat.eqb (c_at (w_c w)) (c_psize (w_c w))); reflexivity. Qed.

(* <prefix>packet_is_full / packet_is_empty: the tests used by Model.reserve / Model.trace_fn and by
   the finalisation idiom of Model.step (CFini: open && not (at <= off_content)) *)
Theorem skel_is_full d w :
  run_fun d skel_funs [] fn_packet_is_full w =
  Some (Some (if Nat.eqb (c_at (w_c w)) (c_psize (w_c w)) then 1 else 0), w).
Proof. reflexivity. Qed.

Theorem skel_is_empty d w :
  run_fun d skel_funs [] fn_packet_is_empty w =
  Some (Some (if Nat.leb (c_at (w_c w)) (c_off_content (w_c w)) then 1 else 0), w).
Proof. reflexivity. Qed.

(* <prefix>packet_set_buf = Model.packet_set_buf (the new buffer is zero-filled) *)
Theorem skel_set_buf d w p bytes :
  run_fun d skel_funs [("buf", p); ("buf_size", bytes)] fn_packet_set_buf w =
  Some (None, set_c w (packet_set_buf (w_c w) bytes)).
Proof.
  unfold packet_set_buf. cbn.
  destruct (Nat.eqb (c_at (w_c w)) (c_psize (w_c w))); cbn; destruct w as [c o k l e a]; destruct c; reflexivity.
Qed.

(* the helper table the regenerated functions call into is the regenerated one *)
Example skel_funs_names : map fst skel_funs =
  ["reserve_er_space"; "commit_er"; "packet_is_full"; "packet_is_empty"; "packet_set_buf"].
Proof. reflexivity. Qed.
