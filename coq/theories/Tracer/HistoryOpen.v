(* Opening a packet establishes the invariant of Tracer/History.v for an empty packet. *)
From Coq Require Import List Arith Bool ZArith String Lia PeanoNat.
Import ListNotations.
From BT.Base Require Import Bits BitsProofs BytesProofs.
From BT.Layout Require Import Model BuildProofs RoundTrip RecordProofs SizeProofs FillProofs FillBuild.
From BT.Tracer Require Import Model Decode RecordDecode Lemmas Spec BoundsProofs Chain Holes History.

(* w' is w after one successful serialization whose final state is st *)
Definition after_ser (w w' : world) (st : sstate) : Prop :=
  c_s (w_c w') = ss_s st /\ c_at (w_c w') = ss_at st /\ c_saved (w_c w') = c_saved (w_c w) ++ ss_saved st /\
  c_psize (w_c w') = c_psize (w_c w) /\ c_content (w_c w') = c_content (w_c w) /\
  c_off_content (w_c w') = c_off_content (w_c w) /\ c_disc (w_c w') = c_disc (w_c w) /\
  c_seq (w_c w') = c_seq (w_c w) /\ c_open (w_c w') = c_open (w_c w) /\ c_in_ts (w_c w') = c_in_ts (w_c w) /\
  c_enabled (w_c w') = c_enabled (w_c w) /\ c_use_ts (w_c w') = c_use_ts (w_c w) /\
  c_last_ts (w_c w') = c_last_ts (w_c w) /\
  w_or w' = w_or w /\ w_clk w' = w_clk w /\ w_pcargs w' = w_pcargs w /\ obs (w_log w') = obs (w_log w) /\
  w_err w' = false /\ w_err w = false.

Lemma do_ser_ok d w o v : w_err (do_ser d w o v) = false ->
  exists st, ser (d_bo d) (d_native_known d) (c_psize (w_c w)) o v (mk_ss (c_s (w_c w)) (c_at (w_c w)) []) = Some st /\
    after_ser w (do_ser d w o v) st.
Proof.
  rewrite do_ser_eq. destruct (ser _ _ _ _ _ _) as [st|]; prj; [|discriminate].
  intros H. exists st. split; [reflexivity|]. unfold after_ser, ser_ctx. prj.
  rewrite obs_app. cbn. rewrite app_nil_r. repeat split; auto.
Qed.

Section O.
  Variable d : dstm.
  Variable user : list val.
  Variable cs_size : nat.
  Hypothesis WF : wf_d d user cs_size.

  Notation bo := (d_bo d).
  Notation nk := (d_native_known d).

  Lemma open_hdr_ok w : w_err (open_hdr d w) = false ->
    exists st, ser_opt bo nk (c_psize (w_c w)) (d_ph d) None (d_ph_vals d) (mk_ss (c_s (w_c w)) (c_at (w_c w)) []) = Some st /\
      after_ser w (open_hdr d w) st.
  Proof.
    unfold open_hdr, ph_build, ser_opt. destruct (d_ph d) as [ph|]; cbn [snd].
    - apply do_ser_ok.
    - intros H. eexists. split; [reflexivity|]. unfold after_ser. cbn [ss_s ss_at ss_saved].
      rewrite app_nil_r. repeat split; auto.
  Qed.

  Lemma pc_op_eq : pc_op d = OBlock (sft_align (d_pc d))
                     (snd (build_members pc_skips (try_align 0 None (sft_align (d_pc d))) (s_mems (d_pc d)))).
  Proof. reflexivity. Qed.

  Lemma open_do_HI w ts K :
    HIb d user cs_size w K -> ts_ok d w K [] -> w_err (open_do d ts w) = false ->
    HI d user cs_size (open_do d ts w) K [] /\ c_open (w_c (open_do d ts w)) = true /\
    c_in_ts (w_c (open_do d ts w)) = c_in_ts (w_c w) /\ c_enabled (w_c (open_do d ts w)) = c_enabled (w_c w) /\
    w_err w = false.
  Proof.
    intros (H1 & H2 & H3 & H4 & H5 & H6 & H7 & H8 & H9 & H10) [Tb Te] He.
    unfold open_do in *.
    remember (open_reset w) as w1 eqn:W1.
    remember (open_hdr d w1) as w2 eqn:W2.
    remember (open_mark d ts w2) as w3 eqn:W3.
    remember (open_pc d ts (c_psize (w_c w)) (c_seq (w_c w)) w3) as w4 eqn:W4.
    assert (E4 : w_err w4 = false) by (unfold open_fin in He; up; exact He).
    (* packet context *)
    rewrite W4 in E4. unfold open_pc in E4. destruct (do_ser_ok _ _ _ _ E4) as (st_pc & Spc & A4).
    fold (open_pc d ts (c_psize (w_c w)) (c_seq (w_c w)) w3) in A4. rewrite <- W4 in A4.
    assert (C3 : w_c w3 = w_c w2 /\ w_or w3 = w_or w2 /\ w_pcargs w3 = w_pcargs w2 /\
                 obs (w_log w3) = obs (w_log w2) ++ (if has_tsb d then [ETs 0 ts] else []) /\ w_err w3 = w_err w2).
    { rewrite W3. unfold open_mark, has_tsb. destruct (_ && _); up; [|rewrite app_nil_r; auto].
      rewrite obs_app. cbn. auto. }
    destruct C3 as (C3 & O3 & P3 & L3 & E3).
    assert (E2 : w_err w2 = false).
    { rewrite <- E3. unfold after_ser in A4. tauto. }
    rewrite W2 in E2. destruct (open_hdr_ok _ E2) as (st_h & Sh & A2). rewrite <- W2 in A2.
    assert (C1 : c_s (w_c w1) = c_s (w_c w) /\ c_at (w_c w1) = 0 /\ c_saved (w_c w1) = [] /\
                 c_psize (w_c w1) = c_psize (w_c w) /\ c_seq (w_c w1) = c_seq (w_c w) /\
                 c_disc (w_c w1) = c_disc (w_c w) /\ c_in_ts (w_c w1) = true /\
                 c_enabled (w_c w1) = c_enabled (w_c w) /\ w_or w1 = w_or w /\ w_pcargs w1 = w_pcargs w /\
                 w_log w1 = w_log w /\ w_err w1 = w_err w).
    { rewrite W1. unfold open_reset. up. repeat split; auto. }
    destruct C1 as (C1s & C1a & C1v & C1p & C1q & C1d & C1i & C1e & C1o & C1g & C1l & C1r).
    rewrite C1s, C1a, C1p in Sh.
    unfold after_ser in A2. rewrite C1p, C1v, C1q, C1d, C1i, C1e, C1o, C1g, C1l, C1r in A2.
    destruct A2 as (A2s & A2a & A2v & A2p & _ & _ & A2d & A2q & _ & A2i & A2e & _ & _ & A2o & _ & A2g & A2l & _ & E0).
    (* header facts *)
    unfold len_ok in H1.
    destruct (ser_opt_rt bo nk (c_psize (w_c w)) (d_ph d) None (d_ph_vals d) (mk_ss (c_s (w_c w)) 0 []) st_h (wf_phv _ _ _ WF) H1 Sh)
      as (Mh & Lh & Gh & Dh). cbn [ss_s ss_at] in Mh, Gh, Dh.
    assert (Svh : ss_saved st_h = []).
    { clear -Sh WF H1. unfold ser_opt in Sh. pose proof (wf_phv _ _ _ WF) as O. unfold ok_opt in O.
      destruct (d_ph d) as [ph|]; [|injection Sh as <-; reflexivity].
      destruct O as [Hwf Hok].
      destruct (ser_struct_rt bo nk _ ph Hwf None _ (mk_ss (c_s (w_c w)) 0 []) st_h H1 Hok Sh) as (_ & _ & X & _).
      exact X. }
    (* context facts *)
    rewrite C3, A2s, A2a, A2p, P3, A2g, H2 in Spc.
    pose proof (ser_build_root_skip bo nk (c_psize (w_c w)) pc_skips (d_pc d) (wf_pc _ _ _ WF)
                  (fst (ph_build d)) (pc_vals (s_mems (d_pc d)) (c_psize (w_c w)) (c_seq (w_c w)) ts user)
                  (mk_ss (ss_s st_h) (ss_at st_h) [])) as SR.
    fold (pc_op d) in SR. rewrite Spc in SR. unfold skip_rel in SR. cbn [ss_s ss_at ss_saved] in SR.
    remember (align_up (ss_at st_h) (sft_align (d_pc d))) as a0 eqn:Ea0.
    destruct (enc_skip bo (c_psize (w_c w)) pc_skips (s_mems (d_pc d)) _ (ss_s st_h, a0) [])
      as [[[s1 a1] hs1]|] eqn:ES; [|contradiction].
    destruct SR as (R1 & R2 & nh & R3 & R4). cbn [app] in R3, R4. subst hs1.
    pose proof (wf_pc _ _ _ WF) as Wpc. pose proof (sft_align_ok _ Wpc) as Hal.
    pose proof (wf_sft_wfr _ Wpc) as Wr. unfold wfr_sft in Wr. apply andb_true_iff in Wr. destruct Wr as [_ Wr].
    unfold wf_sft in Wpc. apply andb_true_iff in Wpc. destruct Wpc as [_ Wms].
    pose proof (wf_pcv _ _ _ WF) as Hok.
    destruct (enc_skip_props bo (c_psize (w_c w)) pc_skips (fun _ => 0%Z) _ Wr _ [] _ _ [] _ _ _ Lh
                (Hok (fun _ => 0%Z) _ _ _) ES) as (Ma & L1 & G1 & nh' & En & Fb).
    cbn [app] in En. subst nh'.
    destruct (enc_skip_ordered bo (c_psize (w_c w)) _ Wr _ [] (fun _ => 0%Z) _ _ [] _ _ _ Lh
                (Hok (fun _ => 0%Z) _ _ _) ES) as (nh' & En & Ord). cbn [app] in En. subst nh'.
    destruct (enc_skip_names bo (c_psize (w_c w)) _ (wf_names _ _ _ WF) _ _ _ [] _ _ _ ES)
      as (nh' & En & ND & Fn). cbn [app] in En. subst nh'.
    pose proof (align_up_ge (ss_at st_h) _ (al_ok_pos _ Hal)) as Ha0. rewrite <- Ea0 in Ha0.
    (* the final world *)
    unfold after_ser in A4. rewrite C3, A2v, A2p, A2d, A2q, A2i, A2e, O3, A2o, P3, A2g, L3, A2l in A4.
    destruct A4 as (A4s & A4a & A4v & A4p & _ & _ & A4d & A4q & _ & A4i & A4e & _ & _ & A4o & _ & A4g & A4l & _ & _).
    rewrite Svh in A4v. cbn [app] in A4v.
    split; [|unfold open_fin; up; repeat split; auto].
    set (m := if has_tsb d then [ETs 0 ts] else []) in *.
    assert (M1 : pkts (obs (w_log w) ++ m) = pkts (obs (w_log w)))
      by (unfold m; destruct (has_tsb d); [apply pkts_ts|rewrite app_nil_r; reflexivity]).
    assert (M2 : snaps 0 (obs (w_log w) ++ m) = snaps 0 (obs (w_log w)))
      by (unfold m; destruct (has_tsb d); [apply snaps_ts|rewrite app_nil_r; reflexivity]).
    assert (M3 : ndo (obs (w_log w) ++ m) = ndo (obs (w_log w)))
      by (unfold m; destruct (has_tsb d); [apply ndo_ts|rewrite app_nil_r; reflexivity]).
    unfold HI, len_ok, open_fin, ts_ok. up. rewrite A4s, A4p, A4a, A4v, A4d, A4q, A4o, A4g, A4l, M1, M2, M3.
    repeat split; auto.
    - rewrite R1. exact L1.
    - exists ts, nh. split; [|split; [rewrite R2; reflexivity|]].
      2:{ rewrite !stamps_of_app. unfold m. split; intros Hh.
          - rewrite Hh. cbn. rewrite (Tb Hh), app_nil_r. reflexivity.
          - destruct (has_tsb d); cbn; rewrite app_nil_r; apply Te; exact Hh. }
      unfold hdr_ctx_ok. prj.
      split; [rewrite R4; reflexivity|].
      split; [eapply ordered_weaken; [|exact Ord]; lia|].
      split; [exact ND|].
      split.
      { rewrite Forall_forall in *. intros h Hh. destruct (Fb h Hh) as [X Y]. destruct (Fn h Hh) as [X' Y'].
        rewrite R2. split; [exact Y|]. split; [exact X'|]. apply has_member_in. exact Y'. }
      split.
      { intros N HN HM.
        destruct (hole_ops bo nk (c_psize (w_c w)) _ Wms (wf_late _ _ _ WF)
                    (try_align 0 None (sft_align (d_pc d))) _ _ a0 [] _ _ _
                    ltac:(rewrite Ea0; apply try_align_cons; [exact Hal|exact I]) ES N HN
                    ltac:(apply has_member_in; exact HM))
          as (al & size & off & j & h & B1 & B2 & B3 & _ & B4).
        exists al, size, off, j, h. split; [|split; [exact B2|split; [exact B3|exact B4]]].
        unfold pc_member_op. rewrite pc_op_eq. exact B1. }
      intros fv s_fin lim' Hlim Hout Hin.
      exists (ss_at st_h). split.
      + change (ts_ph (t d)) with (option_map tsdl_of_sft (d_ph d)). unfold t. rewrite dec_opt_map.
        apply Dh; [|lia].
        intros p Hp. rewrite Hout.
        * rewrite R1. apply G1. lia.
        * lia.
        * intros h Hh [X _]. rewrite Forall_forall in Fb. destruct (Fb h Hh) as [Y _]. lia.
      + change (ts_pc (t d)) with (tsdl_of_sft (d_pc d)). unfold dec_struct.
        rewrite tstruct_align_tsdl. rewrite <- Ea0. cbn [t_fields tsdl_of_sft].
        pose proof (skip_dec bo (c_psize (w_c w)) pc_skips fv _ Wr _ [] _ _ [] _ _ _ Lh (Hok fv _ _ _) ES
                      s_fin lim' [] ltac:(lia)) as SD.
        cbn [rev app] in SD. rewrite R2. apply SD.
        * intros p Hp Hnh. rewrite Hout; [rewrite R1; reflexivity|lia|exact Hnh].
        * exact Hin.
  Qed.
End O.
