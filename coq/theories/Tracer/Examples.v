(* Small concrete configuration and histories used by the non-vacuity examples of Props/C05, C06,
   C07, C16 (definitions only). *)
From Coq Require Import List Arith Bool ZArith String.
Import ListNotations.
From BT.Base Require Import Bits.
From BT.Layout Require Import Model.
From BT.Tracer Require Import Model.
Open Scope string_scope.

Definition u8 : ft := FInt false 8 8.
Definition u16 : ft := FInt false 16 8.

(* 64-bit packet context with every feature, record header id + timestamp, one event record type
   with one 8-bit payload member (24-bit records), 8-bit clock *)
Definition ex_d : dstm :=
  mk_dst LE true None []
         (mk_sft 8 [("packet_size", u16); ("content_size", u16); ("timestamp_begin", u8);
                    ("timestamp_end", u8); ("events_discarded", u8); ("packet_seq_num", u8)])
         (Some (mk_sft 8 [("id", u8); ("timestamp", u8)])) None
         [mk_ert 0 None (Some (mk_sft 8 [("x", u8)]))] true 8.

Definition ex_tr (x : Z) : call := CTrace 0 [VArr [VInt x]].

(* 16-byte buffer: header (8 bytes) + two records; the third record switches packets *)
Definition ex_h : list call :=
  [COpen; ex_tr 1; ex_tr 2; ex_tr 3; CEnable false; ex_tr 4; CEnable true; ex_tr 5; CClose; COpen;
   ex_tr 6; CFini].
Definition ex_or : list ans :=
  [default_ans; default_ans; mk_ans false None None 3 false; mk_ans false None None 0 false].
Definition ex_w : world := run ex_d 16 [] ex_or ex_h.

(* same, the event record type has no payload (its size does not depend on the arguments) *)
Definition ex_d2 : dstm :=
  mk_dst LE true None []
         (mk_sft 8 [("packet_size", u16); ("content_size", u16); ("timestamp_begin", u8);
                    ("timestamp_end", u8); ("events_discarded", u8); ("packet_seq_num", u8)])
         (Some (mk_sft 8 [("id", u8); ("timestamp", u8)])) None
         [mk_ert 0 None None] true 8.
Definition ex_h2 : list call :=
  [COpen; CTrace 0 []; CTrace 0 []; CTrace 0 []; CTrace 0 []; CTrace 0 []; CClose; CTrace 0 []; CFini].

(* counterexample configuration for C06 (c) without `pos_records`: an 8-bit packet context that
   fills a 1-byte buffer and an event record type with an empty payload structure (0 bits) *)
Definition ex_dz : dstm :=
  mk_dst LE true None [] (mk_sft 8 [("packet_size", u8)]) None None
         [mk_ert 0 None (Some (mk_sft 1 []))] false 8.
