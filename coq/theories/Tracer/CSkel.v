(* A deep embedding of the fixed-text control functions of barectf.c.j2 (_reserve_er_space, _commit_er,
   packet_is_full, packet_is_empty, packet_set_buf) and its meaning on the worlds of Tracer/Model.v.

   tools/c2coq.py REGENERATES the terms (Gen/CSkelFuns.v) from the template text of /repo on every
   run (fail closed: any statement outside the subset below stops the translation);
   Tracer/CSkelProofs.v proves that running those regenerated terms IS the hand-written model
   (Model.reserve, the commit step of Model.trace_fn, Model.packet_set_buf, the is-full / is-empty
   tests used by the model).  So for these functions the model is tied to the source by a
   translator + theorem, not only by the differential runs.

   Meaning of the leaves (the modelling decisions, all in this file):
     ctx->f                     the field of the model context (packet_size, at, off_content)
     a > (b - c)                uint32_t comparison: Model.gt_diff32
     ctx->cbs.is_backend_full   Model.full_cb (consumes one oracle answer, may toggle tracing)
     ctx->cbs.open_packet / close_packet   Model.open_cb / Model.close_cb (conformant platform)
     ctx->use_cur_last_event_ts = n        Model.set_use_ts
     ctx->events_discarded++    Model.incr_disc + the ghost event EDisc
     ctx->buf = buf             the platform's new buffer: zero-filled, buf_size bytes
   Anything else (unknown field, callback, label) makes the run return None. *)
From Coq Require Import List Arith Bool ZArith String.
Import ListNotations.
From BT.Base Require Import Bits.
From BT.Layout Require Import Model.
From BT.Tracer Require Import Model.
Local Open Scope string_scope.

Inductive cexp :=
| XField (f : string)            (* ctx->f *)
| XParam (p : string)            (* a parameter of the function *)
| XConst (n : nat)
| XSub (a b : cexp)              (* (a - b), uint32_t *)
| XB2b (a : cexp).               (* _BYTES_TO_BITS(a) *)

Inductive ccond :=
| KGt (a b : cexp) | KLe (a b : cexp) | KEq (a b : cexp)
| KCall (fn : string)            (* <prefix>fn(ctx) != 0 *)
| KCb (cb : string)              (* ctx->cbs.cb(ctx->data) != 0 *)
(* tracing function only (Tracer/CSkelTrace.v) *)
| KNe (a b : cexp)
| KNotField (f : string)         (* !ctx->f *)
| KNotReserve (x : string)       (* !_reserve_er_space(ctx, x) *)
(* packet opening / closing functions only (Tracer/CSkelOC.v) *)
| KAnd (a b : ccond)
| KNotLocal (x : string)         (* !x  (local variable) *)
| KField (f : string).           (* ctx->f *)

Inductive cstmt :=
| SIf (c : ccond) (body : list cstmt)
| SGoto (l : string)
| SLabel (l : string)
| SSetRet (n : nat)              (* ret = n; *)
| SAssign (f : string) (e : cexp)
| SInc (f : string)              (* ctx->f++; *)
| SCb (cb : string)              (* ctx->cbs.cb(ctx->data); *)
| SReturnRet                     (* return ret; *)
| SReturnCond (c : ccond)        (* return <comparison>; *)
(* tracing function only (Tracer/CSkelTrace.v) *)
| SIfCfg (k : string) (body : list cstmt)   (* {% if k %} ... {% endif %} around statements *)
| SSampleClock                   (* sctx->cur_last_event_ts = ctx->cbs.<clk>_clock_get_value(ctx->data); *)
| SLocal (x : string) (e : cexp) (* x = e;  (local variable) *)
| SLocalSize (x : string)        (* x = _er_size_<dst>_<ert>(ctx, ...); *)
| SSerialize                     (* _serialize_er_<dst>_<ert>(ctx, ...); *)
| SCallFn (fn : string)          (* _fn(ctx); *)
| SReturnVoid                    (* return; *)
(* packet opening / closing functions only (Tracer/CSkelOC.v) *)
| SPreamble (member : string)    (* {{ macros.open_close_func_preamble(dst, <feature field type of member>) }} *)
| SSerializePH                   (* {{ pkt_header_op.serialize_str(dst=dst) }} *)
| SSerializePC                   (* {{ this_ds_ops.pkt_ctx_op.serialize_str(dst=dst) }} *)
| SWriteSaved (name src : string).   (* the "go back to <name> field offset and write <src>" block *)

Record cfun := mk_cfun { cf_params : list string; cf_body : list cstmt }.

Section Sem.
  Variable d : dstm.
  Variable funs : list (string * cfun).        (* boolean helper functions callable through KCall *)
  Variable args : list (string * nat).

  Fixpoint lookup {A} (k : string) (l : list (string * A)) : option A :=
    match l with [] => None | (k', v) :: r => if String.eqb k k' then Some v else lookup k r end.

  Definition rd_field (c : ctx) (f : string) : option nat :=
    if String.eqb f "packet_size" then Some (c_psize c)
    else if String.eqb f "at" then Some (c_at c)
    else if String.eqb f "off_content" then Some (c_off_content c)
    else None.

  Fixpoint ev_exp (c : ctx) (e : cexp) : option nat :=
    match e with
    | XField f => rd_field c f
    | XParam p => lookup p args
    | XConst n => Some n
    | XSub a b => match ev_exp c a, ev_exp c b with Some x, Some y => Some (x - y) | _, _ => None end
    | XB2b a => match ev_exp c a with Some x => Some (8 * x) | None => None end
    end.

  (* comparisons that do not call anything *)
  Definition ev_cmp (c : ctx) (k : ccond) : option bool :=
    match k with
    | KGt a (XSub x y) =>
        match ev_exp c a, ev_exp c x, ev_exp c y with
        | Some va, Some vx, Some vy => Some (gt_diff32 va vx vy) | _, _, _ => None end
    | KGt a b => match ev_exp c a, ev_exp c b with Some x, Some y => Some (Nat.ltb y x) | _, _ => None end
    | KLe a b => match ev_exp c a, ev_exp c b with Some x, Some y => Some (Nat.leb x y) | _, _ => None end
    | KEq a b => match ev_exp c a, ev_exp c b with Some x, Some y => Some (Nat.eqb x y) | _, _ => None end
    | _ => None
    end.

  (* a helper such as packet_is_full: its body must be a single `return <comparison>;` *)
  Definition ev_call (c : ctx) (fn : string) : option bool :=
    match lookup fn funs with
    | Some (mk_cfun _ [SReturnCond k]) => ev_cmp c k
    | _ => None
    end.

  Definition ev_cond (w : world) (k : ccond) : option (bool * world) :=
    match k with
    | KCall fn => match ev_call (w_c w) fn with Some b => Some (b, w) | None => None end
    | KCb cb => if String.eqb cb "is_backend_full" then Some (full_cb w) else None
    | _ => match ev_cmp (w_c w) k with Some b => Some (b, w) | None => None end
    end.

  Definition assign (w : world) (f : string) (e : cexp) : option world :=
    let c := w_c w in
    if String.eqb f "use_cur_last_event_ts" then
      match ev_exp c e with Some n => Some (set_c w (set_use_ts c (negb (Nat.eqb n 0)))) | None => None end
    else if String.eqb f "at" then
      match ev_exp c e with Some n => Some (set_c w (upd_at c (c_s c) n)) | None => None end
    else if String.eqb f "packet_size" then
      match ev_exp c e with
      | Some n => Some (set_c w (mk_ctx (c_s c) n (c_at c) (c_content c) (c_off_content c) (c_disc c) (c_seq c)
                                        (c_open c) (c_in_ts c) (c_enabled c) (c_use_ts c) (c_last_ts c) (c_saved c)))
      | None => None end
    else if String.eqb f "buf" then
      match e, lookup "buf_size" args with
      | XParam "buf", Some bytes => Some (set_c w (upd_at c (zeros (8 * bytes)) (c_at c)))
      | _, _ => None
      end
    else None.

  Inductive out :=
  | ONext (w : world) (ret : nat)
  | OJump (l : string) (w : world) (ret : nat)
  | ORet (v : nat) (w : world)
  | OErr.

  Fixpoint exec (s : cstmt) (w : world) (ret : nat) {struct s} : out :=
    match s with
    | SIf k body =>
        match ev_cond w k with
        | Some (true, w) =>
            (fix go (l : list cstmt) (w : world) (ret : nat) : out :=
               match l with
               | [] => ONext w ret
               | s :: l => match exec s w ret with ONext w ret => go l w ret | o => o end
               end) body w ret
        | Some (false, w) => ONext w ret
        | None => OErr
        end
    | SGoto l => OJump l w ret
    | SLabel _ => ONext w ret
    | SSetRet n => ONext w n
    | SAssign f e => match assign w f e with Some w => ONext w ret | None => OErr end
    | SInc f => if String.eqb f "events_discarded"
                then ONext (logev (set_c w (incr_disc (w_c w))) EDisc) ret else OErr
    | SCb cb => if String.eqb cb "open_packet" then ONext (open_cb d w) ret
                else if String.eqb cb "close_packet" then ONext (close_cb d w) ret else OErr
    | SReturnRet => ORet ret w
    | SReturnCond k => match ev_cond w k with Some (b, w) => ORet (if b then 1 else 0) w | None => OErr end
    | _ => OErr                    (* statements of the tracing function: Tracer/CSkelTrace.v *)
    end.

  (* forward gotos to labels of the function's top level *)
  Fixpoint skip_to (l : string) (body : list cstmt) : option (list cstmt) :=
    match body with
    | [] => None
    | SLabel l' :: r => if String.eqb l l' then Some r else skip_to l r
    | _ :: r => skip_to l r
    end.

  Fixpoint run_body (fuel : nat) (body : list cstmt) (w : world) (ret : nat) : option (option nat * world) :=
    match fuel with
    | 0 => None
    | S fuel =>
        match body with
        | [] => Some (None, w)                      (* end of a void function *)
        | s :: r =>
            match exec s w ret with
            | ONext w ret => run_body fuel r w ret
            | OJump l w ret => match skip_to l r with Some r' => run_body fuel r' w ret | None => None end
            | ORet v w => Some (Some v, w)
            | OErr => None
            end
        end
    end.

  Definition run_fun (f : cfun) (w : world) : option (option nat * world) :=
    if forallb (fun p => match lookup p args with Some _ => true | None => false end) (cf_params f)
    then run_body (S (List.length (cf_body f))) (cf_body f) w 0
    else None.
End Sem.
