(* Serializing an event record into the open packet appends exactly that record to the chain of
   records a reader finds (Tracer/History.v). *)
From Coq Require Import List Arith Bool ZArith String Lia PeanoNat.
Import ListNotations.
From BT.Base Require Import Bits BitsProofs BytesProofs.
From BT.Layout Require Import Model BuildProofs RoundTrip RecordProofs SizeProofs FillProofs FillBuild PosProofs.
From BT.Tracer Require Import Model Decode RecordDecode Lemmas Spec BoundsProofs Chain Holes History
  HistoryOpen ErrMono.

Definition present (o : option sft) (vs : list val) : list val :=
  match o with Some _ => [VArr vs] | None => [] end.
Definition part (o : option sft) (st : option nat) (vs : list val) : list (op * val) :=
  match o with Some s => [(snd (build_root [] st s), VArr vs)] | None => [] end.

Section R.
  Variable d : dstm.
  Variable user : list val.
  Variable cs_size : nat.
  Hypothesis WF : wf_d d user cs_size.

  Notation bo := (d_bo d).
  Notation nk := (d_native_known d).

  (* arguments of a tracing function: one structure of valid values per present user scope *)
  Definition args_ok (e : ertm) (args cv sv pv : list val) : Prop :=
    ok_opt (d_cc d) cv /\ ok_opt (e_sc e) sv /\ ok_opt (e_p e) pv /\
    args = present (d_cc d) cv ++ present (e_sc e) sv ++ present (e_p e) pv.

  Lemma rec_parts_eq e ts args cv sv pv : args_ok e args cv sv pv ->
    rec_parts d e ts args =
    part (d_eh d) None (hdr_vals d e ts) ++ part (d_cc d) (fst (eh_build d)) cv ++
    part (e_sc e) (fst (cc_build d)) sv ++ part (e_p e) (fst (sc_build d e)) pv.
  Proof.
    intros (_ & _ & _ & ->). unfold rec_parts, hdr_vals, part, present, eh_build, cc_build, sc_build, p_build.
    destruct (d_eh d), (d_cc d), (e_sc e), (e_p e); reflexivity.
  Qed.

  Lemma ser_parts_app w a b : ser_parts d w (a ++ b) = ser_parts d (ser_parts d w a) b.
  Proof. unfold ser_parts. apply fold_left_app. Qed.

  Lemma mk_ss_eta x : ss_saved x = [] -> mk_ss (ss_s x) (ss_at x) [] = x.
  Proof. destruct x; cbn. intros ->. reflexivity. Qed.

  Lemma part_ser w o st vs : ok_opt o vs -> len_ok w -> w_err (ser_parts d w (part o st vs)) = false ->
    exists ss', ser_opt bo nk (c_psize (w_c w)) o st vs (mk_ss (c_s (w_c w)) (c_at (w_c w)) []) = Some ss' /\
      ss_saved ss' = [] /\ after_ser w (ser_parts d w (part o st vs)) ss'.
  Proof.
    intros Hok Hl He. unfold part, ser_opt, ok_opt in *. destruct o as [s|].
    - unfold ser_parts in *. cbn [fold_left fst snd] in *.
      destruct (w_err w) eqn:E0; [rewrite E0 in He; discriminate|].
      destruct (do_ser_ok _ _ _ _ He) as (ss' & S & A). exists ss'. split; [exact S|]. split; [|exact A].
      destruct Hok as [Hwf Hm].
      destruct (ser_struct_rt bo nk _ s Hwf st vs (mk_ss (c_s (w_c w)) (c_at (w_c w)) []) ss' Hl Hm S) as (_ & _ & X & _).
      exact X.
    - unfold ser_parts in *. cbn [fold_left] in *. eexists. split; [reflexivity|]. split; [reflexivity|].
      unfold after_ser. cbn [ss_s ss_at ss_saved]. rewrite app_nil_r. repeat split; auto.
  Qed.

  Lemma after_ser_len w w' ss lim : after_ser w w' ss -> List.length (ss_s ss) = lim -> c_psize (w_c w) = lim -> len_ok w'.
  Proof. intros A L P. unfold after_ser in A. unfold len_ok. destruct A as (A1 & _ & _ & A4 & _). rewrite A1, A4, L, P. reflexivity. Qed.

  (* the record appended *)
  Lemma record_HI w K cur e ts args cv sv pv :
    In e (d_erts d) -> args_ok e args cv sv pv ->
    HI d user cs_size w K cur -> c_open (w_c w) = true ->
    w_err (ser_parts d w (rec_parts d e ts args)) = false ->
    let w' := ser_parts d w (rec_parts d e ts args) in
    HI d user cs_size w' K (cur ++ [rec_spec d e ts cv sv pv]) /\ c_open (w_c w') = true /\
    c_in_ts (w_c w') = c_in_ts (w_c w) /\ c_enabled (w_c w') = c_enabled (w_c w) /\
    c_psize (w_c w') = c_psize (w_c w) /\ w_err w = false /\ c_at (w_c w) < c_at (w_c w') /\
    c_off_content (w_c w') = c_off_content (w_c w).
  Proof.
    intros Hin Hargs (H1 & H2 & H3 & H4 & H5 & H6 & H7 & H8 & H9 & H10 & H11) Hop He. cbv zeta.
    rewrite Hop in H11. destruct H11 as (tsb & hs & HC & CH & TS).
    rewrite (rec_parts_eq e ts args cv sv pv Hargs) in *.
    destruct Hargs as (O2 & O3 & O4 & _).
    pose proof (wf_ehv _ _ _ WF e ts Hin) as O1.
    rewrite !ser_parts_app in *.
    set (p1 := part (d_eh d) None (hdr_vals d e ts)) in *.
    set (p2 := part (d_cc d) (fst (eh_build d)) cv) in *.
    set (p3 := part (e_sc e) (fst (cc_build d)) sv) in *.
    set (p4 := part (e_p e) (fst (sc_build d e)) pv) in *.
    remember (ser_parts d w p1) as w1 eqn:W1.
    remember (ser_parts d w1 p2) as w2 eqn:W2.
    remember (ser_parts d w2 p3) as w3 eqn:W3.
    assert (E3 : w_err w3 = false).
    { destruct (w_err w3) eqn:X; [|reflexivity]. rewrite (ser_parts_err d w3 p4 X) in He. congruence. }
    assert (E2 : w_err w2 = false).
    { destruct (w_err w2) eqn:X; [|reflexivity]. rewrite W3, (ser_parts_err d w2 p3 X) in E3. congruence. }
    assert (E1 : w_err w1 = false).
    { destruct (w_err w1) eqn:X; [|reflexivity]. rewrite W2, (ser_parts_err d w1 p2 X) in E2. congruence. }
    unfold len_ok in H1.
    rewrite W1 in E1. destruct (part_ser w _ None _ O1 H1 E1) as (ss1 & S1 & V1 & A1).
    fold p1 in A1. rewrite <- W1 in A1.
    set (ss0 := mk_ss (c_s (w_c w)) (c_at (w_c w)) []) in *.
    set (lim := c_psize (w_c w)) in *.
    destruct (ser_opt_rt bo nk lim _ None _ ss0 ss1 O1 H1 S1) as (M1 & L1 & _).
    assert (P1 : c_psize (w_c w1) = lim) by (unfold after_ser in A1; tauto).
    pose proof (after_ser_len _ _ _ _ A1 L1 eq_refl) as Lw1.
    rewrite W2 in E2. destruct (part_ser w1 _ (fst (eh_build d)) _ O2 Lw1 E2) as (ss2 & S2 & V2 & A2).
    fold p2 in A2. rewrite <- W2 in A2.
    assert (X1 : mk_ss (c_s (w_c w1)) (c_at (w_c w1)) [] = ss1).
    { unfold after_ser in A1. destruct A1 as (-> & -> & _). apply mk_ss_eta. exact V1. }
    rewrite X1, P1 in S2.
    destruct (ser_opt_rt bo nk lim _ _ _ ss1 ss2 O2 L1 S2) as (M2 & L2 & _).
    assert (P2 : c_psize (w_c w2) = lim) by (unfold after_ser in A2; rewrite <- P1; tauto).
    pose proof (after_ser_len _ _ _ _ A2 L2 P1) as Lw2.
    rewrite W3 in E3. destruct (part_ser w2 _ (fst (cc_build d)) _ O3 Lw2 E3) as (ss3 & S3 & V3 & A3).
    fold p3 in A3. rewrite <- W3 in A3.
    assert (X2 : mk_ss (c_s (w_c w2)) (c_at (w_c w2)) [] = ss2).
    { unfold after_ser in A2. destruct A2 as (-> & -> & _). apply mk_ss_eta. exact V2. }
    rewrite X2, P2 in S3.
    destruct (ser_opt_rt bo nk lim _ _ _ ss2 ss3 O3 L2 S3) as (M3 & L3 & _).
    assert (P3 : c_psize (w_c w3) = lim) by (unfold after_ser in A3; rewrite <- P2; tauto).
    pose proof (after_ser_len _ _ _ _ A3 L3 P2) as Lw3.
    destruct (part_ser w3 _ (fst (sc_build d e)) _ O4 Lw3 He) as (ss4 & S4 & V4 & A4).
    fold p4 in A4.
    assert (X3 : mk_ss (c_s (w_c w3)) (c_at (w_c w3)) [] = ss3).
    { unfold after_ser in A3. destruct A3 as (-> & -> & _). apply mk_ss_eta. exact V3. }
    rewrite X3, P3 in S4.
    destruct (ser_opt_rt bo nk lim _ _ _ ss3 ss4 O4 L3 S4) as (M4 & L4 & _).
    (* reader *)
    destruct (scopes_rt bo nk lim _ _ _ _ _ _ _ _ _ _ _ _ ss0 ss1 ss2 ss3 ss4 O1 O2 O3 O4 H1 S1 S2 S3 S4)
      as (M & L & G & _).
    pose proof (record_decode d e nk lim _ _ _ _ _ cv sv pv ss0 ss1 ss2 ss3 ss4 (wf_ids _ _ _ WF) Hin
                  (wf_hid _ _ _ WF e ts Hin) O1 O2 O3 O4 H1 S1 S2 S3 S4) as RD.
    cbn [ss_at ss_s ss0] in M, G, RD.
    (* strictly positive size *)
    assert (Hpos : c_at (w_c w) < ss_at ss4).
    { pose proof (wf_pos _ _ _ WF) as Wp. rewrite forallb_forall in Wp. specialize (Wp e Hin).
      cbn [ss_at ss0] in M1.
      rewrite !orb_true_iff in Wp. destruct Wp as [[[Wp|Wp]|Wp]|Wp].
      - enough (ss_at ss0 < ss_at ss1) by (cbn [ss_at ss0] in *; lia).
        unfold pos_o, ser_opt, ok_opt in *. destruct (d_eh d) as [s|]; [|discriminate]. destruct O1 as [Q1 Q2].
        eapply ser_struct_pos; eauto.
      - enough (ss_at ss1 < ss_at ss2) by lia.
        unfold pos_o, ser_opt, ok_opt in *. destruct (d_cc d) as [s|]; [|discriminate]. destruct O2 as [Q1 Q2].
        eapply ser_struct_pos; eauto.
      - enough (ss_at ss2 < ss_at ss3) by lia.
        unfold pos_o, ser_opt, ok_opt in *. destruct (e_sc e) as [s|]; [|discriminate]. destruct O3 as [Q1 Q2].
        eapply ser_struct_pos; eauto.
      - enough (ss_at ss3 < ss_at ss4) by lia.
        unfold pos_o, ser_opt, ok_opt in *. destruct (e_p e) as [s|]; [|discriminate]. destruct O4 as [Q1 Q2].
        eapply ser_struct_pos; eauto. }
    (* collect the world equalities *)
    unfold after_ser in A1, A2, A3, A4.
    destruct A1 as (_ & _ & B1v & _ & _ & B1o & B1d & B1q & B1n & B1i & B1e & _ & _ & B1r & _ & B1g & B1l & _ & B1x).
    destruct A2 as (_ & _ & B2v & _ & _ & B2o & B2d & B2q & B2n & B2i & B2e & _ & _ & B2r & _ & B2g & B2l & _ & _).
    destruct A3 as (_ & _ & B3v & _ & _ & B3o & B3d & B3q & B3n & B3i & B3e & _ & _ & B3r & _ & B3g & B3l & _ & _).
    destruct A4 as (B4s & B4a & B4v & B4p & _ & B4o & B4d & B4q & B4n & B4i & B4e & _ & _ & B4r & _ & B4g & B4l & _ & _).
    rewrite V1, app_nil_r in B1v. rewrite V2, app_nil_r in B2v. rewrite V3, app_nil_r in B3v. rewrite V4, app_nil_r in B4v.
    pose proof (chain_le _ _ _ _ _ CH) as Hoa.
    split; [|repeat split; try congruence; rewrite B4a; exact Hpos].
    unfold HI, len_ok. rewrite B4s, B4p, P3, B4a.
    replace (w_pcargs (ser_parts d w3 p4)) with (w_pcargs w) by congruence.
    replace (w_or (ser_parts d w3 p4)) with (w_or w) by congruence.
    replace (obs (w_log (ser_parts d w3 p4))) with (obs (w_log w)) by congruence.
    replace (c_disc (w_c (ser_parts d w3 p4))) with (c_disc (w_c w)) by congruence.
    replace (c_seq (w_c (ser_parts d w3 p4))) with (c_seq (w_c w)) by congruence.
    replace (c_open (w_c (ser_parts d w3 p4))) with (c_open (w_c w)) by congruence.
    replace (c_off_content (w_c (ser_parts d w3 p4))) with (c_off_content (w_c w)) by congruence.
    rewrite Hop. repeat split; auto.
    exists tsb, hs. split; [|split].
    3:{ unfold ts_ok in *. replace (obs (w_log (ser_parts d w3 p4))) with (obs (w_log w)) by congruence. exact TS. }
    - eapply hdr_ctx_ok_frame; [..|exact HC]; try congruence.
      + intros p Hp. rewrite B4s. apply G. lia.
      + rewrite B4p. exact P3.
    - eapply chain_app.
      + eapply chain_agree; [exact CH|]. intros p Hp. apply G. lia.
      + cbn [chain]. exists (ss_at ss4). split; [exact Hpos|]. split; [lia|]. split; [|reflexivity].
        intros s'' lim' Hag Hl. unfold rec_spec. cbn [fst snd]. apply RD; auto.
  Qed.
End R.
