(* C03 at the tracer level: every tracing call increments the discarded counter at most once, does
   so exactly when its reservation fails, and a reservation fails only because the record exceeds
   the capacity test `packet_size - off_content` or because is_backend_full just answered true. *)
From Coq Require Import List Arith Bool ZArith String Lia PeanoNat.
Import ListNotations.
From BT.Base Require Import Bits.
From BT.Layout Require Import Model.
From BT.Tracer Require Import Model Lemmas Spec FlagProofs ProtocolProofs.

(* k discards logged between two worlds *)
Definition nd (w w' : world) (k : nat) : Prop :=
  exists seg, w_log w' = w_log w ++ seg /\ ndisc seg = k.

Lemma nd_refl w : nd w w 0.
Proof. exists []. rewrite app_nil_r. auto. Qed.
Lemma nd_trans w1 w2 w3 a b : nd w1 w2 a -> nd w2 w3 b -> nd w1 w3 (a + b).
Proof.
  intros [s1 [E1 N1]] [s2 [E2 N2]]. exists (s1 ++ s2). split.
  - rewrite E2, E1, app_assoc. reflexivity.
  - rewrite ndisc_app. lia.
Qed.
Lemma nd_eq_log w1 w2 w2' k : w_log w2' = w_log w2 -> nd w1 w2 k -> nd w1 w2' k.
Proof. intros H [s [E N]]. exists s. rewrite H. auto. Qed.
Lemma nd_eq_log_l w1 w1' w2 k : w_log w1' = w_log w1 -> nd w1' w2 k -> nd w1 w2 k.
Proof. intros H [s [E N]]. exists s. rewrite <- H. auto. Qed.

Lemma midok_ndisc b seg : Forall (midok b) seg -> ndisc seg = 0.
Proof.
  induction 1 as [|e l He _ IH]; [reflexivity|].
  change (e :: l) with ([e] ++ l). rewrite ndisc_app, IH.
  destruct e; cbn in He; try contradiction; try reflexivity; destruct He; reflexivity.
Qed.
Lemma lowok_midok b e : lowok b e -> midok b e.
Proof. destruct e; cbn; auto. Qed.

Lemma nd_open_cb d w : nd w (open_cb d w) 0.
Proof.
  destruct (open_cb_shape d (c_in_ts (w_c w)) w eq_refl) as [_ [seg [E F]]].
  exists (ECb 1 (c_in_ts (w_c w)) (c_open (w_c w)) :: seg). split; [exact E|].
  change (ECb 1 (c_in_ts (w_c w)) (c_open (w_c w)) :: seg) with ([ECb 1 (c_in_ts (w_c w)) (c_open (w_c w))] ++ seg).
  rewrite ndisc_app. rewrite (midok_ndisc (c_in_ts (w_c w)) seg); [reflexivity|].
  eapply Forall_impl; [|exact F]. intros; apply lowok_midok; assumption.
Qed.
Lemma nd_close_cb d w : nd w (close_cb d w) 0.
Proof.
  destruct (close_cb_shape d (c_in_ts (w_c w)) w eq_refl) as [_ [seg [E F]]].
  exists (ECb 2 (c_in_ts (w_c w)) (c_open (w_c w)) :: seg). split; [exact E|].
  change (ECb 2 (c_in_ts (w_c w)) (c_open (w_c w)) :: seg) with ([ECb 2 (c_in_ts (w_c w)) (c_open (w_c w))] ++ seg).
  rewrite ndisc_app. rewrite (midok_ndisc (c_in_ts (w_c w)) seg F). reflexivity.
Qed.
Lemma nd_with_use_ts f w k : (forall x, nd x (f x) k) -> nd w (with_use_ts f w) k.
Proof.
  intros Hf. unfold with_use_ts.
  eapply nd_eq_log; [|eapply nd_eq_log_l; [|apply Hf]]; up; reflexivity.
Qed.
Lemma nd_full_cb w : nd w (snd (full_cb w)) 0.
Proof. rewrite full_cb_eq. prj. eexists. split; reflexivity. Qed.
Lemma nd_no_space w : nd w (snd (no_space w)) 1.
Proof. rewrite no_space_eq. prj. eexists. split; reflexivity. Qed.
Lemma nd_fail w c : nd w (fail w c) 0.
Proof. unfold fail; prj. eexists. split; reflexivity. Qed.

Lemma reserve2_nd d n w : nd w (snd (reserve2 d n w)) (if fst (reserve2 d n w) then 0 else 1).
Proof.
  unfold reserve2.
  destruct (gt_diff32 n (c_psize (w_c w)) (c_at (w_c w))); [|apply nd_refl].
  cbv zeta.
  set (w1 := with_use_ts (close_cb d) w).
  assert (N1 : nd w w1 0) by (apply nd_with_use_ts; intros; apply nd_close_cb).
  assert (N2 : nd w (snd (full_cb w1)) 0) by (apply (nd_trans _ _ _ 0 0 N1), nd_full_cb).
  destruct (fst (full_cb w1)).
  - rewrite no_space_eq. cbn [fst snd].
    apply (nd_trans _ _ _ 0 1 N2). pose proof (nd_no_space (snd (full_cb w1))) as X.
    rewrite no_space_eq in X. exact X.
  - set (w2 := with_use_ts (open_cb d) (snd (full_cb w1))).
    assert (N3 : nd w w2 0) by (apply (nd_trans _ _ _ 0 0 N2); apply nd_with_use_ts; intros; apply nd_open_cb).
    destruct (gt_diff32 n (c_psize (w_c w2)) (c_at (w_c w2))); cbn [fst snd].
    + apply (nd_trans _ _ _ 0 1 N3). pose proof (nd_no_space w2) as X. exact X.
    + exact N3.
Qed.

Theorem reserve_nd d w n : nd w (snd (reserve d w n)) (if fst (reserve d w n) then 0 else 1).
Proof.
  rewrite reserve_eq. unfold reserve'.
  destruct (gt_diff32 n (c_psize (w_c w)) (c_off_content (w_c w))).
  - rewrite no_space_eq. cbn [fst snd]. pose proof (nd_no_space w) as X. rewrite no_space_eq in X. exact X.
  - destruct (c_at (w_c w) =? c_psize (w_c w)); [|apply reserve2_nd].
    destruct (fst (full_cb w)).
    + rewrite no_space_eq. cbn [fst snd].
      apply (nd_trans _ _ _ 0 1 (nd_full_cb w)). pose proof (nd_no_space (snd (full_cb w))) as X.
      rewrite no_space_eq in X. exact X.
    + set (w1 := with_use_ts (open_cb d) (snd (full_cb w))).
      assert (N1 : nd w w1 0).
      { apply (nd_trans _ _ _ 0 0 (nd_full_cb w)). apply nd_with_use_ts. intros; apply nd_open_cb. }
      pose proof (reserve2_nd d n w1) as N2.
      destruct (fst (reserve2 d n w1)); apply (nd_trans _ _ _ 0 _ N1 N2).
Qed.

(* why a reservation fails *)
Lemma full_true_log w : fst (full_cb w) = true ->
  exists l, w_log (snd (no_space (snd (full_cb w)))) = l ++ [EAns true; EDisc].
Proof.
  intros H. rewrite no_space_eq, full_cb_eq in *. prj. rewrite H.
  exists (w_log w ++ [ECb 0 (c_in_ts (w_c w)) (c_open (w_c w))]).
  rewrite <- !app_assoc. reflexivity.
Qed.

(* the world right after the re-opening inside a packet switch: inside a tracing section a packet
   is open and empty there (at = off_content), also on an eager platform *)
Lemma wu_pk f w :
  let x := f (set_c w (set_use_ts (w_c w) true)) in
  c_open (w_c (with_use_ts f w)) = c_open (w_c x) /\ c_at (w_c (with_use_ts f w)) = c_at (w_c x) /\
  c_off_content (w_c (with_use_ts f w)) = c_off_content (w_c x) /\
  c_in_ts (w_c (with_use_ts f w)) = c_in_ts (w_c x).
Proof. cbv zeta. repeat split. Qed.

Lemma switch_reopened d w2 :
  c_in_ts (w_c w2) = true ->
  let w' := with_use_ts (open_cb d) (snd (full_cb (with_use_ts (close_cb d) w2))) in
  c_open (w_c w') = true /\ c_at (w_c w') = c_off_content (w_c w').
Proof.
  intros Hi. cbv zeta.
  set (w2' := set_c w2 (set_use_ts (w_c w2) true)).
  assert (Hi2 : c_in_ts (w_c w2') = true) by exact Hi.
  set (w3 := with_use_ts (close_cb d) w2).
  destruct (wu_pk (close_cb d) w2) as (P1 & P2 & P3 & P4). fold w2' w3 in P1, P2, P3, P4.
  assert (I3 : c_in_ts (w_c w3) = true) by (rewrite P4; apply (close_cb_blk d true w2' Hi2)).
  assert (S3 : c_open (w_c w3) = false \/ (c_open (w_c w3) = true /\ c_at (w_c w3) = c_off_content (w_c w3))).
  { rewrite P1, P2, P3.
    destruct (close_cb_dec d w2') as [[O [_ [_ [_ X]]]]|[[_ [O _]]|[_ [_ [O A]]]]].
    - left. rewrite O. apply X, Hi2.
    - left. exact O.
    - right. auto. }
  destruct (full_cb_pk w3) as [O4 [I4 _]]. set (w4 := snd (full_cb w3)) in *.
  assert (A4 : c_at (w_c w4) = c_at (w_c w3) /\ c_off_content (w_c w4) = c_off_content (w_c w3)).
  { unfold w4. rewrite full_cb_eq. prj. togs. auto. }
  destruct A4 as [A4 F4].
  set (w4' := set_c w4 (set_use_ts (w_c w4) true)).
  assert (Hi4 : c_in_ts (w_c w4') = true) by (change (c_in_ts (w_c w4) = true); congruence).
  destruct (wu_pk (open_cb d) w4) as (Q1 & Q2 & Q3 & _). fold w4' in Q1, Q2, Q3.
  rewrite Q1, Q2, Q3.
  destruct (open_cb_dec d w4') as [[O [A [_ [F X]]]]|[_ [O [A _]]]].
  - specialize (X Hi4).
    change (c_open (w_c w4')) with (c_open (w_c w4)) in *.
    change (c_at (w_c w4')) with (c_at (w_c w4)) in *.
    change (c_off_content (w_c w4')) with (c_off_content (w_c w4)) in *.
    destruct S3 as [S3|[_ S3]]; [congruence|]. split; congruence.
  - auto.
Qed.

(* why a reservation fails: the record exceeds the capacity test, or is_backend_full just answered
   "full", or (since the repair of S18) the record does not fit the packet just opened by the packet
   switch - an EMPTY packet (position = off_content) whose buffer the platform chose *)
Theorem reserve_false_reason d w n : fst (reserve d w n) = false ->
  gt_diff32 n (c_psize (w_c w)) (c_off_content (w_c w)) = true \/
  (exists l, w_log (snd (reserve d w n)) = l ++ [EAns true; EDisc]) \/
  (exists w1 w',
      fst (full_cb w1) = false /\ w' = with_use_ts (open_cb d) (snd (full_cb w1)) /\
      w_log (snd (reserve d w n)) = w_log w' ++ [EDisc] /\
      gt_diff32 n (c_psize (w_c w')) (c_at (w_c w')) = true /\
      (c_in_ts (w_c w) = true -> c_open (w_c w') = true /\ c_at (w_c w') = c_off_content (w_c w'))).
Proof.
  rewrite reserve_eq. unfold reserve', reserve2.
  destruct (gt_diff32 n (c_psize (w_c w)) (c_off_content (w_c w))); [auto|]. intros H. right.
  assert (R2 : forall w2, (c_in_ts (w_c w) = true -> c_in_ts (w_c w2) = true) ->
    fst (reserve2 d n w2) = false ->
    (exists l, w_log (snd (reserve2 d n w2)) = l ++ [EAns true; EDisc]) \/
    (exists w1 w',
      fst (full_cb w1) = false /\ w' = with_use_ts (open_cb d) (snd (full_cb w1)) /\
      w_log (snd (reserve2 d n w2)) = w_log w' ++ [EDisc] /\
      gt_diff32 n (c_psize (w_c w')) (c_at (w_c w')) = true /\
      (c_in_ts (w_c w) = true -> c_open (w_c w') = true /\ c_at (w_c w') = c_off_content (w_c w')))).
  { intros w2 Hi2. unfold reserve2.
    destruct (gt_diff32 n (c_psize (w_c w2)) (c_at (w_c w2))); [|cbn [fst]; intros X; discriminate X].
    cbv zeta. set (w3 := with_use_ts (close_cb d) w2) in *.
    destruct (fst (full_cb w3)) eqn:F2; [intros _; left; apply full_true_log; exact F2|].
    match goal with |- fst (if ?c then _ else _) = false -> _ => destruct c eqn:G end;
      [|cbn [fst]; intros X; discriminate X]. intros _. right.
    exists w3, (with_use_ts (open_cb d) (snd (full_cb w3))).
    split; [exact F2|]. split; [reflexivity|]. split; [reflexivity|]. split; [exact G|].
    intros Hi. apply switch_reopened, Hi2, Hi. }
  destruct (c_at (w_c w) =? c_psize (w_c w)).
  - destruct (fst (full_cb w)) eqn:F; [left; apply full_true_log; exact F|].
    apply R2; [|exact H]. intros Hi.
    rewrite (proj2 (proj2 (proj2 (wu_pk (open_cb d) (snd (full_cb w)))))).
    match goal with |- c_in_ts (w_c (open_cb d ?x)) = true => apply (open_cb_blk d true x) end.
    change (c_in_ts (w_c (snd (full_cb w))) = true). rewrite full_cb_eq. prj. togs. exact Hi.
  - apply R2; [auto|exact H].
Qed.

(* the remaining stages of a tracing call log no discard *)
Lemma nd_do_ser d w o v : nd w (do_ser d w o v) 0.
Proof. rewrite do_ser_eq. destruct (ser _ _ _ _ _ _); prj; eexists; split; reflexivity. Qed.
Lemma nd_ser_parts d ps : forall w, nd w (ser_parts d w ps) 0.
Proof.
  unfold ser_parts. induction ps as [|p ps IH]; intros w; cbn [fold_left]; [apply nd_refl|].
  apply (nd_trans w (if w_err w then w else do_ser d w (fst p) (snd p)) _ 0 0); [|apply IH].
  destruct (w_err w); [apply nd_refl|apply nd_do_ser].
Qed.
Lemma nd_logev w e : e <> EDisc -> nd w (logev w e) 0.
Proof. intros H. unfold logev; prj. exists [e]. split; [reflexivity|]. destruct e; try reflexivity. contradiction. Qed.

Lemma nd_trace_entry d w : nd w (trace_entry d w) 0.
Proof.
  unfold trace_entry. destruct (d_has_clock d); [|apply nd_refl].
  rewrite clock_cb_eq. up. eexists. split; reflexivity.
Qed.

Theorem trace_fn_nd d e args w :
  exists k, nd w (trace_fn d e args w) k /\ k <= 1.
Proof.
  rewrite trace_fn_eq. pose proof (nd_trace_entry d w) as N0.
  destruct (negb _); [exists 0; split; [exact N0|lia]|].
  unfold trace_body. set (w0 := trace_entry d w) in *.
  set (w0' := set_c w0 (set_in_ts (w_c w0) true)).
  assert (N0' : nd w w0' 0) by (eapply nd_eq_log; [|exact N0]; unfold w0'; up; reflexivity).
  destruct (size_parts _ _) as [ae|].
  - cbv zeta. pose proof (reserve_nd d w0' (ae - c_at (w_c w0))) as N1.
    destruct (fst (reserve d w0' (ae - c_at (w_c w0)))); cbn [negb].
    + set (w1 := snd (reserve d w0' _)) in *.
      destruct (w_err w1); [exists 0; split; [apply (nd_trans _ _ _ 0 0 N0' N1)|lia]|].
      match goal with |- context [trace_recheck d e args ?a ?x] =>
        destruct (trace_recheck_cases d e args a x) as [Crc|[Crc|(_ & a2 & _ & _ & Crc)]]; rewrite Crc; cbn [fst snd negb] end.
      2:{ exists 0. split; [|lia]. apply (nd_trans _ _ _ 0 0 (nd_trans _ _ _ 0 0 N0' N1)), nd_fail. }
      2:{ exists 1. split; [|lia]. unfold recheck_discard.
          eapply nd_eq_log; [|apply (nd_trans _ _ _ 0 1 (nd_trans _ _ _ 0 0 N0' N1)), nd_no_space].
          reflexivity. }
      unfold trace_ser, trace_mark, trace_commit. cbv zeta.
      set (w1' := if _ && _ then logev w1 _ else w1).
      assert (N2 : nd w w1' 0).
      { apply (nd_trans w w1 _ 0 0); [apply (nd_trans _ _ _ 0 0 N0' N1)|].
        unfold w1'. destruct (_ && _); [apply nd_logev; discriminate|apply nd_refl]. }
      set (w2 := ser_parts d w1' _).
      assert (N3 : nd w w2 0) by (apply (nd_trans _ _ _ 0 0 N2), nd_ser_parts).
      destruct (w_err w2); [exists 0; split; [exact N3|lia]|].
      exists 0. split; [|lia].
      apply (nd_eq_log w (if c_at (w_c w2) =? c_psize (w_c w2) then close_cb d w2 else w2)); [up; reflexivity|].
      destruct (_ =? _); [apply (nd_trans _ _ _ 0 0 N3), nd_close_cb|exact N3].
    + exists 1. split; [|lia].
      eapply nd_eq_log; [|apply (nd_trans _ _ _ 0 1 N0' N1)]. up. reflexivity.
  - exists 0. split; [|lia]. apply (nd_trans _ _ _ 0 0 N0'), nd_fail.
Qed.

(* the discard introduced by the repair of S9: after a successful reservation the call is abandoned
   (without error) only when the reservation moved the position - a packet switch - and the record,
   sized again at the new position, does not fit the space left in the packet; it is then discarded
   and counted exactly once *)
Theorem recheck_false_reason d e args at0 w :
  fst (trace_recheck d e args at0 w) = false -> w_err (snd (trace_recheck d e args at0 w)) = false ->
  c_at (w_c w) <> at0 /\
  (exists a2, size_parts (rec_parts d e 0%Z args) (c_at (w_c w)) = Some a2 /\
              gt_diff32 (a2 - c_at (w_c w)) (c_psize (w_c w)) (c_at (w_c w)) = true) /\
  w_log (snd (trace_recheck d e args at0 w)) = w_log w ++ [EDisc] /\
  c_disc (w_c (snd (trace_recheck d e args at0 w))) = S (c_disc (w_c w)) /\
  c_in_ts (w_c (snd (trace_recheck d e args at0 w))) = false.
Proof.
  destruct (trace_recheck_cases d e args at0 w) as [C|[C|(Ha & a2 & Hs & G & C)]]; rewrite C; cbn [fst snd].
  - discriminate.
  - intros _ X. discriminate X.
  - intros _ _. split; [exact Ha|]. split; [exists a2; auto|]. repeat split.
Qed.

Theorem recheck_nd d e args at0 w :
  w_err (snd (trace_recheck d e args at0 w)) = false ->
  nd w (snd (trace_recheck d e args at0 w)) (if fst (trace_recheck d e args at0 w) then 0 else 1).
Proof.
  destruct (trace_recheck_cases d e args at0 w) as [C|[C|(Ha & a2 & Hs & G & C)]]; rewrite C; cbn [fst snd].
  - intros _. apply nd_refl.
  - intros X. discriminate X.
  - intros _. unfold recheck_discard. eapply nd_eq_log; [|apply nd_no_space]. reflexivity.
Qed.
