(* Meaning of the regenerated <prefix>init (Gen/CSkelFuns.v fn_init: straight-line assignments) on the
   contexts of Tracer/Model.v, and the theorem that makes S10 of DESIGN.md explicit: barectf_init sets every
   field of the context EXCEPT content_size and off_content (and the per-stream saved timestamp / offsets,
   which live in the stream-specific structure); on zero-filled context memory it gives Model.init_ctx.
   `ctx->cbs = cbs`, `ctx->data = data` are no-ops on the model (the platform is the oracle of the world);
   `ctx->buf = buf` installs a zero-filled buffer of buf_size bytes. *)
From Coq Require Import List Arith Bool ZArith String.
Import ListNotations.
From BT.Base Require Import Bits.
From BT.Layout Require Import Model.
From BT.Tracer Require Import Model CSkel.
From BT.Gen Require Import CSkelFuns.
Local Open Scope string_scope.

Definition i_assign (bytes : nat) (c : ctx) (f : string) (x : cexp) : option ctx :=
  let num := match x with XConst n => Some n | XB2b (XParam "buf_size") => Some (8 * bytes) | _ => None end in
  if String.eqb f "cbs" || String.eqb f "data" then Some c
  else if String.eqb f "buf" then
    match x with XParam "buf" => Some (upd_at c (zeros (8 * bytes)) (c_at c)) | _ => None end
  else match num with
  | None => None
  | Some n =>
    let b := negb (Nat.eqb n 0) in
    if String.eqb f "packet_size" then
      Some (mk_ctx (c_s c) n (c_at c) (c_content c) (c_off_content c) (c_disc c) (c_seq c) (c_open c) (c_in_ts c)
                   (c_enabled c) (c_use_ts c) (c_last_ts c) (c_saved c))
    else if String.eqb f "at" then Some (upd_at c (c_s c) n)
    else if String.eqb f "events_discarded" then
      Some (mk_ctx (c_s c) (c_psize c) (c_at c) (c_content c) (c_off_content c) n (c_seq c) (c_open c) (c_in_ts c)
                   (c_enabled c) (c_use_ts c) (c_last_ts c) (c_saved c))
    else if String.eqb f "sequence_number" then
      Some (mk_ctx (c_s c) (c_psize c) (c_at c) (c_content c) (c_off_content c) (c_disc c) n (c_open c) (c_in_ts c)
                   (c_enabled c) (c_use_ts c) (c_last_ts c) (c_saved c))
    else if String.eqb f "packet_is_open" then
      Some (mk_ctx (c_s c) (c_psize c) (c_at c) (c_content c) (c_off_content c) (c_disc c) (c_seq c) b (c_in_ts c)
                   (c_enabled c) (c_use_ts c) (c_last_ts c) (c_saved c))
    else if String.eqb f "in_tracing_section" then Some (set_in_ts c b)
    else if String.eqb f "is_tracing_enabled" then Some (set_enabled c b)
    else if String.eqb f "use_cur_last_event_ts" then Some (set_use_ts c b)
    else None
  end.

Fixpoint i_run (bytes : nat) (body : list cstmt) (c : ctx) : option ctx :=
  match body with
  | [] => Some c
  | SAssign f x :: r => match i_assign bytes c f x with Some c => i_run bytes r c | None => None end
  | _ => None
  end.

(* every field but content_size / off_content (and the stream-specific saved timestamp / offsets) *)
Theorem skel_init bytes c :
  i_run bytes (cf_body fn_init) c =
  Some (mk_ctx (zeros (8 * bytes)) (8 * bytes) 0 (c_content c) (c_off_content c) 0 0 false false true false
               (c_last_ts c) (c_saved c)).
Proof. reflexivity. Qed.

(* on zero-filled context memory: the model's initial context *)
Corollary skel_init_zeroed bytes c :
  c_content c = 0 -> c_off_content c = 0 -> c_last_ts c = 0%Z -> c_saved c = [] ->
  i_run bytes (cf_body fn_init) c = Some (init_ctx bytes).
Proof. intros H1 H2 H3 H4. rewrite skel_init, H1, H2, H3, H4. reflexivity. Qed.

(* S10: the two fields barectf_init leaves alone really are left alone (a context whose memory was not
   zeroed keeps whatever off_content it had) *)
Example skel_init_keeps_off_content :
  forall c, match i_run 16 (cf_body fn_init) c with
            | Some c' => c_off_content c' = c_off_content c /\ c_content c' = c_content c
            | None => False end.
Proof. intros c. rewrite skel_init. split; reflexivity. Qed.
