(* C16 — the in-tracing-section flag brackets every modification.
   Model: Tracer/Model.v (executable model of barectf.c.j2, validated against the compiled generated
   C by the correspondence harness).  Proofs: Tracer/FlagProofs.v.  Everything below holds for ALL
   configurations d, ALL oracles, ALL histories; no hypothesis.
   Proved in full:
     (a) C16_stores_in_section      every store into the packet buffer happens with flag = 1
     (b) C16_callbacks_in_section   in the log segment of one tracing call, after the entry clock
                                    sample (taken by the C before it sets the flag), every callback
                                    entry (is_backend_full, open, close, clock) and every store has
                                    flag = 1;  C16_callbacks_in_section_tl: same, "all but the first
                                    event of the segment"
     (c) C16_flag_clear_after_call  after every public call that did not hit a model error the flag
                                    and use_cur_last_event_ts are 0
     C16_open_close_fn_preserve_flag  open_fn / close_fn return with the flag value they were
                                    called with (all worlds)
   The model includes "eager" platforms whose close callback opens the next packet itself
   (a_eager): all statements cover them. *)
From Coq Require Import List Arith Bool ZArith String.
Import ListNotations.
From BT.Base Require Import Bits.
From BT.Layout Require Import Model.
From BT.Tracer Require Import Model Lemmas FlagProofs Examples.

Theorem C16_stores_in_section :
  forall d buf pcargs oracle h f,
    In (EStore f) (w_log (run d buf pcargs oracle h)) -> f = true.
Proof. exact stores_in_section. Qed.
Print Assumptions C16_stores_in_section.

Theorem C16_callbacks_in_section :
  forall d e args w,
  exists rest,
    w_log (trace_fn d e args w) =
      (w_log w
      ++ (if d_has_clock d
          then [ECb 3 (c_in_ts (w_c w)) (c_open (w_c w));
                ESample ((w_clk w + Z.of_nat (a_inc (hd default_ans (w_or w))))
                           mod 2 ^ Z.of_nat (d_clock_bits d))%Z]
          else [])
      ++ rest)%list /\
    Forall (fun e => match e with
                     | EStore f => f = true
                     | ECb _ f _ => f = true
                     | ERet _ => False
                     | _ => True
                     end) rest.
Proof. exact trace_fn_segment. Qed.
Print Assumptions C16_callbacks_in_section.

Theorem C16_callbacks_in_section_tl :
  forall d e args w,
  exists seg,
    w_log (trace_fn d e args w) = (w_log w ++ seg)%list /\
    Forall (fun e => match e with ECb _ f _ => f = true | _ => True end) (tl seg).
Proof. exact trace_fn_segment_tl. Qed.
Print Assumptions C16_callbacks_in_section_tl.

(* the opening and closing FUNCTIONS give the flag back as they found it, for every world (called
   by the platform outside a tracing call: 0 -> 0; called from inside a tracing call, directly by
   the platform's callbacks, also on an "eager" double-buffering platform: 1 -> 1), on every path
   (disabled, already open / not open, effective) *)
Theorem C16_open_close_fn_preserve_flag :
  forall d w,
    c_in_ts (w_c (open_fn d w)) = c_in_ts (w_c w) /\
    c_in_ts (w_c (close_fn d w)) = c_in_ts (w_c w).
Proof. exact (fun d w => conj (open_fn_flag d w) (close_fn_flag d w)). Qed.
Print Assumptions C16_open_close_fn_preserve_flag.

Theorem C16_flag_clear_after_call :
  forall d buf pcargs oracle h,
    w_err (run d buf pcargs oracle h) = false ->
    c_in_ts (w_c (run d buf pcargs oracle h)) = false /\
    c_use_ts (w_c (run d buf pcargs oracle h)) = false.
Proof. exact flag_clear_after_call. Qed.
Print Assumptions C16_flag_clear_after_call.

(* non-vacuity: a 12-call history with a packet switch inside a tracing call runs without model
   error, logs 22 stores and tracer-initiated full / open / close callbacks *)
Example C16_example :
  w_err ex_w = false /\
  List.length (filter (fun e => match e with EStore _ => true | _ => false end) (w_log ex_w)) = 22 /\
  existsb (fun e => match e with ECb 0 true _ => true | _ => false end) (w_log ex_w) = true /\
  existsb (fun e => match e with ECb 1 true _ => true | _ => false end) (w_log ex_w) = true /\
  existsb (fun e => match e with ECb 2 true _ => true | _ => false end) (w_log ex_w) = true.
Proof. vm_compute. repeat split; reflexivity. Qed.

(* non-vacuity for eager platforms: in this run the close callback of a packet switch opens the
   next packet itself, so the tracer's open callback - hence the opening function - runs on an
   already open packet INSIDE a tracing call (`ECb 1 true true`); the call still ends with the flag
   cleared and all stores carry flag = 1 *)
Example C16_example_eager :
  let w := run ex_d2 17 [] (repeat default_ans 7 ++ [mk_ans false None None 1 true])%list
               [COpen; CTrace 0 []; CTrace 0 []; CTrace 0 []; CTrace 0 []; CTrace 0 []] in
  w_err w = false /\ In (ECb 1 true true) (w_log w) /\ c_in_ts (w_c w) = false /\ c_open (w_c w) = true /\
  forallb (fun e => match e with EStore f => f | _ => true end) (w_log w) = true.
Proof.
  cbv zeta. split; [vm_compute; reflexivity|].
  split; [vm_compute; repeat (first [left; reflexivity | right])|].
  vm_compute. repeat split; reflexivity.
Qed.

(* ------------------------------------------------------------------ tie by translation: the tracing function *)
(* The public tracing function <prefix><dst>_trace_<ert> as REGENERATED from the template text of
   barectf.c.j2 on every run (tools/c2coq.py -> Gen/CSkelFuns.v fn_trace), run by the semantics of
   Tracer/CSkelTrace.v, is Model.trace_fn for every data stream type, event record type, argument
   list and world: in particular where the in-tracing-section flag is raised (right after the enabled test, before any size computation or store) and lowered (after the commit, and on each discard path) -
   is what the theorems of this file speak about.  An edit of that template breaks this theorem or
   the fail-closed translator before any differential run. *)
From BT.Tracer Require Import CSkel CSkelTrace CSkelTraceProofs.
From BT.Gen Require Import CSkelFuns.
Theorem C16_trace_fn_is_the_translated_C :
  forall d e args w, run_trace d skel_funs e args fn_trace w = Some (trace_fn d e args w).
Proof. exact skel_trace. Qed.
Print Assumptions C16_trace_fn_is_the_translated_C.

(* ------------------------------------------------------------------ tie by translation: opening / closing functions *)
(* <prefix><dst>_open_packet / _close_packet as REGENERATED from the template text of barectf.c.j2 on every
   run (tools/c2coq.py -> Gen/CSkelFuns.v fn_open, fn_close; the serialization of the header / context
   operation trees and the three write-back blocks are single abstract statements, tied by the operation
   tree capture and the differential runs), run by the semantics of Tracer/CSkelOC.v, are Model.open_fn /
   Model.close_fn for every data stream type and world: where the opening / closing functions save the in-tracing-section flag, raise it, and restore the SAVED value on every exit (0 only on the disabled-and-outside-a-tracing-call exit). *)
From BT.Tracer Require Import CSkel CSkelOC CSkelOCProofs.
From BT.Gen Require Import CSkelFuns.
Theorem C16_open_fn_is_the_translated_C : forall d w, run_oc d fn_open w = Some (open_fn d w).
Proof. exact skel_open. Qed.
Print Assumptions C16_open_fn_is_the_translated_C.
Theorem C16_close_fn_is_the_translated_C : forall d w, run_oc d fn_close w = Some (close_fn d w).
Proof. exact skel_close. Qed.
Print Assumptions C16_close_fn_is_the_translated_C.
