(* C04 - every packet given to the back end is a well-formed CTF packet (partial).

   Proved (tracer and layout models):
   * C04_header_roundtrip: the packet header structure (magic, UUID, data stream type id: no late
     field) written by the opening function is read back, from the generated TSDL alone, as the
     canonical form of the configured constants - instance of the C01 structure theorem;
   * C04_open_values: the opening function hands to the serializer packet_size = the context's
     packet size (8 x buffer size), packet_seq_num = the context's sequence number,
     timestamp_begin = the preamble's timestamp;
   * C04_counters (= C06_accessors): in every reachable world the sequence number is the number of
     packets handed to the back end so far (when the feature exists) and the discarded counter is
     the number of discards so far - so the values written are "packets previously closed" and
     "records discarded up to that closing";
   * C04_close_effective: an effective close records content size = the position where closing
     began, parks the position at packet_size, marks the packet closed and bumps the sequence
     number iff the feature exists;
   * C04_fill_position: a late field (content_size, timestamp_end, events_discarded) is skipped
     at the aligned offset which is saved, and the later write of the same operation from the
     saved offset stores exactly the value's bits at [saved, saved + size).
   * C04_history (whole histories, Tracer/History*.v): after EVERY history (same premises as
     C03_history) every packet handed to the back end is decoded by the packet-level CTF reader
     (TSDL-level information only) to its specification `spec_packet k`: the canonical packet header
     constants; the packet context = the opening-time values (packet_size = 8 x buffer size,
     packet_seq_num, timestamp_begin, user members) with the late members replaced by their
     closing-time values (content_size, timestamp_end, events_discarded), each reduced to its
     field size by the reader; the records of that packet.  The reader accepts a packet only when
     its record loop ends exactly at content_size <= total size.  The ghost description k of the
     i-th packet has k_seq = i (when the feature exists), k_disc = the number of discards logged
     before that packet was handed over (`snaps`), k_psize = the size announced to the platform.
   The tie of the model's packets to the compiled tracer's is the byte-identity check of every run. *)
From Coq Require Import List Arith Bool ZArith String.
Import ListNotations.
From BT.Base Require Import Bits BitsProofs.
From BT.Layout Require Import Model BuildProofs RoundTrip RecordProofs SizeProofs.
From BT.Tracer Require Import Model Lemmas Spec ProtocolProofs PacketProofs BoundsWitness Decode History
  HistoryRecord HistoryStep HistoryMain.

Theorem C04_header_roundtrip :
  forall bo nk lim (ph : sft), wf_sft ph = true ->
  forall st consts ss ss', List.length (ss_s ss) = lim -> members_ok [] (s_mems ph) consts ->
    ser bo nk lim (snd (build_root [] st ph)) (VArr consts) ss = Some ss' ->
    forall s'' lim', agree (ss_at ss) (ss_at ss') s'' (ss_s ss') -> ss_at ss' <= lim' ->
      dec_struct bo s'' lim' (tsdl_of_sft ph) (ss_at ss) = Some (canon_members (s_mems ph) consts, ss_at ss').
Proof.
  intros bo nk lim ph Hwf st consts ss ss' Hl Hok Hser.
  destruct (ser_struct_rt bo nk lim ph Hwf st consts ss ss' Hl Hok Hser) as (_ & _ & _ & _ & D). exact D.
Qed.
Print Assumptions C04_header_roundtrip.

Theorem C04_open_values :
  forall ms psize seq ts user,
    (existsb (fun m => String.eqb (fst m) "packet_size") ms = true ->
     val_of ms (pc_vals ms psize seq ts user) "packet_size" = Some (VInt (Z.of_nat psize))) /\
    (existsb (fun m => String.eqb (fst m) "packet_seq_num") ms = true ->
     val_of ms (pc_vals ms psize seq ts user) "packet_seq_num" = Some (VInt (Z.of_nat seq))) /\
    (existsb (fun m => String.eqb (fst m) "timestamp_begin") ms = true ->
     val_of ms (pc_vals ms psize seq ts user) "timestamp_begin" = Some (VInt ts)).
Proof.
  intros. split; [apply pc_vals_packet_size|split; [apply pc_vals_seq|apply pc_vals_ts_begin]].
Qed.
Print Assumptions C04_open_values.

Theorem C04_counters :
  forall d buf pcargs oracle h,
    let w := run d buf pcargs oracle h in
    c_seq (w_c w) = (if has_member (d_pc d) "packet_seq_num" then npk (w_log w) else 0) /\
    c_disc (w_c w) = ndisc (w_log w).
Proof. exact run_counts. Qed.
Print Assumptions C04_counters.

Theorem C04_close_effective :
  forall d w,
    let w1 := snd (preamble_ts d w (has_member (d_pc d) "timestamp_end")) in
    c_open (w_c w) = true -> (c_enabled (w_c w1) = true \/ c_in_ts (w_c w) = true) ->
    close_post d (w_c w1) (w_c (close_fn d w)).
Proof. exact close_effective. Qed.
Print Assumptions C04_close_effective.

Theorem C04_fill_position :
  forall bo nk lim al size off z s a sv,
  al_ok al ->
  (match off with Some k => k = align_up a al mod 8 | None => True end) ->
  ser bo nk lim (OBits al KSkip size off) (VInt 0) (mk_ss s a sv) =
    Some (mk_ss s (align_up a al + size) (sv ++ [align_up a al])) /\
  (align_up a al + size <= lim ->
   ser bo nk lim (OBits al KWrite size off) (VInt z) (mk_ss s (align_up a al) []) =
     Some (mk_ss (write_bits (align_up a al) (enc_int bo size z) s) (align_up a al + size) [])).
Proof. exact fill_position. Qed.
Print Assumptions C04_fill_position.

(* non-vacuity: a run in which the second record fills the packet exactly, so the tracer closes
   it (one packet handed over); the platform's later close is a no-op *)
Example C04_example :
  let w := run d_s9 24 [] [] [COpen; CTrace 0 [VArr [VInt 1]]; CTrace 1 [VArr [VInt 2]]; CClose] in
  w_err w = false /\ c_seq (w_c w) = 0 /\ npk (w_log w) = 1 /\ c_open (w_c w) = false.
Proof. vm_compute. repeat split. Qed.

(* whole histories: every packet handed over decodes to its specification *)
Theorem C04_history :
  forall d user cs_size, wf_d d user cs_size ->
  forall buf oracle h,
    fits cs_size (8 * buf) -> or_ok cs_size oracle -> Forall (call_ok d) h ->
    let w0 := mk_w (init_ctx buf) oracle 0%Z [] false user in
    let w1 := step d w0 COpen in
    c_open (w_c w1) = true -> inb_run d w1 h ->
    let w := run d buf user oracle (COpen :: h) in
    w_err w = false ->
    exists K, Forall2 (pkt_ok d user) (pkts (obs (w_log w))) K /\
              map k_disc K = snaps 0 (obs (w_log w)) /\
              map k_seq K = map (seqn d) (seq 0 (List.length K)).
Proof. exact history_packets. Qed.
Print Assumptions C04_history.

From BT.Tracer Require Import HistoryBounds.
Theorem C04_history_buffers :
  forall d user cs_size, wf_d d user cs_size ->
  forall buf oracle h,
    fits cs_size (8 * buf) -> or_ok cs_size oracle -> Forall (call_ok d) h ->
    let w0 := mk_w (init_ctx buf) oracle 0%Z [] false user in
    let w1 := step d w0 COpen in
    c_open (w_c w1) = true -> offb w1 -> offb_run d w1 h ->
    let w := run d buf user oracle (COpen :: h) in
    w_err w = false ->
    exists K, Forall2 (pkt_ok d user) (pkts (obs (w_log w))) K /\
              map k_disc K = snaps 0 (obs (w_log w)) /\
              map k_seq K = map (seqn d) (seq 0 (List.length K)).
Proof. exact history_packets_offb. Qed.
Print Assumptions C04_history_buffers.

(* ------------------------------------------------------------------ no error / in-bounds premise *)
(* C04_history with its premises `w_err = false` and `inb_run` DERIVED (Tracer/NoError.v, see
   Props/C02.v C02_no_error for the vocabulary) *)
From BT.Tracer Require Import NoError.
Theorem C04_history_full :
  forall d user cs_size, wf_d d user cs_size ->
  forall buf oracle h,
    fits cs_size (8 * buf) -> or_ok cs_size oracle -> bufs_ok d user buf oracle ->
    Forall (call_okf d) h ->
    let w0 := mk_w (init_ctx buf) oracle 0%Z [] false user in
    let w1 := step d w0 COpen in
    c_open (w_c w1) = true ->
    let w := run d buf user oracle (COpen :: h) in
    exists K, Forall2 (pkt_ok d user) (pkts (obs (w_log w))) K /\
              map k_disc K = snaps 0 (obs (w_log w)) /\
              map k_seq K = map (seqn d) (seq 0 (List.length K)).
Proof. exact history_packets_full. Qed.
Print Assumptions C04_history_full.

(* C05 on the decoded packets, same premises *)
Theorem C04_history_stamps_full :
  forall d user cs_size, wf_d d user cs_size ->
  forall buf oracle h,
    fits cs_size (8 * buf) -> or_ok cs_size oracle -> bufs_ok d user buf oracle ->
    Forall (call_okf d) h ->
    let w0 := mk_w (init_ctx buf) oracle 0%Z [] false user in
    let w1 := step d w0 COpen in
    c_open (w_c w1) = true ->
    let w := run d buf user oracle (COpen :: h) in
    c_open (w_c w) = false ->
    exists K, Forall2 (pkt_ok d user) (pkts (obs (w_log w))) K /\
              (has_tsb d = true -> map k_tsb K = stamps_of 0 (w_log w)) /\
              (has_tse d = true -> map k_tse K = stamps_of 1 (w_log w)).
Proof. exact history_stamps_full. Qed.
Print Assumptions C04_history_stamps_full.

(* ------------------------------------------------------------------ tie by translation: opening / closing functions *)
(* <prefix><dst>_open_packet / _close_packet as REGENERATED from the template text of barectf.c.j2 on every
   run (tools/c2coq.py -> Gen/CSkelFuns.v fn_open, fn_close; the serialization of the header / context
   operation trees and the three write-back blocks are single abstract statements, tied by the operation
   tree capture and the differential runs), run by the semantics of Tracer/CSkelOC.v, are Model.open_fn /
   Model.close_fn for every data stream type and world: what is written and when: at opening the header constants and the context values with the late members skipped, at closing the content size taken at the current position, then the three write-backs, the position parked at the packet size, the sequence number incremented only when the member exists. *)
From BT.Tracer Require Import CSkel CSkelOC CSkelOCProofs.
From BT.Gen Require Import CSkelFuns.
Theorem C04_open_fn_is_the_translated_C : forall d w, run_oc d fn_open w = Some (open_fn d w).
Proof. exact skel_open. Qed.
Print Assumptions C04_open_fn_is_the_translated_C.
Theorem C04_close_fn_is_the_translated_C : forall d w, run_oc d fn_close w = Some (close_fn d w).
Proof. exact skel_close. Qed.
Print Assumptions C04_close_fn_is_the_translated_C.

(* ------------------------------------------------------------------ tie by translation: barectf_init *)
(* <prefix>init as REGENERATED from barectf.c.j2 (tools/c2coq.py -> fn_init) sets every field of the context
   to the value Model.init_ctx has - position 0, both counters 0, packet closed, flag 0, tracing enabled -
   EXCEPT content_size / off_content, which it leaves untouched (S10: "sequences the documentation allows"
   open the first packet before anything reads them); on zero-filled context memory it IS Model.init_ctx. *)
From BT.Tracer Require Import CSkelInit.
Theorem C04_init_is_the_translated_C :
  forall bytes c,
    i_run bytes (cf_body fn_init) c =
    Some (mk_ctx (zeros (8 * bytes)) (8 * bytes) 0 (c_content c) (c_off_content c) 0 0 false false true false
                 (c_last_ts c) (c_saved c)).
Proof. exact skel_init. Qed.
Print Assumptions C04_init_is_the_translated_C.
Theorem C04_init_on_zeroed_memory :
  forall bytes c, c_content c = 0 -> c_off_content c = 0 -> c_last_ts c = 0%Z -> c_saved c = [] ->
    i_run bytes (cf_body fn_init) c = Some (init_ctx bytes).
Proof. exact skel_init_zeroed. Qed.
Print Assumptions C04_init_on_zeroed_memory.
