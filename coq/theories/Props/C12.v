(* C12 — inclusion, aliases and inheritance follow the documented patching rules.
   Final statements only; models in Front/{Yaml,Patch,Include,Alias,Inherit}.v, proofs in
   Front/{PatchProofs,IncludeProofs,AliasProofs,InheritProofs}.v.
   `update v3 base overlay` models _Parser._update_node (v3 = major version 3); `None` = it raises.
   `patch_spec v3 A B` is "A patching B" written from patching-rules-table.adoc only.
   All statements quantify over ALL trees (no depth or size bound). *)
From Coq Require Import List String ZArith Bool.
Import ListNotations.
From BT.Front Require Import Yaml YamlRes Patch PatchProofs PatchWf Include IncludeProofs Alias AliasProofs Inherit InheritProofs.
Open Scope string_scope.
Open Scope list_scope.

(* ------------------------------------------------------------------ patching *)

(* The documented table, per key, independent of the order in which the overlay is folded.
   Only hypothesis: the overlay mapping has no repeated key (true of every PyYAML mapping). *)
Theorem C12_lookup_update : forall v3 bl ol rl k,
  nodupb (keys ol) = true ->
  update v3 (YMap bl) (YMap ol) = Some (YMap rl) ->
  lookup k rl =
    match lookup k ol, lookup k bl with
    | None, b => b                                              (* not in the overlay: base kept *)
    | Some a, None => Some a                                    (* not in the base: overlay taken *)
    | Some (YMap a), Some (YMap b) => update v3 (YMap b) (YMap a)   (* mappings merge recursively *)
    | Some (YSeq a), Some (YSeq b) =>                           (* sequences append ... *)
        if is_members v3 k then option_map YSeq (update_members (update v3) b a)  (* ... except `members` *)
        else Some (YSeq (b ++ a))
    | Some a, Some _ => Some a                                  (* anything else (null included) replaces *)
    end.
Proof. exact lookup_update. Qed.
Print Assumptions C12_lookup_update.

(* Key order: base keys in base order, then the new overlay keys in overlay order. *)
Theorem C12_keys_update : forall v3 bl ol rl,
  nodupb (keys ol) = true ->
  update v3 (YMap bl) (YMap ol) = Some (YMap rl) ->
  keys rl = keys bl ++ filter (fun k => negb (mem k (keys bl))) (keys ol).
Proof. exact keys_update. Qed.
Print Assumptions C12_keys_update.

(* On well-formed trees (wf: no repeated key anywhere; under barectf 3 every sequence under a key
   `members` is an ordered mapping) the implementation's update IS the documented patching —
   same value, same key order, and neither side is undefined. *)
Theorem C12_update_eq_spec : forall v3 base overlay,
  wf v3 base = true -> wf v3 overlay = true ->
  update v3 base overlay = patch_spec v3 overlay base.
Proof. exact update_eq_spec. Qed.
Print Assumptions C12_update_eq_spec.

(* ... and it does not raise. *)
Theorem C12_update_total : forall v3 bl ol,
  wf v3 (YMap bl) = true -> wf v3 (YMap ol) = true ->
  exists rl, update v3 (YMap bl) (YMap ol) = Some (YMap rl).
Proof. exact update_total. Qed.
Print Assumptions C12_update_total.

(* Patching well-formed trees gives a well-formed tree: patches compose. *)
Theorem C12_update_wf : forall v3 base overlay r,
  wf v3 base = true -> wf v3 overlay = true -> update v3 base overlay = Some r -> wf v3 r = true.
Proof. exact update_wf. Qed.
Print Assumptions C12_update_wf.

(* The `members` merge is the update of the ordered mappings the two lists denote
   (for all lists of single-entry items, repeated names included). *)
Theorem C12_members_omap : forall v3 bm am,
  update_members (update v3) (members_of bm) (members_of am)
  = option_map members_of (update_entries (merge_value (update v3) v3) bm am).
Proof. exact members_omap. Qed.
Print Assumptions C12_members_omap.

(* ... hence: existing names keep their positions, new names are appended in overlay order, the
   value under a common name is patched by the same table. *)
Theorem C12_members_positions : forall v3 bm am r,
  nodupb (keys am) = true ->
  update_members (update v3) (members_of bm) (members_of am) = Some r ->
  exists rm, r = members_of rm
    /\ keys rm = keys bm ++ filter (fun n => negb (mem n (keys bm))) (keys am)
    /\ forall n, lookup n rm =
         match lookup n am with
         | None => lookup n bm
         | Some a => match lookup n bm with
                     | None => Some a
                     | Some b => merge_value (update v3) v3 n b a
                     end
         end.
Proof. exact members_positions. Qed.
Print Assumptions C12_members_positions.

(* A null in the overlay replaces the base value whatever it is ("resets" the property). *)
Theorem C12_null_replaces : forall v3 bl ol rl k,
  nodupb (keys ol) = true ->
  update v3 (YMap bl) (YMap ol) = Some (YMap rl) ->
  lookup k ol = Some YNull -> lookup k rl = Some YNull.
Proof. exact null_replaces. Qed.
Print Assumptions C12_null_replaces.

(* ------------------------------------------------------------------ inclusion
   `process fuel v3 ignore_not_found fs dirs stack kind node` models _process_node_include with the
   per-kind drivers over an abstract file system fs (full path -> tree). *)

(* Bases are applied in the order listed, the including object last; each listed file is searched
   in the directories in order and processed recursively with the inclusion stack extended.
   (nl1 = the object after the inclusions of its children were processed.) *)
Theorem C12_include_order : forall fuel v3 fs dirs stack k nl nl1 inc ps r,
  fold_left (process_child (process fuel v3 false fs dirs) stack) (children v3 k) (Ok nl) = Ok nl1 ->
  lookup "$include" nl1 = Some inc -> include_paths inc = Some ps ->
  process (S fuel) v3 false fs dirs stack k (YMap nl) = Ok r ->
  exists fl,
    Forall2 (included fs dirs (process fuel v3 false fs dirs) stack k) ps fl
    /\ match fl with
       | [] => r = YMap (remove "$include" nl1)
       | _ => exists b, apply_all v3 None fl = Ok (Some b)
                        /\ update v3 b (YMap (remove "$include" nl1)) = Some r
       end.
Proof. exact include_order. Qed.
Print Assumptions C12_include_order.

(* On well-formed documents (mappings) the composition the implementation computes for an inclusion
   list (Include.apply_all, the `fl` of C12_include_order) IS the documented one — each document
   patching, by the documented table, the result of those listed before it — and it never crashes. *)
Theorem C12_include_composition_is_documented : forall v3 l base,
  match base with Some b => wfm v3 b = true | None => True end ->
  Forall (fun f => wfm v3 f = true) l ->
  exists r, apply_all v3 base l = Ok r /\ spec_all v3 base l = Some r
            /\ match r with Some y => wfm v3 y = true | None => True end.
Proof. exact apply_all_spec. Qed.
Print Assumptions C12_include_composition_is_documented.

(* The file used is the one of the FIRST directory (in the given order) that has it. *)
Theorem C12_include_search_order : forall fs ds p full t,
  find_file fs ds p = Some (full, t) ->
  exists ds1 d ds2, ds = ds1 ++ d :: ds2 /\ full = join d p /\ lookup full fs = Some t
                    /\ Forall (fun d' => lookup (join d' p) fs = None) ds1.
Proof. exact find_file_first. Qed.
Print Assumptions C12_include_search_order.

(* A listed file that is already being included (on the inclusion stack) is a configuration error,
   whatever was included before it. *)
Theorem C12_include_cycle_error : forall fuel v3 ign fs dirs stack k nl nl1 inc ps1 p ps2 b ft,
  fold_left (process_child (process fuel v3 ign fs dirs) stack) (children v3 k) (Ok nl) = Ok nl1 ->
  lookup "$include" nl1 = Some inc -> include_paths inc = Some (ps1 ++ p :: ps2) ->
  fold_left (include_one v3 ign fs dirs (process fuel v3 ign fs dirs) stack k) ps1 (Ok None) = Ok b ->
  find_file fs dirs p = Some ft -> mem (fst ft) stack = true ->
  exists w, process (S fuel) v3 ign fs dirs stack k (YMap nl) = CfgErr w.
Proof. exact include_cycle_error. Qed.
Print Assumptions C12_include_cycle_error.

(* ------------------------------------------------------------------ aliases
   `resolve fuel v3 state node` models _resolve_ft_alias (state = alias table, resolved set, alias set). *)

(* Aliases may reference aliases to ANY depth: a chain an -> ... -> a0 -> object resolves to the
   object (fuel = length of the chain + 1 is enough; more does not change the result). *)
Theorem C12_alias_chain_any_depth : forall names v3 p k st,
  leaf v3 p = true -> chain_ok names (al st) (YMap p) ->
  Forall (fun a => mem a (resolved st) = false /\ mem a (aset st) = false) names -> NoDup names ->
  exists st', resolve (S (List.length names) + k) v3 st (YStr (hd "" names)) = Ok (st', YMap p).
Proof. exact resolve_chain. Qed.
Print Assumptions C12_alias_chain_any_depth.

(* An alias cycle of ANY length is a configuration error (the walk a1 -> a2 -> ... -> an -> first,
   `first` being an alias already in the alias set, i.e. where the walk started). *)
Theorem C12_alias_cycle_error : forall names v3 first k st,
  links names first (al st) -> names <> [] ->
  mem first (aset st) = true -> mem first (resolved st) = false ->
  (exists t, lookup first (al st) = Some t) ->
  Forall (fun a => mem a (resolved st) = false) names ->
  exists w, resolve (S (List.length names) + k) v3 st (YStr (hd first names)) = CfgErr w.
Proof. exact resolve_cycle. Qed.
Print Assumptions C12_alias_cycle_error.

(* ------------------------------------------------------------------ inheritance
   `apply_inherit v3 node` models _apply_ft_inheritance (structural, total). *)

(* An inheritance chain of any length is the fold of `update` from the root-most base: the root,
   then each inheriting object's own properties in turn, the outermost last. *)
Theorem C12_inherit_chain : forall v3 root ps,
  plain v3 root = true -> Forall (fun p => plain v3 p = true) ps ->
  apply_inherit v3 (fold_left derive ps (YMap root))
  = fold_left (fun acc p => rbind acc (fun b => of_option (update v3 b (YMap p)))) ps (Ok (YMap root)).
Proof. exact inherit_chain. Qed.
Print Assumptions C12_inherit_chain.

(* ------------------------------------------------------------------ non-vacuity *)
Example C12_wf_example : wf true ex_base = true /\ wf true ex_overlay = true.
Proof. exact wf_example. Qed.

Example C12_update_example :
  update true ex_base ex_overlay = patch_spec true ex_overlay ex_base
  /\ exists r, update true ex_base ex_overlay = Some r /\ ylookup "class" r = Some YNull.
Proof. split; [reflexivity|]. eexists. split; reflexivity. Qed.

(* outside wf: an empty mapping item in a base `members` list is skipped (it raised IndexError
   before the fix: commit 44a61d5 in /repo) *)
Example C12_update_empty_base_item :
  update true (YMap [("members", YSeq [YMap []])]) (YMap [("members", YSeq [YMap [("a", YInt 1)]])]) =
  Some (YMap [("members", YSeq [YMap []; YMap [("a", YInt 1)]])]).
Proof. exact update_empty_base_item. Qed.

Example C12_include_cycle_example : forall fuel,
  is_cfgerr (process (3 + fuel) true false ex_fs ["d1"; "d2"] [] KErt
                     (YMap [("$include", YSeq [YStr "a.yaml"]); ("z", YInt 0)])) = true.
Proof. exact include_cycle_example. Qed.

Example C12_include_diamond_example :
  process 5 true false ex_fs ["d1"; "d2"] [] KClock
          (YMap [("$include", YSeq [YStr "d.yaml"; YStr "e.yaml"]); ("w", YBool true)])
  = Ok (YMap [("x", YNull); ("l", YSeq [YInt 1; YInt 2; YInt 1]); ("w", YBool true)]).
Proof. exact include_diamond_example. Qed.

Example C12_alias_cycle_example : forall f, is_cfgerr (resolve_from (4 + f) true ex_aliases [] (YStr "x")) = true.
Proof. exact resolve_cycle3_example. Qed.
