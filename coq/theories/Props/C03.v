(* C03 - each tracing call is recorded exactly once, in order, or counted as discarded (partial).

   Proved on the tracer model, for ALL configurations, oracles, worlds:
   * C03_at_most_one_discard: a tracing call logs at most one discard;
   * C03_reserve_discards_iff_fails: _reserve_er_space logs exactly one discard when it refuses
     the record and none when it accepts it; together with C06_accessors (the discarded counter
     equals the number of logged discards in every reachable world) the counter is incremented
     exactly by the refused calls;
   * C03_discard_only_if: a reservation fails only if the record exceeds the capacity test
     (er_size > packet_size - off_content), or right after is_backend_full answered true, or
     (since the repair of S18: the assert became a discard) because the record does not fit the
     packet just opened by the packet switch - an empty packet (position = off_content) in the
     buffer the platform installed;
   * C03_recheck_discard_only_if / C03_recheck_discards_iff (repair of S9): after a successful
     reservation the tracing function abandons the record without error only when the reservation
     moved the position (packet switch) and the record, sized again at the new position, does not
     fit the space left in the packet; it is then discarded and counted exactly once (and
     C03_at_most_one_discard still holds for the whole call: never both discards);
   * a recorded call is serialized exactly once, contiguously, inside the packet, ending at
     start + size: C02_record_in_bounds (no size_stable premise since the repairs); what a CTF
     reader then finds is C01_record_roundtrip (per record).
   * C03_history (whole histories, Tracer/History*.v): for EVERY well-formed data stream type,
     oracle (platform behaviour: back end full answers, tracing toggled inside callbacks, buffers
     swapped) and history of calls that starts by opening the first packet and ends with no packet
     open, the event records that the packet-level CTF reader (Tracer/Decode.v: TSDL-level
     information only) finds in the packets handed to the back end are, in call order, exactly one
     record per tracing call made while tracing was enabled and not discarded - `outs`: every
     enabled call either appends its own record (with the timestamp sampled at its entry) after all
     earlier ones and logs no discard, or appends nothing and logs exactly one discard; a call made
     while tracing is disabled and every other call appends nothing and logs no discard.  No
     duplicate, no record split across packets, none outside a packet's content: the reader's record
     loop must end exactly at the content size of every packet.
     Premises kept visible: no error flagged by the model (a store outside the buffer; the
     histories of the former findings S9 / S18 no longer flag one: both are repaired), the
     position is inside the packet whenever the platform closes it (`inb_run`, C02's conclusion),
     every event record occupies at least one bit (S13), buffer sizes fit the content size field.
   The first capacity test still uses the size at the current position, not at the empty-packet
   position (a record can be discarded although it would fit an empty packet). *)
From Coq Require Import List Arith Bool ZArith String.
Import ListNotations.
From BT.Layout Require Import Model.
From BT.Tracer Require Import Model Lemmas Spec OutcomeProofs BoundsWitness Decode History HistoryRecord
  HistoryStep HistoryMain.

Theorem C03_at_most_one_discard :
  forall d e args w, exists k, nd w (trace_fn d e args w) k /\ k <= 1.
Proof. exact trace_fn_nd. Qed.
Print Assumptions C03_at_most_one_discard.

Theorem C03_reserve_discards_iff_fails :
  forall d w n, nd w (snd (reserve d w n)) (if fst (reserve d w n) then 0 else 1).
Proof. exact reserve_nd. Qed.
Print Assumptions C03_reserve_discards_iff_fails.

(* third case: w1 is the world after the closing callback of the packet switch, in which
   is_backend_full answers "not full"; w' the world right after the open callback that follows; the
   reservation ends with one discard logged after w'; the record does not fit w' and, inside a
   tracing section (always the case in a tracing call), w' has a packet open and EMPTY *)
Theorem C03_discard_only_if :
  forall d w n, fst (reserve d w n) = false ->
    gt_diff32 n (c_psize (w_c w)) (c_off_content (w_c w)) = true \/
    (exists l, w_log (snd (reserve d w n)) = l ++ [EAns true; EDisc]) \/
    (exists w1 w',
        fst (full_cb w1) = false /\ w' = with_use_ts (open_cb d) (snd (full_cb w1)) /\
        w_log (snd (reserve d w n)) = w_log w' ++ [EDisc] /\
        gt_diff32 n (c_psize (w_c w')) (c_at (w_c w')) = true /\
        (c_in_ts (w_c w) = true -> c_open (w_c w') = true /\ c_at (w_c w') = c_off_content (w_c w'))).
Proof. exact reserve_false_reason. Qed.
Print Assumptions C03_discard_only_if.

(* Lemmas.trace_recheck d e args at0 w: the check the tracing function makes after a successful
   reservation (at0: position before the reservation, w: world after it); false: the call ends *)
Theorem C03_recheck_discard_only_if :
  forall d e args at0 w,
    fst (trace_recheck d e args at0 w) = false -> w_err (snd (trace_recheck d e args at0 w)) = false ->
    c_at (w_c w) <> at0 /\
    (exists a2, size_parts (rec_parts d e 0%Z args) (c_at (w_c w)) = Some a2 /\
                gt_diff32 (a2 - c_at (w_c w)) (c_psize (w_c w)) (c_at (w_c w)) = true) /\
    w_log (snd (trace_recheck d e args at0 w)) = w_log w ++ [EDisc] /\
    c_disc (w_c (snd (trace_recheck d e args at0 w))) = S (c_disc (w_c w)) /\
    c_in_ts (w_c (snd (trace_recheck d e args at0 w))) = false.
Proof. exact recheck_false_reason. Qed.
Print Assumptions C03_recheck_discard_only_if.

Theorem C03_recheck_discards_iff :
  forall d e args at0 w,
    w_err (snd (trace_recheck d e args at0 w)) = false ->
    nd w (snd (trace_recheck d e args at0 w)) (if fst (trace_recheck d e args at0 w) then 0 else 1).
Proof. exact recheck_nd. Qed.
Print Assumptions C03_recheck_discards_iff.

(* non-vacuity: a run with one accepted and one discarded call (back end full when the second
   record needs a new packet) *)
Example C03_example :
  let w := run d_s18 16 [] [default_ans; default_ans; mk_ans true None None 1 false] 
               [COpen; CTrace 0 [VArr [VInt 1]]; CTrace 0 [VArr [VInt 2]]] in
  w_err w = false /\ c_disc (w_c w) = 1 /\ ndisc (w_log w) = 1.
Proof. vm_compute. repeat split. Qed.

(* non-vacuity of the two new discards: the former S9 history (record does not fit after the
   switch: post-switch check) and the former S18 history (smaller buffer installed during the
   switch: third case of C03_discard_only_if) end without error with exactly one discard *)
Example C03_example_repaired :
  (let w := run d_s9 21 [] [] h_s9 in w_err w = false /\ c_disc (w_c w) = 1 /\ ndisc (w_log w) = 1) /\
  (let w := run d_s18 16 [] o_s18 h_s18 in w_err w = false /\ c_disc (w_c w) = 1 /\ ndisc (w_log w) = 1).
Proof. vm_compute. repeat split. Qed.

(* whole histories *)
Theorem C03_history :
  forall d user cs_size, wf_d d user cs_size ->
  forall buf oracle h,
    fits cs_size (8 * buf) -> or_ok cs_size oracle -> Forall (call_ok d) h ->
    let w0 := mk_w (init_ctx buf) oracle 0%Z [] false user in
    let w1 := step d w0 COpen in
    c_open (w_c w1) = true -> inb_run d w1 h ->
    let w := run d buf user oracle (COpen :: h) in
    w_err w = false -> c_open (w_c w) = false ->
    exists ds, outs d w1 h ds /\ read_all d (pkts (obs (w_log w))) = Some (List.concat ds).
Proof. exact history_records. Qed.
Print Assumptions C03_history.

(* one call: the records a reader finds afterwards are those found before plus this call's outcome *)
Theorem C03_step :
  forall d user cs_size, wf_d d user cs_size ->
  forall R w k, J d user cs_size R w -> call_ok d k -> inb w -> w_err (step d w k) = false ->
    exists dl, call_out d w k dl /\ J d user cs_size (R ++ dl) (step d w k).
Proof. exact step_J. Qed.
Print Assumptions C03_step.

(* the same with the weaker premise: every buffer holds the packet header and context (offb_run)
   instead of "the position is inside the packet at platform closes" (inb_run) *)
From BT.Tracer Require Import HistoryBounds.
Theorem C03_history_buffers :
  forall d user cs_size, wf_d d user cs_size ->
  forall buf oracle h,
    fits cs_size (8 * buf) -> or_ok cs_size oracle -> Forall (call_ok d) h ->
    let w0 := mk_w (init_ctx buf) oracle 0%Z [] false user in
    let w1 := step d w0 COpen in
    c_open (w_c w1) = true -> offb w1 -> offb_run d w1 h ->
    let w := run d buf user oracle (COpen :: h) in
    w_err w = false -> c_open (w_c w) = false ->
    exists ds, outs d w1 h ds /\ read_all d (pkts (obs (w_log w))) = Some (List.concat ds).
Proof. exact history_records_offb. Qed.
Print Assumptions C03_history_buffers.

From BT.Tracer Require Import HistoryExample Examples.
(* non-vacuity: the premises hold for a data stream type with every packet feature and a clock and a
   history with two packet switches, a call while disabled, a platform close and the finalisation *)
Example C03_history_example :
  wf_d ex_d [] 16 /\ fits 16 (8 * 16) /\ or_ok 16 ex_or /\ Forall (call_ok ex_d) ex_tail /\
  c_open (w_c (step ex_d (mk_w (init_ctx 16) ex_or 0%Z [] false []) COpen)) = true /\
  inb_run ex_d (step ex_d (mk_w (init_ctx 16) ex_or 0%Z [] false []) COpen) ex_tail /\
  w_err (run ex_d 16 [] ex_or (COpen :: ex_tail)) = false /\
  c_open (w_c (run ex_d 16 [] ex_or (COpen :: ex_tail))) = false /\
  List.length (pkts (obs (w_log (run ex_d 16 [] ex_or (COpen :: ex_tail))))) = 3.
Proof. exact history_premises. Qed.

(* ------------------------------------------------------------------ no error / in-bounds premise *)
(* C03_history with its premises `w_err = false` and `inb_run` DERIVED (Tracer/NoError.v, see
   Props/C02.v C02_no_error for the vocabulary): well-formed type, buffers that hold header +
   context, well-typed sized arguments, first packet opened *)
From BT.Tracer Require Import NoError NoErrorExample.
Theorem C03_history_full :
  forall d user cs_size, wf_d d user cs_size ->
  forall buf oracle h,
    fits cs_size (8 * buf) -> or_ok cs_size oracle -> bufs_ok d user buf oracle ->
    Forall (call_okf d) h ->
    let w0 := mk_w (init_ctx buf) oracle 0%Z [] false user in
    let w1 := step d w0 COpen in
    c_open (w_c w1) = true ->
    let w := run d buf user oracle (COpen :: h) in
    c_open (w_c w) = false ->
    exists ds, outs d w1 h ds /\ read_all d (pkts (obs (w_log w))) = Some (List.concat ds).
Proof. exact history_records_full. Qed.
Print Assumptions C03_history_full.

Example C03_history_full_example :
  exists ds, outs ex_d (step ex_d (mk_w (init_ctx 16) ex_or 0%Z [] false []) COpen) ex_tail ds /\
    read_all ex_d (pkts (obs (w_log (run ex_d 16 [] ex_or (COpen :: ex_tail))))) = Some (List.concat ds).
Proof. exact history_full_example. Qed.

(* ------------------------------------------------------------------ tie by translation *)
(* _reserve_er_space and _commit_er as REGENERATED from barectf.c.j2 on every run (tools/c2coq.py ->
   Gen/CSkelFuns.v), run by the semantics of Tracer/CSkel.v, are the model functions every theorem
   above speaks about: Model.reserve (return value and world) and the commit step of Model.trace_fn.
   A change to the control flow of those C functions breaks these theorems (or the fail-closed
   translator) before any differential run. *)
From BT.Tracer Require Import CSkel CSkelProofs.
From BT.Gen Require Import CSkelFuns.
Theorem C03_reserve_is_the_translated_C :
  forall d w n,
    run_fun d skel_funs [("er_size"%string, n)] fn_reserve_er_space w =
    Some (Some (if fst (reserve d w n) then 1 else 0), snd (reserve d w n)).
Proof. exact skel_reserve. Qed.
Print Assumptions C03_reserve_is_the_translated_C.

Theorem C03_commit_is_the_translated_C :
  forall d w,
    run_fun d skel_funs [] fn_commit_er w =
    Some (None, if Nat.eqb (c_at (w_c w)) (c_psize (w_c w)) then close_cb d w else w).
Proof. exact skel_commit. Qed.
Print Assumptions C03_commit_is_the_translated_C.

(* ------------------------------------------------------------------ tie by translation: the tracing function *)
(* The public tracing function <prefix><dst>_trace_<ert> as REGENERATED from the template text of
   barectf.c.j2 on every run (tools/c2coq.py -> Gen/CSkelFuns.v fn_trace), run by the semantics of
   Tracer/CSkelTrace.v, is Model.trace_fn for every data stream type, event record type, argument
   list and world: the order of its steps - size, reservation, size again after a packet switch and the COUNTED discard when the record no longer fits, serialization, commit -
   is what the theorems of this file speak about.  An edit of that template breaks this theorem or
   the fail-closed translator before any differential run. *)
From BT.Tracer Require Import CSkel CSkelTrace CSkelTraceProofs.
From BT.Gen Require Import CSkelFuns.
Theorem C03_trace_fn_is_the_translated_C :
  forall d e args w, run_trace d skel_funs e args fn_trace w = Some (trace_fn d e args w).
Proof. exact skel_trace. Qed.
Print Assumptions C03_trace_fn_is_the_translated_C.
