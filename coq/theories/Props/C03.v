(* C03 - each tracing call is recorded exactly once, in order, or counted as discarded (partial).

   Proved on the tracer model, for ALL configurations, oracles, worlds:
   * C03_at_most_one_discard: a tracing call logs at most one discard;
   * C03_reserve_discards_iff_fails: _reserve_er_space logs exactly one discard when it refuses
     the record and none when it accepts it; together with C06_accessors (the discarded counter
     equals the number of logged discards in every reachable world) the counter is incremented
     exactly by the refused calls;
   * C03_discard_only_if: a reservation fails only if the record exceeds the capacity test
     (er_size > packet_size - off_content) or right after is_backend_full answered true;
   * a recorded call is serialized exactly once, contiguously, inside the packet, ending at
     start + size: C02_record_in_bounds_partial (under size_stable); what a CTF reader then finds
     is C01_record_roundtrip (per record).
   * C03_history (whole histories, Tracer/History*.v): for EVERY well-formed data stream type,
     oracle (platform behaviour: back end full answers, tracing toggled inside callbacks, buffers
     swapped) and history of calls that starts by opening the first packet and ends with no packet
     open, the event records that the packet-level CTF reader (Tracer/Decode.v: TSDL-level
     information only) finds in the packets handed to the back end are, in call order, exactly one
     record per tracing call made while tracing was enabled and not discarded - `outs`: every
     enabled call either appends its own record (with the timestamp sampled at its entry) after all
     earlier ones and logs no discard, or appends nothing and logs exactly one discard; a call made
     while tracing is disabled and every other call appends nothing and logs no discard.  No
     duplicate, no record split across packets, none outside a packet's content: the reader's record
     loop must end exactly at the content size of every packet.
     Premises kept visible: no error flagged by the model (a store outside the buffer: known
     findings S9 / S18), the position is inside the packet whenever the platform closes it
     (`inb_run`, C02's conclusion - false only in the S9 / S18 histories), every event record
     occupies at least one bit (S13), buffer sizes fit the content size field.
   The capacity test uses the size at the current position, not at the empty-packet position:
   known finding S9 (a record can be discarded although it fits an empty packet). *)
From Coq Require Import List Arith Bool ZArith String.
Import ListNotations.
From BT.Layout Require Import Model.
From BT.Tracer Require Import Model Lemmas Spec OutcomeProofs BoundsWitness Decode History HistoryRecord
  HistoryStep HistoryMain.

Theorem C03_at_most_one_discard :
  forall d e args w, exists k, nd w (trace_fn d e args w) k /\ k <= 1.
Proof. exact trace_fn_nd. Qed.
Print Assumptions C03_at_most_one_discard.

Theorem C03_reserve_discards_iff_fails :
  forall d w n, nd w (snd (reserve d w n)) (if fst (reserve d w n) then 0 else 1).
Proof. exact reserve_nd. Qed.
Print Assumptions C03_reserve_discards_iff_fails.

Theorem C03_discard_only_if :
  forall d w n, fst (reserve d w n) = false ->
    gt_diff32 n (c_psize (w_c w)) (c_off_content (w_c w)) = true \/
    exists l, w_log (snd (reserve d w n)) = l ++ [EAns true; EDisc].
Proof. exact reserve_false_reason. Qed.
Print Assumptions C03_discard_only_if.

(* non-vacuity: a run with one accepted and one discarded call (back end full when the second
   record needs a new packet) *)
Example C03_example :
  let w := run d_s18 16 [] [default_ans; default_ans; mk_ans true None None 1 false] 
               [COpen; CTrace 0 [VArr [VInt 1]]; CTrace 0 [VArr [VInt 2]]] in
  w_err w = false /\ c_disc (w_c w) = 1 /\ ndisc (w_log w) = 1.
Proof. vm_compute. repeat split. Qed.

(* whole histories *)
Theorem C03_history :
  forall d user cs_size, wf_d d user cs_size ->
  forall buf oracle h,
    fits cs_size (8 * buf) -> or_ok cs_size oracle -> Forall (call_ok d) h ->
    let w0 := mk_w (init_ctx buf) oracle 0%Z [] false user in
    let w1 := step d w0 COpen in
    c_open (w_c w1) = true -> inb_run d w1 h ->
    let w := run d buf user oracle (COpen :: h) in
    w_err w = false -> c_open (w_c w) = false ->
    exists ds, outs d w1 h ds /\ read_all d (pkts (obs (w_log w))) = Some (List.concat ds).
Proof. exact history_records. Qed.
Print Assumptions C03_history.

(* one call: the records a reader finds afterwards are those found before plus this call's outcome *)
Theorem C03_step :
  forall d user cs_size, wf_d d user cs_size ->
  forall R w k, J d user cs_size R w -> call_ok d k -> inb w -> w_err (step d w k) = false ->
    exists dl, call_out d w k dl /\ J d user cs_size (R ++ dl) (step d w k).
Proof. exact step_J. Qed.
Print Assumptions C03_step.

From BT.Tracer Require Import HistoryExample Examples.
(* non-vacuity: the premises hold for a data stream type with every packet feature and a clock and a
   history with two packet switches, a call while disabled, a platform close and the finalisation *)
Example C03_history_example :
  wf_d ex_d [] 16 /\ fits 16 (8 * 16) /\ or_ok 16 ex_or /\ Forall (call_ok ex_d) ex_tail /\
  c_open (w_c (step ex_d (mk_w (init_ctx 16) ex_or 0%Z [] false []) COpen)) = true /\
  inb_run ex_d (step ex_d (mk_w (init_ctx 16) ex_or 0%Z [] false []) COpen) ex_tail /\
  w_err (run ex_d 16 [] ex_or (COpen :: ex_tail)) = false /\
  c_open (w_c (run ex_d 16 [] ex_or (COpen :: ex_tail))) = false /\
  List.length (pkts (obs (w_log (run ex_d 16 [] ex_or (COpen :: ex_tail))))) = 3.
Proof. exact history_premises. Qed.
