(* C03 - each tracing call is recorded exactly once, in order, or counted as discarded (partial).

   Proved on the tracer model, for ALL configurations, oracles, worlds:
   * C03_at_most_one_discard: a tracing call logs at most one discard;
   * C03_reserve_discards_iff_fails: _reserve_er_space logs exactly one discard when it refuses
     the record and none when it accepts it; together with C06_accessors (the discarded counter
     equals the number of logged discards in every reachable world) the counter is incremented
     exactly by the refused calls;
   * C03_discard_only_if: a reservation fails only if the record exceeds the capacity test
     (er_size > packet_size - off_content) or right after is_backend_full answered true;
   * a recorded call is serialized exactly once, contiguously, inside the packet, ending at
     start + size: C02_record_in_bounds_partial (under size_stable); what a CTF reader then finds
     is C01_record_roundtrip (per record).
   NOT proved (stated): the whole-history statement "the records found in the emitted packets are
   exactly the accepted calls in call order" (needs the frame argument over all later writes of a
   packet and the packet-level reader); it is checked on the real packets by the decode oracle of
   the check on every run.  The capacity test uses the size at the current position, not at the
   empty-packet position: known finding S9 (a record can be discarded although it fits an empty
   packet). *)
From Coq Require Import List Arith Bool ZArith String.
Import ListNotations.
From BT.Layout Require Import Model.
From BT.Tracer Require Import Model Lemmas Spec OutcomeProofs BoundsWitness.

Theorem C03_at_most_one_discard :
  forall d e args w, exists k, nd w (trace_fn d e args w) k /\ k <= 1.
Proof. exact trace_fn_nd. Qed.
Print Assumptions C03_at_most_one_discard.

Theorem C03_reserve_discards_iff_fails :
  forall d w n, nd w (snd (reserve d w n)) (if fst (reserve d w n) then 0 else 1).
Proof. exact reserve_nd. Qed.
Print Assumptions C03_reserve_discards_iff_fails.

Theorem C03_discard_only_if :
  forall d w n, fst (reserve d w n) = false ->
    gt_diff32 n (c_psize (w_c w)) (c_off_content (w_c w)) = true \/
    exists l, w_log (snd (reserve d w n)) = l ++ [EAns true; EDisc].
Proof. exact reserve_false_reason. Qed.
Print Assumptions C03_discard_only_if.

(* non-vacuity: a run with one accepted and one discarded call (back end full when the second
   record needs a new packet) *)
Example C03_example :
  let w := run d_s18 16 [] [default_ans; default_ans; mk_ans true None None 1] 
               [COpen; CTrace 0 [VArr [VInt 1]]; CTrace 0 [VArr [VInt 2]]] in
  w_err w = false /\ c_disc (w_c w) = 1 /\ ndisc (w_log w) = 1.
Proof. vm_compute. repeat split. Qed.
