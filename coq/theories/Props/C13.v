(* C13 — generation is a deterministic function of the configuration; IDs are stable.

   What can differ between two generations of the same configuration (other process, other
   PYTHONHASHSEED, other listing order of the data-stream-types / event-record-types / clock-types
   mappings) is exactly the enumeration order of the three name-hashed sets of barectf.config
   (and the date).  Theorems:
     * the IDs are a function of the set of names (ascending code-point order);
     * every template of the regenerated plan (Gen/TemplatePlan.v, from Jinja2's AST of the real
       templates) renders to the same text whatever that enumeration order is, for EVERY
       interpretation of its leaves (expressions, tests, filters are uninterpreted functions of
       the context: they never see the sets -- enforced by the translator, which fails closed);
     * Python loops over the sets only fill maps keyed by the element (lookup is order-free). *)
From Coq Require Import List NArith Bool Permutation String.
Import ListNotations.
From BT.Front Require Import Prefix Ids IdsProofs Template TemplateProofs TemplatePlanObl.
From BT.Gen Require Import TemplatePlan.

(* IDs do not depend on the order in which the mapping lists the names *)
Theorem C13_ids_perm : forall l l' : list str, Permutation l l' -> assign l = assign l'.
Proof. exact ids_perm. Qed.
Print Assumptions C13_ids_perm.

(* the ID of a name is the number of names smaller than it (code-point lexicographic order) *)
Theorem C13_ids_rank : forall (l : list str) (n : str), In n l -> id_of l n = Some (rank l n).
Proof. exact ids_rank. Qed.
Print Assumptions C13_ids_rank.

(* IDs are 0 .. n-1 *)
Theorem C13_ids_contiguous : forall l : list str,
    map snd (assign l) = map N.of_nat (seq 0 (List.length l)).
Proof. exact ids_contiguous. Qed.
Print Assumptions C13_ids_contiguous.

(* obligation on the regenerated plan: every {% for %} over data_stream_types / event_record_types
   / clock_types (or an alias of one of them) is `| sort`ed, in every template and macro *)
Theorem C13_plan_sorted : plan_sorted templates macros = true.
Proof. exact plan_sorted_ok. Qed.
Print Assumptions C13_plan_sorted.

Theorem C13_plan_closed : plan_closed templates macros = true.
Proof. exact plan_closed_ok. Qed.
Print Assumptions C13_plan_closed.

(* every template of the plan renders order-independently *)
Theorem C13_render_order_free :
  forall (env elt : Type) key text out cond setv setb filt members bind margs mpost
         (o o' : oracle env elt),
    admissible env elt o -> admissible env elt o' -> names_unique env elt key members ->
    forall name t, In (name, t) templates ->
    forall fuel e,
      render env elt key text out cond setv setb filt members bind margs mpost templates macros fuel o t e =
      render env elt key text out cond setv setb filt members bind margs mpost templates macros fuel o' t e.
Proof. exact (render_order_free templates macros plan_sorted_ok). Qed.
Print Assumptions C13_render_order_free.

(* Python loops of class PyKeyedFill (dict[key x] = value x over a name-hashed set): every later
   lookup is independent of the loop order *)
Theorem C13_fold_insert_perm :
  forall (K V E : Type) (keq : K -> K -> bool), (forall a b, keq a b = true <-> a = b) ->
  forall (kf : E -> K) (vf : E -> V) (l l' : list E) d k,
    Permutation l l' ->
    (forall a b, In a l -> In b l -> kf a = kf b -> vf a = vf b) ->
    dict_get keq (fold_left (dict_set kf vf) l d) k = dict_get keq (fold_left (dict_set kf vf) l' d) k.
Proof. exact (@fold_insert_perm). Qed.
Print Assumptions C13_fold_insert_perm.

(* non-vacuity *)
Example C13_example_ids :
  assign [s2l "b"; s2l "a_"; s2l "a"; s2l "B"; s2l "a0"] =
  [(s2l "B", 0%N); (s2l "a", 1%N); (s2l "a0", 2%N); (s2l "a_", 3%N); (s2l "b", 4%N)].
Proof. vm_compute. reflexivity. Qed.

Example C13_example_unsorted_loop_is_order_sensitive :
  Toy.run [] [] 5 Toy.o_id (For 1 NameSet false (Out 7) Nop) <>
  Toy.run [] [] 5 Toy.o_rev (For 1 NameSet false (Out 7) Nop).
Proof. exact unsorted_loop_is_order_sensitive. Qed.

Example C13_example_header_renders :
  isSome (Toy.run templates macros 2000 Toy.o_rev header_tmpl) = true /\
  Toy.run templates macros 2000 Toy.o_id header_tmpl = Toy.run templates macros 2000 Toy.o_rev header_tmpl.
Proof. exact header_renders. Qed.

Example C13_example_plan_has_set_loops : Nat.ltb 0 (plan_set_loops templates macros) = true.
Proof. exact plan_has_set_loops. Qed.
