(* C09 - configurations violating a documented constraint are never accepted.

   What is proved here concerns the schema-validation stage of the front end, on the schema terms
   REGENERATED from /repo on every run (Gen/Schemas3.v) and the Draft-7 validator model
   Front/JsonSchema.v (tied to python-jsonschema by the correspondence run of the check):

     accepted by the final schema `config/3/config`  ->  documented shape (DocValid.config_doc)

   [config_doc false] / [ft_doc false] are the documented shapes MINUS the constraints listed at
   the top of DocValid.v, which the current schemas still do not enforce (names followed by a newline); each of those is a
   `_refuted` theorem below (the documented shape is [.. true]).  The constraints that used to be
   refuted and were repaired in /repo (dynamic array shape, static array `length`, member names,
   unknown trace properties, integral floats, null enumeration mappings) are now part of the proved shape, and their former witnesses are
   kernel-evaluated to Invalid (Examples at the end).  The constraints that barectf
   checks in Python after schema validation (power-of-two alignment, duplicate/reserved member
   names, nested structure / dynamic array, ID field widths, default stream uniqueness, unknown
   aliases / clock types, cycles) are not modelled in Coq: they are validated on the real code by
   harness/props/c09_oracle.py.  Among them since /repo ef9d952: total size field type >= content
   size field type (the schemas still accept the former witness JsonWitness.w_S3; `_create_dst`
   refuses it, which the check replays as a regression input).  The reserved word list of
   DocValid.ctf_keywords is the complete documented one (28 words) since /repo c9ab8b8. *)
From Coq Require Import List String ZArith Bool.
Import ListNotations.
From BT.Front Require Import Json JsonSchema JsonSchemaLemmas DocValid JsonSchemaDoc JsonWitness.
From BT.Gen Require Schemas3.
Open Scope string_scope.

(* generic, once: more fuel never changes a verdict *)
Theorem C09_fuel_monotone :
  forall st f f' s j, f <= f' -> validate st f s j <> OutOfFuel -> validate st f' s j = validate st f s j.
Proof. exact validate_mono. Qed.
Print Assumptions C09_fuel_monotone.

(* generic, once: inversion of every keyword, both polarities, as a computable denotation *)
Theorem C09_keyword_inversion :
  forall st lkp, (forall k, lkp k = slookup k st) -> forall unf d s j,
    (V st s j -> den st lkp unf d true s j) /\ (NV st s j -> den st lkp unf d false s j).
Proof. exact den_sound. Qed.
Print Assumptions C09_keyword_inversion.

(* the whole effective configuration: every object at every place has its documented shape
   (trace, trace type, features, clock types, data stream types, event record types, every field
   type tree), up to the constraints refuted below *)
Theorem C09_config_accepted_implies_documented_partial :
  forall j, accepts3 "config/3/config#" j -> config_doc false j.
Proof. exact config_accepts_doc. Qed.
Print Assumptions C09_config_accepted_implies_documented_partial.

(* a field type node, whole tree (array elements, structure members, recursively) *)
Theorem C09_field_type_tree_partial :
  forall j, accepts3 "config/3/field-type#/definitions/ft" j -> ft_doc false j.
Proof. exact ft_accepts_doc. Qed.
Print Assumptions C09_field_type_tree_partial.

(* per class: integer (size present, integer-valued, 1..64; alignment >= 1; display base and class
   name enumerations; unknown property rejected), enumeration, real (size 32 or 64), string,
   static array (element and length required, length >= 0), dynamic array (element required,
   unknown property rejected), structure (member names are identifiers, member objects validated) *)
Theorem C09_uint_ft : forall j, VK "config/3/field-type#/definitions/uint-ft" j -> int_ft_doc false uint_names j.
Proof. exact uint_ft_shape. Qed.
Theorem C09_sint_ft : forall j, VK "config/3/field-type#/definitions/sint-ft" j -> int_ft_doc false sint_names j.
Proof. exact sint_ft_shape. Qed.
Theorem C09_uenum_ft : forall j, VK "config/3/field-type#/definitions/uenum-ft" j -> enum_ft_doc false uenum_names j.
Proof. exact uenum_ft_shape. Qed.
Theorem C09_senum_ft : forall j, VK "config/3/field-type#/definitions/senum-ft" j -> enum_ft_doc false senum_names j.
Proof. exact senum_ft_shape. Qed.
Theorem C09_real_ft : forall j, VK "config/3/field-type#/definitions/real-ft" j -> real_ft_doc false j.
Proof. exact real_ft_shape. Qed.
Theorem C09_string_ft : forall j, VK "config/3/field-type#/definitions/string-ft" j -> string_ft_doc j.
Proof. exact string_ft_shape. Qed.
Theorem C09_static_array_ft :
  forall j, VK "config/3/field-type#/definitions/static-array-ft" j ->
            static_array_ft_doc false (VK "config/3/field-type#/definitions/ft") j.
Proof. exact static_array_ft_shape. Qed.
Theorem C09_dynamic_array_ft :
  forall j, VK "config/3/field-type#/definitions/dynamic-array-ft" j ->
            dynamic_array_ft_doc false (VK "config/3/field-type#/definitions/ft") j.
Proof. exact dynamic_array_ft_shape. Qed.
Theorem C09_struct_members :
  forall j, VK "config/3/field-type#/definitions/struct-ft-members" j -> members_doc false (ft_doc false) j.
Proof. exact struct_ft_members_shape. Qed.
Theorem C09_trace : forall j, VK "config/3/config#/definitions/trace" j -> trace_doc false j.
Proof. exact trace_shape. Qed.
Theorem C09_struct_ft :
  forall j, VK "config/3/field-type#/definitions/struct-ft" j ->
            struct_ft_doc false (VK "config/3/field-type#/definitions/ft") j.
Proof. exact struct_ft_shape. Qed.
Theorem C09_dst : forall j, VK "config/3/config#/definitions/dst" j -> dst_doc false j.
Proof. exact dst_shape. Qed.
Theorem C09_ert : forall j, VK "config/3/config#/definitions/ert" j -> ert_doc false j.
Proof. exact ert_shape. Qed.
Theorem C09_clock_type : forall j, VK "config/3/config#/definitions/clock-type" j -> clock_type_doc false j.
Proof. exact clock_type_shape. Qed.
Theorem C09_trace_type : forall j, VK "config/3/config#/definitions/trace-type" j -> trace_type_doc false j.
Proof. exact trace_type_shape. Qed.
Print Assumptions C09_uint_ft.
Print Assumptions C09_real_ft.
Print Assumptions C09_static_array_ft.
Print Assumptions C09_dynamic_array_ft.
Print Assumptions C09_struct_members.
Print Assumptions C09_trace.
Print Assumptions C09_struct_ft.
Print Assumptions C09_trace_type.

(* ---- the documentation is still NOT enforced by the schemas: accepted witnesses *)

(* a name that is an identifier followed by a newline *)
Theorem C09_name_identifier_refuted :
  exists j, accepts3 "config/3/config#" j /\ ~ config_doc true j.
Proof. exact (refuted_cfg (config_doc true) w_name_nl w_name_nl_valid w_name_nl_not_doc). Qed.
Print Assumptions C09_name_identifier_refuted.

(* ---- non-vacuity: a complete configuration that is accepted, one (size 65) that is rejected *)
Example C09_example_accepted : validate Schemas3.store 200 (SRef "config/3/config#") good_cfg = Valid.
Proof. exact good_cfg_valid. Qed.
Example C09_example_rejected : validate Schemas3.store 200 (SRef "config/3/config#") bad_cfg = Invalid.
Proof. exact bad_cfg_invalid. Qed.

(* ---- regression: the witnesses of the defects repaired in /repo are now rejected by the
   regenerated schemas (kernel evaluation) *)
Example C09_static_array_without_length_rejected :
  validate Schemas3.store 200 (SRef K_ft) w_S14 = Invalid.
Proof. exact w_S14_rejected. Qed.
Example C09_dynamic_array_unknown_property_rejected :
  validate Schemas3.store 200 (SRef K_ft) w_S4 = Invalid.
Proof. exact w_S4_rejected. Qed.
Example C09_member_name_not_identifier_rejected :
  validate Schemas3.store 200 (SRef K_ft) w_member = Invalid.
Proof. exact w_member_rejected. Qed.
Example C09_trace_unknown_property_rejected :
  validate Schemas3.store 200 (SRef K_config) w_trace_prop = Invalid.
Proof. exact w_trace_prop_rejected. Qed.
Example C09_float_size_rejected :
  validate Schemas3.store 200 (SRef K_ft) w_S18 = Invalid.
Proof. exact w_S18_rejected. Qed.
Example C09_enum_null_mappings_rejected :
  validate Schemas3.store 200 (SRef K_ft) w_enum_null = Invalid.
Proof. exact w_enum_null_rejected. Qed.
