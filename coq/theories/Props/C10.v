(* C10 - the front end is total (PARTIAL: what is proved is the field type part of
   `_create_config`; the rest of C10 is validated by harness/props/c10_impl.py, see the evidence).

   Model: Front/CreateConfig.create_ft, the access skeleton of `_create_fts` and the functions it
   calls (every node['k'], dict lookup, iteration, assert = a primitive that may return
   Crash <exception type>), tied to the real `_normalize_props` + `_create_fts` of /repo by the
   correspondence run of harness/props/c10_model.py.

   Proved: a field type tree that the regenerated final schema accepts AND that has the documented
   shape is never a crash (the claim of the comment in `_Parser._parse`); for string field types
   the schema alone suffices.  For every documented constraint that the unchanged schema does not
   enforce and that `_create_fts` relies on, a schema-valid witness on which the skeleton crashes
   (`_refuted`); the check replays each on the real front end. *)
From Coq Require Import List String ZArith Bool.
Import ListNotations.
From BT.Front Require Import Json JsonSchema JsonSchemaLemmas DocValid JsonSchemaDoc JsonWitness
     CreateConfig CreateConfigProofs.
Open Scope string_scope.

Theorem C10_create_ft_total_partial :
  forall j, accepts3 "config/3/field-type#/definitions/ft" j -> ft_doc true j ->
  forall fuel e, create_ft fuel j <> Crash e.
Proof. exact create_ft_total_accepted. Qed.
Print Assumptions C10_create_ft_total_partial.

Theorem C10_create_ft_total_string :
  forall j, VK "config/3/field-type#/definitions/string-ft" j -> forall fuel, create_ft (S fuel) j = Ok.
Proof. exact create_string_total. Qed.
Print Assumptions C10_create_ft_total_string.

(* full-strength statement "accepted by the final schema => no crash" is false: *)
Theorem C10_create_ft_static_array_refuted :     (* S14: KeyError('length') *)
  exists j, accepts3 "config/3/field-type#/definitions/ft" j /\ exists fuel e, create_ft fuel j = Crash e.
Proof. exact (refuted_crash w_S14 _ w_S14_valid crash_S14). Qed.
Theorem C10_create_ft_dynamic_array_refuted :    (* S4: KeyError('element-field-type') *)
  exists j, accepts3 "config/3/field-type#/definitions/ft" j /\ exists fuel e, create_ft fuel j = Crash e.
Proof. exact (refuted_crash w_S4 _ w_S4_valid crash_S4). Qed.
Theorem C10_create_ft_enum_null_mappings_refuted :   (* KeyError('mappings') *)
  exists j, accepts3 "config/3/field-type#/definitions/ft" j /\ exists fuel e, create_ft fuel j = Crash e.
Proof. exact (refuted_crash w_enum_null _ w_enum_null_valid crash_enum_null). Qed.
Theorem C10_create_ft_float_alignment_refuted :      (* S18: TypeError in _validate_alignment *)
  exists j, accepts3 "config/3/field-type#/definitions/ft" j /\ exists fuel e, create_ft fuel j = Crash e.
Proof. exact (refuted_crash w_align_float _ w_align_float_valid crash_align_float). Qed.
Theorem C10_create_ft_member_value_refuted :         (* member `a-b: 5`: TypeError *)
  exists j, accepts3 "config/3/field-type#/definitions/ft" j /\ exists fuel e, create_ft fuel j = Crash e.
Proof. exact (refuted_crash w_member_val _ w_member_val_valid crash_member_val). Qed.
Print Assumptions C10_create_ft_static_array_refuted.
Print Assumptions C10_create_ft_dynamic_array_refuted.
Print Assumptions C10_create_ft_enum_null_mappings_refuted.
Print Assumptions C10_create_ft_float_alignment_refuted.
Print Assumptions C10_create_ft_member_value_refuted.

(* non-vacuity: a nested, documented field type tree is created; a non-power-of-two alignment
   is a configuration error, not a crash *)
Definition ex_ft : json :=
  JObj [("class", JStr "struct"); ("minimum-alignment", JInt 8);
        ("members", JArr [JObj [("a", JObj [("field-type",
           JObj [("class", JStr "static-array"); ("length", JInt 2);
                 ("element-field-type", JObj [("class", JStr "senum"); ("size", JInt 8);
                                              ("mappings", JObj [("A", JArr [JInt 1; JArr [JInt 2; JInt 5]])])])])])]])].
Example C10_example_ok : create_ft 50 ex_ft = Ok.
Proof. vm_compute. reflexivity. Qed.
Example C10_example_cfgerr :
  create_ft 50 (JObj [("class", JStr "uint"); ("size", JInt 8); ("alignment", JInt 3)]) = CfgErr.
Proof. vm_compute. reflexivity. Qed.
