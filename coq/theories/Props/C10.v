(* C10 - the front end is total (PARTIAL: what is proved is the field type part of
   `_create_config`; the rest of C10 is validated by harness/props/c10_impl.py, see the evidence).

   Model: Front/CreateConfig.create_ft, the access skeleton of `_create_fts` and the functions it
   calls (every node['k'], dict lookup, iteration, assert = a primitive that may return
   Crash <exception type>), tied to the real `_normalize_props` + `_create_fts` of /repo by the
   correspondence run of harness/props/c10_model.py.

   Proved: a field type tree that the regenerated final schema accepts is never a crash (the claim
   of the comment in `_Parser._parse`: "the node already has the expected structure"), with no
   further hypothesis since the schema defects it used to depend on were repaired in /repo.
   The former crash witnesses (static array without length, dynamic array without element,
   member `a-b: 5`, `alignment: 8.0`, `mappings: null`) are rejected by the regenerated schema
   (Examples) and replayed on the real front end as regression inputs. *)
From Coq Require Import List String ZArith Bool.
Import ListNotations.
From BT.Front Require Import Json JsonSchema JsonSchemaLemmas DocValid JsonSchemaDoc JsonWitness
     CreateConfig CreateConfigProofs.
From BT.Gen Require Schemas3.
Open Scope string_scope.

Theorem C10_create_ft_total :
  forall j, accepts3 "config/3/field-type#/definitions/ft" j -> forall fuel e, create_ft fuel j <> Crash e.
Proof. exact create_ft_total_accepted. Qed.
Print Assumptions C10_create_ft_total.

Theorem C10_create_ft_total_string :
  forall j, VK "config/3/field-type#/definitions/string-ft" j -> forall fuel, create_ft (S fuel) j = Ok.
Proof. exact create_string_total. Qed.
Print Assumptions C10_create_ft_total_string.

(* non-vacuity: a nested, documented field type tree is created; a non-power-of-two alignment
   is a configuration error, not a crash *)
Definition ex_ft : json :=
  JObj [("class", JStr "struct"); ("minimum-alignment", JInt 8);
        ("members", JArr [JObj [("a", JObj [("field-type",
           JObj [("class", JStr "static-array"); ("length", JInt 2);
                 ("element-field-type", JObj [("class", JStr "senum"); ("size", JInt 8);
                                              ("mappings", JObj [("A", JArr [JInt 1; JArr [JInt 2; JInt 5]])])])])])]])].
Example C10_example_ok : create_ft 50 ex_ft = Ok.
Proof. vm_compute. reflexivity. Qed.
Example C10_example_cfgerr :
  create_ft 50 (JObj [("class", JStr "uint"); ("size", JInt 8); ("alignment", JInt 3)]) = CfgErr.
Proof. vm_compute. reflexivity. Qed.

(* regression: former crash witnesses are rejected by the regenerated final schema *)
Example C10_static_array_without_length_rejected :
  validate Schemas3.store 200 (SRef K_ft) w_S14 = Invalid.
Proof. exact w_S14_rejected. Qed.
Example C10_dynamic_array_without_element_rejected :
  validate Schemas3.store 200 (SRef K_ft) w_S4 = Invalid.
Proof. exact w_S4_rejected. Qed.
Example C10_member_value_rejected :
  validate Schemas3.store 200 (SRef K_ft) w_member_val = Invalid.
Proof. exact w_member_val_rejected. Qed.
Example C10_float_alignment_rejected :
  validate Schemas3.store 200 (SRef K_ft) w_align_float = Invalid.
Proof. exact w_align_float_rejected. Qed.
Example C10_enum_null_mappings_rejected :
  validate Schemas3.store 200 (SRef K_ft) w_enum_null = Invalid.
Proof. exact w_enum_null_rejected. Qed.
