(* C05 — timestamps are consistent snapshots of a monotonic clock.
   Model: Tracer/Model.v (the clock callback returns (previous + increment) mod 2^d_clock_bits, the
   increments come from the oracle; ESample v: value returned by the clock callback; ETs k v: a
   timestamp handed to the serializer, k = 0 packet beginning, 1 packet end, 2 event record).
   Proofs: Tracer/TimeProofs.v.  Vocabulary: Tracer/Spec.v (last_sample, samples, stamps, nowrap).
   All configurations, all oracles, all histories.
   Proved:
     C05_ts_is_latest_sample   (no hypothesis) every timestamp written is the value of the most
                               recent clock sample preceding it in the log; in particular it is a
                               value the clock returned earlier
     C05_record_ts_is_entry_sample (no hypothesis) every record timestamp written by a tracing call
                               is the sample that call took on entry (also when the call switches
                               packets: the end of the closed packet and the beginning of the new
                               one reuse it, see C05_ts_is_latest_sample)
     C05_ts_monotone, C05_ts_pairwise  under `nowrap` (the returned clock values never decrease,
                               i.e. no reduction modulo 2^d_clock_bits took place) the timestamps
                               are non-decreasing in the order they are written: beginning(p) <=
                               records of p <= end(p) <= beginning(next p)
   Not covered here: the bits stored for a timestamp are its value modulo 2^(field size)
   (layout level, C01/C08); the order "beginning, records, end" of one packet's events in the log
   is the protocol part of C06. *)
From Coq Require Import List Arith Bool ZArith String Sorted.
Import ListNotations.
From BT.Base Require Import Bits.
From BT.Layout Require Import Model.
From BT.Tracer Require Import Model Spec TimeProofs Examples.

Theorem C05_ts_is_latest_sample :
  forall d buf pcargs oracle h l1 k v l2,
    w_log (run d buf pcargs oracle h) = (l1 ++ ETs k v :: l2)%list ->
    last_sample None l1 = Some v /\ In (ESample v) l1.
Proof. exact ts_is_latest_sample. Qed.
Print Assumptions C05_ts_is_latest_sample.

Theorem C05_record_ts_is_entry_sample :
  forall d e args w,
    d_has_clock d = true ->
    let t := ((w_clk w + Z.of_nat (a_inc (hd default_ans (w_or w)))) mod 2 ^ Z.of_nat (d_clock_bits d))%Z in
    exists rest,
      w_log (trace_fn d e args w) =
        (w_log w ++ [ECb 3 (c_in_ts (w_c w)) (c_open (w_c w)); ESample t] ++ rest)%list /\
      Forall (fun e => match e with ETs 2 v => v = t | _ => True end) rest.
Proof. exact trace_fn_record_ts. Qed.
Print Assumptions C05_record_ts_is_entry_sample.

Theorem C05_ts_monotone :
  forall d buf pcargs oracle h,
    nowrap (w_log (run d buf pcargs oracle h)) ->
    StronglySorted Z.le (stamps (w_log (run d buf pcargs oracle h))).
Proof. exact ts_monotone. Qed.
Print Assumptions C05_ts_monotone.

Theorem C05_ts_pairwise :
  forall d buf pcargs oracle h l1 k1 v1 l2 k2 v2,
    nowrap (w_log (run d buf pcargs oracle h)) ->
    w_log (run d buf pcargs oracle h) = (l1 ++ ETs k1 v1 :: l2)%list ->
    In (ETs k2 v2) l2 -> (v1 <= v2)%Z.
Proof. exact ts_pairwise. Qed.
Print Assumptions C05_ts_pairwise.

(* non-vacuity: the example history satisfies nowrap (8-bit clock, samples 1, 4, 4, 5, ...) and
   writes 11 timestamps of the three kinds *)
Example C05_example_nowrap : nowrap (w_log ex_w).
Proof.
  unfold nowrap. replace (samples (w_log ex_w)) with [1; 4; 4; 5; 6; 7; 8; 9; 10; 11]%Z
    by (vm_compute; reflexivity).
  repeat constructor. all: discriminate.
Qed.
Example C05_example_stamps :
  stamps (w_log ex_w) = [1; 4; 4; 5; 5; 5; 7; 8; 9; 10; 11]%Z.
Proof. vm_compute. reflexivity. Qed.

(* Tie to the decoded packets (whole histories, Tracer/History*.v): the ghost events ETs 0 / ETs 1 the
   theorems above speak about carry exactly the values a CTF reader finds in the timestamp_begin /
   timestamp_end members of the packets handed over - the i-th packet's specification (to which the
   reader decodes it: pkt_ok / spec_packet) has k_tsb = the i-th beginning timestamp written and
   k_tse = the i-th end timestamp written, each reduced to its field size by the reader.  Event
   record timestamps: C03_history (`call_out`: the record carries the sample taken at the entry of
   its tracing call). *)
From BT.Tracer Require Import Decode History HistoryRecord HistoryStep HistoryMain.
Theorem C05_decoded_packet_timestamps :
  forall d user cs_size, wf_d d user cs_size ->
  forall buf oracle h,
    fits cs_size (8 * buf) -> or_ok cs_size oracle -> Forall (call_ok d) h ->
    let w0 := mk_w (init_ctx buf) oracle 0%Z [] false user in
    let w1 := step d w0 COpen in
    c_open (w_c w1) = true -> inb_run d w1 h ->
    let w := run d buf user oracle (COpen :: h) in
    w_err w = false -> c_open (w_c w) = false ->
    exists K, Forall2 (pkt_ok d user) (pkts (obs (w_log w))) K /\
              (has_tsb d = true -> map k_tsb K = stamps_of 0 (w_log w)) /\
              (has_tse d = true -> map k_tse K = stamps_of 1 (w_log w)).
Proof. exact history_stamps. Qed.
Print Assumptions C05_decoded_packet_timestamps.

(* the same with the premises reduced to: well-formed type, every buffer holds the packet header and
   context, well-typed sized arguments, first packet opened (Tracer/NoError.v) *)
From BT.Tracer Require Import NoError.
Theorem C05_decoded_packet_timestamps_full :
  forall d user cs_size, wf_d d user cs_size ->
  forall buf oracle h,
    fits cs_size (8 * buf) -> or_ok cs_size oracle -> bufs_ok d user buf oracle -> Forall (call_okf d) h ->
    let w0 := mk_w (init_ctx buf) oracle 0%Z [] false user in
    let w1 := step d w0 COpen in
    c_open (w_c w1) = true ->
    let w := run d buf user oracle (COpen :: h) in
    c_open (w_c w) = false ->
    exists K, Forall2 (pkt_ok d user) (pkts (obs (w_log w))) K /\
              (has_tsb d = true -> map k_tsb K = stamps_of 0 (w_log w)) /\
              (has_tse d = true -> map k_tse K = stamps_of 1 (w_log w)).
Proof. exact history_stamps_full. Qed.
Print Assumptions C05_decoded_packet_timestamps_full.

(* ------------------------------------------------------------------ tie by translation: the tracing function *)
(* The public tracing function <prefix><dst>_trace_<ert> as REGENERATED from the template text of
   barectf.c.j2 on every run (tools/c2coq.py -> Gen/CSkelFuns.v fn_trace), run by the semantics of
   Tracer/CSkelTrace.v, is Model.trace_fn for every data stream type, event record type, argument
   list and world: in particular the clock is sampled once, first, into the saved timestamp which the record and the packet switch then use -
   is what the theorems of this file speak about.  An edit of that template breaks this theorem or
   the fail-closed translator before any differential run. *)
From BT.Tracer Require Import CSkel CSkelTrace CSkelTraceProofs.
From BT.Gen Require Import CSkelFuns.
Theorem C05_trace_fn_is_the_translated_C :
  forall d e args w, run_trace d skel_funs e args fn_trace w = Some (trace_fn d e args w).
Proof. exact skel_trace. Qed.
Print Assumptions C05_trace_fn_is_the_translated_C.
