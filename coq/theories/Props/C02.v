(* C02 - the tracer never touches memory outside the current packet buffer (partial).

   In the model a store outside [0, packet_size) is not performed: `ser` returns None and the world
   gets the sticky error flag with event EErr 1.  So "no access outside the buffer" is "w_err stays
   false".  (EErr 2, the former assert of _reserve_er_space, is no longer produced: S18 is
   repaired, the record is discarded instead.)  Proved, for ALL configurations, oracles and
   histories unless stated:
   * C02_buffer_length_invariant: the buffer keeps its length = packet_size in every reachable
     world (every store the model performs is inside it);
   * C02_size_pass_mirrors_serialization: whenever serialization of an operation succeeds, the size
     pass from the same start position gives exactly the position reached (all operations);
   * C02_fitting_structure_in_bounds: for operations built from a well-formed structure, if the
     end computed by the size pass fits the packet then serialization succeeds, ends exactly there
     and keeps the buffer length (no store outside);
   * C02_record_in_bounds: both defects that falsified the full statement are repaired in /repo
     and in the model - S9 (stale size after a packet switch: the size is computed again at the new
     position and the record discarded when it does not fit) and S18 (smaller buffer installed
     during the switch: the assert became a discard).  Now, with NO size_stable premise: after a
     successful _reserve_er_space that passed the post-switch check, every store of the record is
     inside the packet, and the record occupies exactly the size the size pass gives at the
     position where it is written, ending <= packet_size.  Remaining premises: well-formed record
     field types, no error so far, position inside the packet (false only when the buffer is
     smaller than the packet header + context, whose skipped fields are not bounds-checked);
   * C02_successful_reservation_fits: a successful reservation guarantees the space in the CURRENT
     packet (no "no error" premise any more);
   * C02_record_in_bounds_partial: the earlier form under size_stable, still true (see
     C02_size_stable_without_switch);
   * C02_regression_stale_size / C02_regression_smaller_buffer: the histories that used to refute
     the full statement (former C02_refuted_stale_size / C02_refuted_smaller_buffer) now end
     without error, with one discard, in bounds.
   * C02_no_error (end of this file; proofs Tracer/NoError.v): the statement IN FULL on the model -
     for every well-formed data stream type, platform behaviour and history that starts by opening
     the first packet, the error flag stays false (no store outside the current packet buffer, no
     assertion), provided every buffer the platform installs can hold the packet header + context
     (bufs_ok, decidable by one computation: C02_buffers_decidable) and the arguments are well typed
     and sized (call_okf; necessary: C02_no_error_needs_sized_arguments); C02_history_in_bounds_full:
     the position is inside the packet at every call boundary under the same premises.
   No C90 undefined operation at the bit-field level: C08 (result is Some).
   * uint32_t arithmetic (S12; end of this file, Layout/Wrap32.v + Wrap32Proofs.v, Tracer/Wrap32.v): the
     size pass as the C really computes it (size_op32: every addition and _ALIGN reduced modulo 2^32)
     is the model's size pass modulo 2^32 (C02_size_pass_is_uint32_of_model), hence equal to it
     whenever the record ends below bit 2^32 (C02_uint32_size_agrees_below_2_32, and then the uint32
     reservation test is the model's: C02_no_wrap_transfer) - this is the premise under which the
     theorems above speak about the real arithmetic.  Beyond it the FULL statement is false of the
     faithful model: C02_refuted_uint32_wrap (a dynamic array of 2^29 uint8 elements in a 256-byte
     packet: sized 40 bits, reservation accepted, the serializer stores past the packet).  The
     witness is replayed on the real tracer by every C02 check (known finding S12).
   Validated, not proved (named): the compiled object's actual memory accesses (AddressSanitizer +
   UBSan builds with exact-size heap buffers on every correspondence run), reads of caller data. *)
From Coq Require Import List Arith Bool ZArith String.
Import ListNotations.
From BT.Base Require Import Bits.
From BT.Layout Require Import Model BuildProofs SizeProofs.
From BT.Layout Require Import Wrap32 Wrap32Proofs.
From BT.Tracer Require Import Model Lemmas BoundsProofs BoundsWitness.
From BT.Tracer Require Import Wrap32.

Theorem C02_buffer_length_invariant :
  forall d buf pcargs oracle h,
    let w := run d buf pcargs oracle h in List.length (c_s (w_c w)) = c_psize (w_c w).
Proof. exact run_len_ok. Qed.
Print Assumptions C02_buffer_length_invariant.

Theorem C02_size_pass_mirrors_serialization :
  forall bo nk lim o v ss ss', List.length (ss_s ss) = lim -> ser bo nk lim o v ss = Some ss' ->
    List.length (ss_s ss') = lim /\ (no_uuid o = true -> size_op o v (ss_at ss) = Some (ss_at ss')).
Proof. exact ser_good_all. Qed.
Print Assumptions C02_size_pass_mirrors_serialization.

Theorem C02_fitting_structure_in_bounds :
  forall bo nk lim sf, wf_sft sf = true ->
  forall st vs ss a', List.length (ss_s ss) = lim ->
    size_op (snd (build_root [] st sf)) (VArr vs) (ss_at ss) = Some a' -> a' <= lim ->
    ss_at ss <= a' /\
    exists s', ser bo nk lim (snd (build_root [] st sf)) (VArr vs) ss = Some (mk_ss s' a' (ss_saved ss)) /\
               List.length s' = lim.
Proof. exact ser_fits_root. Qed.
Print Assumptions C02_fitting_structure_in_bounds.

Theorem C02_record_in_bounds_partial :
  forall d e args w0 w1 n,
  wf_rec d = true -> In e (d_erts d) ->
  reserve d w0 n = (true, w1) -> w_err w1 = false -> len_ok w1 ->
  c_at (w_c w1) <= c_psize (w_c w1) ->
  size_parts (rec_parts d e 0%Z args) (c_at (w_c w1)) = Some (c_at (w_c w1) + n) ->
  forall ts,
  let w2 := ser_parts d w1 (rec_parts d e ts args) in
  w_err w2 = false /\ c_at (w_c w2) = c_at (w_c w1) + n /\ c_at (w_c w2) <= c_psize (w_c w2) /\ len_ok w2.
Proof. exact record_in_bounds. Qed.
Print Assumptions C02_record_in_bounds_partial.

(* without a packet switch the position is unchanged, hence the size is the reserved one *)
Theorem C02_size_stable_without_switch :
  forall d e args (w0 w1 : world) at_end,
    size_parts (rec_parts d e 0%Z args) (c_at (w_c w0)) = Some at_end -> c_at (w_c w0) <= at_end ->
    c_at (w_c w1) = c_at (w_c w0) ->
    size_parts (rec_parts d e 0%Z args) (c_at (w_c w1)) = Some (c_at (w_c w1) + (at_end - c_at (w_c w0))).
Proof. intros d e args w0 w1 ae H Hle ->. rewrite H. f_equal. apply Nat.add_comm || idtac. symmetry. apply Nat.sub_add in Hle. rewrite Nat.add_comm. exact Hle. Qed.
Print Assumptions C02_size_stable_without_switch.

(* after the repairs of S9 and S18.  w: the world in which the tracing function computes the size
   (after its entry clock sample); w1: the world after the reservation;
   Lemmas.trace_recheck d e args at0 w1: the post-switch check (true: go on with the record) *)
Theorem C02_record_in_bounds :
  forall d e args w w1 at_end,
  wf_rec d = true -> In e (d_erts d) ->
  size_parts (rec_parts d e 0%Z args) (c_at (w_c w)) = Some at_end ->
  reserve d (set_c w (set_in_ts (w_c w) true)) (at_end - c_at (w_c w)) = (true, w1) ->
  fst (trace_recheck d e args (c_at (w_c w)) w1) = true ->
  w_err w1 = false -> len_ok w1 -> c_at (w_c w1) <= c_psize (w_c w1) ->
  forall ts,
  let w2 := ser_parts d w1 (rec_parts d e ts args) in
  w_err w2 = false /\ size_parts (rec_parts d e 0%Z args) (c_at (w_c w1)) = Some (c_at (w_c w2)) /\
  c_at (w_c w1) <= c_at (w_c w2) /\ c_at (w_c w2) <= c_psize (w_c w2) /\ len_ok w2.
Proof. exact record_in_bounds_repaired. Qed.
Print Assumptions C02_record_in_bounds.

Theorem C02_successful_reservation_fits :
  forall d w n w1, reserve d w n = (true, w1) ->
    gt_diff32 n (c_psize (w_c w1)) (c_at (w_c w1)) = false.
Proof. exact reserve_ok_nf. Qed.
Print Assumptions C02_successful_reservation_fits.

(* regression: the former witness of S9 (buffers of 21, 22, 23 bytes: record sized 72 bits before
   the switch, 96 bits needed after it) - no error, the record is discarded once and counted, the
   position and the buffer length stay in bounds, the new packet is open and empty *)
Example C02_regression_stale_size :
  forallb (fun buf => let w := run d_s9 buf [] [] h_s9 in
                      negb (w_err w) && (n_disc (w_log w) =? 1) && (c_disc (w_c w) =? 1) && in_bounds w &&
                      c_open (w_c w) && (c_at (w_c w) =? c_off_content (w_c w)))
          [21; 22; 23] = true
  /\ (let w := run d_s9 24 [] [] h_s9 in negb (w_err w) && (n_disc (w_log w) =? 0)) = true.
Proof. exact s9_regression. Qed.

(* regression: the former witness of S18 (the closing callback of the switch installs a 13-byte
   buffer) - no error, no EErr 2, one discard *)
Example C02_regression_smaller_buffer :
  (let w := run d_s18 16 [] o_s18 h_s18 in
   negb (w_err w) && negb (has_err 2 (w_log w)) && (n_disc (w_log w) =? 1) && (c_disc (w_c w) =? 1) &&
   in_bounds w && (c_psize (w_c w) =? 104) && c_open (w_c w) && (c_at (w_c w) =? c_off_content (w_c w))) = true
  /\ w_err (run d_s18 16 [] [] h_s18) = false.
Proof. exact s18_regression. Qed.

(* non-vacuity: the hypotheses of C02_record_in_bounds_partial hold on a concrete run (the 24-byte
   variant of the S9 configuration: the record fits after the switch) *)
Example C02_example_no_error : w_err (run d_s9 24 [] [] h_s9) = false /\ wf_rec d_s9 = true.
Proof. vm_compute. split; reflexivity. Qed.

(* non-vacuity of C02_record_in_bounds with a packet switch: 25-byte buffer, three small records
   then the 64-bit aligned one: sized 88 bits at bit 168 (does not fit), the packet is switched, the
   size computed again at bit 96 is 96 bits and fits: all premises hold and the position moved *)
Example C02_example_switch :
  let w := run d_s9 25 [] [] [COpen; CTrace 0 [VArr [VInt 1]]; CTrace 0 [VArr [VInt 1]]; CTrace 0 [VArr [VInt 1]]] in
  let e := mk_ert 1 None (Some (mk_sft 1 [("b"%string, FInt false 64 64)])) in
  let args := [VArr [VInt 2]] in
  exists at_end w1,
    wf_rec d_s9 = true /\ In e (d_erts d_s9) /\
    size_parts (rec_parts d_s9 e 0%Z args) (c_at (w_c w)) = Some at_end /\
    reserve d_s9 (set_c w (set_in_ts (w_c w) true)) (at_end - c_at (w_c w)) = (true, w1) /\
    fst (trace_recheck d_s9 e args (c_at (w_c w)) w1) = true /\
    w_err w1 = false /\ len_ok w1 /\ c_at (w_c w1) <= c_psize (w_c w1) /\
    c_at (w_c w) = 168 /\ c_at (w_c w1) = 96.
Proof.
  cbv zeta. eexists. eexists.
  split; [vm_compute; reflexivity|]. split; [right; left; reflexivity|].
  split; [vm_compute; reflexivity|].
  split; [vm_compute; reflexivity|].
  split; [vm_compute; reflexivity|]. split; [vm_compute; reflexivity|].
  split; [vm_compute; reflexivity|]. split; [vm_compute; repeat constructor|].
  split; vm_compute; reflexivity.
Qed.

(* Whole histories (Tracer/History*.v, HistoryBounds.v): for every well-formed data stream type, every
   platform behaviour and every history that starts by opening the first packet, if no error is
   flagged and the content offset of every open packet is inside its buffer at call boundaries
   (offb / offb_run: every buffer holds the packet header and context - the precondition in the
   statement of C02), then the write position is inside the packet at every call boundary.
   Possible only after the repairs of S9 / S18 in /repo. *)
From BT.Tracer Require Import History HistoryRecord HistoryStep HistoryBounds HistoryMain.
Theorem C02_history_in_bounds :
  forall d user cs_size, wf_d d user cs_size ->
  forall buf oracle h,
    fits cs_size (8 * buf) -> or_ok cs_size oracle -> Forall (call_ok d) h ->
    let w0 := mk_w (init_ctx buf) oracle 0%Z [] false user in
    let w1 := step d w0 COpen in
    c_open (w_c w1) = true -> offb w1 -> offb_run d w1 h ->
    w_err (run d buf user oracle (COpen :: h)) = false ->
    inb_run d w1 h.
Proof. exact history_in_bounds. Qed.
Print Assumptions C02_history_in_bounds.

Theorem C02_tracing_call_stays_in_bounds :
  forall d user cs_size, wf_d d user cs_size ->
  forall R0 w e args cv sv pv,
    J d user cs_size R0 w -> In e (d_erts d) -> args_ok d e args cv sv pv -> inb w ->
    w_err (trace_fn d e args w) = false -> offb (trace_fn d e args w) -> inb (trace_fn d e args w).
Proof. exact trace_inb. Qed.
Print Assumptions C02_tracing_call_stays_in_bounds.

(* ------------------------------------------------------------------ C02 in full on the model *)
(* No store outside the current packet buffer (and no assertion of the generated code) for EVERY
   history, platform behaviour (oracle: back end full, tracing toggled inside callbacks, buffers
   swapped, eager re-opening) and well-formed data stream type, provided every buffer can hold the
   packet header + context and the arguments are well typed and sized.  The model's error flag
   (w_err: a store outside [0, packet_size), or `fail`) is DERIVED false; proofs: Tracer/NoError.v.
     NoError.opens_ok_at d user n : in any world with a buffer of n bits, no error so far and the
        opening arguments `user`, the opening function proper (header + context serialization) flags
        no error and leaves off_content <= n.  Decidable by one computation
        (C02_buffers_decidable: success and end position of a serialization depend only on positions
        and shapes, Layout/SerIndep.v).
     NoError.bufs_ok d user buf oracle : opens_ok_at (8 * buf), and opens_ok_at (8 * b) for every
        buffer size b the platform installs (a_newbuf of an oracle answer).
     NoError.call_okf d k : History.call_ok (well-typed arguments) and the arguments are SIZED
        (SizeTotal.val_fit: static arrays have their declared number of elements, no uuid member);
        necessary: C02_no_error_needs_sized_arguments. *)
From BT.Layout Require Import SizeTotal.
From BT.Tracer Require Import NoError NoErrorExample Examples HistoryExample.

Theorem C02_no_error :
  forall d user cs_size, wf_d d user cs_size ->
  forall buf oracle h,
    fits cs_size (8 * buf) -> or_ok cs_size oracle -> bufs_ok d user buf oracle ->
    Forall (call_okf d) h ->
    let w0 := mk_w (init_ctx buf) oracle 0%Z [] false user in
    c_open (w_c (step d w0 COpen)) = true ->
    w_err (run d buf user oracle (COpen :: h)) = false.
Proof. exact no_error_run. Qed.
Print Assumptions C02_no_error.

(* ... and the write position is inside the packet at every call boundary *)
Theorem C02_history_in_bounds_full :
  forall d user cs_size, wf_d d user cs_size ->
  forall buf oracle h,
    fits cs_size (8 * buf) -> or_ok cs_size oracle -> bufs_ok d user buf oracle ->
    Forall (call_okf d) h ->
    let w0 := mk_w (init_ctx buf) oracle 0%Z [] false user in
    let w1 := step d w0 COpen in
    c_open (w_c w1) = true -> inb_run d w1 h.
Proof. exact history_in_bounds_full. Qed.
Print Assumptions C02_history_in_bounds_full.

Theorem C02_buffers_decidable :
  forall d user n, opens_ok_check d user n = true -> opens_ok_at d user n.
Proof. exact opens_ok_check_ok. Qed.
Print Assumptions C02_buffers_decidable.

(* with `call_ok` only (well typed, not sized) the statement is false for the model: a static array
   argument with the wrong number of elements has no size *)
Theorem C02_no_error_needs_sized_arguments :
  exists d user cs_size buf oracle h,
    wf_d d user cs_size /\ fits cs_size (8 * buf) /\ or_ok cs_size oracle /\ bufs_ok d user buf oracle /\
    Forall (call_ok d) h /\
    c_open (w_c (step d (mk_w (init_ctx buf) oracle 0%Z [] false user) COpen)) = true /\
    w_err (run d buf user oracle (COpen :: h)) = true.
Proof. exact no_error_needs_sized_arguments. Qed.
Print Assumptions C02_no_error_needs_sized_arguments.

(* non-vacuity: every premise holds for the example type and history, and the absence of error of
   that run is obtained through the theorem *)
Example C02_no_error_example :
  wf_d ex_d [] 16 /\ fits 16 (8 * 16) /\ or_ok 16 ex_or /\ bufs_ok ex_d [] 16 ex_or /\
  Forall (call_okf ex_d) ex_tail /\
  w_err (run ex_d 16 [] ex_or (COpen :: ex_tail)) = false.
Proof.
  split; [exact ex_wf|]. split; [unfold fits; cbn; apply Z.ltb_lt; reflexivity|].
  split; [repeat constructor|]. split; [exact ex_bufs_ok|]. split; [exact ex_calls_f|exact no_error_example].
Qed.

(* ------------------------------------------------------------------ uint32_t arithmetic (S12) *)
(* The generated C computes positions and sizes on uint32_t (Layout/Wrap32.v: size_op32, er_size32,
   gt_diff32N); the model above uses unbounded nat.  For operations whose alignments divide 2^32
   (parts_aligns_ok: powers of two) the uint32_t size pass is the model's modulo 2^32; below 2^32
   the value of _er_size_*() and the test of _reserve_er_space are exactly the model's; beyond, the
   statement "the size reserved is the size written" is refuted: a dynamic array of 2^29 uint8
   traced into a 256-byte packet is sized 40 bits, the reservation succeeds, and the serializer
   attempts a store beyond the packet (proofs: Layout/Wrap32Proofs.v, Tracer/Wrap32.v). *)
Theorem C02_size_pass_is_uint32_of_model :
  forall ps, parts_aligns_ok ps -> forall a,
    size_parts32 ps (w32 (N.of_nat a)) = option_map (fun e => w32 (N.of_nat e)) (size_parts ps a).
Proof. exact size_parts32_spec. Qed.
Print Assumptions C02_size_pass_is_uint32_of_model.

Theorem C02_uint32_size_agrees_below_2_32 :
  forall ps a e, parts_aligns_ok ps ->
    size_parts ps a = Some e -> a <= e -> (N.of_nat e < W32)%N ->
    er_size32 ps (N.of_nat a) = Some (N.of_nat (e - a)).
Proof. exact er_size32_agrees. Qed.
Print Assumptions C02_uint32_size_agrees_below_2_32.

Theorem C02_no_wrap_transfer :
  forall ps a e p, parts_aligns_ok ps ->
    size_parts ps a = Some e -> a <= e -> (N.of_nat e < W32)%N -> a <= p -> (N.of_nat p < W32)%N ->
    er_size32 ps (N.of_nat a) = Some (N.of_nat (e - a)) /\
    gt_diff32N (N.of_nat (e - a)) (N.of_nat p) (N.of_nat a) = gt_diff32 (e - a) p a.
Proof. exact no_wrap_transfer. Qed.
Print Assumptions C02_no_wrap_transfer.

Theorem C02_refuted_uint32_wrap :
  forall vs,
  N.of_nat (List.length vs) = 536870912%N -> (forall v, In v vs -> exists z, v = VInt z) ->
  let args := [VArr [VInt 536870912; VArr vs]] in
  let ps := rec_parts d_w32 e_w32 0%Z args in
  let w := w_w32 in
  (In e_w32 (d_erts d_w32) /\ parts_aligns_ok ps /\ c_at (w_c w) = 96 /\ c_off_content (w_c w) = 96 /\
   c_psize (w_c w) = 2048 /\ List.length (c_s (w_c w)) = 2048 /\ w_err w = false) /\
  (exists e, size_parts ps 96 = Some e /\ 96 <= e /\ N.of_nat (e - 96) = (W32 + 40)%N /\
             2048 < e - 96 /\ gt_diff32 (e - 96) 2048 96 = true) /\
  (er_size32 ps 96 = Some 40%N /\ gt_diff32N 40 2048 96 = false /\ reserve d_w32 w 40 = (true, w)) /\
  (forall ts s sv, ser_list LE true 2048 (rec_parts d_w32 e_w32 ts args) (mk_ss s 96 sv) = None) /\
  (forall ts, w_err (ser_parts d_w32 w (rec_parts d_w32 e_w32 ts args)) = true).
Proof. exact wrap32_refuted. Qed.
Print Assumptions C02_refuted_uint32_wrap.

(* the premises on `vs` are satisfiable: the same as a closed existential *)
Theorem C02_refuted_uint32_wrap_closed :
  exists args er,
  let ps := rec_parts d_w32 e_w32 0%Z args in
  parts_aligns_ok ps /\
  er_size32 ps (N.of_nat (c_at (w_c w_w32))) = Some (N.of_nat er) /\
  reserve d_w32 w_w32 er = (true, w_w32) /\ w_err w_w32 = false /\
  forall ts, w_err (ser_parts d_w32 w_w32 (rec_parts d_w32 e_w32 ts args)) = true.
Proof. exact wrap32_refuted_closed. Qed.
Print Assumptions C02_refuted_uint32_wrap_closed.
