(* C02 - the tracer never touches memory outside the current packet buffer (partial).

   In the model a store outside [0, packet_size) is not performed: `ser` returns None and the world
   gets the sticky error flag with event EErr 1 (EErr 2: the assert of _reserve_er_space).  So
   "no access outside the buffer" is "w_err stays false".  Proved, for ALL configurations, oracles
   and histories unless stated:
   * C02_buffer_length_invariant: the buffer keeps its length = packet_size in every reachable
     world (every store the model performs is inside it);
   * C02_size_pass_mirrors_serialization: whenever serialization of an operation succeeds, the size
     pass from the same start position gives exactly the position reached (all operations);
   * C02_fitting_structure_in_bounds: for operations built from a well-formed structure, if the
     end computed by the size pass fits the packet then serialization succeeds, ends exactly there
     and keeps the buffer length (no store outside);
   * C02_record_in_bounds_partial: after a successful _reserve_er_space, if the size that was
     reserved is the record's size at the position finally used (size_stable: always true without
     a packet switch, see C02_size_stable_without_switch), every store of the record is inside the
     packet and the record ends at start + size <= packet_size;
   * the full statement (without size_stable) is FALSE for the faithful model and for the real
     code: C02_refuted_stale_size (S9) and C02_refuted_smaller_buffer (S18), witnesses replayed on
     the compiled tracer by the check (known findings).
   No C90 undefined operation at the bit-field level: C08 (result is Some).
   Validated, not proved (named): the compiled object's actual memory accesses (AddressSanitizer +
   UBSan builds with exact-size heap buffers on every correspondence run), reads of caller data,
   uint32_t wrap-around of ctx->at (S12). *)
From Coq Require Import List Arith Bool ZArith String.
Import ListNotations.
From BT.Base Require Import Bits.
From BT.Layout Require Import Model BuildProofs SizeProofs.
From BT.Tracer Require Import Model Lemmas BoundsProofs BoundsWitness.

Theorem C02_buffer_length_invariant :
  forall d buf pcargs oracle h,
    let w := run d buf pcargs oracle h in List.length (c_s (w_c w)) = c_psize (w_c w).
Proof. exact run_len_ok. Qed.
Print Assumptions C02_buffer_length_invariant.

Theorem C02_size_pass_mirrors_serialization :
  forall bo nk lim o v ss ss', List.length (ss_s ss) = lim -> ser bo nk lim o v ss = Some ss' ->
    List.length (ss_s ss') = lim /\ (no_uuid o = true -> size_op o v (ss_at ss) = Some (ss_at ss')).
Proof. exact ser_good_all. Qed.
Print Assumptions C02_size_pass_mirrors_serialization.

Theorem C02_fitting_structure_in_bounds :
  forall bo nk lim sf, wf_sft sf = true ->
  forall st vs ss a', List.length (ss_s ss) = lim ->
    size_op (snd (build_root [] st sf)) (VArr vs) (ss_at ss) = Some a' -> a' <= lim ->
    ss_at ss <= a' /\
    exists s', ser bo nk lim (snd (build_root [] st sf)) (VArr vs) ss = Some (mk_ss s' a' (ss_saved ss)) /\
               List.length s' = lim.
Proof. exact ser_fits_root. Qed.
Print Assumptions C02_fitting_structure_in_bounds.

Theorem C02_record_in_bounds_partial :
  forall d e args w0 w1 n,
  wf_rec d = true -> In e (d_erts d) ->
  reserve d w0 n = (true, w1) -> w_err w1 = false -> len_ok w1 ->
  c_at (w_c w1) <= c_psize (w_c w1) ->
  size_parts (rec_parts d e 0%Z args) (c_at (w_c w1)) = Some (c_at (w_c w1) + n) ->
  forall ts,
  let w2 := ser_parts d w1 (rec_parts d e ts args) in
  w_err w2 = false /\ c_at (w_c w2) = c_at (w_c w1) + n /\ c_at (w_c w2) <= c_psize (w_c w2) /\ len_ok w2.
Proof. exact record_in_bounds. Qed.
Print Assumptions C02_record_in_bounds_partial.

(* without a packet switch the position is unchanged, hence the size is the reserved one *)
Theorem C02_size_stable_without_switch :
  forall d e args (w0 w1 : world) at_end,
    size_parts (rec_parts d e 0%Z args) (c_at (w_c w0)) = Some at_end -> c_at (w_c w0) <= at_end ->
    c_at (w_c w1) = c_at (w_c w0) ->
    size_parts (rec_parts d e 0%Z args) (c_at (w_c w1)) = Some (c_at (w_c w1) + (at_end - c_at (w_c w0))).
Proof. intros d e args w0 w1 ae H Hle ->. rewrite H. f_equal. apply Nat.add_comm || idtac. symmetry. apply Nat.sub_add in Hle. rewrite Nat.add_comm. exact Hle. Qed.
Print Assumptions C02_size_stable_without_switch.

Theorem C02_refuted_stale_size :
  exists d buf oracle h, let w := run d buf [] oracle h in w_err w = true /\ has_err 1 (w_log w) = true.
Proof.
  exists d_s9, 21, [], h_s9. pose proof s9_witness as [H _]. cbn [forallb] in H.
  apply andb_true_iff in H. destruct H as [H _]. apply andb_true_iff in H. exact H.
Qed.
Print Assumptions C02_refuted_stale_size.

Theorem C02_refuted_smaller_buffer :
  exists d buf oracle h, let w := run d buf [] oracle h in w_err w = true /\ has_err 2 (w_log w) = true.
Proof.
  exists d_s18, 16, o_s18, h_s18. pose proof s18_witness as [H _]. apply andb_true_iff in H. exact H.
Qed.
Print Assumptions C02_refuted_smaller_buffer.

(* non-vacuity: the hypotheses of C02_record_in_bounds_partial hold on a concrete run (the 24-byte
   variant of the S9 configuration: the record fits after the switch) *)
Example C02_example_no_error : w_err (run d_s9 24 [] [] h_s9) = false /\ wf_rec d_s9 = true.
Proof. vm_compute. split; reflexivity. Qed.
