(* C17 - contexts are independent: one context per thread needs no locking (partial).

   Proved:
   * C17_no_writable_static: in the declaration list regenerated from the C templates on every
     run (Gen/Decls.v), every object with static storage duration is const - the generated code
     has no writable state outside the context structures it is given;
   * on the product model (n contexts, each component is the single-context machine validated
     against the compiled tracer): C17_frame (a call on one context leaves every other context,
     its buffer, counters, log and emitted packets unchanged), C17_interleaving (for EVERY
     interleaving of the per-context histories, each context ends exactly where its own history
     alone leads it) and C17_interleavings_agree.
   Validated, not proved (named): that the compiled functions really touch nothing but their
   arguments - nm shows no .data/.bss symbol for random configurations, and a multi-thread run
   (one context per thread, same and different data stream types) under ThreadSanitizer gives
   each thread the byte stream of its sequential run.  Hardware-level races and
   compiler-introduced shared state are outside any Gallina model. *)
From Coq Require Import List Arith Bool ZArith.
Import ListNotations.
From BT.Front Require Import Prefix Decls DeclsC17.
From BT.Gen Require Import Decls.
From BT.Layout Require Import Model.
From BT.Tracer Require Import Model Multi MultiProofs BoundsWitness.
Local Open Scope nat_scope.

Theorem C17_no_writable_static :
  forall d, In d decls -> static_duration d = true -> d_const d = true.
Proof. exact (no_writable_static decls decls_no_writable_static). Qed.
Print Assumptions C17_no_writable_static.

Theorem C17_frame :
  forall dflt ds ws c j dw, j <> fst c -> nth j (mstep dflt ds ws c) dw = nth j ws dw.
Proof. exact mstep_frame. Qed.
Print Assumptions C17_frame.

Theorem C17_interleaving :
  forall dflt ds h ws i dw, i < length ws ->
    nth i (mrun dflt ds ws h) dw = fold_left (step (dst_of ds i dflt)) (proj_calls i h) (nth i ws dw).
Proof. exact interleaving_independent. Qed.
Print Assumptions C17_interleaving.

Theorem C17_interleavings_agree :
  forall dflt ds h h' ws i dw, i < length ws -> proj_calls i h = proj_calls i h' ->
    nth i (mrun dflt ds ws h) dw = nth i (mrun dflt ds ws h') dw.
Proof. exact interleavings_agree. Qed.
Print Assumptions C17_interleavings_agree.

(* non-vacuity: two contexts of two different stream types, two interleavings, same results *)
Definition w0 (b : nat) : world := mk_w (init_ctx b) [] 0%Z [] false [].
Definition hA : list mcall :=
  [(0, COpen); (1, COpen); (0, CTrace 0 [VArr [VInt 1]]); (1, CTrace 0 [VArr [VInt 7]]); (0, CFini); (1, CFini)].
Definition hB : list mcall :=
  [(1, COpen); (1, CTrace 0 [VArr [VInt 7]]); (1, CFini); (0, COpen); (0, CTrace 0 [VArr [VInt 1]]); (0, CFini)].
Example C17_example :
  map (fun w => (enc_log w, w_err w)) (mrun d_s9 [d_s9; d_s18] [w0 40; w0 32] hA) =
  map (fun w => (enc_log w, w_err w)) (mrun d_s9 [d_s9; d_s18] [w0 40; w0 32] hB).
Proof. vm_compute. reflexivity. Qed.
