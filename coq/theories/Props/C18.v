(* C18 — a barectf 2 configuration behaves exactly like its barectf 3 equivalent. (under construction) *)
From Coq Require Import List String ZArith Bool.
Import ListNotations.
From BT.Front Require Import Yaml YamlRes V2Conv V2Proofs.
Open Scope string_scope.

Theorem C18_version_detect_tagged : forall l, major_version true (YMap l) = Ok 3%Z.
Proof. exact version_detect_tagged. Qed.
Print Assumptions C18_version_detect_tagged.
