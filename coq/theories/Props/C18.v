(* C18 — a barectf 2 configuration behaves exactly like its barectf 3 equivalent.
   Final statements only.
     Front/V2Conv.v   model of config_parse_v2.py (_conv_* / _transform_config_node), of
                      config_parse_common._v3_prefixes_from_v2_prefix and of the version detection of
                      config_parse.py, on YAML trees; tied to /repo on every run (harness/props/c18.py:
                      every real conversion and thousands of real _conv_ft_node calls are compared with it).
     Front/V2Sem.v    v2_sem / v3_sem: an independent, direct reading of a barectf 2 document and of a
                      barectf 3 document into ONE abstract configuration record; valid_v2.
     Front/V2Proofs.v proofs.
   Res: Ok | CfgErr (configuration error) | Crash (any other Python exception).  No fuel in the
   converter model; the readings are fuelled on field type nesting only (None when it runs out;
   valid_v2 / v2_ft = Some _ exclude that case). *)
From Coq Require Import List String ZArith Bool.
Import ListNotations.
From BT.Front Require Import Yaml YamlRes V2Conv V2Sem V2Proofs.
Open Scope string_scope.
Open Scope list_scope.

(* ------------------------------------------------------------------ C18_equiv
   For every barectf 2 document (after inclusions, alias expansion and inheritance: the tree the
   converter receives) that is valid_v2, the converter succeeds and its output, read as the barectf 3
   documentation says, IS the abstract configuration the barectf 2 document means: same byte order,
   uuid, environment, log level aliases, clocks (frequency, precision, offsets, origin flag, description,
   uuid, C type), packet header features, and per stream: default flag, clock, every feature with its
   (size, signedness, alignment, base) field type, extra packet context members, event header features,
   common context, and per event log level / context / payload with all field types at every nesting
   depth and explicit enumeration ranges; identifier and file name prefixes; header options.
   valid_v2 = the barectf 2 reading is defined (which implies the shape constraints of
   schemas/config/2) + hypotheses H3-H6 of V2Sem.v, each shown necessary below by a refutation whose
   witness the real code reproduces (findings).  "Absent in barectf 2 = absent in the twin" (S17). *)
Theorem C18_equiv_partial : forall fuel t g,
  v2_sem fuel t = Some g -> valid_v2 fuel t = true ->
  exists t', conv_config t = Ok t' /\ v3_sem fuel t' = Some g.
Proof. exact config_equiv. Qed.
Print Assumptions C18_equiv_partial.

(* the statement at full strength (no valid_v2) is FALSE of the faithful model, hence of /repo:
   what is missing from C18_equiv_partial is exactly H3-H6, and they cannot be removed *)
Theorem C18_equiv_refuted : ~ (forall fuel t g, v2_sem fuel t = Some g -> exists t', conv_config t = Ok t' /\ v3_sem fuel t' = Some g).
Proof. exact equiv_full_refuted. Qed.
Print Assumptions C18_equiv_refuted.

(* non-vacuity: a document with two streams, clocks, mapped timestamps, every field type class, nested and
   dynamic arrays, an enumeration with implicit values after explicit ones and after a range and a repeated
   label, null properties, a prefix with two trailing underscores, header options, `$default-stream`;
   the real barectf loads it on every run (c18.py) *)
Example C18_equiv_nonvacuous : valid_v2 10 ex_valid_doc = true.
Proof. vm_compute. reflexivity. Qed.

Example C18_equiv_instance :
  exists t' g, conv_config ex_valid_doc = Ok t' /\ v2_sem 10 ex_valid_doc = Some g /\ v3_sem 10 t' = Some g
               /\ g_prefix_id g = "my_tr__" /\ g_prefix_file g = "my_tr" /\ List.length (g_streams g) = 2%nat.
Proof.
  destruct (v2_sem 10 ex_valid_doc) as [g|] eqn:E; [|vm_compute in E; discriminate].
  destruct (C18_equiv_partial 10 ex_valid_doc g E C18_equiv_nonvacuous) as [t' [H1 H2]].
  exists t', g. repeat split; try assumption; vm_compute in E; inversion E; reflexivity.
Qed.

(* NOT proved here (would need the JSON schema model of C09): `conv_valid : valid_v2 t -> the barectf 3 schema
   accepts conv t`.  Acceptance of the converted tree by the real barectf 3 parser is covered by the oracle
   of harness/props/c18.py on every generated document only. *)

(* the components, each usable on its own *)
Theorem C18_equiv_stream : forall fuel y s,
  v2_stream fuel y = Some s -> valid_stream fuel y = true ->
  exists y', conv_dst y = Ok y' /\ v3_stream fuel y' = Some s.
Proof. exact stream_equiv. Qed.
Print Assumptions C18_equiv_stream.

Theorem C18_equiv_event : forall fuel y e,
  v2_event fuel y = Some e -> valid_event fuel y = true ->
  exists y', conv_ert y = Ok y' /\ v3_event fuel y' = Some (erase_event e).
Proof. exact event_equiv. Qed.
Print Assumptions C18_equiv_event.

Theorem C18_equiv_clock : forall y c, v2_clock y = Some c -> exists y', conv_clock y = Ok y' /\ v3_clock y' = Some c.
Proof. exact clock_equiv. Qed.
Print Assumptions C18_equiv_clock.

(* ------------------------------------------------------------------ field types, all nesting depths
   At FULL strength: for every barectf 2 field type node the barectf 2 reading understands (any nesting of
   arrays and structures; all class spellings; signed / align / base / byte-order / encoding /
   property-mappings; enumeration members implicit, explicit and ranges; static and dynamic arrays;
   min-align; `fields` absent, null or a mapping) the converter succeeds and its output, read as barectf 3
   says, is the same abstract field type — minus the clock mapping, which barectf 3 does not carry in a
   field type (erase_clk; the mapping is remembered for the default clock, C18_default_clock_inference).
   (Until /repo fixes 3990a98 and 616725c this needed two hypotheses, each refuted by a document the real
   code mishandled; both documents are now regression inputs of the harness.) *)
Theorem C18_field_type_conv : forall fuel y f,
  v2_ft fuel y = Some f ->
  exists y', conv_ft y = Ok y' /\ v3_ft fuel y' = Some (erase_clk f).
Proof. exact ft_equiv_full. Qed.
Print Assumptions C18_field_type_conv.

(* ------------------------------------------------------------------ enumeration auto-increment
   For ALL well-shaped `members` lists (bare labels, {label, value: int}, {label, value: [lo, hi]}):
   the converter's `mappings`, read as barectf 3 says, are the ranges of the barectf 2 rule —
   Ranges: a bare label takes (upper bound of the member written just before it) + 1, 0 if it is the
   first — grouped by label in order of first appearance (repeated labels accumulate ranges). *)
Theorem C18_enum_members_autoinc : forall ms mems,
  omapM member_of ms = Some mems ->
  exists mp, enum_loop ms 0%Z [] = Ok mp
             /\ v3_mappings mp = Some (group (ranges_of mems))
             /\ Ranges None mems (ranges_of mems).
Proof. exact enum_members_autoinc_thm. Qed.
Print Assumptions C18_enum_members_autoinc.

(* ------------------------------------------------------------------ prefix split
   For ALL strings p: the identifier prefix is p; the file name prefix is p without its trailing
   underscores (p = file prefix ++ n underscores, and the file prefix does not end with one); it is the
   independent definition of V2Sem (reverse, drop leading underscores, reverse). *)
Theorem C18_prefix_split : forall p,
  fst (v3_prefixes p) = p
  /\ (exists n, p = (snd (v3_prefixes p) ++ underscores n)%string)
  /\ ends_with_us (snd (v3_prefixes p)) = false
  /\ snd (v3_prefixes p) = file_prefix_of p.
Proof. exact prefix_split_thm. Qed.
Print Assumptions C18_prefix_split.

(* ------------------------------------------------------------------ default clock inference (ALL inputs) *)
Theorem C18_default_clock_inference : forall d y',
  conv_dst (YMap d) = Ok y' ->
  exists n p pf ehf tsb tse ehc,
    y' = YMap n
    /\ lookup "packet-context-type" d = Some (YMap p) /\ lookup "fields" p = Some (YMap pf)
    /\ opt_fields (getn "event-header-type" d) = Ok ehf
    /\ clk_name (lookup "timestamp_begin" pf) = Ok tsb
    /\ clk_name (lookup "timestamp_end" pf) = Ok tse
    /\ match ehf with Some ef => clk_name (lookup "timestamp" ef) | None => Ok None end = Ok ehc
    /\ (forall a b, tsb = Some a -> tse = Some b -> a = b)
    /\ lookup "$default-clock-type-name" n = first_some ehc (first_some tsb tse).
Proof. exact default_clock_inference_thm. Qed.
Print Assumptions C18_default_clock_inference.

(* clk_name of a mapped integer is the `name` of its FIRST property mapping *)
Theorem C18_clock_name_of_mapped_integer : forall il c f rest nm,
  lookup "class" il = Some (YStr c) -> one_of c ["int"; "integer"] = true ->
  lookup "property-mappings" il = Some (YSeq (YMap f :: rest)) -> lookup "name" f = Some nm ->
  clk_name (Some (YMap il)) = Ok (Some nm).
Proof. exact clk_name_mapped. Qed.
Print Assumptions C18_clock_name_of_mapped_integer.

Theorem C18_clock_mismatch_is_error : forall d p pf ehf a b,
  lookup "packet-context-type" d = Some (YMap p) -> lookup "fields" p = Some (YMap pf) ->
  opt_fields (getn "event-header-type" d) = Ok ehf ->
  clk_name (lookup "timestamp_begin" pf) = Ok (Some a) ->
  clk_name (lookup "timestamp_end" pf) = Ok (Some b) -> a <> b ->
  exists w, conv_dst (YMap d) = CfgErr w.
Proof. exact clock_mismatch_is_error. Qed.
Print Assumptions C18_clock_mismatch_is_error.

(* ------------------------------------------------------------------ feature inference (ALL inputs) *)
Theorem C18_feature_inference : forall d y',
  conv_dst (YMap d) = Ok y' ->
  exists n p pf ehf pkt er,
    y' = YMap n
    /\ lookup "packet-context-type" d = Some (YMap p) /\ lookup "fields" p = Some (YMap pf)
    /\ opt_fields (getn "event-header-type" d) = Ok ehf
    /\ lookup "$features" n = Some (YMap [("packet", YMap pkt); ("event-record", YMap er)])
    /\ keys pkt = ["total-size-field-type"; "content-size-field-type"; "beginning-timestamp-field-type";
                   "end-timestamp-field-type"; "discarded-event-records-counter-snapshot-field-type"]
    /\ keys er = ["type-id-field-type"; "timestamp-field-type"]
    /\ feature_spec (lookup "packet_size" pf) (lookup "total-size-field-type" pkt)
    /\ feature_spec (lookup "content_size" pf) (lookup "content-size-field-type" pkt)
    /\ feature_spec (lookup "timestamp_begin" pf) (lookup "beginning-timestamp-field-type" pkt)
    /\ feature_spec (lookup "timestamp_end" pf) (lookup "end-timestamp-field-type" pkt)
    /\ feature_spec (lookup "events_discarded" pf) (lookup "discarded-event-records-counter-snapshot-field-type" pkt)
    /\ (let ef := match ehf with Some ef => ef | None => [] end in
        feature_spec (lookup "id" ef) (lookup "type-id-field-type" er)
        /\ feature_spec (lookup "timestamp" ef) (lookup "timestamp-field-type" er))
    /\ exists ex,
         Forall2 (fun kv item => exists c, conv_ft (snd kv) = Ok c /\ item = member_item (fst kv) c)
                 (filter (fun kv => negb (in_list (fst kv) ctf_member_names)) pf) ex
         /\ lookup "packet-context-field-type-extra-members" n = match ex with [] => None | _ => Some (YSeq ex) end.
Proof. exact feature_inference_thm. Qed.
Print Assumptions C18_feature_inference.

(* ------------------------------------------------------------------ version detection
   A root mapping carrying the barectf 3 tag is 3, an untagged root mapping (whatever its `version`
   property) is 2 — for configuration_file_major_version and for the parser dispatch; anything that is
   not a mapping is not Ok (configuration error in both cases, since fix b10375b of /repo). *)
Theorem C18_version_detect :
  (forall l, major_version true (YMap l) = Ok 3%Z)
  /\ (forall l, major_version false (YMap l) = Ok 2%Z)
  /\ (forall l, parser_dispatch true (YMap l) = Ok 3%Z)
  /\ (forall l, parser_dispatch false (YMap l) = Ok 2%Z)
  /\ (forall b y, (forall l, y <> YMap l) -> is_ok (major_version b y) = false /\ is_ok (parser_dispatch b y) = false).
Proof. exact version_detect_thm. Qed.
Print Assumptions C18_version_detect.

(* ------------------------------------------------------------------ the hypotheses of valid_v2 are needed
   `disagrees w`: the barectf 2 reading of w is defined, and the converter's output (if any) does not
   read as the same abstract configuration.  Each witness is replayed on the real code on every run
   (harness/props/c18_probes.py); the real code shows every one of these deviations. *)
(* H1 (no float with `byte-order`) is retired: /repo fix 3990a98 drops the property in _conv_real_ft_node; its
   former witness is now inside valid_v2 (regression input of the harness: must generate what its twin generates) *)
Example C18_former_H1_witness_is_valid : valid_v2 10 w_real_byte_order = true.
Proof. exact w_real_byte_order_now_valid. Qed.
(* H2 (`fields: null`, header structure without `fields`) is retired: /repo fix 616725c; former witnesses are inside
   valid_v2 and are regression inputs of the harness *)
Example C18_former_H2_witnesses_are_valid : valid_v2 10 w_fields_null = true /\ valid_v2 10 w_header_no_fields = true.
Proof. exact w_fields_null_now_valid. Qed.
Theorem C18_equiv_without_H3_refuted : disagrees w_seq_num.                 (* packet_seq_num dropped *)
Proof. exact H3_seq_num_refuted. Qed.
Print Assumptions C18_equiv_without_H3_refuted.
Theorem C18_equiv_without_H4_refuted : disagrees w_mixed_clocks.            (* two clocks in one stream *)
Proof. exact H4_mixed_clocks_refuted. Qed.
Print Assumptions C18_equiv_without_H4_refuted.
Theorem C18_equiv_without_H5_refuted : disagrees w_header_members.          (* other header members dropped *)
Proof. exact H5_header_members_refuted. Qed.
Print Assumptions C18_equiv_without_H5_refuted.
Theorem C18_equiv_without_H6_refuted : disagrees w_payload_mapping.         (* mapping outside timestamps dropped *)
Proof. exact H6_payload_mapping_refuted. Qed.
Print Assumptions C18_equiv_without_H6_refuted.
