(* C06 — packet life cycle and accessors.
   Model: Tracer/Model.v.  Proofs: Tracer/ProtocolProofs.v.  Vocabulary: Tracer/Spec.v.
   All configurations d, all oracles; (a), (b), (e) for ALL worlds, (d) for all histories.
   Proved:
     (a) C06_open_noop / C06_close_noop   opening an open packet (closing a closed one), or calling
         either from outside a tracing section with tracing disabled, is exactly the function's
         preamble: at most one clock callback (which advances the clock, logs its entry and sample
         and may toggle is_tracing_enabled) and nothing else: the worlds are EQUAL
     (b) C06_open_effective / C06_close_effective   otherwise (tracing enabled after the preamble,
         or inside a tracing section) the packet becomes open and empty (at = off_content),
         resp. closed with at = packet_size, content_size = old at, sequence_number incremented
         iff the packet context has packet_seq_num; the other scalar context fields keep their
         value (no "no error" hypothesis is needed: a failed store only logs an error)
     (d) C06_accessors   sequence_number = number of packets handed over when the feature exists
         (constantly 0 otherwise), events_discarded = number of discard events; packet_is_empty
         right after an effective opening is the `at = off_content` conjunct of (b)
     (e) C06_fini_flushes   after the documented finalisation idiom with tracing enabled (and the
         two callbacks involved not disabling it) no open non-empty packet remains
     (c) C06_callback_protocol   for every history that starts with an opening call that takes
         effect (hypothesis `opened_first`, S10) and every configuration whose event records have
         positive size (hypothesis `pos_records`, S13): every tracer-initiated open callback entry
         finds packet_is_open = 0 and the closest preceding is_backend_full answer is "not full";
         every tracer-initiated close callback entry finds packet_is_open = 1.  Holds for every
         reachable world, model-error worlds included.  Third hypothesis `no_eager`: no oracle
         answer is "eager", i.e. the platform's close callback never opens the next packet itself
         (double buffering); on an eager platform the tracer's subsequent open callback finds the
         packet already open, by the platform's own doing.  All three hypotheses are necessary:
         C06_protocol_without_pos_records_refuted, C06_protocol_without_opened_first_refuted,
         C06_protocol_with_eager_platform_refuted.
   Everything else in this file holds for eager platforms too, statements unchanged. *)
From Coq Require Import List Arith Bool ZArith String Lia.
Import ListNotations.
From BT.Base Require Import Bits.
From BT.Layout Require Import Model.
From BT.Tracer Require Import Model Spec ProtocolProofs Examples.

Theorem C06_open_noop :
  forall d w,
    let w1 := snd (preamble_ts d w (has_member (d_pc d) "timestamp_begin")) in
    c_open (w_c w) = true \/ (c_enabled (w_c w1) = false /\ c_in_ts (w_c w) = false) ->
    open_fn d w = w1.
Proof. exact open_noop. Qed.
Print Assumptions C06_open_noop.

Theorem C06_close_noop :
  forall d w,
    let w1 := snd (preamble_ts d w (has_member (d_pc d) "timestamp_end")) in
    c_open (w_c w) = false \/ (c_enabled (w_c w1) = false /\ c_in_ts (w_c w) = false) ->
    close_fn d w = w1.
Proof. exact close_noop. Qed.
Print Assumptions C06_close_noop.

(* what the preamble may change *)
Theorem C06_preamble_frame :
  forall d w f,
    let w1 := snd (preamble_ts d w f) in
    same_packet (w_c w) (w_c w1) /\ c_last_ts (w_c w1) = c_last_ts (w_c w) /\
    w_err w1 = w_err w /\ w_pcargs w1 = w_pcargs w.
Proof. exact preamble_frame. Qed.
Print Assumptions C06_preamble_frame.

(* Spec.open_post c c': c_open c' = true, c_at c' = c_off_content c', and packet_size,
   content_size, events_discarded, sequence_number, in_tracing_section, is_tracing_enabled,
   use_cur_last_event_ts, cur_last_event_ts of c' are those of c *)
Theorem C06_open_effective :
  forall d w,
    let w1 := snd (preamble_ts d w (has_member (d_pc d) "timestamp_begin")) in
    c_open (w_c w) = false -> (c_enabled (w_c w1) = true \/ c_in_ts (w_c w) = true) ->
    open_post (w_c w1) (w_c (open_fn d w)).
Proof. exact open_effective. Qed.
Print Assumptions C06_open_effective.

(* Spec.close_post d c c': c_open c' = false, c_at c' = c_psize c', c_content c' = c_at c,
   c_seq c' = (if has_member (d_pc d) "packet_seq_num" then S (c_seq c) else c_seq c), the other
   scalar fields unchanged *)
Theorem C06_close_effective :
  forall d w,
    let w1 := snd (preamble_ts d w (has_member (d_pc d) "timestamp_end")) in
    c_open (w_c w) = true -> (c_enabled (w_c w1) = true \/ c_in_ts (w_c w) = true) ->
    close_post d (w_c w1) (w_c (close_fn d w)).
Proof. exact close_effective. Qed.
Print Assumptions C06_close_effective.

Theorem C06_accessors :
  forall d buf pcargs oracle h,
    let w := run d buf pcargs oracle h in
    c_seq (w_c w) = (if has_member (d_pc d) "packet_seq_num" then npk (w_log w) else 0) /\
    c_disc (w_c w) = ndisc (w_log w).
Proof. exact run_counts. Qed.
Print Assumptions C06_accessors.

Theorem C06_fini_flushes :
  forall d w,
    w_err w = false -> c_enabled (w_c w) = true ->
    a_toggle (hd default_ans (w_or w)) <> Some false ->
    a_toggle (hd default_ans (tl (w_or w))) <> Some false ->
    let w' := step d w CFini in
    c_open (w_c w') && negb (c_at (w_c w') <=? c_off_content (w_c w'))%nat = false.
Proof. exact fini_flushes. Qed.
Print Assumptions C06_fini_flushes.

(* Spec.proto la l: scanning the log l with la = most recent is_backend_full answer, every
   `ECb 1 true o` has o = false and la = Some false, every `ECb 2 true o` has o = true.
   Spec.pos_records d: size_parts (rec_parts d e 0 args) a = Some a' -> a < a' for every event
   record type e of d. *)
Theorem C06_callback_protocol :
  forall d buf pcargs oracle h,
    pos_records d ->
    Forall (fun a => a_eager a = false) oracle ->
    c_open (w_c (run d buf pcargs oracle [COpen])) = true ->
    proto None (w_log (run d buf pcargs oracle (COpen :: h))).
Proof. exact run_proto. Qed.
Print Assumptions C06_callback_protocol.

(* without pos_records: 8-bit packet context filling a 1-byte buffer, event record of 0 bits:
   `open; trace` invokes the open callback while the packet is open *)
Theorem C06_protocol_without_pos_records_refuted :
  exists d buf pcargs oracle h,
    Forall (fun a => a_eager a = false) oracle /\
    c_open (w_c (run d buf pcargs oracle [COpen])) = true /\
    w_err (run d buf pcargs oracle (COpen :: h)) = false /\
    In (ECb 1 true true) (w_log (run d buf pcargs oracle (COpen :: h))) /\
    ~ proto None (w_log (run d buf pcargs oracle (COpen :: h))).
Proof.
  exists ex_dz, 1, [], [], [CTrace 0 [VArr []]]. split; [constructor|].
  split; [vm_compute; reflexivity|]. split; [vm_compute; reflexivity|].
  split; [vm_compute; repeat (first [left; reflexivity | right])|].
  intros H. vm_compute in H. decompose [and] H.
  match goal with X : 1 = 1 -> _ |- _ => destruct (X eq_refl) as [Y _]; discriminate Y end.
Qed.
Print Assumptions C06_protocol_without_pos_records_refuted.

(* without opened_first (S10): `init; trace` of a record that exactly fills the buffer invokes the
   close callback while no packet is open *)
Theorem C06_protocol_without_opened_first_refuted :
  exists d buf pcargs oracle h,
    pos_records d /\ Forall (fun a => a_eager a = false) oracle /\
    w_err (run d buf pcargs oracle h) = false /\
    In (ECb 2 true false) (w_log (run d buf pcargs oracle h)) /\
    ~ proto None (w_log (run d buf pcargs oracle h)).
Proof.
  exists ex_d2, 2, [], [], [CTrace 0 []]. split.
  { intros e args a a' Hin Hs. destruct Hin as [<-|[]].
    vm_compute rec_parts in Hs. cbn -[align_up] in Hs. injection Hs as <-.
    pose proof (align_up_ge a 8 ltac:(lia)).
    pose proof (align_up_ge (align_up a 8) 8 ltac:(lia)).
    pose proof (align_up_ge (align_up (align_up a 8) 8 + 8) 8 ltac:(lia)). lia. }
  split; [constructor|].
  split; [vm_compute; reflexivity|].
  split; [vm_compute; repeat (first [left; reflexivity | right])|].
  intros H. vm_compute in H. decompose [and] H.
  match goal with X : 2 = 2 -> false = true |- _ => specialize (X eq_refl); discriminate X end.
Qed.
Print Assumptions C06_protocol_without_opened_first_refuted.

(* with an eager platform: 17-byte buffer, fifth record does not fit; the close callback of the
   packet switch (8th oracle answer) hands the packet over and opens the next one itself; the
   tracer then asks is_backend_full and invokes the open callback on the open packet *)
Theorem C06_protocol_with_eager_platform_refuted :
  exists d buf pcargs oracle h,
    pos_records d /\
    c_open (w_c (run d buf pcargs oracle [COpen])) = true /\
    w_err (run d buf pcargs oracle (COpen :: h)) = false /\
    In (ECb 1 true true) (w_log (run d buf pcargs oracle (COpen :: h))) /\
    ~ proto None (w_log (run d buf pcargs oracle (COpen :: h))).
Proof.
  exists ex_d2, 17, [], (repeat default_ans 7 ++ [mk_ans false None None 1 true])%list,
         [CTrace 0 []; CTrace 0 []; CTrace 0 []; CTrace 0 []; CTrace 0 []]. split.
  { intros e args a a' Hin Hs. destruct Hin as [<-|[]].
    vm_compute rec_parts in Hs. cbn -[align_up] in Hs. injection Hs as <-.
    pose proof (align_up_ge a 8 ltac:(lia)).
    pose proof (align_up_ge (align_up a 8) 8 ltac:(lia)).
    pose proof (align_up_ge (align_up (align_up a 8) 8 + 8) 8 ltac:(lia)). lia. }
  split; [vm_compute; reflexivity|]. split; [vm_compute; reflexivity|].
  split; [vm_compute; repeat (first [left; reflexivity | right])|].
  intros H. vm_compute in H. decompose [and] H.
  match goal with X : 1 = 1 -> true = false /\ _ |- _ => destruct (X eq_refl) as [Y _]; discriminate Y end.
Qed.
Print Assumptions C06_protocol_with_eager_platform_refuted.

(* non-vacuity of (c): ex_d2 has positive-size records, its first opening takes effect, and the
   history contains tracer-initiated open and close callbacks *)
Example C06_example_pos_records : pos_records ex_d2.
Proof.
  intros e args a a' Hin Hs. destruct Hin as [<-|[]].
  vm_compute rec_parts in Hs. cbn -[align_up] in Hs. injection Hs as <-.
  pose proof (align_up_ge a 8 ltac:(lia)).
  pose proof (align_up_ge (align_up a 8) 8 ltac:(lia)).
  pose proof (align_up_ge (align_up (align_up a 8) 8 + 8) 8 ltac:(lia)). lia.
Qed.
Example C06_example_protocol :
  Forall (fun a => a_eager a = false) (@nil ans) /\
  c_open (w_c (run ex_d2 16 [] [] [COpen])) = true /\
  w_err (run ex_d2 16 [] [] ex_h2) = false /\
  In (ECb 1 true false) (w_log (run ex_d2 16 [] [] ex_h2)) /\
  In (ECb 2 true true) (w_log (run ex_d2 16 [] [] ex_h2)).
Proof.
  split; [constructor|].
  split; [vm_compute; reflexivity|]. split; [vm_compute; reflexivity|].
  split; vm_compute; repeat (first [left; reflexivity | right]).
Qed.

(* non-vacuity: the world before the final CFini of the example history has an open, non-empty
   packet, tracing enabled, and an exhausted oracle (default answers do not toggle); 3 packets are
   handed over in the whole history and the counter says 3 *)
Definition ex_w11 : world := run ex_d 16 [] ex_or (firstn 11 ex_h).
Example C06_example :
  w_err ex_w11 = false /\ c_enabled (w_c ex_w11) = true /\
  c_open (w_c ex_w11) && negb (c_at (w_c ex_w11) <=? c_off_content (w_c ex_w11))%nat = true /\
  a_toggle (hd default_ans (w_or ex_w11)) = None /\
  npk (w_log ex_w) = 3 /\ c_seq (w_c ex_w) = 3.
Proof. vm_compute. repeat split; reflexivity. Qed.

(* ------------------------------------------------------------------ tie by translation *)
(* The accessors packet_is_full / packet_is_empty and barectf_packet_set_buf as REGENERATED from
   barectf.c.j2 on every run (tools/c2coq.py -> Gen/CSkelFuns.v), run by the semantics of
   Tracer/CSkel.v, are the model's: the tests `at = packet_size`, `at <= off_content` (finalisation
   idiom of Model.step) and Model.packet_set_buf (address and size last installed, full state kept). *)
From BT.Tracer Require Import CSkel CSkelProofs.
From BT.Gen Require Import CSkelFuns.
Theorem C06_is_full_is_the_translated_C :
  forall d w, run_fun d skel_funs [] fn_packet_is_full w =
              Some (Some (if Nat.eqb (c_at (w_c w)) (c_psize (w_c w)) then 1 else 0), w).
Proof. exact skel_is_full. Qed.
Print Assumptions C06_is_full_is_the_translated_C.

Theorem C06_is_empty_is_the_translated_C :
  forall d w, run_fun d skel_funs [] fn_packet_is_empty w =
              Some (Some (if Nat.leb (c_at (w_c w)) (c_off_content (w_c w)) then 1 else 0), w).
Proof. exact skel_is_empty. Qed.
Print Assumptions C06_is_empty_is_the_translated_C.

Theorem C06_set_buf_is_the_translated_C :
  forall d w p bytes,
    run_fun d skel_funs [("buf"%string, p); ("buf_size"%string, bytes)] fn_packet_set_buf w =
    Some (None, set_c w (packet_set_buf (w_c w) bytes)).
Proof. exact skel_set_buf. Qed.
Print Assumptions C06_set_buf_is_the_translated_C.

(* ------------------------------------------------------------------ tie by translation: opening / closing functions *)
(* <prefix><dst>_open_packet / _close_packet as REGENERATED from the template text of barectf.c.j2 on every
   run (tools/c2coq.py -> Gen/CSkelFuns.v fn_open, fn_close; the serialization of the header / context
   operation trees and the three write-back blocks are single abstract statements, tied by the operation
   tree capture and the differential runs), run by the semantics of Tracer/CSkelOC.v, are Model.open_fn /
   Model.close_fn for every data stream type and world: the no-op exits on an open (resp. closed) packet, the packet_is_open flag, the position rewound to 0 at opening and parked at packet_size at closing, off_content. *)
From BT.Tracer Require Import CSkel CSkelOC CSkelOCProofs.
From BT.Gen Require Import CSkelFuns.
Theorem C06_open_fn_is_the_translated_C : forall d w, run_oc d fn_open w = Some (open_fn d w).
Proof. exact skel_open. Qed.
Print Assumptions C06_open_fn_is_the_translated_C.
Theorem C06_close_fn_is_the_translated_C : forall d w, run_oc d fn_close w = Some (close_fn d w).
Proof. exact skel_close. Qed.
Print Assumptions C06_close_fn_is_the_translated_C.

(* ------------------------------------------------------------------ tie by translation: barectf_init *)
(* <prefix>init as REGENERATED from barectf.c.j2 (tools/c2coq.py -> fn_init) sets every field of the context
   to the value Model.init_ctx has - position 0, both counters 0, packet closed, flag 0, tracing enabled -
   EXCEPT content_size / off_content, which it leaves untouched (S10: "sequences the documentation allows"
   open the first packet before anything reads them); on zero-filled context memory it IS Model.init_ctx. *)
From BT.Tracer Require Import CSkelInit.
Theorem C06_init_is_the_translated_C :
  forall bytes c,
    i_run bytes (cf_body fn_init) c =
    Some (mk_ctx (zeros (8 * bytes)) (8 * bytes) 0 (c_content c) (c_off_content c) 0 0 false false true false
                 (c_last_ts c) (c_saved c)).
Proof. exact skel_init. Qed.
Print Assumptions C06_init_is_the_translated_C.
Theorem C06_init_on_zeroed_memory :
  forall bytes c, c_content c = 0 -> c_off_content c = 0 -> c_last_ts c = 0%Z -> c_saved c = [] ->
    i_run bytes (cf_body fn_init) c = Some (init_ctx bytes).
Proof. exact skel_init_zeroed. Qed.
Print Assumptions C06_init_on_zeroed_memory.

(* ------------------------------------------------------------------ tie by translation: the accessors *)
(* Every accessor of the public API, REGENERATED from barectf.c.j2 (which field it returns, directly or through
   one delegation), read on the model context returns the model's field: so "the accessors always tell the
   truth" (C06_accessors above, about the model's fields) is about what the C accessors return. *)
From BT.Tracer Require Import CSkelAcc.
Theorem C06_accessors_are_the_translated_C :
  forall c,
  acc c "packet_size" = Some (c_psize c) /\
  acc c "packet_buf_size" = Some (c_psize c / 8) /\
  acc c "packet_events_discarded" = Some (c_disc c) /\
  acc c "discarded_event_records_count" = Some (c_disc c) /\
  acc c "packet_sequence_number" = Some (c_seq c) /\
  acc c "packet_is_open" = Some (b2n (c_open c)) /\
  acc c "is_in_tracing_section" = Some (b2n (c_in_ts c)) /\
  acc c "is_tracing_enabled" = Some (b2n (c_enabled c)).
Proof. exact accessors_truth. Qed.
Print Assumptions C06_accessors_are_the_translated_C.
