(* C14 — generated code is strict ANSI C (and valid C++) with the documented API (partial).

   Proved (on cgen._ft_c_type translated into Gen/PyFuns.v, re-validated against the real function
   on every check):
     * C14_ctype: for EVERY well-formed field type the C type the generator chooses is the
       documented one (smallest of the 8/16/32/64-bit integer types by signedness, float / double
       for reals of any alignment - S1 was repaired by fix: commit 6c479ec in /repo -, const
       char *, pointer to const element);
     * C14_protos: with that type table the parameter lists of the open / trace functions
       are the documented ones (cc_, sc_, p_ / pc_ members in order, dynamic array = uint32_t
       length + pointer), one open/close pair per stream, one tracing function per event record
       type (C14_protos_count).
   Validated, not proved (named): that gcc / clang / g++ / clang++ accept the generated files
   without diagnostics, and that the generated header agrees with the documented prototypes
   (glue.c printed from Protos.doc_protos, a conflicting declaration is a compile error). *)
From Coq Require Import List NArith Bool String.
Import ListNotations.
From BT.Front Require Import Prefix CTypes CTypesProofs Protos ProtosProofs.
From BT.Gen Require Import PyFuns.
Open Scope N_scope.

Theorem C14_ctype : forall t k fuel,
    wf_ft t = true -> (ft_depth t <= fuel)%nat ->
    ft_c_type fuel t k = Some (doc_c_type t k).
Proof. exact ft_c_type_doc. Qed.
Print Assumptions C14_ctype.

Theorem C14_protos : forall c, cfg_ok c = true -> protos_of real_c_type c = doc_protos c.
Proof. exact protos_doc. Qed.
Print Assumptions C14_protos.

Theorem C14_protos_count : forall f c, List.length (protos_of f c) = count_protos c.
Proof. exact protos_count. Qed.
Print Assumptions C14_protos_count.

Theorem C14_loop_var_name : forall level, loop_var_name level = Some (doc_loop_var_name level).
Proof. exact loop_var_name_spec. Qed.
Print Assumptions C14_loop_var_name.

(* non-vacuity: the example of docs/modules/tracing-funcs/pages/index.adoc *)
Example C14_example_documented_prototype :
  glue_lines (mk_cfg (s2l "barectf_") [mk_dst (s2l "my_stream") []
     (Some [(s2l "pid", FInt false 32 32); (s2l "t_level", FReal 64 64)])
     [mk_ert (s2l "my_event") (Some [(s2l "count", FInt false 16 16)])
             (Some [(s2l "msg", FStr); (s2l "src_ip_addr", FSArr 4 (FInt false 8 8))])]]) =
  ["void barectf_my_stream_open_packet(struct barectf_my_stream_ctx *sctx);";
   "void barectf_my_stream_close_packet(struct barectf_my_stream_ctx *sctx);";
   "void barectf_my_stream_trace_my_event(struct barectf_my_stream_ctx *sctx, uint32_t cc_pid, double cc_t_level, uint16_t sc_count, const char *p_msg, const uint8_t *p_src_ip_addr);"]%string.
Proof. vm_compute. reflexivity. Qed.

Example C14_example_types :
  ft_c_type 3 (FDArr (FInt true 17 1)) false = Some (CPtr (CArith (s2l "int32_t") true) false) /\
  ft_c_type 1 (FReal 32 32) false = Some (CArith (s2l "float") false) /\
  ft_c_type 1 (FReal 32 8) false = Some (CArith (s2l "float") false).
Proof. vm_compute. repeat split; reflexivity. Qed.
