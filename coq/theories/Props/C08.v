(* C08 — integer fields of any size, bit offset and byte order are encoded bit-exactly. *)
From Coq Require Import List Arith Bool.
Import ListNotations.
From BT.C Require Import Sym Bitfield BitfieldSound.

(* For both trace byte orders, every in-byte start offset, every length 1..64, every carrier type
   (8/16/32/64 bits, signed or unsigned), EVERY value v of the carrier and EVERY prior content of
   the window (= exactly the bytes overlapping the field): the macro program has no undefined
   operation (result is Some), stores exactly the specified bits and leaves every other bit of the
   window unchanged; bytes outside the window are not addressable by the program at all
   (ILoad/IStore outside the window yield None). *)
Theorem C08_bitfield_exact :
  forall bo W sg start len (v : list bool) (win : list (list bool)),
    In W [8;16;32;64] -> start < 8 -> 1 <= len <= 64 ->
    length v = W -> length win = (start + len + 7) / 8 -> Forall (fun b => length b = 8) win ->
    bf_write bo W sg start len v win = Some (spec_write bo W sg start len v win).
Proof. intros; apply bf_write_exact; assumption. Qed.
Print Assumptions C08_bitfield_exact.

(* non-vacuity: a 13-bit signed -3 at offset 3 over all-ones, both byte orders *)
Definition m3_16 := [true;false;true;true;true;true;true;true;true;true;true;true;true;true;true;true].
Definition ones2 := [repeat true 8; repeat true 8].
Example C08_example_le :
  bf_write LE 16 true 3 13 m3_16 ones2 =
  Some [[true;true;true;true;false;true;true;true]; repeat true 8].
Proof. vm_compute. reflexivity. Qed.
Example C08_example_be :
  bf_write BE 16 true 3 13 m3_16 ones2 =
  Some [repeat true 8; [true;false;true;true;true;true;true;true]].
Proof. vm_compute. reflexivity. Qed.
