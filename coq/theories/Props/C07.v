(* C07 — disabled tracing has no effect; tracing calls are atomic w.r.t. the switch.
   Model: Tracer/Model.v.  Proofs: Tracer/DisabledProofs.v.  All configurations, all worlds
   (reachable or not), all oracles; no hypothesis beyond the ones written in the statements.
   Proved:
     (a) C07_trace_disabled   a tracing call that finds tracing disabled after its entry clock
                              sample returns the world left by that clock callback: every context
                              field except is_tracing_enabled (the clock callback may toggle it) and
                              cur_last_event_ts is unchanged, buffer included; error state unchanged;
                              the only events logged are the clock callback entry and its sample
                              (no store, no other callback)
     (c) C07_reenable_resumes after any sequence of such calls followed by enable_tracing(1) the
                              context (buffer, at, packet_is_open, off_content, counters, saved
                              offsets) is the one left by the last recorded event record: the next
                              record is appended there, in the same packet
   NOT proved (statement kept in DESIGN.md section 5, C07 (b)): atomicity of a tracing call that
   passed its enabled test w.r.t. toggles performed by callbacks during it (simulation `sim`). *)
From Coq Require Import List Arith Bool ZArith String.
Import ListNotations.
From BT.Base Require Import Bits.
From BT.Layout Require Import Model.
From BT.Tracer Require Import Model Spec DisabledProofs Examples.

(* Spec.entry_world d w: the world after the entry clock sample of a tracing call;
   Spec.clock_seg d w: the two events logged by that clock callback ([] without a clock);
   Spec.same_packet c c': all context fields equal except is_tracing_enabled, cur_last_event_ts *)
Theorem C07_trace_disabled :
  forall d e args w,
    c_enabled (w_c (entry_world d w)) = false ->
    trace_fn d e args w = entry_world d w /\
    same_packet (w_c w) (w_c (trace_fn d e args w)) /\
    w_err (trace_fn d e args w) = w_err w /\
    w_log (trace_fn d e args w) = (w_log w ++ clock_seg d w)%list.
Proof. exact trace_fn_disabled. Qed.
Print Assumptions C07_trace_disabled.

(* the entry test sees the value on entry when there is no clock or the clock callback does not toggle *)
Theorem C07_entry_test_no_toggle :
  forall d w,
    (d_has_clock d = false \/ a_toggle (hd default_ans (w_or w)) = None) ->
    c_enabled (w_c (entry_world d w)) = c_enabled (w_c w).
Proof. exact entry_enabled_no_toggle. Qed.
Print Assumptions C07_entry_test_no_toggle.

(* Spec.disabled_calls d w h: h is a list of tracing calls, each of which finds tracing disabled
   after its entry clock sample when h is run from w *)
Theorem C07_reenable_resumes :
  forall d h w,
    disabled_calls d w h ->
    let w' := fold_left (step d) (h ++ [CEnable true]) w in
    same_packet (w_c w) (w_c w') /\ (w_err w' = false -> c_enabled (w_c w') = true).
Proof. exact reenable_resumes. Qed.
Print Assumptions C07_reenable_resumes.

(* non-vacuity: in the example history the call `ex_tr 4` (6th call) is made with tracing disabled
   from a reachable world with an open, non-empty packet, and satisfies the hypothesis of (a), (c) *)
Definition ex_w5 : world := run ex_d 16 [] ex_or (firstn 5 ex_h).
Example C07_example :
  w_err ex_w5 = false /\ c_open (w_c ex_w5) = true /\ c_at (w_c ex_w5) = 88 /\
  disabled_calls ex_d ex_w5 [ex_tr 4] /\
  c_at (w_c (fold_left (step ex_d) [ex_tr 4; CEnable true] ex_w5)) = 88.
Proof. vm_compute. repeat split; try reflexivity. eauto. Qed.
