(* C07 — disabled tracing has no effect; tracing calls are atomic w.r.t. the switch.
   Model: Tracer/Model.v.  Proofs: Tracer/DisabledProofs.v.  All configurations, all worlds
   (reachable or not), all oracles; no hypothesis beyond the ones written in the statements.
   Proved:
     (a) C07_trace_disabled   a tracing call that finds tracing disabled after its entry clock
                              sample returns the world left by that clock callback: every context
                              field except is_tracing_enabled (the clock callback may toggle it) and
                              cur_last_event_ts is unchanged, buffer included; error state unchanged;
                              the only events logged are the clock callback entry and its sample
                              (no store, no other callback)
     (c) C07_reenable_resumes after any sequence of such calls followed by enable_tracing(1) the
                              context (buffer, at, packet_is_open, off_content, counters, saved
                              offsets) is the one left by the last recorded event record: the next
                              record is appended there, in the same packet
     (b) C07_trace_atomic     two executions of the same tracing call from worlds that differ only
                              in the value of is_tracing_enabled and in the toggle decisions of
                              all remaining oracle answers (relation Spec.sim), both passing the
                              enabled test, end in sim-related worlds: same log (callback entries,
                              answers, stores, emitted packets with their bytes), same buffer,
                              same position, same counters, same error state.  With
                              C07_sim_no_toggles: same outcome as with callbacks that never toggle.
                              C07_blocks_atomic: the same for every block used after the enabled
                              test (reserve, open / close / full / clock callbacks, serialization)
                              when in_tracing_section = 1. *)
From Coq Require Import List Arith Bool ZArith String.
Import ListNotations.
From BT.Base Require Import Bits.
From BT.Layout Require Import Model.
From BT.Tracer Require Import Model Spec DisabledProofs Examples.

(* Spec.entry_world d w: the world after the entry clock sample of a tracing call;
   Spec.clock_seg d w: the two events logged by that clock callback ([] without a clock);
   Spec.same_packet c c': all context fields equal except is_tracing_enabled, cur_last_event_ts *)
Theorem C07_trace_disabled :
  forall d e args w,
    c_enabled (w_c (entry_world d w)) = false ->
    trace_fn d e args w = entry_world d w /\
    same_packet (w_c w) (w_c (trace_fn d e args w)) /\
    w_err (trace_fn d e args w) = w_err w /\
    w_log (trace_fn d e args w) = (w_log w ++ clock_seg d w)%list.
Proof. exact trace_fn_disabled. Qed.
Print Assumptions C07_trace_disabled.

(* the entry test sees the value on entry when there is no clock or the clock callback does not toggle *)
Theorem C07_entry_test_no_toggle :
  forall d w,
    (d_has_clock d = false \/ a_toggle (hd default_ans (w_or w)) = None) ->
    c_enabled (w_c (entry_world d w)) = c_enabled (w_c w).
Proof. exact entry_enabled_no_toggle. Qed.
Print Assumptions C07_entry_test_no_toggle.

(* Spec.disabled_calls d w h: h is a list of tracing calls, each of which finds tracing disabled
   after its entry clock sample when h is run from w *)
Theorem C07_reenable_resumes :
  forall d h w,
    disabled_calls d w h ->
    let w' := fold_left (step d) (h ++ [CEnable true]) w in
    same_packet (w_c w) (w_c w') /\ (w_err w' = false -> c_enabled (w_c w') = true).
Proof. exact reenable_resumes. Qed.
Print Assumptions C07_reenable_resumes.

(* Spec.sim w w': equal worlds except for is_tracing_enabled and for the a_toggle fields of the
   remaining oracle answers (Spec.erase_toggle sets a_toggle to None) *)
Theorem C07_trace_atomic :
  forall d e args w w',
    sim w w' ->
    c_enabled (w_c (entry_world d w)) = true -> c_enabled (w_c (entry_world d w')) = true ->
    sim (trace_fn d e args w) (trace_fn d e args w').
Proof. exact trace_fn_atomic. Qed.
Print Assumptions C07_trace_atomic.

Theorem C07_sim_no_toggles :
  forall w, sim w (mk_w (w_c w) (map erase_toggle (w_or w)) (w_clk w) (w_log w) (w_err w) (w_pcargs w)).
Proof. exact sim_no_toggles. Qed.
Print Assumptions C07_sim_no_toggles.

Theorem C07_blocks_atomic :
  forall d w w',
    sim w w' -> c_in_ts (w_c w) = true ->
    (forall n, fst (reserve d w n) = fst (reserve d w' n) /\
               sim (snd (reserve d w n)) (snd (reserve d w' n))) /\
    sim (open_cb d w) (open_cb d w') /\ sim (close_cb d w) (close_cb d w') /\
    (fst (full_cb w) = fst (full_cb w') /\ sim (snd (full_cb w)) (snd (full_cb w'))) /\
    (fst (clock_cb d w) = fst (clock_cb d w') /\ sim (snd (clock_cb d w)) (snd (clock_cb d w'))) /\
    (forall ps, sim (ser_parts d w ps) (ser_parts d w' ps)).
Proof. exact blocks_atomic. Qed.
Print Assumptions C07_blocks_atomic.

(* non-vacuity: in the example history the call `ex_tr 4` (6th call) is made with tracing disabled
   from a reachable world with an open, non-empty packet, and satisfies the hypothesis of (a), (c) *)
Definition ex_w5 : world := run ex_d 16 [] ex_or (firstn 5 ex_h).
Example C07_example :
  w_err ex_w5 = false /\ c_open (w_c ex_w5) = true /\ c_at (w_c ex_w5) = 88 /\
  disabled_calls ex_d ex_w5 [ex_tr 4] /\
  c_at (w_c (fold_left (step ex_d) [ex_tr 4; CEnable true] ex_w5)) = 88.
Proof. vm_compute. repeat split; try reflexivity. eauto. Qed.

(* non-vacuity of (b): the third tracing call of the example switches packets (close, full, open
   callbacks); with an oracle whose close callback disables tracing and whose open callback
   re-enables it, the call passes its test and the outcome is the one without toggles *)
Definition ex_w3 : world := run ex_d 16 [] [] (firstn 3 ex_h).
Definition ex_wt : world :=
  mk_w (w_c ex_w3) [default_ans; mk_ans false (Some false) None 1 false; default_ans; mk_ans false (Some true) None 1 false]
       (w_clk ex_w3) (w_log ex_w3) (w_err ex_w3) (w_pcargs ex_w3).
Definition ex_wn : world :=
  mk_w (w_c ex_w3) [default_ans; default_ans; default_ans; default_ans]
       (w_clk ex_w3) (w_log ex_w3) (w_err ex_w3) (w_pcargs ex_w3).
Example C07_example_atomic :
  sim ex_wt ex_wn /\
  c_enabled (w_c (entry_world ex_d ex_wt)) = true /\ c_enabled (w_c (entry_world ex_d ex_wn)) = true /\
  npk (w_log (trace_fn ex_d (mk_ert 0 None (Some (mk_sft 8 [("x", u8)]))) [VArr [VInt 3]] ex_wt)) = 1 /\
  w_err (trace_fn ex_d (mk_ert 0 None (Some (mk_sft 8 [("x", u8)]))) [VArr [VInt 3]] ex_wt) = false.
Proof. vm_compute. repeat split; reflexivity. Qed.

(* ------------------------------------------------------------------ tie by translation: the tracing function *)
(* The public tracing function <prefix><dst>_trace_<ert> as REGENERATED from the template text of
   barectf.c.j2 on every run (tools/c2coq.py -> Gen/CSkelFuns.v fn_trace), run by the semantics of
   Tracer/CSkelTrace.v, is Model.trace_fn for every data stream type, event record type, argument
   list and world: in particular the tracing-enabled test comes AFTER the entry clock sample and nothing else precedes it, and every later step is unconditional on the switch -
   is what the theorems of this file speak about.  An edit of that template breaks this theorem or
   the fail-closed translator before any differential run. *)
From BT.Tracer Require Import CSkel CSkelTrace CSkelTraceProofs.
From BT.Gen Require Import CSkelFuns.
Theorem C07_trace_fn_is_the_translated_C :
  forall d e args w, run_trace d skel_funs e args fn_trace w = Some (trace_fn d e args w).
Proof. exact skel_trace. Qed.
Print Assumptions C07_trace_fn_is_the_translated_C.

(* ------------------------------------------------------------------ tie by translation: opening / closing functions *)
(* <prefix><dst>_open_packet / _close_packet as REGENERATED from the template text of barectf.c.j2 on every
   run (tools/c2coq.py -> Gen/CSkelFuns.v fn_open, fn_close; the serialization of the header / context
   operation trees and the three write-back blocks are single abstract statements, tied by the operation
   tree capture and the differential runs), run by the semantics of Tracer/CSkelOC.v, are Model.open_fn /
   Model.close_fn for every data stream type and world: the guard (tracing disabled AND not called from a tracing function) that makes the platform's open / close calls no-ops while disabled and lets a tracing call's own packet switch complete. *)
From BT.Tracer Require Import CSkel CSkelOC CSkelOCProofs.
From BT.Gen Require Import CSkelFuns.
Theorem C07_open_fn_is_the_translated_C : forall d w, run_oc d fn_open w = Some (open_fn d w).
Proof. exact skel_open. Qed.
Print Assumptions C07_open_fn_is_the_translated_C.
Theorem C07_close_fn_is_the_translated_C : forall d w, run_oc d fn_close w = Some (close_fn d w).
Proof. exact skel_close. Qed.
Print Assumptions C07_close_fn_is_the_translated_C.
