(* C11 — the effective configuration is equivalent to the original and a fixed point.
   Final statements only.  Models: Front/Normalize.v, Front/LogLevel.v, Front/Effective.v (and the
   C12 models Include / Alias / Inherit / Patch they compose); proofs: Front/EffectiveProofs.v.

   `effective fuel fs dirs t` is the tree `barectf show-effective-configuration` prints for the
   barectf 3 document t (file system fs : path -> tree, inclusion directories dirs): the root node
   after config_parse_v3._Parser._parse.  `pipeline` also returns the two other things
   _create_config reads (byte order property key, byte order).  `clean t` (boolean): t passes the
   final schema gate — an object at every field type position (never an alias name), integer log
   levels, no `$field-type-aliases` / `$log-level-aliases` / `$include` / `$inherit` property where
   the parser interprets one — and is in normal form: no null-valued property in the trace type,
   canonical `class`, `preferred-display-base` and byte order spellings, `environment` not null.
   All statements quantify over ALL trees, file systems and directory lists; `4 + f` is any fuel
   of at least 4 (the nesting depth trace / type / data stream type / event record type).

   SPLIT of "generates byte-identical files" (C11_same_config of DESIGN.md): a model of
   _create_config and of the generators is not part of C11.  What is PROVED here is the tree-level
   fact that makes it true: the front end, given the effective document, hands _create_config
   exactly what it handed it for the original (C11_pre_create_same: same tree, same byte order key,
   same byte order), whatever the inclusion directories then contain.  _create_config reads nothing
   else (except the clock for `uuid: auto`, excluded), and the generators are functions of the
   configuration object.  The byte identity itself is VALIDATED on the real code on every run
   (harness/props/c11_oracle.py, clause c).
   Schema validation is modelled by necessary conditions (the model accepts at least what the code
   accepts); that the real schemas accept the effective document again is validated by the oracle
   (clauses a, b), not proved.  barectf 2 input: the effective document is the one of the
   converted barectf 3 tree (conversion = C18); covered by the oracle only. *)
From Coq Require Import List String ZArith Bool.
Import ListNotations.
From BT.Front Require Import Yaml YamlRes Normalize LogLevel Effective EffectiveProofs.
Open Scope string_scope.
Open Scope list_scope.

(* The effective document is clean. *)
Theorem C11_effective_clean : forall fuel fs dirs t t',
  effective fuel fs dirs t = Ok t' -> clean t' = true.
Proof. exact effective_clean. Qed.
Print Assumptions C11_effective_clean.

(* Each stage is the identity on clean trees (for the inclusion stage: whatever the files are). *)
Theorem C11_stage_id_on_clean : forall f fs dirs t, clean t = true ->
  include_stage (4 + f) fs dirs t = Ok t
  /\ expand_fts (4 + f) t = Ok t
  /\ sub_log_level_aliases t = Ok t
  /\ final_ok true t = true
  /\ normalize_props t = Ok t.
Proof. exact stage_id_on_clean. Qed.
Print Assumptions C11_stage_id_on_clean.

(* Printing the effective configuration of the effective document returns the same document. *)
Theorem C11_fixed_point : forall fuel fs dirs f' fs' dirs' t t',
  effective fuel fs dirs t = Ok t' -> effective (4 + f') fs' dirs' t' = Ok t'.
Proof. exact C11_fixed_point_thm. Qed.
Print Assumptions C11_fixed_point.

(* Processing a clean document consults no file: the file system and the directories are irrelevant. *)
Theorem C11_no_inclusion_files_needed : forall f fs dirs fs' dirs' t, clean t = true ->
  effective (4 + f) fs dirs t = effective (4 + f) fs' dirs' t.
Proof. exact no_inclusion_files_needed. Qed.
Print Assumptions C11_no_inclusion_files_needed.

(* _create_config is handed the same tree, byte order key and byte order for the effective
   document as for the original. *)
Theorem C11_pre_create_same : forall fuel fs dirs f' fs' dirs' t r,
  pipeline fuel fs dirs t = Ok r -> pipeline (4 + f') fs' dirs' (fst (fst r)) = Ok r.
Proof. exact pre_create_same. Qed.
Print Assumptions C11_pre_create_same.

(* The normalisation walk is idempotent and lands in its normal form (all trees). *)
Theorem C11_normalise_idempotent : forall y, norm (norm y) = norm y /\ nf (norm y) = true.
Proof. exact normalise_idempotent. Qed.
Print Assumptions C11_normalise_idempotent.

(* The final schema gate survives the normalisation walk (null-valued properties removed,
   spellings made canonical): field type objects, for both gates. *)
Theorem C11_gate_stable_under_normalisation : forall strict y, ft_ok strict y = true -> ft_ok strict (norm y) = true.
Proof. exact ft_ok_norm. Qed.
Print Assumptions C11_gate_stable_under_normalisation.

(* ------------------------------------------------------------------ non-vacuity *)
(* a document with a two-level inclusion, an alias chain, `$inherit`, the short member form, a log
   level alias, null resets and spelling aliases has the expected effective tree ... *)
Example C11_example : effective 50 ex_fs ["d"; "e"] ex_doc = Ok ex_eff.
Proof. exact effective_example. Qed.

(* ... which is clean (the original is not) and a fixed point with an empty file system *)
Example C11_example_clean : clean ex_eff = true /\ clean ex_doc = false.
Proof. exact effective_example_clean. Qed.

Example C11_example_fixed_point : effective 4 [] [] ex_eff = Ok ex_eff.
Proof. exact effective_example_fixed_point. Qed.

Example C11_example_pre_create : pipeline 50 ex_fs ["d"; "e"] ex_doc = Ok (ex_eff, "native-byte-order", "little-endian").
Proof. exact pipeline_example. Qed.

(* the hypothesis `effective ... = Ok _` is not always true: configuration errors *)
Example C11_error_examples :
  is_cfgerr (effective 50 [] [] (ex_min [("log-level", YStr "NOPE"); ex_payload (YMap [("class", YStr "uint"); ("size", YInt 8)])])) = true
  /\ is_cfgerr (effective 50 [] [] (ex_min [ex_payload (YStr "uint8")])) = true
  /\ is_cfgerr (effective 50 [] [] (ex_min [ex_payload (YMap [("class", YStr "dynamic-array");
                                                               ("$inherit", YMap [("class", YStr "uint"); ("size", YInt 8)]);
                                                               ("element-field-type", YMap [("class", YStr "uint"); ("size", YInt 8)])])])) = true
  /\ is_ok (effective 50 [] [] (ex_min [ex_payload (YMap [("class", YStr "dynamic-array");
                                                          ("element-field-type", YMap [("class", YStr "uint"); ("size", YInt 8)])])])) = true.
Proof. exact effective_error_examples. Qed.
