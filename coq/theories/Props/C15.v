(* C15 — the metadata states every configured descriptive attribute in well-formed TSDL.

   Proved:
     * string escaping: for EVERY string, the literal the generator writes
       ("\"" ++ escape_dq s ++ "\"", escape_dq translated from template.py on every run) is read
       back as s by a reader written from the CTF 1.8 string literal grammar (new-line
       characters are escaped since the fix: commit 6bd96cd in /repo);
     * emission guards (regenerated from the templates): every attribute line whose guards pass
       the computable adequacy check is emitted exactly when the attribute is configured;
       all rows pass, `loglevel` included since the fix: commit of S2 in /repo
       (C15_guards_adequate_all);
     * every quoted value either goes through escape_dq or is a UUID / identifier;
       every attribute the property names has a line in the templates.
   Validated (named): that the file as a whole parses under the TSDL grammar and that each stated
   value equals the configured one is checked by harness/tsdl.py on generated metadata. *)
From Coq Require Import List NArith ZArith Bool String.
Import ListNotations.
From BT.Front Require Import Prefix CTypes Escape EscapeProofs MetaAttrs MetaAttrsProofs.
From BT.Gen Require Import PyFuns MetaGuards.

Theorem C15_escape_roundtrip : forall s : str, read_literal (quote (escape_dq s)) = Some s.
Proof. exact escape_roundtrip. Qed.
Print Assumptions C15_escape_roundtrip.

(* the reference escaping function *)
Theorem C15_escape_spec_roundtrip : forall s : str, read_literal (quote (escape_spec s)) = Some s.
Proof. exact escape_spec_roundtrip. Qed.
Print Assumptions C15_escape_spec_roundtrip.

Theorem C15_guards_adequate : forall rows,
    all_guards_ok rows = true ->
    forall r, In r rows -> forall val, vals_in_kind r val ->
    ((forall g, In g (r_guards r) -> configured (kind_of_expr (guard_expr g)) (val (guard_expr g)) = true) ->
     row_emitted r val = true) /\
    (row_emitted r val = true -> forall g, In g (r_guards r) -> is_none (val (guard_expr g)) = false).
Proof. exact guards_adequate. Qed.
Print Assumptions C15_guards_adequate.

(* obligation on the regenerated rows: every attribute line of the templates, loglevel included
   (level 0 is stated: `{% if ert.log_level is not none %}`) *)
Theorem C15_guards_adequate_all :
  forall r, In r meta_rows -> forall val, vals_in_kind r val ->
    ((forall g, In g (r_guards r) -> configured (kind_of_expr (guard_expr g)) (val (guard_expr g)) = true) ->
     row_emitted r val = true) /\
    (row_emitted r val = true -> forall g, In g (r_guards r) -> is_none (val (guard_expr g)) = false).
Proof. exact guards_adequate_all. Qed.
Print Assumptions C15_guards_adequate_all.

Theorem C15_quoted_values_escaped : all_quoted_ok meta_rows = true.
Proof. exact meta_rows_quoted_ok. Qed.
Print Assumptions C15_quoted_values_escaped.

Theorem C15_required_attributes_present : all_required_present meta_rows = true.
Proof. exact meta_rows_required_present. Qed.
Print Assumptions C15_required_attributes_present.

(* non-vacuity *)
Example C15_example_roundtrip :
  read_literal (quote (escape_dq (s2l "a""b\c"))) = Some (s2l "a""b\c") /\
  escape_dq (s2l "a""b\c") = s2l "a\""b\\c".
Proof. vm_compute. split; reflexivity. Qed.

Example C15_example_reader_rejects_newline : read_literal [34; 97; 10; 34]%N = None.
Proof. vm_compute. reflexivity. Qed.

Example C15_example_reader_escapes :
  read_literal (s2l """\x41\101\n\u00e9""") = Some [65; 65; 10; 233]%N.
Proof. vm_compute. reflexivity. Qed.
