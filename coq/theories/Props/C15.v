(* C15 — the metadata states every configured descriptive attribute in well-formed TSDL.

   Proved:
     * string escaping: for every string WITHOUT a new-line character, the literal the generator
       writes ("\"" ++ escape_dq s ++ "\"", escape_dq translated from template.py) is read back
       as s by a reader written from the CTF 1.8 string literal grammar;
       the statement for ALL strings is refuted (new-line is copied raw, which the grammar
       forbids): C15_escape_roundtrip_refuted -- replayed on the real code by the check;
     * emission guards (regenerated from the templates): every attribute line whose guards pass
       the computable adequacy check is emitted exactly when the attribute is configured;
       all rows pass except `loglevel` (`{% if ert.log_level %}` drops level 0, S2):
       C15_loglevel_guard_refuted -- replayed by the check;
     * every quoted value either goes through escape_dq or is a UUID / identifier;
       every attribute the property names has a line in the templates.
   Validated (named): that the file as a whole parses under the TSDL grammar and that each stated
   value equals the configured one is checked by harness/tsdl.py on generated metadata. *)
From Coq Require Import List NArith ZArith Bool String.
Import ListNotations.
From BT.Front Require Import Prefix CTypes Escape EscapeProofs MetaAttrs MetaAttrsProofs.
From BT.Gen Require Import PyFuns MetaGuards.

Theorem C15_escape_roundtrip_partial :
  forall s : str, ~ In 10%N s -> read_literal (quote (escape_dq s)) = Some s.
Proof. exact escape_roundtrip_partial. Qed.
Print Assumptions C15_escape_roundtrip_partial.

Theorem C15_escape_roundtrip_refuted : exists s : str, read_literal (quote (escape_dq s)) <> Some s.
Proof. exact escape_roundtrip_refuted. Qed.
Print Assumptions C15_escape_roundtrip_refuted.

(* what a repaired escaping function achieves (the reader is not unreasonably strict) *)
Theorem C15_escape_spec_roundtrip : forall s : str, read_literal (quote (escape_spec s)) = Some s.
Proof. exact escape_spec_roundtrip. Qed.
Print Assumptions C15_escape_spec_roundtrip.

Theorem C15_guards_adequate : forall rows,
    all_guards_ok rows = true ->
    forall r, In r rows -> forall val, vals_in_kind r val ->
    ((forall g, In g (r_guards r) -> configured (kind_of_expr (guard_expr g)) (val (guard_expr g)) = true) ->
     row_emitted r val = true) /\
    (row_emitted r val = true -> forall g, In g (r_guards r) -> is_none (val (guard_expr g)) = false).
Proof. exact guards_adequate. Qed.
Print Assumptions C15_guards_adequate.

(* obligation on the regenerated rows: all rows except event/loglevel pass *)
Theorem C15_guards_adequate_partial :
  forall r, In r rows_but_loglevel -> forall val, vals_in_kind r val ->
    ((forall g, In g (r_guards r) -> configured (kind_of_expr (guard_expr g)) (val (guard_expr g)) = true) ->
     row_emitted r val = true) /\
    (row_emitted r val = true -> forall g, In g (r_guards r) -> is_none (val (guard_expr g)) = false).
Proof. exact guards_adequate_partial. Qed.
Print Assumptions C15_guards_adequate_partial.

(* S2: log level 0 is configured, must be stated, and is not *)
Theorem C15_loglevel_guard_refuted :
  exists r g, In r meta_rows /\ In g (r_guards r) /\
              r_block r = s2l "event" /\ r_attr r = s2l "loglevel" /\ guard_expr g = s2l "ert.log_level" /\
              in_kind (kind_of_expr (guard_expr g)) (PInt 0) = true /\
              configured (kind_of_expr (guard_expr g)) (PInt 0) = true /\
              guard_passes g (PInt 0) = false.
Proof. exact loglevel_guard_refuted. Qed.
Print Assumptions C15_loglevel_guard_refuted.

Theorem C15_quoted_values_escaped : all_quoted_ok meta_rows = true.
Proof. exact meta_rows_quoted_ok. Qed.
Print Assumptions C15_quoted_values_escaped.

Theorem C15_required_attributes_present : all_required_present meta_rows = true.
Proof. exact meta_rows_required_present. Qed.
Print Assumptions C15_required_attributes_present.

(* non-vacuity *)
Example C15_example_roundtrip :
  read_literal (quote (escape_dq (s2l "a""b\c"))) = Some (s2l "a""b\c") /\
  escape_dq (s2l "a""b\c") = s2l "a\""b\\c".
Proof. vm_compute. split; reflexivity. Qed.

Example C15_example_reader_rejects_newline : read_literal [34; 97; 10; 34]%N = None.
Proof. vm_compute. reflexivity. Qed.

Example C15_example_reader_escapes :
  read_literal (s2l """\x41\101\n\u00e9""") = Some [65; 65; 10; 233]%N.
Proof. vm_compute. reflexivity. Qed.
