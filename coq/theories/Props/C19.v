(* C19 — generated names carry the configured prefixes; distinct-prefix tracers coexist (partial).

   Proved on Gen/Decls.v (file-scope declarations scanned from the real templates by
   tools/cdecl_scan.py) and Gen/PyFuns.v (prefix functions translated from the real Python):
     * every external symbol the generated source DEFINES starts with the identifier prefix;
     * tracers whose prefixes are incomparable never define a common external symbol;
       -- for prefixes where one extends the other this is FALSE in general (a stream name can
       absorb the difference): C19_nested_prefix_refuted, replayed on the real code by the check;
     * generated file names start with the file name prefix (metadata is fixed);
     * --prefix P gives identifier prefix P and file name prefix P.rstrip('_');
       `prefix: S` in the configuration gives S_ and S;
     * each PREFIXtrace_E shorthand macro expands to the tracing function of the default stream,
       and so does tracepoint(prov, tp) of extra/barectf-tracepoint.h through the header's option
       definitions.
   Validated, not proved (named): that `nm` of the compiled objects shows exactly the predicted
   symbols, that two such objects link and run, what the real preprocessor does with the macros. *)
From Coq Require Import List NArith Bool String.
Import ListNotations.
From BT.Front Require Import Prefix PrefixProofs Decls DeclsProps CTypes PrefixFiles.
From BT.Gen Require Import Decls PyFuns.

Theorem C19_symbols_prefixed :
  forall d, In d (ext_defs decls) ->
  forall p sigma, is_prefix p (render_name p sigma (d_name d)) = true.
Proof. exact (symbols_prefixed decls decls_ext_prefixed). Qed.
Print Assumptions C19_symbols_prefixed.

Theorem C19_disjoint_prefix_disjoint_symbols :
  forall p q, is_prefix p q = false -> is_prefix q p = false ->
  forall d1 d2, In d1 (ext_defs decls) -> In d2 (ext_defs decls) ->
  forall s1 s2, render_name p s1 (d_name d1) <> render_name q s2 (d_name d2).
Proof. exact (disjoint_prefix_disjoint_symbols decls decls_ext_prefixed). Qed.
Print Assumptions C19_disjoint_prefix_disjoint_symbols.

(* the statement with merely "different prefixes" does not hold *)
Theorem C19_nested_prefix_refuted :
  exists p q d s1 s2, p <> q /\ In d (ext_defs decls) /\
                      render_name p s1 (d_name d) = render_name q s2 (d_name d).
Proof. exact (nested_prefix_collision decls decls_nested_prefix_collision). Qed.
Print Assumptions C19_nested_prefix_refuted.

Theorem C19_file_names : forall fp,
    generated_file_names fp = doc_file_names fp /\
    forall n, In n (generated_file_names fp) -> n = s2l "metadata" \/ is_prefix fp n = true.
Proof. exact file_names_prefixed. Qed.
Print Assumptions C19_file_names.

Theorem C19_cli_prefix_override : forall p,
    cli_prefix_override_shape = true /\ cli_prefix_override p = (p, rstrip_char 95 p).
Proof. exact cli_prefix_override_spec. Qed.
Print Assumptions C19_cli_prefix_override.

Theorem C19_cfg_prefixes : forall s, cfg_prefixes_of_str s = (s ++ s2l "_", s).
Proof. exact cfg_prefixes_spec. Qed.
Print Assumptions C19_cfg_prefixes.

Theorem C19_default_macro_resolves : default_macro_resolves_b decls = true.
Proof. exact decls_default_macro_resolves. Qed.
Print Assumptions C19_default_macro_resolves.

Theorem C19_tracepoint_resolves :
  tracepoint_resolves_b decls tracepoint_tokens tracepoint_prefix_sources tracepoint_dst_sources = true.
Proof. exact decls_tracepoint_resolves. Qed.
Print Assumptions C19_tracepoint_resolves.

(* non-vacuity *)
Example C19_example_nonvacuous :
  Nat.ltb 10 (List.length (ext_defs decls)) = true /\ existsb static_duration decls = true.
Proof. exact decls_nonvacuous. Qed.

Example C19_example_symbols :
  In (s2l "my_s_trace_ev") (predicted_symbols (s2l "my_") [(s2l "s", [s2l "ev"])] decls) /\
  In (s2l "my_init") (predicted_symbols (s2l "my_") [(s2l "s", [s2l "ev"])] decls).
Proof. vm_compute. split; tauto. Qed.
