(* C01 - round trip: decoding with the generated metadata returns exactly the traced values.

   Chain of statements (all for EVERY field type tree, value, start position and buffer content):
   A. what the C code does for the operations built by cgen._OpBuilder (static in-byte offsets,
      memcpy vs bit-field macro) IS the layout specification `enc`            (C01_ops_equal_layout)
   B. the CTF reader, given only the TSDL generated for a structure, reads back from what was
      written the canonical form of the values (integers reduced to the field size with their
      signedness, reals as bit patterns, strings byte for byte, arrays element by element),
      whatever is written afterwards beyond the structure               (C01_struct_roundtrip)
   C. an event record = header, common context, specific context, payload in that order; the
      packet reader's dec_record dispatches on the header id and returns the four scopes
                                                                         (C01_record_roundtrip)
   D. whole histories (Tracer/History*.v): after every history of calls, oracle answers and buffer
      swaps, the reader finds in the packets handed over exactly the canonical values of the
      accepted tracing calls, in call order, and in every packet context the canonical values of
      the user members given to the opening function                           (C01_history)
   E. the integer leaf write used by `enc`/`ser` (write_bits of enc_int, on the stream of bits in
      CTF position order) IS what C08 proves the bit-field macro program does to the window of bytes
      overlapping the field, for every carrier at least as wide as the field (barectf's case)
                                                        (C01_macro_is_write_bits, C01_write_is_local)
   The tie of both models to the generated C is the byte-level correspondence run
   (harness/props/c01.py, c08.py).
   Hypotheses kept visible: well-formed alignments (1, 2, 4 or a multiple of 8: every power of
   two), array elements are not dynamic arrays (the parser rejects them), values well typed
   (members_ok: strings without NUL and bytes < 256, dynamic array length member = number of
   elements), ids unique, the header id field holds the event id.  Positions are unbounded nat
   (no uint32_t wrap-around: S12 in DESIGN.md). *)
From Coq Require Import List Arith Bool ZArith String Lia.
Import ListNotations.
From BT.Base Require Import Bits BitsProofs.
From BT.Layout Require Import Model BuildProofs RoundTrip RecordProofs BitfieldLink.
From BT.C Require Bitfield.
From BT.Tracer Require Import Model Decode RecordDecode History HistoryRecord HistoryStep HistoryMain.

Theorem C01_ops_equal_layout :
  forall bo nk lim (s : sft), wf_sft s = true ->
  forall st vs ss,
    ser bo nk lim (snd (build_root [] st s)) (VArr vs) ss = lift ss (enc_struct bo lim s vs (proj ss)).
Proof. exact ser_build_root. Qed.
Print Assumptions C01_ops_equal_layout.

Theorem C01_struct_roundtrip :
  forall bo nk lim (sf : sft), wf_sft sf = true ->
  forall st vs ss ss', List.length (ss_s ss) = lim -> members_ok [] (s_mems sf) vs ->
    ser bo nk lim (snd (build_root [] st sf)) (VArr vs) ss = Some ss' ->
    ss_at ss <= ss_at ss' /\ List.length (ss_s ss') = lim /\ ss_saved ss' = ss_saved ss /\
    agree 0 (ss_at ss) (ss_s ss') (ss_s ss) /\
    forall s'' lim', agree (ss_at ss) (ss_at ss') s'' (ss_s ss') -> ss_at ss' <= lim' ->
      dec_struct bo s'' lim' (tsdl_of_sft sf) (ss_at ss) = Some (canon_members (s_mems sf) vs, ss_at ss').
Proof. exact ser_struct_rt. Qed.
Print Assumptions C01_struct_roundtrip.

Theorem C01_record_roundtrip :
  forall d e nk lim st1 st2 st3 st4 hv cv sv pv ss0 ss1 ss2 ss3 ss4,
  NoDup (map e_id (d_erts d)) -> In e (d_erts d) ->
  header_id (d_eh d) hv = Z.of_nat (e_id e) ->
  ok_opt (d_eh d) hv -> ok_opt (d_cc d) cv -> ok_opt (e_sc e) sv -> ok_opt (e_p e) pv ->
  List.length (ss_s ss0) = lim ->
  ser_opt (d_bo d) nk lim (d_eh d) st1 hv ss0 = Some ss1 ->
  ser_opt (d_bo d) nk lim (d_cc d) st2 cv ss1 = Some ss2 ->
  ser_opt (d_bo d) nk lim (e_sc e) st3 sv ss2 = Some ss3 ->
  ser_opt (d_bo d) nk lim (e_p e) st4 pv ss3 = Some ss4 ->
  forall s'' lim', agree (ss_at ss0) (ss_at ss4) s'' (ss_s ss4) -> ss_at ss4 <= lim' ->
    dec_record (tstream_of_dst d) s'' lim' (ss_at ss0) =
    Some (Z.of_nat (e_id e),
          [canon_o (d_eh d) hv; canon_o (d_cc d) cv; canon_o (e_sc e) sv; canon_o (e_p e) pv],
          ss_at ss4).
Proof. exact record_decode. Qed.
Print Assumptions C01_record_roundtrip.

(* the canonical form of an unsigned integer is the value modulo 2^size *)
Theorem C01_canon_unsigned : forall size z, Z_of_bits false (bits_of_Z size z) = (z mod 2 ^ Z.of_nat size)%Z.
Proof. intros. unfold Z_of_bits. cbn [andb]. apply Z_of_bits_u_bits_of_Z. Qed.
Print Assumptions C01_canon_unsigned.

(* non-vacuity: the layout named in the property text - a 13-bit signed member after a 3-bit one
   in a 32-bit-aligned structure following a string - from every start offset 0..40, big endian,
   statically known offsets in use *)
Definition ex_sft : sft :=
  mk_sft 32 [("s", FStr); ("a", FInt false 3 1); ("b", FInt true 13 1); ("c", FSArr 2 (FInt false 5 1));
             ("__d_len", FInt false 32 8); ("d", FDArr "__d_len" (FInt true 16 16))]%string.
Definition ex_vals : list val :=
  [VStr [104; 105]%Z; VInt 5; VInt (-3); VArr [VInt 31; VInt 1]; VInt 2; VArr [VInt (-2); VInt 7]].
Example C01_example_wf : wf_sft ex_sft = true. Proof. reflexivity. Qed.
Example C01_example_args_ok : members_ok [] (s_mems ex_sft) ex_vals.
Proof. cbn. repeat split; try (repeat constructor; lia); eexists; split; reflexivity. Qed.
Example C01_example_runs :
  forallb (fun at0 =>
    match ser BE false 400 (snd (build_root [] None ex_sft)) (VArr ex_vals) (mk_ss (zeros 400) at0 []) with
    | Some ss' =>
        match dec_struct BE (ss_s ss') 400 (tsdl_of_sft ex_sft) at0 with
        | Some (ds, a') => (a' =? ss_at ss') &&
             match ds with
             | [DStr [104; 105]; DInt 5; DInt (-3); DArr [DInt 31; DInt 1]; DInt 2; DArr [DInt (-2); DInt 7]]%Z => true
             | _ => false end
        | None => false end
    | None => false end) (seq 0 41) = true.
Proof. vm_compute. reflexivity. Qed.

(* D: whole histories.  ds: per call, the records it added (call_out: the canonical values of that
   call's arguments, rec_spec); K: per packet handed over, its specification (spec_packet: canonical
   header constants and packet context values, its records); cur: the records of the open packet *)
Theorem C01_history :
  forall d user cs_size, wf_d d user cs_size ->
  forall buf oracle h,
    fits cs_size (8 * buf) -> or_ok cs_size oracle -> Forall (call_ok d) h ->
    let w0 := mk_w (init_ctx buf) oracle 0%Z [] false user in
    let w1 := step d w0 COpen in
    c_open (w_c w1) = true -> inb_run d w1 h ->
    let w := run d buf user oracle (COpen :: h) in
    w_err w = false ->
    exists ds K cur, outs d w1 h ds /\ HI d user cs_size w K cur /\ flat K ++ cur = List.concat ds.
Proof. exact history_main. Qed.
Print Assumptions C01_history.

(* E: the stream-level integer write is the bit-field macro's effect on the window of bytes *)
Theorem C01_macro_is_write_bits :
  forall bo W sg start len z win,
    In W [8; 16; 32; 64] -> start < 8 -> 1 <= len <= 64 -> len <= W ->
    List.length win = (start + len + 7) / 8 -> Forall (fun b => List.length b = 8) win ->
    exists win', Bitfield.bf_write (cbo bo) W sg start len (bits_of_Z W z) win = Some win' /\
                 stream_of_win bo win' = write_bits start (enc_int bo len z) (stream_of_win bo win).
Proof. exact macro_is_write_bits. Qed.
Print Assumptions C01_macro_is_write_bits.

Theorem C01_write_is_local :
  forall q r bs s, r < 8 -> 8 * (q + (r + List.length bs + 7) / 8) <= List.length s ->
    write_bits (8 * q + r) bs s =
    firstn (8 * q) s ++
    write_bits r bs (firstn (8 * ((r + List.length bs + 7) / 8)) (skipn (8 * q) s)) ++
    skipn (8 * (q + (r + List.length bs + 7) / 8)) s.
Proof. exact write_bits_window. Qed.
Print Assumptions C01_write_is_local.

(* ------------------------------------------------------------------ no error / in-bounds premise *)
(* C01_history with its premises `w_err = false` and `inb_run` DERIVED (Tracer/NoError.v, see
   Props/C02.v C02_no_error for the vocabulary: bufs_ok - every buffer holds the packet header and
   context; call_okf - well-typed, sized arguments) *)
From BT.Tracer Require Import NoError.
Theorem C01_history_full :
  forall d user cs_size, wf_d d user cs_size ->
  forall buf oracle h,
    fits cs_size (8 * buf) -> or_ok cs_size oracle -> bufs_ok d user buf oracle ->
    Forall (call_okf d) h ->
    let w0 := mk_w (init_ctx buf) oracle 0%Z [] false user in
    let w1 := step d w0 COpen in
    c_open (w_c w1) = true ->
    let w := run d buf user oracle (COpen :: h) in
    exists ds K cur, outs d w1 h ds /\ HI d user cs_size w K cur /\ flat K ++ cur = List.concat ds.
Proof. exact history_main_full. Qed.
Print Assumptions C01_history_full.

(* ------------------------------------------------------------------ tie by translation: memcpy or bit-field macro *)
(* The test of the top-level {% if %} of c/serialize-write-bit-array-statements.j2 and its in-byte offset rule,
   REGENERATED from the Jinja2 AST on every run (tools/opt2coq.py -> Gen/OpTemplates.v), are the ones of
   Layout.Model.ser (memcpy_path; static offset if any, else at mod 8) for every alignment, size and kind of
   trace type: a field which may start inside a byte never takes the byte copy. *)
From BT.Layout Require Import OpTemplateProofs.
From BT.Gen Require Import OpTemplates.
Theorem C01_memcpy_choice_is_the_translated_template :
  forall nk al size, tmpl_memcpy_cond nk al size = memcpy_path nk al size.
Proof. exact tmpl_memcpy_cond_is_model. Qed.
Print Assumptions C01_memcpy_choice_is_the_translated_template.
Theorem C01_macro_offset_is_the_translated_template :
  forall off at1, tmpl_offset off at1 = match off with Some k => k | None => at1 mod 8 end.
Proof. exact tmpl_offset_is_model. Qed.
Print Assumptions C01_macro_offset_is_the_translated_template.
