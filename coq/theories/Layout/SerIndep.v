(* Whether a serialization succeeds, where it ends and which offsets it saves depend only on the
   start position, the limit and the SHAPE of the values (number of elements, string lengths) - not
   on the buffer content nor on integer values.  Used to reduce "every packet opening in a buffer of
   n bits succeeds" to one computation.  (Proofs only.) *)
From Coq Require Import List Arith Bool ZArith String Lia PeanoNat.
Import ListNotations.
From BT.Base Require Import Bits BitsProofs.
From BT.Layout Require Import Model BuildProofs RoundTrip RecordProofs SizeProofs.

Definition srel (a b : sstate) : Prop := ss_at a = ss_at b /\ ss_saved a = ss_saved b.
Definition orel (x y : option sstate) : Prop :=
  match x, y with Some a, Some b => srel a b | None, None => True | _, _ => False end.

Section I.
  Variable bo : byte_order.
  Variable nk : bool.
  Variable lim : nat.

  Definition indep (o : op) : Prop :=
    forall v v' ss ss2, same_shape v v' -> srel ss ss2 ->
      orel (ser bo nk lim o v ss) (ser bo nk lim o v' ss2).

  Lemma iter_indep b : indep b -> forall vs vs', Forall2 same_shape vs vs' ->
    forall ss ss2, srel ss ss2 ->
      orel (iter_opt (ser bo nk lim b) vs ss) (iter_opt (ser bo nk lim b) vs' ss2).
  Proof.
    intros Hb. induction 1 as [|v v' vs vs' Hv _ IH]; intros ss ss2 Hr; cbn [iter_opt]; [exact Hr|].
    pose proof (Hb v v' ss ss2 Hv Hr) as X.
    destruct (ser bo nk lim b v ss) as [a|], (ser bo nk lim b v' ss2) as [a'|]; cbn in X; try contradiction;
      [apply IH; exact X|exact I].
  Qed.

  Lemma iter2_indep os : Forall indep os -> forall vs vs', Forall2 same_shape vs vs' ->
    forall ss ss2, srel ss ss2 ->
      orel (iter2_opt (ser bo nk lim) os vs ss) (iter2_opt (ser bo nk lim) os vs' ss2).
  Proof.
    induction 1 as [|o os Ho _ IH]; intros vs vs' F ss ss2 Hr; destruct F as [|v v' vs vs' Hv F];
      cbn [iter2_opt]; try exact I; [exact Hr|].
    pose proof (Ho v v' ss ss2 Hv Hr) as X.
    destruct (ser bo nk lim o v ss) as [a|], (ser bo nk lim o v' ss2) as [a'|]; cbn in X; try contradiction;
      [apply IH; assumption|exact I].
  Qed.

  Theorem ser_indep o : indep o.
  Proof.
    induction o as [al k size off|al|al|al len b IH|al os IH] using op_ind'; intros v v' ss ss2 Hs [Ha Hv].
    - inversion Hs; subst; try exact I. rewrite !ser_bits_eq, Ha, Hv. destruct k.
      + destruct (_ <=? _); [split; reflexivity|exact I].
      + split; reflexivity.
    - inversion Hs as [| ? ? E |]; subst; try exact I. rewrite !ser_str_eq, Ha, Hv, E.
      destruct (_ <=? _); [split; reflexivity|exact I].
    - inversion Hs as [| |l l' F]; subst; try exact I. rewrite !ser_uuid_eq, Ha, Hv, (F2_length _ _ _ F).
      destruct (_ && _); [split; reflexivity|exact I].
    - inversion Hs as [| |l l' F]; subst; try exact I. cbn [ser]. rewrite (F2_length _ _ _ F).
      destruct (match len with Some n => List.length l' =? n | None => true end); [|exact I].
      apply iter_indep; [exact IH|exact F|]. split; cbn [ss_at ss_saved]; congruence.
    - inversion Hs as [| |l l' F]; subst; try exact I. cbn [ser].
      apply iter2_indep; [exact IH|exact F|]. split; cbn [ss_at ss_saved]; congruence.
  Qed.
End I.
