(* Theorem A of the layout layer: the C serialization of the operations built by the model of
   cgen._OpBuilder (static in-byte offsets, memcpy-or-macro choice) equals the layout specification
   `enc`, for every well-formed field type, every start position and every value. *)
From Coq Require Import List Arith Bool ZArith String Lia PeanoNat.
Import ListNotations.
From BT.Base Require Import Bits BitsProofs.
From BT.Layout Require Import Model.

(* alignments: 1, 2, 4 or a multiple of 8 (every power of two is one of these) *)
Definition al_okb (a : nat) : bool :=
  (a =? 1) || (a =? 2) || (a =? 4) || ((0 <? a) && (a mod 8 =? 0)).
Definition al_ok (a : nat) : Prop := a = 1 \/ a = 2 \/ a = 4 \/ (0 < a /\ a mod 8 = 0).
Lemma al_okb_ok a : al_okb a = true -> al_ok a.
Proof.
  unfold al_okb, al_ok. intros H.
  repeat (apply orb_true_iff in H; destruct H as [H|H]).
  - apply Nat.eqb_eq in H. auto.
  - apply Nat.eqb_eq in H. auto.
  - apply Nat.eqb_eq in H. auto.
  - apply andb_true_iff in H. destruct H as [H1 H2].
    apply Nat.ltb_lt in H1. apply Nat.eqb_eq in H2. auto.
Qed.
Lemma al_ok_pos a : al_ok a -> 0 < a.
Proof. unfold al_ok. intros [H|[H|[H|[H _]]]]; lia. Qed.
Lemma al_ok_max a b : al_ok a -> al_ok b -> al_ok (Nat.max a b).
Proof. intros Ha Hb. destruct (Nat.max_spec a b) as [[_ ->]|[_ ->]]; assumption. Qed.

(* array elements: no dynamic array inside (config_parse_v3._create_array_ft rejects them) *)
Fixpoint wf_elem (f : ft) : bool :=
  match f with
  | FInt _ _ al | FReal _ al => al_okb al
  | FStr | FUuid => true
  | FSArr _ e => wf_elem e
  | FDArr _ _ => false
  end.
Definition wf_top (f : ft) : bool :=
  match f with FDArr _ e => wf_elem e | _ => wf_elem f end.
Definition wf_sft (s : sft) : bool :=
  al_okb (s_minal s) && forallb (fun m => wf_top (snd m)) (s_mems s).

Lemma wf_elem_align f : wf_elem f = true -> al_ok (ft_align f).
Proof.
  induction f as [sg size al|size al| | |n e IH|l e IH]; cbn [wf_elem ft_align]; intros H;
    try (apply al_okb_ok; exact H); try (right; right; right; split; [lia|reflexivity]); auto.
  discriminate.
Qed.
Lemma wf_top_align f : wf_top f = true -> al_ok (ft_align f).
Proof. destruct f; cbn [wf_top]; intros H; try (apply wf_elem_align; exact H).
       cbn [ft_align]. apply wf_elem_align; exact H. Qed.

(* consistency of the builder's statically tracked offset with the runtime position *)
Definition cons (st : option nat) (at_ : nat) : Prop :=
  match st with Some k => k = at_ mod 8 | None => True end.

Lemma align_small_mod8 a x : (a = 1 \/ a = 2 \/ a = 4) ->
  align_up (x mod 8) a mod 8 = align_up x a mod 8.
Proof.
  intros Ha. unfold align_up.
  destruct Ha as [-> | Ha].
  { cbn [Nat.sub]. rewrite !Nat.add_0_r, !Nat.div_1_r, !Nat.mul_1_r.
    rewrite Nat.mod_mod by lia. reflexivity. }
  pose proof (Nat.div_mod x 8 ltac:(lia)) as Hx.
  pose proof (Nat.mod_upper_bound x 8 ltac:(lia)) as Hr.
  set (q := x / 8) in *. set (r := x mod 8) in *.
  destruct Ha as [-> | ->].
  - replace (2 - 1) with 1 by lia. rewrite Hx.
    replace (8 * q + r + 1) with (r + 1 + (4 * q) * 2) by lia.
    rewrite Nat.div_add by lia. rewrite Nat.mul_add_distr_r.
    replace (4 * q * 2) with (q * 8) by lia. rewrite Nat.mod_add by lia. reflexivity.
  - replace (4 - 1) with 3 by lia. rewrite Hx.
    replace (8 * q + r + 3) with (r + 3 + (2 * q) * 4) by lia.
    rewrite Nat.div_add by lia. rewrite Nat.mul_add_distr_r.
    replace (2 * q * 4) with (q * 8) by lia. rewrite Nat.mod_add by lia. reflexivity.
Qed.

Lemma try_align_cons level st a at_ : al_ok a -> cons st at_ ->
  cons (try_align level st a) (align_up at_ a).
Proof.
  intros Ha Hc. unfold try_align. destruct st as [k|].
  - destruct (0 <? level); [exact I|]. cbn [cons] in *. subst k.
    destruct Ha as [H|[H|[H|[Hp H8]]]].
    + apply align_small_mod8; auto.
    + apply align_small_mod8; auto.
    + apply align_small_mod8; auto.
    + rewrite !align_up_mod8 by assumption. reflexivity.
  - destruct (a mod 8 =? 0) eqn:E; [|exact I].
    apply Nat.eqb_eq in E. cbn [cons]. rewrite align_up_mod8; [reflexivity| |exact E].
    apply al_ok_pos; exact Ha.
Qed.

Lemma cons_pos k at_ : cons (Some k) at_ -> 8 * (at_ / 8) + k = at_.
Proof. cbn [cons]. intros ->. symmetry. apply Nat.div_mod. lia. Qed.
Lemma aligned8_pos at_ : at_ mod 8 = 0 -> 8 * (at_ / 8) = at_.
Proof. intros H. pose proof (Nat.div_mod at_ 8 ltac:(lia)). lia. Qed.
Lemma cons_bump st at_ size : cons st at_ -> cons (bump st size) (at_ + size).
Proof.
  destruct st as [k|]; cbn [cons bump]; [|auto]. intros ->.
  apply Nat.add_mod_idemp_l. lia.
Qed.
Lemma cons_shift8 st at_ n : cons st at_ -> cons st (at_ + 8 * n).
Proof.
  destruct st as [k|]; cbn [cons]; [|auto]. intros ->.
  rewrite Nat.mul_comm, Nat.mod_add by lia. reflexivity.
Qed.

(* in an array (level >= 1) the recorded offset is None, or Some 0 under a byte alignment *)
Lemma try_align_in_array level st a : 1 <= level ->
  try_align level st a = None \/ (try_align level st a = Some 0 /\ a mod 8 = 0).
Proof.
  intros Hl. unfold try_align. destruct st as [k|].
  - destruct (Nat.ltb_spec 0 level); [auto|lia].
  - destruct (a mod 8 =? 0) eqn:E; [|auto]. apply Nat.eqb_eq in E. auto.
Qed.

Section S.
  Variable bo : byte_order.
  Variable nk : bool.
  Variable lim : nat.

  Definition proj (ss : sstate) : stream * nat := (ss_s ss, ss_at ss).
  Definition lift (ss : sstate) (r : option (stream * nat)) : option sstate :=
    match r with Some (s', a') => Some (mk_ss s' a' (ss_saved ss)) | None => None end.

  (* the write position of a bit array operation is the aligned position itself *)
  Lemma bits_pos al size off at1 :
    al_ok al -> at1 mod al = 0 -> (match off with Some k => k = at1 mod 8 | None => True end) ->
    (if memcpy_path nk al size then 8 * (at1 / 8)
     else 8 * (at1 / 8) + match off with Some k => k | None => at1 mod 8 end) = at1.
  Proof.
    intros Ha Hal Hoff.
    destruct (memcpy_path nk al size) eqn:Em.
    - unfold memcpy_path in Em. apply andb_true_iff in Em. destruct Em as [Em _].
      apply andb_true_iff in Em. destruct Em as [_ Em]. apply Nat.eqb_eq in Em.
      apply aligned8_pos.
      pose proof (Nat.div_mod at1 al ltac:(pose proof (al_ok_pos _ Ha); lia)) as H1.
      pose proof (Nat.div_mod al 8 ltac:(lia)) as H2. rewrite Em in H2. rewrite Hal in H1.
      rewrite H1, H2. rewrite !Nat.add_0_r. rewrite <- Nat.mul_assoc, Nat.mul_comm. apply Nat.mod_mul. lia.
    - destruct off as [k|]; [subst k|]; symmetry; apply Nat.div_mod; lia.
  Qed.

  Lemma iter_opt_lift (f : val -> sstate -> option sstate) (g : val -> stream * nat -> option (stream * nat)) vs :
    (forall v ss, In v vs -> f v ss = lift ss (g v (proj ss))) ->
    forall ss, iter_opt f vs ss = lift ss (iter_opt g vs (proj ss)).
  Proof.
    induction vs as [|v vs IH]; intros H ss; cbn [iter_opt].
    - unfold lift, proj. destruct ss; reflexivity.
    - rewrite H by (left; reflexivity).
      destruct (g v (proj ss)) as [[s' a']|]; cbn [lift]; [|reflexivity].
      rewrite IH by (intros; apply H; right; assumption). reflexivity.
  Qed.

  (* --- elements of arrays: correct from every position, whatever the incoming state --- *)
  Lemma ser_build_elem f : wf_elem f = true ->
    forall level st v ss, 1 <= level ->
      ser bo nk lim (snd (build level st f)) v ss = lift ss (enc bo lim f v (proj ss)).
  Proof.
    induction f as [sg size al|size al| | |n e IH|l e IH]; intros Hwf level st v ss Hl;
      cbn [wf_elem] in Hwf; try discriminate.
    - (* FInt *)
      cbn [build snd ser enc]. destruct v as [z|bs|vs]; try reflexivity. cbn [proj fst snd].
      pose proof (al_okb_ok _ Hwf) as Ha.
      rewrite (bits_pos al size (try_align level st al) (align_up (ss_at ss) al) Ha
                 (align_up_mod _ _ (al_ok_pos _ Ha))).
      + destruct (_ <=? lim); reflexivity.
      + destruct (try_align_in_array level st al Hl) as [-> | [-> H8]]; [exact I|].
        rewrite align_up_mod8; [reflexivity|apply al_ok_pos; exact Ha|exact H8].
    - (* FReal *)
      cbn [build snd ser enc]. destruct v as [z|bs|vs]; try reflexivity. cbn [proj fst snd].
      pose proof (al_okb_ok _ Hwf) as Ha.
      rewrite (bits_pos al size (try_align level st al) (align_up (ss_at ss) al) Ha
                 (align_up_mod _ _ (al_ok_pos _ Ha))).
      + destruct (_ <=? lim); reflexivity.
      + destruct (try_align_in_array level st al Hl) as [-> | [-> H8]]; [exact I|].
        rewrite align_up_mod8; [reflexivity|apply al_ok_pos; exact Ha|exact H8].
    - (* FStr *)
      cbn [build snd ser enc]. destruct v as [z|bs|vs]; try reflexivity. cbn [proj fst snd].
      rewrite aligned8_pos by (apply align_up_mod; lia).
      destruct (_ <=? lim); reflexivity.
    - (* FUuid *)
      cbn [build snd ser enc]. destruct v as [z|bs|vs]; try reflexivity. cbn [proj fst snd].
      rewrite (align_up_aligned (align_up (ss_at ss) 8) 8) by (try lia; apply align_up_mod; lia).
      rewrite aligned8_pos by (apply align_up_mod; lia).
      destruct (_ && _); reflexivity.
    - (* FSArr *)
      cbn [build snd ser enc]. destruct v as [z|bs|vs]; try reflexivity. cbn [proj fst snd].
      destruct (List.length vs =? n); [|reflexivity].
      rewrite (iter_opt_lift _ (enc bo lim e)).
      + reflexivity.
      + intros v0 ss0 _. apply IH; [exact Hwf|lia].
  Qed.

  (* --- state returned by the builder after an element --- *)
  Lemma build_elem_state f : wf_elem f = true -> forall level, 1 <= level ->
    (forall k, fst (build level (Some k) f) = None) /\
    (ft_align f mod 8 <> 0 -> fst (build level None f) = None).
  Proof.
    induction f as [sg size al|size al| | |n e IH|l e IH]; intros Hwf level Hl;
      cbn [wf_elem] in Hwf; try discriminate; cbn [build fst ft_align].
    - split.
      + intros k. unfold try_align. destruct (Nat.ltb_spec 0 level); [reflexivity|lia].
      + intros H8. unfold try_align. destruct (Nat.eqb_spec (al mod 8) 0); [contradiction|reflexivity].
    - split.
      + intros k. unfold try_align. destruct (Nat.ltb_spec 0 level); [reflexivity|lia].
      + intros H8. unfold try_align. destruct (Nat.eqb_spec (al mod 8) 0); [contradiction|reflexivity].
    - split.
      + intros k. unfold try_align. destruct (Nat.ltb_spec 0 level); [reflexivity|lia].
      + intros H8. exfalso. apply H8. reflexivity.
    - split.
      + intros k. unfold try_align. destruct (Nat.ltb_spec 0 level); [reflexivity|lia].
      + intros H8. exfalso. apply H8. reflexivity.
    - destruct (IH Hwf (S level) ltac:(lia)) as [IH1 IH2].
      assert (Hnone : fst (build (S level) (try_align level None (ft_align e)) e) = None).
      { unfold try_align. destruct (Nat.eqb_spec (ft_align e mod 8) 0) as [E|E].
        - apply IH1. - apply IH2. exact E. }
      split; [intros k|intros _]; exact Hnone.
  Qed.

  (* --- top-level members --- *)
  Lemma ser_build_top f : wf_top f = true ->
    forall st v ss, cons st (ss_at ss) ->
      ser bo nk lim (snd (build 0 st f)) v ss = lift ss (enc bo lim f v (proj ss)) /\
      (forall s' a', enc bo lim f v (proj ss) = Some (s', a') -> cons (fst (build 0 st f)) a').
  Proof.
    destruct f as [sg size al|size al| | |n e|l e]; intros Hwf st v ss Hc; cbn [wf_top wf_elem] in Hwf.
    - cbn [build snd fst ser enc]. destruct v as [z|bs|vs]; try (split; [reflexivity|discriminate]).
      cbn [proj fst snd].
      pose proof (al_okb_ok _ Hwf) as Ha.
      pose proof (try_align_cons 0 st al (ss_at ss) Ha Hc) as Hc1.
      rewrite (bits_pos al size (try_align 0 st al) (align_up (ss_at ss) al) Ha
                 (align_up_mod _ _ (al_ok_pos _ Ha))) by (destruct (try_align 0 st al); exact Hc1).
      split.
      + destruct (_ <=? lim); reflexivity.
      + intros s' a'. destruct (_ <=? lim); [|discriminate]. intros E. injection E as _ <-.
        apply cons_bump. exact Hc1.
    - cbn [build snd fst ser enc]. destruct v as [z|bs|vs]; try (split; [reflexivity|discriminate]).
      cbn [proj fst snd].
      pose proof (al_okb_ok _ Hwf) as Ha.
      pose proof (try_align_cons 0 st al (ss_at ss) Ha Hc) as Hc1.
      rewrite (bits_pos al size (try_align 0 st al) (align_up (ss_at ss) al) Ha
                 (align_up_mod _ _ (al_ok_pos _ Ha))) by (destruct (try_align 0 st al); exact Hc1).
      split.
      + destruct (_ <=? lim); reflexivity.
      + intros s' a'. destruct (_ <=? lim); [|discriminate]. intros E. injection E as _ <-.
        apply cons_bump. exact Hc1.
    - cbn [build snd fst ser enc]. destruct v as [z|bs|vs]; try (split; [reflexivity|discriminate]).
      cbn [proj fst snd].
      rewrite aligned8_pos by (apply align_up_mod; lia).
      assert (Ha8 : al_ok 8) by (right; right; right; split; [lia|reflexivity]).
      pose proof (try_align_cons 0 st 8 (ss_at ss) Ha8 Hc) as Hc1.
      split.
      + destruct (_ <=? lim); reflexivity.
      + intros s' a'. destruct (_ <=? lim); [|discriminate]. intros E. injection E as _ <-.
        apply cons_shift8. exact Hc1.
    - cbn [build snd fst ser enc]. destruct v as [z|bs|vs]; try (split; [reflexivity|discriminate]).
      cbn [proj fst snd].
      rewrite (align_up_aligned (align_up (ss_at ss) 8) 8) by (try lia; apply align_up_mod; lia).
      rewrite aligned8_pos by (apply align_up_mod; lia).
      assert (Ha8 : al_ok 8) by (right; right; right; split; [lia|reflexivity]).
      pose proof (try_align_cons 0 st 8 (ss_at ss) Ha8 Hc) as Hc1.
      split.
      + destruct (_ && _); reflexivity.
      + intros s' a'. destruct (_ && _); [|discriminate]. intros E. injection E as _ <-.
        change 128 with (8 * 16). apply cons_shift8. exact Hc1.
    - (* static array at top level *)
      cbn [build snd fst]. split.
      + cbn [ser enc]. destruct v as [z|bs|vs]; try reflexivity. cbn [proj fst snd].
        destruct (List.length vs =? n); [|reflexivity].
        rewrite (iter_opt_lift _ (enc bo lim e)); [reflexivity|].
        intros v0 ss0 _. apply ser_build_elem; [exact Hwf|lia].
      + intros s' a' _.
        destruct (build_elem_state e Hwf 1 ltac:(lia)) as [F1 F2].
        unfold try_align. destruct (Nat.eqb_spec (ft_align e mod 8) 0) as [E|E].
        * rewrite F1. exact I. * rewrite F2 by exact E. exact I.
    - (* dynamic array at top level *)
      cbn [build snd fst]. split.
      + cbn [ser enc]. destruct v as [z|bs|vs]; try reflexivity. cbn [proj fst snd].
        rewrite (iter_opt_lift _ (enc bo lim e)); [reflexivity|].
        intros v0 ss0 _. apply ser_build_elem; [exact Hwf|lia].
      + intros s' a' _.
        destruct (build_elem_state e Hwf 1 ltac:(lia)) as [F1 F2].
        unfold try_align. destruct st as [k|].
        * cbn [Nat.ltb Nat.leb]. rewrite F1. exact I.
        * destruct (Nat.eqb_spec (ft_align e mod 8) 0) as [E|E].
          -- rewrite F1. exact I. -- rewrite F2 by exact E. exact I.
  Qed.

  Lemma skip_of_nil name o : skip_of [] name o = o.
  Proof. destruct o; reflexivity. Qed.

  Lemma ser_build_members ms : forallb (fun m => wf_top (snd m)) ms = true ->
    forall st vs ss, cons st (ss_at ss) ->
      iter2_opt (ser bo nk lim) (snd (build_members [] st ms)) vs ss =
      lift ss (enc_members bo lim ms vs (proj ss)).
  Proof.
    induction ms as [|[name f] ms IH]; intros Hwf st vs ss Hc.
    - cbn [build_members snd iter2_opt enc_members]. destruct vs; [|reflexivity].
      unfold lift, proj. destruct ss; reflexivity.
    - cbn [forallb snd] in Hwf. apply andb_true_iff in Hwf. destruct Hwf as [Hf Hms].
      cbn [build_members snd fst iter2_opt enc_members]. rewrite skip_of_nil.
      destruct vs as [|v vs]; [reflexivity|].
      destruct (ser_build_top f Hf st v ss Hc) as [Hser Hcons]. rewrite Hser.
      destruct (enc bo lim f v (proj ss)) as [[s' a']|] eqn:E; cbn [lift]; [|reflexivity].
      rewrite IH; [reflexivity|exact Hms|]. cbn [ss_at]. apply (Hcons s' a'). reflexivity.
  Qed.

  Lemma sft_align_ok s : wf_sft s = true -> al_ok (sft_align s).
  Proof.
    unfold wf_sft, sft_align. intros H. apply andb_true_iff in H. destruct H as [Hm Hms].
    apply al_okb_ok in Hm. revert Hm Hms. generalize (s_minal s). induction (s_mems s) as [|m ms IH]; intros a Ha Hms.
    - exact Ha.
    - cbn [forallb] in Hms. apply andb_true_iff in Hms. destruct Hms as [H1 H2].
      cbn [fold_left]. apply IH; [|exact H2]. apply al_ok_max; [exact Ha|apply wf_top_align; exact H1].
  Qed.

  (* Theorem A for a root structure without skipped members (event header, common context,
     specific context, payload, packet header) *)
  Theorem ser_build_root s : wf_sft s = true ->
    forall st vs ss,
      ser bo nk lim (snd (build_root [] st s)) (VArr vs) ss = lift ss (enc_struct bo lim s vs (proj ss)).
  Proof.
    intros Hwf st vs ss. unfold build_root, enc_struct. cbn [snd fst ser proj].
    pose proof (sft_align_ok s Hwf) as Ha.
    rewrite ser_build_members.
    - cbn [proj ss_s ss_at lift]. reflexivity.
    - unfold wf_sft in Hwf. apply andb_true_iff in Hwf. apply Hwf.
    - cbn [ss_at]. apply try_align_cons; [exact Ha|exact I].
  Qed.
End S.
