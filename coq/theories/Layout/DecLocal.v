(* Locality of the CTF reader: its result depends only on the bits it consumes and not on how
   much room follows.  If a decode succeeds on s with bound lim and ends at a', it gives the same
   result on every stream that agrees with s on [a, a') with any bound lim' >= a'. *)
From Coq Require Import List Arith Bool ZArith String Lia PeanoNat.
Import ListNotations.
From BT.Base Require Import Bits BitsProofs.
From BT.Layout Require Import Model.

Fixpoint tpos (t : ttype) : bool :=
  match t with
  | TInt _ _ al | TFloat _ al => 0 <? al
  | TStr => true
  | TArr _ e | TSeq _ e => tpos e
  end.
Definition tspos (t : tstruct) : bool := (0 <? t_minal t) && forallb (fun f => tpos (snd f)) (t_fields t).

Lemma tpos_align t : tpos t = true -> 0 < talign t.
Proof. induction t; cbn [tpos talign]; intros H; try (apply Nat.ltb_lt; exact H); try lia; auto. Qed.

Section L.
  Variable bo : byte_order.

  (* ---------------- the reader only moves forward ---------------- *)
  Lemma scan_str_mono s lim : forall fuel pos acc r p',
    scan_str bo s lim fuel pos acc = Some (r, p') -> pos < p'.
  Proof.
    induction fuel as [|fuel IH]; intros pos acc r p' H; cbn [scan_str] in H; [discriminate|].
    destruct (pos + 8 <=? lim); [|discriminate].
    destruct (_ =? 0)%Z; [injection H as _ <-; lia|]. specialize (IH _ _ _ _ H). lia.
  Qed.

  Lemma dec_loop_mono (f : nat -> option (dval * nat)) :
    (forall a d a', f a = Some (d, a') -> a <= a') ->
    forall k a acc d a', dec_loop f k a acc = Some (d, a') -> a <= a'.
  Proof.
    intros Hf. induction k as [|k IH]; intros a acc d a' H; cbn [dec_loop] in H.
    - injection H as _ <-. lia.
    - destruct (f a) as [[d1 a1]|] eqn:E; [|discriminate].
      specialize (Hf _ _ _ E). specialize (IH _ _ _ _ H). lia.
  Qed.

  Lemma dec_mono s lim t : tpos t = true -> forall env a d a',
    dec bo s lim t env a = Some (d, a') -> a <= a'.
  Proof.
    induction t as [sg size al|size al| |n e IH|l e IH]; intros Hp env a d a' H; cbn [tpos] in Hp; cbn [dec] in H.
    - apply Nat.ltb_lt in Hp. pose proof (align_up_ge a al Hp).
      destruct (_ <=? lim); [|discriminate]. injection H as _ <-. lia.
    - apply Nat.ltb_lt in Hp. pose proof (align_up_ge a al Hp).
      destruct (_ <=? lim); [|discriminate]. injection H as _ <-. lia.
    - pose proof (align_up_ge a 8 ltac:(lia)).
      destruct (scan_str bo s lim (S lim) (align_up a 8) []) as [[bs p']|] eqn:E; [|discriminate].
      injection H as _ <-. pose proof (scan_str_mono _ _ _ _ _ _ _ E). lia.
    - pose proof (align_up_ge a (talign e) (tpos_align e Hp)).
      pose proof (dec_loop_mono (dec bo s lim e env) (fun a0 d0 a1 => IH Hp env a0 d0 a1) _ _ _ _ _ H). lia.
    - destruct (env_get env l); [|discriminate].
      pose proof (align_up_ge a (talign e) (tpos_align e Hp)).
      pose proof (dec_loop_mono (dec bo s lim e env) (fun a0 d0 a1 => IH Hp env a0 d0 a1) _ _ _ _ _ H). lia.
  Qed.

  (* ---------------- locality ---------------- *)
  Lemma scan_str_local s s' lim lim' : forall fuel pos acc r p',
    scan_str bo s lim fuel pos acc = Some (r, p') ->
    agree pos p' s s' -> p' <= lim' ->
    forall fuel', p' <= pos + 8 * fuel' ->
    scan_str bo s' lim' fuel' pos acc = Some (r, p').
  Proof.
    induction fuel as [|fuel IH]; intros pos acc r p' H Hag Hl fuel' Hf; [cbn in H; discriminate|].
    pose proof (scan_str_mono _ _ _ _ _ _ _ H) as Hlt.
    cbn [scan_str] in H.
    destruct (Nat.leb_spec (pos + 8) lim) as [Hb|]; [|discriminate].
    destruct fuel' as [|fuel']; [lia|]. cbn [scan_str].
    destruct (Z.eqb_spec (dec_int bo false (read_bits pos 8 s)) 0) as [Ez|Ez].
    - injection H as <- <-.
      destruct (Nat.leb_spec (pos + 8) lim'); [|lia].
      rewrite <- (read_bits_agree pos 8 s s') by (eapply agree_sub; [exact Hag|lia|lia]).
      rewrite Ez. reflexivity.
    - pose proof (scan_str_mono _ _ _ _ _ _ _ H) as Hlt2.
      destruct (Nat.leb_spec (pos + 8) lim'); [|lia].
      rewrite <- (read_bits_agree pos 8 s s') by (eapply agree_sub; [exact Hag|lia|lia]).
      destruct (Z.eqb_spec (dec_int bo false (read_bits pos 8 s)) 0); [contradiction|].
      apply (IH _ _ _ _ H); [eapply agree_sub; [exact Hag|lia|lia]|exact Hl|lia].
  Qed.

  Lemma dec_loop_local (f f' : nat -> option (dval * nat)) (P : nat -> nat -> Prop) :
    (forall a d a', f a = Some (d, a') -> a <= a') ->
    forall k a acc d a' hi,
      (forall a0 d0 a1, a <= a0 -> a1 <= hi -> f a0 = Some (d0, a1) -> f' a0 = Some (d0, a1)) ->
      dec_loop f k a acc = Some (d, a') -> a' <= hi -> dec_loop f' k a acc = Some (d, a').
  Proof.
    intros Hm. induction k as [|k IH]; intros a acc d a' hi Hf H Hhi; cbn [dec_loop] in *; [exact H|].
    destruct (f a) as [[d1 a1]|] eqn:E; [|discriminate].
    pose proof (Hm _ _ _ E) as M1.
    pose proof (dec_loop_mono f Hm _ _ _ _ _ H) as M2.
    rewrite (Hf a d1 a1 (Nat.le_refl _) ltac:(lia) E).
    apply (IH a1 _ d a' hi); [|exact H|exact Hhi].
    intros a0 d0 a2 Ha0 Ha2 E0. apply Hf; [lia|exact Ha2|exact E0].
  Qed.

  Theorem dec_local t : tpos t = true ->
    forall env s s' lim lim' a d a', dec bo s lim t env a = Some (d, a') ->
      agree a a' s s' -> a' <= lim' -> dec bo s' lim' t env a = Some (d, a').
  Proof.
    induction t as [sg size al|size al| |n e IH|l e IH]; intros Hp env s s' lim lim' a d a' H Hag Hl;
      pose proof (dec_mono s lim _ Hp env a d a' H) as Hmono; cbn [tpos] in Hp; cbn [dec] in *.
    - apply Nat.ltb_lt in Hp. pose proof (align_up_ge a al Hp).
      destruct (_ <=? lim); [|discriminate]. injection H as <- <-.
      destruct (Nat.leb_spec (align_up a al + size) lim'); [|lia].
      rewrite (read_bits_agree _ _ s s') by (eapply agree_sub; [exact Hag|lia|lia]). reflexivity.
    - apply Nat.ltb_lt in Hp. pose proof (align_up_ge a al Hp).
      destruct (_ <=? lim); [|discriminate]. injection H as <- <-.
      destruct (Nat.leb_spec (align_up a al + size) lim'); [|lia].
      rewrite (read_bits_agree _ _ s s') by (eapply agree_sub; [exact Hag|lia|lia]). reflexivity.
    - pose proof (align_up_ge a 8 ltac:(lia)).
      destruct (scan_str bo s lim (S lim) (align_up a 8) []) as [[bs p']|] eqn:E; [|discriminate].
      injection H as <- <-.
      rewrite (scan_str_local s s' lim lim' _ _ _ _ _ E); [reflexivity| |exact Hl|lia].
      eapply agree_sub; [exact Hag|lia|lia].
    - pose proof (align_up_ge a (talign e) (tpos_align e Hp)).
      apply (dec_loop_local (dec bo s lim e env) (dec bo s' lim' e env) (fun _ _ => True)
               (fun a0 d0 a1 => dec_mono s lim e Hp env a0 d0 a1) n _ [] d a' a'); [|exact H|lia].
      intros a0 d0 a1 Ha0 Ha1 E0. apply (IH Hp env s s' lim lim' a0 d0 a1 E0); [|lia].
      pose proof (dec_mono s lim e Hp env a0 d0 a1 E0). eapply agree_sub; [exact Hag|lia|lia].
    - destruct (env_get env l); [|discriminate].
      pose proof (align_up_ge a (talign e) (tpos_align e Hp)).
      apply (dec_loop_local (dec bo s lim e env) (dec bo s' lim' e env) (fun _ _ => True)
               (fun a0 d0 a1 => dec_mono s lim e Hp env a0 d0 a1) _ _ [] d a' a'); [|exact H|lia].
      intros a0 d0 a1 Ha0 Ha1 E0. apply (IH Hp env s s' lim lim' a0 d0 a1 E0); [|lia].
      pose proof (dec_mono s lim e Hp env a0 d0 a1 E0). eapply agree_sub; [exact Hag|lia|lia].
  Qed.

  (* structures *)
  Lemma dec_fields_mono s lim fs : forallb (fun f => tpos (snd f)) fs = true ->
    forall env a acc r a', dec_fields bo s lim fs env a acc = Some (r, a') -> a <= a'.
  Proof.
    induction fs as [|[n t] fs IH]; intros Hp env a acc r a' H; cbn [dec_fields] in H.
    - injection H as _ <-. lia.
    - cbn [forallb snd] in Hp. apply andb_true_iff in Hp. destruct Hp as [Ht Hfs].
      destruct (dec bo s lim t env a) as [[d a1]|] eqn:E; [|discriminate].
      pose proof (dec_mono s lim t Ht env a d a1 E). specialize (IH Hfs _ _ _ _ _ H). lia.
  Qed.

  Lemma dec_fields_local fs : forallb (fun f => tpos (snd f)) fs = true ->
    forall env s s' lim lim' a acc r a', dec_fields bo s lim fs env a acc = Some (r, a') ->
      agree a a' s s' -> a' <= lim' -> dec_fields bo s' lim' fs env a acc = Some (r, a').
  Proof.
    induction fs as [|[n t] fs IH]; intros Hp env s s' lim lim' a acc r a' H Hag Hl; cbn [dec_fields] in *; [exact H|].
    cbn [forallb snd] in Hp. apply andb_true_iff in Hp. destruct Hp as [Ht Hfs].
    destruct (dec bo s lim t env a) as [[d a1]|] eqn:E; [|discriminate].
    pose proof (dec_mono s lim t Ht env a d a1 E) as M1.
    pose proof (dec_fields_mono s lim fs Hfs _ _ _ _ _ H) as M2.
    rewrite (dec_local t Ht env s s' lim lim' a d a1 E); [| eapply agree_sub; [exact Hag|lia|lia] | lia].
    apply (IH Hfs _ s s' lim lim' a1 _ r a' H); [eapply agree_sub; [exact Hag|lia|lia]|exact Hl].
  Qed.

  Lemma tstruct_align_pos t : tspos t = true -> 0 < tstruct_align t.
  Proof.
    unfold tspos, tstruct_align. intros H. apply andb_true_iff in H. destruct H as [H _].
    apply Nat.ltb_lt in H. revert H. generalize (t_minal t).
    induction (t_fields t) as [|m ms IH]; intros a Ha; cbn [fold_left]; [exact Ha|]. apply IH. lia.
  Qed.

  Theorem dec_struct_local t : tspos t = true ->
    forall s s' lim lim' a r a', dec_struct bo s lim t a = Some (r, a') ->
      agree a a' s s' -> a' <= lim' -> a <= a' /\ dec_struct bo s' lim' t a = Some (r, a').
  Proof.
    intros Hp s s' lim lim' a r a' H Hag Hl. unfold dec_struct in *.
    pose proof (align_up_ge a _ (tstruct_align_pos t Hp)) as Hge.
    unfold tspos in Hp. apply andb_true_iff in Hp. destruct Hp as [_ Hfs].
    pose proof (dec_fields_mono s lim _ Hfs _ _ _ _ _ H) as M.
    split; [lia|].
    apply (dec_fields_local _ Hfs [] s s' lim lim' _ [] r a' H); [eapply agree_sub; [exact Hag|lia|lia]|exact Hl].
  Qed.
End L.
