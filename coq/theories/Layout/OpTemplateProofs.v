(* The choice made by c/serialize-write-bit-array-statements.j2 (regenerated: Gen/OpTemplates.v, tools/opt2coq.py)
   is the one of Layout.Model.ser: memcpy exactly for byte-aligned fields of a standard size when the native byte
   order is known, the bit-field macro otherwise, with the static in-byte offset when the operation has one. *)
From Coq Require Import List Arith Bool.
Import ListNotations.
From BT.Base Require Import Bits.
From BT.Layout Require Import Model.
From BT.Gen Require Import OpTemplates.

Theorem tmpl_memcpy_cond_is_model nk al size : tmpl_memcpy_cond nk al size = memcpy_path nk al size.
Proof.
  unfold tmpl_memcpy_cond, memcpy_path. cbn [existsb].
  destruct nk, (Nat.eqb (al mod 8) 0), (Nat.eqb size 8), (Nat.eqb size 16), (Nat.eqb size 32), (Nat.eqb size 64); reflexivity.
Qed.

Theorem tmpl_offset_is_model off at1 :
  tmpl_offset off at1 = match off with Some k => k | None => at1 mod 8 end.
Proof. destruct off; reflexivity. Qed.

(* non-vacuity: both paths are taken *)
Example tmpl_paths : tmpl_memcpy_cond true 8 32 = true /\ tmpl_memcpy_cond true 1 8 = false /\
                     tmpl_memcpy_cond false 8 32 = false /\ tmpl_memcpy_cond true 8 24 = false.
Proof. repeat split; reflexivity. Qed.
