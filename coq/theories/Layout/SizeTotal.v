(* Totality of the size pass: for operations built from field types, the size templates compute a
   size for every argument tuple that is well typed (val_ok) and "sized" (val_fit: static arrays
   have their declared number of elements; no uuid member, for which the generator has no size
   template).  This is the layout-level fact that removes the model error `fail 4` from the
   tracing functions.  (Proofs only.) *)
From Coq Require Import List Arith Bool ZArith String Lia PeanoNat.
Import ListNotations.
From BT.Base Require Import Bits BitsProofs.
From BT.Layout Require Import Model BuildProofs RoundTrip RecordProofs SizeProofs.

Fixpoint val_fit (f : ft) (v : val) : Prop :=
  match f, v with
  | FUuid, _ => False
  | FSArr n e, VArr vs => List.length vs = n /\ Forall (val_fit e) vs
  | FDArr _ e, VArr vs => Forall (val_fit e) vs
  | _, _ => True
  end.
Fixpoint members_fit (ms : list (string * ft)) (vs : list val) : Prop :=
  match ms, vs with
  | [], [] => True
  | (_, f) :: ms, v :: vs => val_fit f v /\ members_fit ms vs
  | _, _ => False
  end.
Definition fit_opt (o : option sft) (vs : list val) : Prop :=
  match o with Some sf => members_fit (s_mems sf) vs | None => True end.

(* integer values are always sized *)
Lemma val_ok_int_fit f z : val_ok f (VInt z) -> val_fit f (VInt z).
Proof. destruct f; cbn; auto. Qed.

Lemma iter_total {A} (g : A -> nat -> option nat) (P : A -> Prop) vs :
  (forall v a, P v -> exists a', g v a = Some a') -> Forall P vs ->
  forall a, exists a', iter_opt g vs a = Some a'.
Proof.
  intros Hg. induction 1 as [|v vs Hv _ IH]; intros a; cbn [iter_opt]; [eauto|].
  destruct (Hg v a Hv) as [a1 E]. rewrite E. apply IH.
Qed.

Lemma Forall_and {A} (P Q : A -> Prop) l : Forall P l -> Forall Q l -> Forall (fun x => P x /\ Q x) l.
Proof. induction 1; intros HQ; inversion HQ; subst; constructor; auto. Qed.

Lemma size_total f : forall level st v a, val_ok f v -> val_fit f v ->
  exists a', size_op (snd (build level st f)) v a = Some a'.
Proof.
  induction f as [sg size al|size al| | |n e IH|l e IH]; intros level st v a Hok Hfit; cbn [build snd].
  - destruct v; cbn in Hok; try contradiction. cbn [size_op]. eauto.
  - destruct v; cbn in Hok; try contradiction. cbn [size_op]. eauto.
  - destruct v; cbn in Hok; try contradiction. cbn [size_op]. eauto.
  - destruct v; cbn in Hfit; contradiction.
  - destruct v as [z|bs|vs]; cbn in Hok; try contradiction. cbn [val_fit] in Hfit. destruct Hfit as [Hn Hf].
    cbn [size_op]. rewrite Hn, Nat.eqb_refl.
    apply (iter_total _ (fun v => val_ok e v /\ val_fit e v)); [|apply Forall_and; assumption].
    intros v0 a0 [A B]. apply IH; assumption.
  - destruct v as [z|bs|vs]; cbn in Hok; try contradiction. cbn [val_fit] in Hfit.
    cbn [size_op].
    apply (iter_total _ (fun v => val_ok e v /\ val_fit e v)); [|apply Forall_and; assumption].
    intros v0 a0 [A B]. apply IH; assumption.
Qed.

Lemma members_size_total ms : forall st env vs a, members_ok env ms vs -> members_fit ms vs ->
  exists a', iter2_opt size_op (snd (build_members [] st ms)) vs a = Some a'.
Proof.
  induction ms as [|[n f] ms IH]; intros st env vs a Hok Hfit.
  - destruct vs; cbn in Hok; [|contradiction]. cbn [build_members snd iter2_opt]. eauto.
  - destruct vs as [|v vs]; cbn [members_ok] in Hok; [contradiction|].
    destruct Hok as (Hv & _ & Hrest). cbn [members_fit] in Hfit. destruct Hfit as [Fv Frest].
    cbn [build_members snd fst iter2_opt]. rewrite skip_of_nil.
    destruct (size_total f 0 st v a Hv Fv) as [a1 E]. rewrite E.
    eapply IH; eauto.
Qed.

(* root structures *)
Theorem root_size_total sf st vs a : members_ok [] (s_mems sf) vs -> members_fit (s_mems sf) vs ->
  exists a', size_op (snd (build_root [] st sf)) (VArr vs) a = Some a'.
Proof.
  intros Hok Hfit. unfold build_root. cbn [snd size_op].
  eapply members_size_total; eauto.
Qed.
