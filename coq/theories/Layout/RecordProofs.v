(* Composition of Theorems A and B: what the generated C writes for the scopes of an event record
   (event header, common context, specific context, payload), at any start position, is read back
   by the CTF reader from the generated TSDL as the canonical form of the traced values. *)
From Coq Require Import List Arith Bool ZArith String Lia PeanoNat.
Import ListNotations.
From BT.Base Require Import Bits BitsProofs.
From BT.Layout Require Import Model BuildProofs RoundTrip.

Lemma al_okb_pos a : al_okb a = true -> (0 <? a) = true.
Proof. intros H. apply Nat.ltb_lt. apply al_ok_pos. apply al_okb_ok. exact H. Qed.

Lemma wf_elem_wfr f : wf_elem f = true -> wfr f = true.
Proof.
  induction f; cbn [wf_elem wfr]; intros H; auto; try (apply al_okb_pos; exact H).
Qed.
Lemma wf_top_wfr f : wf_top f = true -> wfr_top f = true.
Proof. destruct f; cbn [wf_top wfr_top]; intros H; apply wf_elem_wfr; exact H. Qed.
Lemma wf_sft_wfr s : wf_sft s = true -> wfr_sft s = true.
Proof.
  unfold wf_sft, wfr_sft. intros H. apply andb_true_iff in H. destruct H as [H1 H2].
  apply andb_true_iff. split; [apply al_okb_pos; exact H1|].
  rewrite forallb_forall in *. intros m Hm. apply wf_top_wfr. apply H2. exact Hm.
Qed.

Section R.
  Variable bo : byte_order.
  Variable nk : bool.
  Variable lim : nat.

  (* one root structure: C serialization of the built operations, then the reader *)
  Theorem ser_struct_rt sf : wf_sft sf = true ->
    forall st vs ss ss', List.length (ss_s ss) = lim -> members_ok [] (s_mems sf) vs ->
      ser bo nk lim (snd (build_root [] st sf)) (VArr vs) ss = Some ss' ->
      ss_at ss <= ss_at ss' /\ List.length (ss_s ss') = lim /\ ss_saved ss' = ss_saved ss /\
      agree 0 (ss_at ss) (ss_s ss') (ss_s ss) /\
      forall s'' lim', agree (ss_at ss) (ss_at ss') s'' (ss_s ss') -> ss_at ss' <= lim' ->
        dec_struct bo s'' lim' (tsdl_of_sft sf) (ss_at ss) = Some (canon_members (s_mems sf) vs, ss_at ss').
  Proof.
    intros Hwf st vs ss ss' Hlen Hok Hser.
    rewrite (ser_build_root bo nk lim sf Hwf) in Hser. unfold lift, proj in Hser.
    destruct (enc_struct bo lim sf vs (ss_s ss, ss_at ss)) as [[s' a']|] eqn:E; [|discriminate].
    injection Hser as <-. cbn [ss_s ss_at ss_saved].
    destruct (struct_rt bo lim sf (wf_sft_wfr sf Hwf) vs (ss_s ss) (ss_at ss) s' a' Hlen Hok E) as (A & B & C & D).
    repeat split; auto.
  Qed.

  (* optional scopes *)
  Definition ser_opt (o : option sft) (st : option nat) (vs : list val) (ss : sstate) : option sstate :=
    match o with Some sf => ser bo nk lim (snd (build_root [] st sf)) (VArr vs) ss | None => Some ss end.
  Definition ok_opt (o : option sft) (vs : list val) : Prop :=
    match o with Some sf => wf_sft sf = true /\ members_ok [] (s_mems sf) vs | None => vs = [] end.
  Definition dec_o (s'' : stream) (lim' : nat) (o : option sft) (at_ : nat) : option (list dval * nat) :=
    match o with Some sf => dec_struct bo s'' lim' (tsdl_of_sft sf) at_ | None => Some ([], at_) end.
  Definition canon_o (o : option sft) (vs : list val) : list dval :=
    match o with Some sf => canon_members (s_mems sf) vs | None => [] end.

  Lemma ser_opt_rt o st vs ss ss' : ok_opt o vs -> List.length (ss_s ss) = lim ->
    ser_opt o st vs ss = Some ss' ->
    ss_at ss <= ss_at ss' /\ List.length (ss_s ss') = lim /\
    agree 0 (ss_at ss) (ss_s ss') (ss_s ss) /\
    forall s'' lim', agree (ss_at ss) (ss_at ss') s'' (ss_s ss') -> ss_at ss' <= lim' ->
      dec_o s'' lim' o (ss_at ss) = Some (canon_o o vs, ss_at ss').
  Proof.
    destruct o as [sf|]; cbn [ser_opt ok_opt dec_o canon_o].
    - intros [Hwf Hok] Hlen Hser.
      destruct (ser_struct_rt sf Hwf st vs ss ss' Hlen Hok Hser) as (A & B & _ & C & D). auto.
    - intros _ Hlen E. injection E as <-. repeat split; try lia; try apply agree_refl; auto.
  Qed.

  (* the four scopes of an event record, in serialization order *)
  Theorem scopes_rt (eh cc sc p : option sft) (st1 st2 st3 st4 : option nat) hv cv sv pv ss0 ss1 ss2 ss3 ss4 :
    ok_opt eh hv -> ok_opt cc cv -> ok_opt sc sv -> ok_opt p pv ->
    List.length (ss_s ss0) = lim ->
    ser_opt eh st1 hv ss0 = Some ss1 -> ser_opt cc st2 cv ss1 = Some ss2 ->
    ser_opt sc st3 sv ss2 = Some ss3 -> ser_opt p st4 pv ss3 = Some ss4 ->
    ss_at ss0 <= ss_at ss4 /\ List.length (ss_s ss4) = lim /\ agree 0 (ss_at ss0) (ss_s ss4) (ss_s ss0) /\
    forall s'' lim', agree (ss_at ss0) (ss_at ss4) s'' (ss_s ss4) -> ss_at ss4 <= lim' ->
      dec_o s'' lim' eh (ss_at ss0) = Some (canon_o eh hv, ss_at ss1) /\
      dec_o s'' lim' cc (ss_at ss1) = Some (canon_o cc cv, ss_at ss2) /\
      dec_o s'' lim' sc (ss_at ss2) = Some (canon_o sc sv, ss_at ss3) /\
      dec_o s'' lim' p (ss_at ss3) = Some (canon_o p pv, ss_at ss4).
  Proof.
    intros O1 O2 O3 O4 L0 E1 E2 E3 E4.
    destruct (ser_opt_rt eh st1 hv ss0 ss1 O1 L0 E1) as (A1 & L1 & G1 & D1).
    destruct (ser_opt_rt cc st2 cv ss1 ss2 O2 L1 E2) as (A2 & L2 & G2 & D2).
    destruct (ser_opt_rt sc st3 sv ss2 ss3 O3 L2 E3) as (A3 & L3 & G3 & D3).
    destruct (ser_opt_rt p st4 pv ss3 ss4 O4 L3 E4) as (A4 & L4 & G4 & D4).
    repeat split; try lia.
    - intros q Hq. rewrite G4, G3, G2 by lia. apply G1. exact Hq.
    - apply D1; [|lia]. intros q Hq. rewrite H by lia. rewrite G4, G3 by lia. apply G2. lia.
    - apply D2; [|lia]. intros q Hq. rewrite H by lia. rewrite G4 by lia. apply G3. lia.
    - apply D3; [|lia]. intros q Hq. rewrite H by lia. apply G4. lia.
    - apply D4; [|lia]. intros q Hq. apply H. lia.
  Qed.
End R.
