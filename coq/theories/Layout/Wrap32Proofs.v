(* The uint32_t size pass (Layout/Wrap32.v) is the unbounded size pass (Layout/Model.v size_op)
   reduced modulo 2^32, for operations whose alignments divide 2^32 (powers of two up to 2^32):
     size_op32_spec / size_parts32_spec : size_op32 o v (a mod 2^32) = (size_op o v a) mod 2^32
     er_size32_agrees : below 2^32 the value returned by _er_size_*() IS the model's size
     er_size32_wraps  : in general it is the model's size modulo 2^32
     gt_diff32N_spec  : the uint32_t test of _reserve_er_space is Tracer/Model.v's gt_diff32 when
                        at <= packet_size; beyond, it is the wrapped comparison (gt_diff32N_wrapped),
                        which differs from gt_diff32 only for er_size > 2^32 - (at - packet_size)
                        (gt_diff32N_wrapped_differs).
   No unary nat of magnitude 2^32 is ever computed: positions are N.of_nat of abstract nats. *)
From Coq Require Import List Arith Bool ZArith NArith Nnat String Lia PeanoNat.
From Coq Require Import ZifyN ZifyNat ZifyBool.
Import ListNotations.
From BT.Base Require Import Bits.
From BT.Layout Require Import Model SizeProofs Wrap32.
From BT.Tracer Require Import Model.

Local Arguments N.mul : simpl never.
Local Arguments N.add : simpl never.
Local Arguments N.sub : simpl never.
Local Arguments N.modulo : simpl never.
Local Arguments N.div : simpl never.
Local Arguments N.of_nat : simpl never.

Local Ltac Zify.zify_post_hook ::= Z.to_euclidean_division_equations.

(* ------------------------------------------------------------------ alignments *)
(* `al` divides 2^32 (hence is a power of two, at most 2^32, and is not 0) *)
Definition al_ok (al : nat) : Prop := exists q, (N.of_nat al * q = W32)%N.
Definition al_okb (al : nat) : bool := (W32 mod N.of_nat al =? 0)%N && (0 <? al).

Fixpoint aligns_okb (o : op) : bool :=
  match o with
  | OBits al _ _ _ | OStr al | OUuid al => al_okb al
  | OArr al _ b => al_okb al && aligns_okb b
  | OBlock al os => al_okb al && forallb aligns_okb os
  end.
Definition aligns_ok (o : op) : Prop := aligns_okb o = true.

Lemma W32_nz : W32 <> 0%N.
Proof. discriminate. Qed.

Lemma al_ok_pos al : al_ok al -> 0 < al.
Proof.
  intros [q Hq]. destruct al as [|al]; [|apply Nat.lt_0_succ].
  change (N.of_nat 0) with 0%N in Hq. rewrite N.mul_0_l in Hq. discriminate.
Qed.

Lemma al_okb_ok al : al_okb al = true -> al_ok al.
Proof.
  unfold al_okb. intros H. apply andb_true_iff in H. destruct H as [H1 H2].
  apply N.eqb_eq in H1. apply Nat.ltb_lt in H2.
  assert (Hnz : N.of_nat al <> 0%N) by lia.
  exists (W32 / N.of_nat al)%N.
  pose proof (N.div_mod W32 (N.of_nat al) Hnz) as E. rewrite H1, N.add_0_r in E. symmetry. exact E.
Qed.

Lemma al_ok_okb al : al_ok al -> al_okb al = true.
Proof.
  intros H. pose proof (al_ok_pos al H) as Hp. destruct H as [q Hq].
  unfold al_okb. apply andb_true_iff. split; [|apply Nat.ltb_lt; exact Hp].
  apply N.eqb_eq. rewrite <- Hq, N.mul_comm. apply N.mod_mul. lia.
Qed.

(* the alignments barectf can produce (powers of two; the configuration bounds them by 64) *)
Lemma al_ok_pow2 k : k <= 32 -> al_ok (2 ^ k).
Proof.
  intros Hk. exists (2 ^ N.of_nat (32 - k))%N.
  rewrite Nat2N.inj_pow. change (N.of_nat 2) with 2%N.
  rewrite <- N.pow_add_r. replace (N.of_nat k + N.of_nat (32 - k))%N with 32%N by lia. reflexivity.
Qed.
Lemma al_ok_small : Forall al_ok [1; 2; 4; 8; 16; 32; 64; 128].
Proof. repeat constructor; apply al_okb_ok; vm_compute; reflexivity. Qed.
Lemma al_okb_small : forallb al_okb [1; 2; 4; 8; 16; 32; 64; 128] = true.
Proof. vm_compute. reflexivity. Qed.

(* ------------------------------------------------------------------ the _ALIGN macro on uint32_t *)
Lemma w32_idem n : w32 (w32 n) = w32 n.
Proof. unfold w32. apply N.mod_mod. exact W32_nz. Qed.
Lemma w32_small n : (n < W32)%N -> w32 n = n.
Proof. unfold w32. apply N.mod_small. Qed.
Lemma add32_w32 a n : add32 (w32 a) n = w32 (a + n).
Proof. unfold add32, w32. apply N.add_mod_idemp_l. exact W32_nz. Qed.

Lemma of_nat_align_up a al : 0 < al ->
  N.of_nat (align_up a al) = (N.of_nat al * ((N.of_nat a + (N.of_nat al - 1)) / N.of_nat al))%N.
Proof.
  intros Hp. unfold align_up. rewrite Nat2N.inj_mul, Nat2N.inj_div, Nat2N.inj_add, Nat2N.inj_sub.
  change (N.of_nat 1) with 1%N. apply N.mul_comm.
Qed.

(* clearing the low bits of x mod (al * q) = (clearing the low bits of x) mod (al * q) *)
Lemma align_mod_core (x al q : N) : al <> 0%N -> q <> 0%N ->
  (x mod (al * q) - (x mod (al * q)) mod al = (al * (x / al)) mod (al * q))%N.
Proof.
  intros Ha Hq.
  rewrite (N.mul_mod_distr_l (x / al) q al Hq Ha).
  set (t := (x mod (al * q))%N).
  assert (Et : t = (x mod al + al * ((x / al) mod q))%N) by (unfold t; apply N.mod_mul_r; assumption).
  assert (Ed : (t / al = (x / al) mod q)%N).
  { rewrite Et, N.add_comm, (N.mul_comm al), N.div_add_l by exact Ha.
    rewrite (N.div_small (x mod al) al) by (apply N.mod_lt; exact Ha). apply N.add_0_r. }
  rewrite <- Ed. pose proof (N.div_mod t al Ha) as E.
  rewrite E at 1. rewrite N.add_sub. reflexivity.
Qed.

Theorem align32_spec al a : al_ok al ->
  align32 (w32 (N.of_nat a)) al = w32 (N.of_nat (align_up a al)).
Proof.
  intros H. pose proof (al_ok_pos al H) as Hp. destruct H as [q Hq].
  assert (Ha : N.of_nat al <> 0%N) by lia.
  assert (Hq0 : q <> 0%N) by (intros ->; rewrite N.mul_0_r in Hq; discriminate).
  unfold align32. cbv zeta. rewrite of_nat_align_up by exact Hp.
  fold (add32 (w32 (N.of_nat a)) (N.of_nat al - 1)). rewrite add32_w32.
  unfold w32. rewrite <- Hq. apply align_mod_core; assumption.
Qed.

(* ------------------------------------------------------------------ the size pass *)
Definition wrapN (e : nat) : N := w32 (N.of_nat e).

Lemma iter_opt_32 (f32 : val -> N -> option N) (f : val -> nat -> option nat) :
  (forall v a, f32 v (wrapN a) = option_map wrapN (f v a)) ->
  forall vs a, iter_opt f32 vs (wrapN a) = option_map wrapN (iter_opt f vs a).
Proof.
  intros Hf. induction vs as [|v vs IH]; intros a; cbn [iter_opt]; [reflexivity|].
  rewrite Hf. destruct (f v a) as [a'|]; cbn [option_map]; [apply IH|reflexivity].
Qed.

Lemma iter2_opt_32 (os : list op) :
  Forall (fun o => forall v a, size_op32 o v (wrapN a) = option_map wrapN (size_op o v a)) os ->
  forall vs a, iter2_opt size_op32 os vs (wrapN a) = option_map wrapN (iter2_opt size_op os vs a).
Proof.
  induction 1 as [|o os Ho Hos IH]; intros vs a; destruct vs as [|v vs]; cbn [iter2_opt]; try reflexivity.
  rewrite Ho. destruct (size_op o v a) as [a'|]; cbn [option_map]; [apply IH|reflexivity].
Qed.

Lemma size_op32_spec_w o : aligns_ok o ->
  forall v a, size_op32 o v (wrapN a) = option_map wrapN (size_op o v a).
Proof.
  unfold aligns_ok.
  induction o as [al k size off|al|al|al len b IH|al os IH] using op_ind'; intros Hok v a; cbn [aligns_okb] in Hok.
  - apply al_okb_ok in Hok. destruct v as [z|bs|vs]; cbn [size_op32 size_op option_map]; try reflexivity.
    unfold wrapN. rewrite align32_spec by exact Hok. rewrite add32_w32, <- Nat2N.inj_add. reflexivity.
  - apply al_okb_ok in Hok. destruct v as [z|bs|vs]; cbn [size_op32 size_op option_map]; try reflexivity.
    unfold wrapN. rewrite align32_spec by exact Hok. rewrite add32_w32. do 2 f_equal.
    rewrite Nat2N.inj_add, Nat2N.inj_mul, Nat2N.inj_add. reflexivity.
  - destruct v; reflexivity.
  - apply andb_true_iff in Hok. destruct Hok as [H1 H2]. apply al_okb_ok in H1.
    destruct v as [z|bs|vs]; cbn [size_op32 size_op option_map]; try reflexivity.
    destruct (match len with Some n => List.length vs =? n | None => true end); [|reflexivity].
    unfold wrapN at 1. rewrite align32_spec by exact H1. apply (iter_opt_32 _ _ (IH H2)).
  - apply andb_true_iff in Hok. destruct Hok as [H1 H2]. apply al_okb_ok in H1.
    destruct v as [z|bs|vs]; cbn [size_op32 size_op option_map]; try reflexivity.
    unfold wrapN at 1. rewrite align32_spec by exact H1. apply iter2_opt_32.
    rewrite forallb_forall in H2. rewrite Forall_forall in IH |- *.
    intros o Ho. apply (IH o Ho). apply H2. exact Ho.
Qed.

Theorem size_op32_spec : forall o, aligns_ok o -> forall v a,
  size_op32 o v (w32 (N.of_nat a)) = option_map (fun e => w32 (N.of_nat e)) (size_op o v a).
Proof. exact size_op32_spec_w. Qed.

Definition parts_aligns_ok (ps : list (op * val)) : Prop := Forall (fun p => aligns_ok (fst p)) ps.
Definition parts_aligns_okb (ps : list (op * val)) : bool := forallb (fun p => aligns_okb (fst p)) ps.
Lemma parts_aligns_okb_ok ps : parts_aligns_okb ps = true -> parts_aligns_ok ps.
Proof.
  unfold parts_aligns_okb, parts_aligns_ok. rewrite forallb_forall, Forall_forall. intros H p Hp. apply H, Hp.
Qed.

Theorem size_parts32_spec : forall ps, parts_aligns_ok ps -> forall a,
  size_parts32 ps (w32 (N.of_nat a)) = option_map (fun e => w32 (N.of_nat e)) (size_parts ps a).
Proof.
  induction 1 as [|[o v] ps Ho Hps IH]; intros a; cbn [size_parts32 size_parts option_map]; [reflexivity|].
  cbn [fst] in Ho. rewrite (size_op32_spec o Ho v a).
  destruct (size_op o v a) as [a'|]; cbn [option_map]; [apply IH|reflexivity].
Qed.

(* ------------------------------------------------------------------ what _er_size_*() returns *)
Lemma w32_diff (e a : nat) : a <= e ->
  w32 (w32 (N.of_nat e) + W32 - w32 (N.of_nat a)) = w32 (N.of_nat (e - a)).
Proof. intros Hle. unfold w32, W32. lia. Qed.

Theorem er_size32_wraps : forall ps a e, parts_aligns_ok ps ->
  size_parts ps a = Some e -> a <= e ->
  er_size32 ps (w32 (N.of_nat a)) = Some (w32 (N.of_nat (e - a))).
Proof.
  intros ps a e Hok Hs Hle. unfold er_size32. rewrite (size_parts32_spec ps Hok a), Hs. cbn [option_map].
  f_equal. apply w32_diff. exact Hle.
Qed.

Theorem er_size32_agrees : forall ps a e, parts_aligns_ok ps ->
  size_parts ps a = Some e -> a <= e -> (N.of_nat e < W32)%N ->
  er_size32 ps (N.of_nat a) = Some (N.of_nat (e - a)).
Proof.
  intros ps a e Hok Hs Hle Hlt.
  assert (Ha : w32 (N.of_nat a) = N.of_nat a) by (apply w32_small; lia).
  assert (He : w32 (N.of_nat (e - a)) = N.of_nat (e - a)) by (apply w32_small; lia).
  rewrite <- Ha, <- He. apply er_size32_wraps; assumption.
Qed.

(* ------------------------------------------------------------------ the test of _reserve_er_space *)
(* at <= packet_size < 2^32: the uint32_t test is the model's, for every er_size *)
Theorem gt_diff32N_spec : forall er p a, a <= p -> (N.of_nat p < W32)%N ->
  gt_diff32N (N.of_nat er) (N.of_nat p) (N.of_nat a) = gt_diff32 er p a.
Proof.
  intros er p a Hle Hp. unfold gt_diff32N, gt_diff32, w32, W32 in *.
  destruct (Nat.leb_spec a p) as [_|C]; [|lia].
  destruct (Nat.ltb_spec (p - a) er); destruct (N.ltb_spec ((N.of_nat p + 4294967296 - N.of_nat a) mod 4294967296) (N.of_nat er));
    try reflexivity; lia.
Qed.

(* packet_size < at < 2^32 (reachable only through a smaller buffer installed while the position is
   beyond it): the uint32_t difference wraps to 2^32 - (at - packet_size) *)
Theorem gt_diff32N_wrapped : forall er p a, p < a -> (N.of_nat a < W32)%N ->
  gt_diff32N (N.of_nat er) (N.of_nat p) (N.of_nat a) = (N.of_nat p + W32 - N.of_nat a <? N.of_nat er)%N.
Proof.
  intros er p a Hlt Ha. unfold gt_diff32N. rewrite w32_small; [reflexivity|]. unfold W32 in *. lia.
Qed.
(* ... so it agrees with the model's `false` exactly for er_size <= 2^32 - (at - packet_size) *)
Theorem gt_diff32N_wrapped_agrees : forall er p a, p < a -> (N.of_nat a < W32)%N ->
  (gt_diff32N (N.of_nat er) (N.of_nat p) (N.of_nat a) = gt_diff32 er p a
   <-> (N.of_nat er + N.of_nat a <= N.of_nat p + W32)%N).
Proof.
  intros er p a Hlt Ha. rewrite gt_diff32N_wrapped by assumption. unfold gt_diff32.
  destruct (Nat.leb_spec a p) as [C|_]; [lia|]. unfold W32 in *.
  destruct (N.ltb_spec (N.of_nat p + 4294967296 - N.of_nat a) (N.of_nat er)); split; intros; try reflexivity; try discriminate; lia.
Qed.
(* the equality with gt_diff32 is false there for huge er_size (all three values below 2^32) *)
Theorem gt_diff32N_wrapped_differs : forall er, N.of_nat er = 4294967295%N ->
  (N.of_nat er < W32)%N /\ (N.of_nat 2 < W32)%N /\
  gt_diff32N (N.of_nat er) (N.of_nat 0) (N.of_nat 2) = true /\ gt_diff32 er 0 2 = false.
Proof.
  intros er E. rewrite E. repeat split.
Qed.
(* the same as an existential (the witness er_size = 2^32 - 1 is never reduced to a unary numeral) *)
Theorem gt_diff32N_wrapped_refuted : exists er p a,
  (N.of_nat er < W32)%N /\ (N.of_nat p < W32)%N /\ (N.of_nat a < W32)%N /\
  gt_diff32N (N.of_nat er) (N.of_nat p) (N.of_nat a) <> gt_diff32 er p a.
Proof.
  exists (N.to_nat 4294967295%N), 0, 2.
  destruct (gt_diff32N_wrapped_differs (N.to_nat 4294967295%N) (N2Nat.id _)) as (H1 & H2 & H3 & H4).
  split; [exact H1|]. split; [reflexivity|]. split; [exact H2|]. rewrite H3, H4. discriminate.
Qed.
