(* Layout layer: field types, the model of cgen._OpBuilder (operations with their statically
   tracked in-byte offset), the C meaning of every operation template (ser), the layout
   specification (enc), the model of the TSDL generator (tsdl_of_ft) and a CTF 1.8 reader written
   from the specification (dec), which takes TSDL types only.

   Hand-written; tied to /repo by harness/props/c01.py:
     build_x        vs the real _DsOps captured from cgen (exact, structural),
     tsdl_of_x      vs the parsed real metadata file,
     ser / tracer   vs the bytes produced by the compiled generated C,
     dec_x          applied to the REAL packets with the REAL parsed metadata (oracle).
   Positions and sizes are unbounded nat here; the uint32_t arithmetic of the real size pass is
   Layout/Wrap32.v (size_op32), related to size_op by Layout/Wrap32Proofs.v (equal modulo 2^32,
   hence equal below 2^32; S12 in DESIGN.md needs >= 512 MiB of payload in one record). *)
From Coq Require Import List Arith Bool ZArith String.
Import ListNotations.
From BT.Base Require Import Bits.

(* ------------------------------------------------------------------ field types / values *)
Inductive ft :=
| FInt (sg : bool) (size al : nat)       (* integer and enumeration field types *)
| FReal (size al : nat)
| FStr
| FUuid                                  (* packet header `uuid`: static array of 16 uint8 *)
| FSArr (n : nat) (e : ft)
| FDArr (lenname : string) (e : ft).     (* length = the uint32 member `lenname` of the same structure *)

Record sft := mk_sft { s_minal : nat; s_mems : list (string * ft) }.

Fixpoint ft_align (f : ft) : nat :=
  match f with
  | FInt _ _ a | FReal _ a => a
  | FStr | FUuid => 8
  | FSArr _ e | FDArr _ e => ft_align e
  end.
Definition sft_align (s : sft) : nat :=
  fold_left (fun acc m => Nat.max acc (ft_align (snd m))) (s_mems s) (s_minal s).

(* argument values of the generated C functions; structures are VArr of their members *)
Inductive val := VInt (z : Z) | VStr (bytes : list Z) | VArr (vs : list val).

(* ------------------------------------------------------------------ operations (cgen.py) *)
Inductive wkind := KWrite | KSkip.       (* KSkip: serialize-write-skip-save-statements.j2 *)
Inductive op :=
| OBits (al : nat) (k : wkind) (size : nat) (off : option nat)
| OStr (al : nat)
| OUuid (al : nat)
| OArr (al : nat) (len : option nat) (body : op)      (* Some n: static; None: dynamic *)
| OBlock (al : nat) (body : list op).
(* normal form used by the harness as well: an _AlignOp always directly precedes the operation it
   aligns (or is the first sub-operation of a structure); `al` = 1 means "no _AlignOp" *)

(* try_create_align_op: effect on _offset_in_byte *)
Definition try_align (level : nat) (st : option nat) (a : nat) : option nat :=
  match st with
  | None => if a mod 8 =? 0 then Some 0 else None
  | Some k => if 0 <? level then None else Some (align_up k a mod 8)
  end.
Definition bump (st : option nat) (size : nat) : option nat :=
  match st with Some k => Some ((k + size) mod 8) | None => None end.

Fixpoint build (level : nat) (st : option nat) (f : ft) {struct f} : option nat * op :=
  match f with
  | FInt _ size al | FReal size al =>
      let st1 := try_align level st al in (bump st1 size, OBits al KWrite size st1)
  | FStr => let st1 := try_align level st 8 in (st1, OStr 8)
  | FUuid => let st1 := try_align level st 8 in (st1, OUuid 8)
  | FSArr n e =>
      (* ft_is_compound: _offset_in_byte reset to None *)
      let st1 := try_align level None (ft_align e) in
      let r := build (S level) st1 e in
      (fst r, OArr (ft_align e) (Some n) (snd r))
  | FDArr _ e =>
      (* a dynamic array is NOT "compound" for ft_is_compound: no reset *)
      let st1 := try_align level st (ft_align e) in
      let r := build (S level) st1 e in
      (fst r, OArr (ft_align e) None (snd r))
  end.

Definition skip_of (skips : list string) (name : string) (o : op) : op :=
  match o with
  | OBits al _ size off => if existsb (String.eqb name) skips then OBits al KSkip size off else o
  | _ => o
  end.
Fixpoint build_members (skips : list string) (st : option nat) (ms : list (string * ft))
  : option nat * list op :=
  match ms with
  | [] => (st, [])
  | (name, f) :: ms =>
      let r := build 0 st f in
      let r2 := build_members skips (fst r) ms in
      (fst r2, skip_of skips name (snd r) :: snd r2)
  end.
(* build_for_root_ft; the builder's _offset_in_byte `st` is threaded from root to root *)
Definition build_root (skips : list string) (st : option nat) (s : sft) : option nat * op :=
  let st1 := try_align 0 None (sft_align s) in
  let r := build_members skips st1 (s_mems s) in
  (fst r, OBlock (sft_align s) (snd r)).

(* generic iterators (kept as definitions over a local fix so that nested recursive calls pass the
   guard checker and so that their lemmas are proved once) *)
Definition iter_opt {A S} (f : A -> S -> option S) : list A -> S -> option S :=
  fix it (vs : list A) (st : S) : option S :=
    match vs with
    | [] => Some st
    | v :: vs => match f v st with Some st' => it vs st' | None => None end
    end.
Definition iter2_opt {A B S} (f : A -> B -> S -> option S) : list A -> list B -> S -> option S :=
  fix go (os : list A) (vs : list B) (st : S) : option S :=
    match os, vs with
    | [], [] => Some st
    | o :: os, v :: vs => match f o v st with Some st' => go os vs st' | None => None end
    | _, _ => None
    end.

(* ------------------------------------------------------------------ C semantics of the ops *)
Record sstate := mk_ss { ss_s : stream; ss_at : nat; ss_saved : list nat }.

Section Ser.
  Variable bo : byte_order.
  Variable native_known : bool.   (* TraceType (memcpy allowed) vs TraceTypeWithUnknownNativeByteOrder *)
  Variable lim : nat.             (* packet size in bits; a write beyond it is an error *)

  Definition memcpy_path (al size : nat) : bool :=
    native_known && (al mod 8 =? 0) && ((size =? 8) || (size =? 16) || (size =? 32) || (size =? 64)).

  Fixpoint write_bytes (pos : nat) (bs : list Z) (s : stream) : stream :=
    match bs with [] => s | b :: r => write_bytes (pos + 8) r (write_bits pos (enc_int bo 8 b) s) end.

  Definition byte_of_val (v : val) : Z := match v with VInt z => z | _ => 0%Z end.

  Fixpoint ser (o : op) (v : val) (st : sstate) {struct o} : option sstate :=
    match o, v with
    | OBits al k size off, VInt z =>
        let at1 := align_up (ss_at st) al in
        match k with
        | KSkip => Some (mk_ss (ss_s st) (at1 + size) (ss_saved st ++ [at1]))
        | KWrite =>
            let pos := if memcpy_path al size then 8 * (at1 / 8)
                       else 8 * (at1 / 8) + match off with Some k => k | None => at1 mod 8 end in
            if pos + size <=? lim
            then Some (mk_ss (write_bits pos (enc_int bo size z) (ss_s st)) (at1 + size) (ss_saved st))
            else None
        end
    | OStr al, VStr bs =>
        let at1 := align_up (ss_at st) al in
        let pos := 8 * (at1 / 8) in
        let n := 8 * (List.length bs + 1) in
        if pos + n <=? lim
        then Some (mk_ss (write_bytes pos (bs ++ [0%Z]) (ss_s st)) (at1 + n) (ss_saved st))
        else None
    | OUuid al, VArr vs =>
        let at1 := align_up (align_up (ss_at st) al) 8 in
        let pos := 8 * (at1 / 8) in
        if (List.length vs =? 16) && (pos + 128 <=? lim)
        then Some (mk_ss (write_bytes pos (map byte_of_val vs) (ss_s st)) (at1 + 128) (ss_saved st))
        else None
    | OArr al len body, VArr vs =>
        let st1 := mk_ss (ss_s st) (align_up (ss_at st) al) (ss_saved st) in
        if match len with Some n => List.length vs =? n | None => true end
        then iter_opt (ser body) vs st1
        else None
    | OBlock al body, VArr vs =>
        let st1 := mk_ss (ss_s st) (align_up (ss_at st) al) (ss_saved st) in
        iter2_opt ser body vs st1
    | _, _ => None
    end.

  (* size pass (size templates): positions only *)
  Fixpoint size_op (o : op) (v : val) (at_ : nat) {struct o} : option nat :=
    match o, v with
    | OBits al _ size _, VInt _ => Some (align_up at_ al + size)
    | OStr al, VStr bs => Some (align_up at_ al + 8 * (List.length bs + 1))
    | OUuid al, VArr _ => None      (* no size template: the packet header is never sized *)
    | OArr al len body, VArr vs =>
        if match len with Some n => List.length vs =? n | None => true end
        then iter_opt (size_op body) vs (align_up at_ al)
        else None
    | OBlock al body, VArr vs => iter2_opt size_op body vs (align_up at_ al)
    | _, _ => None
    end.

  (* ---------------------------------------------------------------- layout specification *)
  (* what the documentation / CTF say the layout is: align, then the field's bits at `at` *)
  Fixpoint enc (f : ft) (v : val) (st : stream * nat) {struct f} : option (stream * nat) :=
    match f, v with
    | FInt _ size al, VInt z | FReal size al, VInt z =>
        let at1 := align_up (snd st) al in
        if at1 + size <=? lim then Some (write_bits at1 (enc_int bo size z) (fst st), at1 + size) else None
    | FStr, VStr bs =>
        let at1 := align_up (snd st) 8 in
        let n := 8 * (List.length bs + 1) in
        if at1 + n <=? lim then Some (write_bytes at1 (bs ++ [0%Z]) (fst st), at1 + n) else None
    | FUuid, VArr vs =>
        let at1 := align_up (snd st) 8 in
        if (List.length vs =? 16) && (at1 + 128 <=? lim)
        then Some (write_bytes at1 (map byte_of_val vs) (fst st), at1 + 128) else None
    | FSArr n e, VArr vs =>
        if List.length vs =? n
        then iter_opt (enc e) vs (fst st, align_up (snd st) (ft_align e))
        else None
    | FDArr _ e, VArr vs => iter_opt (enc e) vs (fst st, align_up (snd st) (ft_align e))
    | _, _ => None
    end.
  Fixpoint enc_members (ms : list (string * ft)) (vs : list val) (st : stream * nat)
    : option (stream * nat) :=
    match ms, vs with
    | [], [] => Some st
    | (_, f) :: ms, v :: vs => match enc f v st with Some st' => enc_members ms vs st' | None => None end
    | _, _ => None
    end.
  Definition enc_struct (s : sft) (vs : list val) (st : stream * nat) : option (stream * nat) :=
    enc_members (s_mems s) vs (fst st, align_up (snd st) (sft_align s)).
End Ser.

(* ------------------------------------------------------------------ TSDL (tsdl182gen + templates) *)
Inductive ttype :=
| TInt (sg : bool) (size al : nat)       (* integer { signed; size; align; byte_order = native } and enum *)
| TFloat (size al : nat)                 (* floating_point { exp_dig + mant_dig = size; align } *)
| TStr
| TArr (n : nat) (e : ttype)             (* declarator  name[n]    *)
| TSeq (len : string) (e : ttype).       (* declarator  name[len]  *)
Record tstruct := mk_ts { t_minal : nat; t_fields : list (string * ttype) }.

Fixpoint tsdl_of_ft (f : ft) : ttype :=
  match f with
  | FInt sg size al => TInt sg size al
  | FReal size al => TFloat size al
  | FStr => TStr
  | FUuid => TArr 16 (TInt false 8 8)
  | FSArr n e => TArr n (tsdl_of_ft e)
  | FDArr l e => TSeq l (tsdl_of_ft e)
  end.
Definition tsdl_of_sft (s : sft) : tstruct :=
  mk_ts (s_minal s) (map (fun m => (fst m, tsdl_of_ft (snd m))) (s_mems s)).

(* ------------------------------------------------------------------ CTF 1.8 reader *)
Inductive dval := DInt (z : Z) | DStr (bytes : list Z) | DArr (l : list dval).

(* CTF 1.8 4.1.2: arrays and sequences take the alignment of their element; 4.2.1: a structure is
   aligned on the largest alignment of its fields (and at least its align() attribute) *)
Fixpoint talign (t : ttype) : nat :=
  match t with
  | TInt _ _ a | TFloat _ a => a
  | TStr => 8
  | TArr _ e | TSeq _ e => talign e
  end.
Definition tstruct_align (t : tstruct) : nat :=
  fold_left (fun acc m => Nat.max acc (talign (snd m))) (t_fields t) (t_minal t).

Fixpoint env_get (env : list (string * Z)) (k : string) : option Z :=
  match env with [] => None | (n, z) :: r => if String.eqb n k then Some z else env_get r k end.

Definition dec_loop (f : nat -> option (dval * nat)) : nat -> nat -> list dval -> option (dval * nat) :=
  fix loop (k : nat) (a : nat) (acc : list dval) : option (dval * nat) :=
    match k with
    | 0 => Some (DArr (rev acc), a)
    | S k => match f a with Some (d, a') => loop k a' (d :: acc) | None => None end
    end.

Section Dec.
  Variable bo : byte_order.
  Variable s : stream.
  Variable lim : nat.     (* bits available (packet / content size) *)

  (* NUL-terminated bytes from a byte-aligned position *)
  Fixpoint scan_str (fuel pos : nat) (acc : list Z) : option (list Z * nat) :=
    match fuel with
    | 0 => None
    | S fuel =>
        if pos + 8 <=? lim then
          let b := dec_int bo false (read_bits pos 8 s) in
          if (b =? 0)%Z then Some (rev acc, pos + 8) else scan_str fuel (pos + 8) (b :: acc)
        else None
    end.

  Fixpoint dec (t : ttype) (env : list (string * Z)) (at_ : nat) {struct t} : option (dval * nat) :=
    match t with
    | TInt sg size al =>
        let at1 := align_up at_ al in
        if at1 + size <=? lim then Some (DInt (dec_int bo sg (read_bits at1 size s)), at1 + size) else None
    | TFloat size al =>
        let at1 := align_up at_ al in
        if at1 + size <=? lim then Some (DInt (dec_int bo false (read_bits at1 size s)), at1 + size) else None
    | TStr =>
        match scan_str (S lim) (align_up at_ 8) [] with
        | Some (bs, at') => Some (DStr bs, at') | None => None end
    | TArr n e => dec_loop (dec e env) n (align_up at_ (talign e)) []
    | TSeq l e =>
        match env_get env l with
        | Some z => dec_loop (dec e env) (Z.to_nat z) (align_up at_ (talign e)) []
        | None => None
        end
    end.

  Fixpoint dec_fields (fs : list (string * ttype)) (env : list (string * Z)) (at_ : nat)
           (acc : list dval) : option (list dval * nat) :=
    match fs with
    | [] => Some (rev acc, at_)
    | (name, t) :: fs =>
        match dec t env at_ with
        | Some (d, a') =>
            let env' := match d with DInt z => (name, z) :: env | _ => env end in
            dec_fields fs env' a' (d :: acc)
        | None => None
        end
    end.
  Definition dec_struct (t : tstruct) (at_ : nat) : option (list dval * nat) :=
    dec_fields (t_fields t) [] (align_up at_ (tstruct_align t)) [].
End Dec.

(* the property's own reduction of argument values *)
Fixpoint canon (f : ft) (v : val) : dval :=
  match f, v with
  | FInt sg size _, VInt z => DInt (Z_of_bits sg (bits_of_Z size z))
  | FReal size _, VInt z => DInt (Z_of_bits false (bits_of_Z size z))
  | FStr, VStr bs => DStr bs
  | FUuid, VArr vs => DArr (map (fun v => DInt (Z_of_bits false (bits_of_Z 8 (byte_of_val v)))) vs)
  | FSArr _ e, VArr vs | FDArr _ e, VArr vs => DArr (map (canon e) vs)
  | _, _ => DArr []
  end.
Fixpoint canon_members (ms : list (string * ft)) (vs : list val) : list dval :=
  match ms, vs with
  | (_, f) :: ms, v :: vs => canon f v :: canon_members ms vs
  | _, _ => []
  end.
