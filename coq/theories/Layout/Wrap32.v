(* The size pass as the generated C really computes it: `uint32_t at`, every addition and the
   _ALIGN macro reduced modulo 2^32 (S12 in DESIGN.md).  Layout/Model.v's size_op is the same pass
   in unbounded nat arithmetic; Layout/Wrap32Proofs.v relates the two:
     size_op32 o v (N.of_nat a mod 2^32) = (size_op o v a) mod 2^32,
   so they agree exactly as long as the end position of the record is below 2^32, and the 32-bit
   pass under-estimates (wraps) beyond - which the real _reserve_er_space then trusts.

   Hand-written; tied to /repo by the wrap probe of harness/tracer_common.py (probe_sizes32: the REAL
   static _er_size_* functions called with ctx->at close to 2^32 and with dynamic array lengths
   close to 2^32 / element size; compared with size_parts32 evaluated by vm_compute).
   Positions are binary N here (never a unary nat of that magnitude). *)
From Coq Require Import List Arith Bool ZArith NArith String.
Import ListNotations.
From BT.Base Require Import Bits.
From BT.Layout Require Import Model.

Definition W32 : N := 4294967296%N.
Definition w32 (n : N) : N := (n mod W32)%N.

(* #define _ALIGN(_at_var, _align) (_at_var) = ((_at_var) + ((_align) - 1)) & -(_align)
   on a uint32_t: the sum wraps, the mask clears the low bits (alignments are powers of two) *)
Definition align32 (a : N) (al : nat) : N :=
  let t := w32 (a + (N.of_nat al - 1)) in (t - t mod N.of_nat al)%N.

(* at += <constant>;   at += _BYTES_TO_BITS(strlen(s) + 1);  ((x) << 3 on a size_t, then uint32_t +=:
   the sum is reduced modulo 2^32 either way since 2^32 divides 2^64) *)
Definition add32 (a n : N) : N := w32 (a + n).

Fixpoint size_op32 (o : op) (v : val) (at_ : N) {struct o} : option N :=
  match o, v with
  | OBits al _ size _, VInt _ => Some (add32 (align32 at_ al) (N.of_nat size))
  | OStr al, VStr bs => Some (add32 (align32 at_ al) (8 * (N.of_nat (List.length bs) + 1)))
  | OUuid al, VArr _ => None
  | OArr al len body, VArr vs =>
      if match len with Some n => List.length vs =? n | None => true end
      then iter_opt (size_op32 body) vs (align32 at_ al)
      else None
  | OBlock al body, VArr vs => iter2_opt size_op32 body vs (align32 at_ al)
  | _, _ => None
  end.

Fixpoint size_parts32 (ps : list (op * val)) (a : N) : option N :=
  match ps with
  | [] => Some a
  | (o, v) :: ps => match size_op32 o v a with Some a' => size_parts32 ps a' | None => None end
  end.

(* what _er_size_<dst>_<ert>() returns: `at - ctx->at` on uint32_t *)
Definition er_size32 (ps : list (op * val)) (a : N) : option N :=
  match size_parts32 ps a with Some e => Some (w32 (e + W32 - a)) | None => None end.

(* `er_size > (ctx->packet_size - ctx->at)` on uint32_t (Tracer/Model.v gt_diff32 is this test for
   at <= packet_size, with its wrapped meaning beyond) *)
Definition gt_diff32N (er psize at_ : N) : bool := (w32 (psize + W32 - at_) <? er)%N.
