(* Link between the two layers that describe an integer write:
   - C/Bitfield.v (C08): the bit-field macro on the window of bytes, proved equal to `spec_write`;
   - Base/Bits.v + Layout/Model.v (C01): `write_bits start (enc_int bo len z)` on a stream of bits in
     CTF position order.
   Viewing the window as a stream (`stream_of_win`), they are the same write, for every carrier at
   least as wide as the field (barectf always passes the value in a carrier >= the field size). *)
From Coq Require Import List Arith Bool ZArith Lia PeanoNat.
Import ListNotations.
From BT.Base Require Import Bits BitsProofs.
From BT.C Require Import Sym Bitfield BitfieldSound.

Definition cbo (bo : Bits.byte_order) : Bitfield.byte_order :=
  match bo with Bits.LE => Bitfield.LE | Bits.BE => Bitfield.BE end.

(* the bytes of a window as a stream in CTF position order: little endian = least significant bit
   first, big endian = most significant bit first *)
Definition stream_of_win (bo : Bits.byte_order) (win : list (list bool)) : stream :=
  flat_map (fun b => match bo with Bits.LE => b | Bits.BE => rev b end) win.

Lemma length_stream_of_win bo win : Forall (fun b => length b = 8) win ->
  length (stream_of_win bo win) = 8 * length win.
Proof.
  induction 1 as [|b win Hb _ IH]; [reflexivity|]. cbn [stream_of_win flat_map length].
  fold (stream_of_win bo win). rewrite app_length, IH. destruct bo; rewrite ?rev_length, Hb; lia.
Qed.

Lemma get_stream_of_win bo win : Forall (fun b => length b = 8) win ->
  forall p, p < 8 * length win ->
    get (stream_of_win bo win) p =
    nth (match bo with Bits.LE => p mod 8 | Bits.BE => 7 - p mod 8 end) (nth (p / 8) win []) false.
Proof.
  induction 1 as [|b win Hb Hw IH]; intros p Hp; [cbn in Hp; lia|].
  cbn [stream_of_win flat_map]. fold (stream_of_win bo win).
  assert (Hl : length (match bo with Bits.LE => b | Bits.BE => rev b end) = 8)
    by (destruct bo; rewrite ?rev_length; exact Hb).
  destruct (Nat.lt_ge_cases p 8) as [Hlt|Hge].
  - rewrite get_app_l by lia. rewrite (Nat.div_small p 8 Hlt), (Nat.mod_small p 8 Hlt). cbn [nth].
    unfold get. destruct bo; [reflexivity|]. rewrite rev_nth by lia. rewrite Hb. try (f_equal; lia).
  - rewrite get_app_r by lia. rewrite Hl. cbn [length] in Hp. rewrite IH by lia.
    assert (Ed : p / 8 = S ((p - 8) / 8)).
    { replace p with ((p - 8) + 1 * 8) at 1 by lia. rewrite Nat.div_add by lia. lia. }
    assert (Em : p mod 8 = (p - 8) mod 8).
    { replace p with ((p - 8) + 1 * 8) at 1 by lia. rewrite Nat.mod_add by lia. reflexivity. }
    rewrite Ed, Em. cbn [nth]. reflexivity.
Qed.

Lemma nth_bits_of_Z size z i : i < size -> nth i (bits_of_Z size z) false = Z.testbit z (Z.of_nat i).
Proof. intros H. unfold bits_of_Z. rewrite nth_map_seq by exact H. reflexivity. Qed.

Theorem spec_write_is_write_bits bo W sg start len z win :
  1 <= len <= W -> Forall (fun b => length b = 8) win -> length win = (start + len + 7) / 8 ->
  stream_of_win bo (spec_write (cbo bo) W sg start len (bits_of_Z W z) win) =
  write_bits start (enc_int bo len z) (stream_of_win bo win).
Proof.
  intros Hlen Hw Hn.
  set (nb := length win) in *.
  assert (Hfit : start + len <= 8 * nb).
  { rewrite Hn. pose proof (Nat.div_mod (start + len + 7) 8 ltac:(lia)).
    pose proof (Nat.mod_upper_bound (start + len + 7) 8 ltac:(lia)). lia. }
  assert (Hsw : Forall (fun b => length b = 8) (spec_write (cbo bo) W sg start len (bits_of_Z W z) win)).
  { unfold spec_write, spec_sym. rewrite Forall_forall. intros b Hb.
    rewrite in_map_iff in Hb. destruct Hb as (sb & <- & Hsb). rewrite map_length.
    rewrite in_map_iff in Hsb. destruct Hsb as (j & <- & _). rewrite map_length, seq_length. reflexivity. }
  assert (Hnsw : length (spec_write (cbo bo) W sg start len (bits_of_Z W z) win) = nb).
  { unfold spec_write, spec_sym. rewrite !map_length, seq_length. reflexivity. }
  assert (Hls : length (stream_of_win bo win) = 8 * nb) by (apply length_stream_of_win; exact Hw).
  assert (Hle : start + length (enc_int bo len z) <= length (stream_of_win bo win))
    by (rewrite length_enc_int, Hls; exact Hfit).
  apply nth_ext with (d := false) (d' := false).
  - rewrite length_write_bits by exact Hle. rewrite length_stream_of_win by exact Hsw. rewrite Hnsw, Hls. reflexivity.
  - intros p Hp. rewrite length_stream_of_win in Hp by exact Hsw. rewrite Hnsw in Hp.
    change (nth p ?l false) with (get l p).
    rewrite get_stream_of_win by (try exact Hsw; rewrite Hnsw; exact Hp).
    rewrite get_write_bits by exact Hle. rewrite length_enc_int.
    assert (Hj : p / 8 < nb) by (apply Nat.div_lt_upper_bound; lia).
    pose proof (Nat.mod_upper_bound p 8 ltac:(lia)) as Hk.
    pose proof (Nat.div_mod p 8 ltac:(lia)) as Hdm.
    set (j := p / 8) in *. set (r := p mod 8) in *.
    (* the byte j, bit k of the specification *)
    unfold spec_write, spec_sym. fold nb.
    set (k := match bo with Bits.LE => r | Bits.BE => 7 - r end).
    assert (Hk8 : k < 8) by (unfold k; destruct bo; lia).
    rewrite map_map. rewrite (nth_map_seq _ [] nb j 0 Hj). cbn [Nat.add].
    rewrite map_map. rewrite (nth_map_seq _ false 8 k 0 Hk8). cbn [Nat.add]. cbv zeta.
    assert (Hp0 : match cbo bo with Bitfield.LE => 8 * j + k | Bitfield.BE => 8 * j + (7 - k) end = p)
      by (unfold k; destruct bo; cbn [cbo]; lia).
    rewrite Hp0.
    destruct ((start <=? p) && (p <? start + len)) eqn:Hin.
    + apply andb_true_iff in Hin. destruct Hin as [H1 H2]. apply Nat.leb_le in H1. apply Nat.ltb_lt in H2.
      set (i := match cbo bo with Bitfield.LE => p - start | Bitfield.BE => len - 1 - (p - start) end).
      assert (Hi : i < len) by (unfold i; destruct bo; cbn [cbo]; lia).
      destruct (Nat.ltb_spec i W); [|lia]. cbn [eval].
      rewrite nth_bits_of_Z by lia.
      unfold enc_int, i. destruct bo; cbn [cbo].
      * rewrite nth_bits_of_Z by lia. reflexivity.
      * rewrite rev_nth by (rewrite length_bits_of_Z; lia). rewrite length_bits_of_Z.
        rewrite nth_bits_of_Z by lia. f_equal. f_equal. lia.
    + cbn [eval]. rewrite get_stream_of_win by (try exact Hw; fold nb; lia). fold j r k. reflexivity.
Qed.

(* composition with C08: what the bit-field macro program leaves in the window, seen as a stream,
   is the stream-level write used by the layout layer *)
Theorem macro_is_write_bits bo W sg start len z win :
  In W [8; 16; 32; 64] -> start < 8 -> 1 <= len <= 64 -> len <= W ->
  length win = (start + len + 7) / 8 -> Forall (fun b => length b = 8) win ->
  exists win', bf_write (cbo bo) W sg start len (bits_of_Z W z) win = Some win' /\
               stream_of_win bo win' = write_bits start (enc_int bo len z) (stream_of_win bo win).
Proof.
  intros HW Hs Hl HlW Hn Hw. eexists. split.
  - apply bf_write_exact; auto. apply length_bits_of_Z.
  - apply spec_write_is_write_bits; auto. lia.
Qed.

(* a write inside a stream only concerns the bytes overlapping the field: the window
   [8q, 8(q + nb)) with nb = (r + len + 7) / 8, in which the field starts at bit r *)
Theorem write_bits_window q r bs s :
  r < 8 -> 8 * (q + (r + length bs + 7) / 8) <= length s ->
  write_bits (8 * q + r) bs s =
  firstn (8 * q) s ++
  write_bits r bs (firstn (8 * ((r + length bs + 7) / 8)) (skipn (8 * q) s)) ++
  skipn (8 * (q + (r + length bs + 7) / 8)) s.
Proof.
  intros Hr Hs. set (nb := (r + length bs + 7) / 8) in *.
  assert (Hfit : r + length bs <= 8 * nb).
  { unfold nb. pose proof (Nat.div_mod (r + length bs + 7) 8 ltac:(lia)).
    pose proof (Nat.mod_upper_bound (r + length bs + 7) 8 ltac:(lia)). lia. }
  assert (Lw : length (firstn (8 * nb) (skipn (8 * q) s)) = 8 * nb)
    by (rewrite firstn_length, skipn_length; lia).
  assert (L1 : length (firstn (8 * q) s) = 8 * q) by (rewrite firstn_length; lia).
  assert (L2 : length (write_bits r bs (firstn (8 * nb) (skipn (8 * q) s))) = 8 * nb)
    by (rewrite length_write_bits; lia).
  apply nth_ext with (d := false) (d' := false).
  - rewrite length_write_bits by lia. rewrite !app_length, L1, L2, skipn_length. lia.
  - intros p Hp. rewrite length_write_bits in Hp by lia.
    change (nth p ?l false) with (get l p).
    rewrite get_write_bits by lia.
    destruct (Nat.lt_ge_cases p (8 * q)) as [A|A].
    + rewrite get_app_l by lia. rewrite get_firstn by lia.
      destruct (Nat.leb_spec (8 * q + r) p); [lia|]. reflexivity.
    + rewrite get_app_r by lia. rewrite L1.
      destruct (Nat.lt_ge_cases (p - 8 * q) (8 * nb)) as [B|B].
      * rewrite get_app_l by lia. rewrite get_write_bits by lia.
        destruct (Nat.leb_spec (8 * q + r) p); destruct (Nat.leb_spec r (p - 8 * q)); try lia; cbn [andb].
        -- destruct (Nat.ltb_spec p (8 * q + r + length bs)); destruct (Nat.ltb_spec (p - 8 * q) (r + length bs)); try lia.
           ++ f_equal. lia.
           ++ rewrite get_firstn by lia. rewrite get_skipn. f_equal. lia.
        -- rewrite get_firstn by lia. rewrite get_skipn. f_equal. lia.
      * rewrite get_app_r by lia. rewrite L2. rewrite get_skipn.
        destruct (Nat.leb_spec (8 * q + r) p); [|lia].
        destruct (Nat.ltb_spec p (8 * q + r + length bs)); [lia|]. cbn [andb]. f_equal. lia.
Qed.
