(* A structure whose first member has a positive size occupies at least one bit
   (used for "every event record occupies at least one bit", S13 in DESIGN.md). *)
From Coq Require Import List Arith Bool ZArith String Lia PeanoNat.
Import ListNotations.
From BT.Base Require Import Bits BitsProofs.
From BT.Layout Require Import Model BuildProofs RoundTrip RecordProofs.

Definition pos_sft (s : sft) : bool :=
  match s_mems s with
  | (_, FInt _ size _) :: _ | (_, FReal size _) :: _ => 0 <? size
  | (_, FStr) :: _ => true
  | _ => false
  end.
Definition pos_o (o : option sft) : bool := match o with Some s => pos_sft s | None => false end.

Section P.
  Variable bo : byte_order.
  Variable nk : bool.
  Variable lim : nat.

  Lemma ser_struct_pos sf : wf_sft sf = true -> pos_sft sf = true ->
    forall st vs ss ss', List.length (ss_s ss) = lim -> members_ok [] (s_mems sf) vs ->
      ser bo nk lim (snd (build_root [] st sf)) (VArr vs) ss = Some ss' -> ss_at ss < ss_at ss'.
  Proof.
    intros Hwf Hpos st vs ss ss' Hlen Hok Hser.
    rewrite (ser_build_root bo nk lim sf Hwf) in Hser. unfold lift, proj in Hser.
    destruct (enc_struct bo lim sf vs (ss_s ss, ss_at ss)) as [[s' a']|] eqn:E; [|discriminate].
    injection Hser as <-. cbn [ss_at].
    pose proof (wf_sft_wfr sf Hwf) as Hr.
    pose proof (align_up_ge (ss_at ss) (sft_align sf) (sft_align_pos sf Hr)) as Hge.
    unfold wfr_sft in Hr. apply andb_true_iff in Hr. destruct Hr as [_ Hms].
    unfold enc_struct in E. cbn [fst snd] in E. unfold pos_sft in Hpos.
    destruct (s_mems sf) as [|[n f] ms]; [discriminate|].
    destruct vs as [|v vs]; [contradiction|].
    cbn [forallb snd] in Hms. apply andb_true_iff in Hms. destruct Hms as [Hf Hms].
    cbn [members_ok] in Hok. destruct Hok as (Hv & _ & Hrest).
    cbn [enc_members] in E.
    destruct (enc bo lim f v (ss_s ss, align_up (ss_at ss) (sft_align sf))) as [[s1 a1]|] eqn:E1; [|discriminate].
    destruct (rt_top bo lim f Hf v _ _ s1 a1 Hlen Hv E1) as (_ & L1 & _).
    destruct (members_rt bo lim ms Hms vs s1 a1 s' a' _ L1 Hrest E) as (M & _).
    assert (align_up (ss_at ss) (sft_align sf) < a1); [|lia].
    destruct f as [sg size al|size al| | |k e|l e]; try discriminate; destruct v as [z|bs|lv]; try contradiction;
      cbn [enc fst snd] in E1; cbn [wfr_top wfr] in Hf.
    - apply Nat.ltb_lt in Hpos. apply Nat.ltb_lt in Hf.
      pose proof (align_up_ge (align_up (ss_at ss) (sft_align sf)) al Hf).
      destruct (_ <=? lim); [|discriminate]. injection E1 as _ <-. lia.
    - apply Nat.ltb_lt in Hpos. apply Nat.ltb_lt in Hf.
      pose proof (align_up_ge (align_up (ss_at ss) (sft_align sf)) al Hf).
      destruct (_ <=? lim); [|discriminate]. injection E1 as _ <-. lia.
    - pose proof (align_up_ge (align_up (ss_at ss) (sft_align sf)) 8 ltac:(lia)).
      destruct (_ <=? lim); [|discriminate]. injection E1 as _ <-. lia.
  Qed.
End P.
