(* Theorem A for structures with skipped members: what the C code does for the packet context
   operations (KSkip for the late fields) is the layout with holes of FillProofs.enc_skip, and the
   offsets it saves are the holes' positions. *)
From Coq Require Import List Arith Bool ZArith String Lia PeanoNat.
Import ListNotations.
From BT.Base Require Import Bits BitsProofs.
From BT.Layout Require Import Model BuildProofs RoundTrip RecordProofs SizeProofs FillProofs.

Section FB.
  Variable bo : byte_order.
  Variable nk : bool.
  Variable lim : nat.
  Variable skips : list string.

  Definition skip_rel (ss : sstate) (hs : list hole) (r1 : option sstate) (r2 : option (stream * nat * list hole)) : Prop :=
    match r1, r2 with
    | Some ss1, Some (s1, a1, hs1) =>
        ss_s ss1 = s1 /\ ss_at ss1 = a1 /\
        exists nh, hs1 = hs ++ nh /\ ss_saved ss1 = ss_saved ss ++ map h_pos nh
    | None, None => True
    | _, _ => False
    end.

  Lemma skip_of_not n o : existsb (String.eqb n) skips = false -> skip_of skips n o = o.
  Proof. intros H. destruct o; cbn [skip_of]; rewrite ?H; reflexivity. Qed.

  Lemma ser_build_members_skip ms : forallb (fun m => wf_top (snd m)) ms = true ->
    forall st vs ss hs, cons st (ss_at ss) ->
      skip_rel ss hs (iter2_opt (ser bo nk lim) (snd (build_members skips st ms)) vs ss)
                     (enc_skip bo lim skips ms vs (proj ss) hs).
  Proof.
    induction ms as [|[n f] ms IH]; intros Hwf st vs ss hs Hc.
    - cbn [build_members snd iter2_opt enc_skip]. destruct vs; cbn [skip_rel]; [|exact I].
      unfold proj. cbn [fst snd]. repeat split. exists []. rewrite !app_nil_r. auto.
    - cbn [forallb snd] in Hwf. apply andb_true_iff in Hwf. destruct Hwf as [Hf Hms].
      cbn [build_members snd fst iter2_opt enc_skip].
      destruct vs as [|v vs]; [cbn [skip_rel]; exact I|].
      unfold skip_ft.
      destruct (existsb (String.eqb n) skips) eqn:Ex.
      + (* name is a late field *)
        destruct f as [sg size al|size al| | |k e|l e].
        * (* integer: skipped *)
          cbn [build snd fst skip_of]. rewrite Ex. cbn [ser proj fst snd].
          destruct v as [z|bs|lv]; cbn [skip_rel]; try exact I.
          cbn [wf_top wf_elem] in Hf. pose proof (al_okb_ok _ Hf) as Ha.
          specialize (IH Hms (bump (try_align 0 st al) size) vs
                         (mk_ss (ss_s ss) (align_up (ss_at ss) al + size) (ss_saved ss ++ [align_up (ss_at ss) al]))
                         (hs ++ [mk_hole (align_up (ss_at ss) al) size n])).
          cbn [ss_at proj ss_s fst snd] in IH.
          specialize (IH (cons_bump _ _ _ (try_align_cons 0 st al (ss_at ss) Ha Hc))).
          unfold skip_rel in *.
          destruct (iter2_opt _ _ vs _) as [ss1|]; destruct (enc_skip _ _ _ _ vs _ _) as [[[s1 a1] hs1]|]; auto.
          destruct IH as (A & B & nh & E & F). repeat split; auto.
          exists (mk_hole (align_up (ss_at ss) al) size n :: nh). split.
          -- rewrite E, <- app_assoc. reflexivity.
          -- rewrite F. cbn [ss_saved map h_pos]. rewrite <- app_assoc. reflexivity.
        * (* real: skipped *)
          cbn [build snd fst skip_of]. rewrite Ex. cbn [ser proj fst snd].
          destruct v as [z|bs|lv]; cbn [skip_rel]; try exact I.
          cbn [wf_top wf_elem] in Hf. pose proof (al_okb_ok _ Hf) as Ha.
          specialize (IH Hms (bump (try_align 0 st al) size) vs
                         (mk_ss (ss_s ss) (align_up (ss_at ss) al + size) (ss_saved ss ++ [align_up (ss_at ss) al]))
                         (hs ++ [mk_hole (align_up (ss_at ss) al) size n])).
          cbn [ss_at proj ss_s fst snd] in IH.
          specialize (IH (cons_bump _ _ _ (try_align_cons 0 st al (ss_at ss) Ha Hc))).
          unfold skip_rel in *.
          destruct (iter2_opt _ _ vs _) as [ss1|]; destruct (enc_skip _ _ _ _ vs _ _) as [[[s1 a1] hs1]|]; auto.
          destruct IH as (A & B & nh & E & F). repeat split; auto.
          exists (mk_hole (align_up (ss_at ss) al) size n :: nh). split.
          -- rewrite E, <- app_assoc. reflexivity.
          -- rewrite F. cbn [ss_saved map h_pos]. rewrite <- app_assoc. reflexivity.
        * (* not a bit array: written normally *)
          assert (Hsk : skip_of skips n (snd (build 0 st FStr)) = snd (build 0 st FStr)) by reflexivity.
          rewrite Hsk. clear Hsk.
          destruct (ser_build_top bo nk lim FStr Hf st v ss Hc) as [Hser Hcons]. rewrite Hser.
          destruct (enc bo lim FStr v (proj ss)) as [[s2 a2]|] eqn:E2; cbn [lift skip_rel]; [|exact I].
          specialize (IH Hms (fst (build 0 st FStr)) vs (mk_ss s2 a2 (ss_saved ss)) hs (Hcons s2 a2 eq_refl)).
          exact IH.
        * assert (Hsk : skip_of skips n (snd (build 0 st FUuid)) = snd (build 0 st FUuid)) by reflexivity.
          rewrite Hsk. clear Hsk.
          destruct (ser_build_top bo nk lim FUuid Hf st v ss Hc) as [Hser Hcons]. rewrite Hser.
          destruct (enc bo lim FUuid v (proj ss)) as [[s2 a2]|] eqn:E2; cbn [lift skip_rel]; [|exact I].
          exact (IH Hms (fst (build 0 st FUuid)) vs (mk_ss s2 a2 (ss_saved ss)) hs (Hcons s2 a2 eq_refl)).
        * assert (Hsk : skip_of skips n (snd (build 0 st (FSArr k e))) = snd (build 0 st (FSArr k e))) by reflexivity.
          rewrite Hsk. clear Hsk.
          destruct (ser_build_top bo nk lim (FSArr k e) Hf st v ss Hc) as [Hser Hcons]. rewrite Hser.
          destruct (enc bo lim (FSArr k e) v (proj ss)) as [[s2 a2]|] eqn:E2; cbn [lift skip_rel]; [|exact I].
          exact (IH Hms (fst (build 0 st (FSArr k e))) vs (mk_ss s2 a2 (ss_saved ss)) hs (Hcons s2 a2 eq_refl)).
        * assert (Hsk : skip_of skips n (snd (build 0 st (FDArr l e))) = snd (build 0 st (FDArr l e))) by reflexivity.
          rewrite Hsk. clear Hsk.
          destruct (ser_build_top bo nk lim (FDArr l e) Hf st v ss Hc) as [Hser Hcons]. rewrite Hser.
          destruct (enc bo lim (FDArr l e) v (proj ss)) as [[s2 a2]|] eqn:E2; cbn [lift skip_rel]; [|exact I].
          exact (IH Hms (fst (build 0 st (FDArr l e))) vs (mk_ss s2 a2 (ss_saved ss)) hs (Hcons s2 a2 eq_refl)).
      + rewrite (skip_of_not n _ Ex).
        destruct (ser_build_top bo nk lim f Hf st v ss Hc) as [Hser Hcons]. rewrite Hser.
        destruct (enc bo lim f v (proj ss)) as [[s2 a2]|] eqn:E2; cbn [lift skip_rel]; [|exact I].
        exact (IH Hms (fst (build 0 st f)) vs (mk_ss s2 a2 (ss_saved ss)) hs (Hcons s2 a2 eq_refl)).
  Qed.

  (* root structure with late fields *)
  Theorem ser_build_root_skip s : wf_sft s = true ->
    forall st vs ss,
      skip_rel ss [] (ser bo nk lim (snd (build_root skips st s)) (VArr vs) ss)
                     (enc_skip bo lim skips (s_mems s) vs (ss_s ss, align_up (ss_at ss) (sft_align s)) []).
  Proof.
    intros Hwf st vs ss. unfold build_root. cbn [snd fst ser].
    pose proof (sft_align_ok s Hwf) as Ha.
    unfold wf_sft in Hwf. apply andb_true_iff in Hwf. destruct Hwf as [_ Hms].
    pose proof (ser_build_members_skip (s_mems s) Hms (try_align 0 None (sft_align s)) vs
                  (mk_ss (ss_s ss) (align_up (ss_at ss) (sft_align s)) (ss_saved ss)) []) as H.
    cbn [ss_at proj ss_s ss_saved] in H. specialize (H (try_align_cons 0 None _ _ Ha I)).
    exact H.
  Qed.
End FB.
