(* Theorem B of the layout layer: the CTF reader `dec`, given only the TSDL type generated for a
   field type, reads back from the stream written by `enc` exactly the canonical form of the value,
   from every start position, whatever is written later beyond the field. *)
From Coq Require Import List Arith Bool ZArith String Lia PeanoNat.
Import ListNotations.
From BT.Base Require Import Bits BitsProofs.
From BT.Layout Require Import Model.

Lemma talign_tsdl f : talign (tsdl_of_ft f) = ft_align f.
Proof. induction f; cbn [tsdl_of_ft talign ft_align]; auto. Qed.

Lemma tstruct_align_tsdl s : tstruct_align (tsdl_of_sft s) = sft_align s.
Proof.
  unfold tstruct_align, sft_align, tsdl_of_sft. cbn [t_fields t_minal].
  generalize (s_minal s). induction (s_mems s) as [|m ms IH]; intros a; cbn [map fold_left]; [reflexivity|].
  cbn [snd]. rewrite talign_tsdl. apply IH.
Qed.

(* well-typed argument values *)
Fixpoint val_ok (f : ft) (v : val) : Prop :=
  match f, v with
  | FInt _ _ _, VInt _ | FReal _ _, VInt _ => True
  | FStr, VStr bs => Forall (fun b => 0 < b < 256)%Z bs
  | FUuid, VArr vs => True
  | FSArr _ e, VArr vs | FDArr _ e, VArr vs => Forall (val_ok e) vs
  | _, _ => False
  end.
(* the length seen by the reader for a dynamic array is the number of elements written *)
Definition dyn_ok (env : list (string * Z)) (f : ft) (v : val) : Prop :=
  match f, v with
  | FDArr l _, VArr vs => exists z, env_get env l = Some z /\ Z.to_nat z = List.length vs
  | _, _ => True
  end.

Section RT.
  Variable bo : byte_order.
  Variable lim : nat.

  (* ---------------- bytes ---------------- *)
  Lemma write_bytes_length bs : forall pos s, pos + 8 * List.length bs <= List.length s ->
    List.length (write_bytes bo pos bs s) = List.length s.
  Proof.
    induction bs as [|b r IH]; intros pos s H; cbn [write_bytes]; [reflexivity|].
    cbn [List.length] in H.
    assert (Hw : List.length (write_bits pos (enc_int bo 8 b) s) = List.length s)
      by (apply length_write_bits; rewrite length_enc_int; lia).
    rewrite IH by (rewrite Hw; lia). exact Hw.
  Qed.
  Lemma write_bytes_out bs : forall pos s p, pos + 8 * List.length bs <= List.length s ->
    p < pos \/ pos + 8 * List.length bs <= p -> get (write_bytes bo pos bs s) p = get s p.
  Proof.
    induction bs as [|b r IH]; intros pos s p H Hp; cbn [write_bytes]; [reflexivity|].
    cbn [List.length] in H, Hp.
    assert (Hw : List.length (write_bits pos (enc_int bo 8 b) s) = List.length s)
      by (apply length_write_bits; rewrite length_enc_int; lia).
    rewrite IH by (rewrite ?Hw; lia).
    apply get_write_bits_out; rewrite length_enc_int; lia.
  Qed.
  Lemma write_bytes_read bs : forall pos s i, pos + 8 * List.length bs <= List.length s ->
    i < List.length bs ->
    read_bits (pos + 8 * i) 8 (write_bytes bo pos bs s) = enc_int bo 8 (nth i bs 0%Z).
  Proof.
    induction bs as [|b r IH]; intros pos s i H Hi; cbn [List.length] in *; [lia|].
    cbn [write_bytes].
    assert (Hw : List.length (write_bits pos (enc_int bo 8 b) s) = List.length s)
      by (apply length_write_bits; rewrite length_enc_int; lia).
    destruct i as [|i].
    - rewrite Nat.mul_0_r, Nat.add_0_r. cbn [nth].
      transitivity (read_bits pos 8 (write_bits pos (enc_int bo 8 b) s)).
      + apply read_bits_agree. intros p Hp. apply write_bytes_out; [rewrite Hw; lia|lia].
      + pose proof (read_write_same pos (enc_int bo 8 b) s) as R.
        rewrite length_enc_int in R. apply R. lia.
    - cbn [nth]. replace (pos + 8 * S i) with (pos + 8 + 8 * i) by lia.
      apply IH; [rewrite Hw; lia|lia].
  Qed.

  Lemma byte_roundtrip b : (0 <= b < 256)%Z -> dec_int bo false (enc_int bo 8 b) = b.
  Proof.
    intros Hb. rewrite dec_enc_int. unfold Z_of_bits. cbn [andb].
    rewrite Z_of_bits_u_bits_of_Z. change (2 ^ Z.of_nat 8)%Z with 256%Z. apply Z.mod_small. exact Hb.
  Qed.

  (* reading a NUL-terminated string back *)
  Lemma scan_str_spec s'' lim' : forall bs pos acc fuel,
    List.length bs < fuel ->
    Forall (fun b => 0 < b < 256)%Z bs ->
    (forall i, i <= List.length bs -> read_bits (pos + 8 * i) 8 s'' = enc_int bo 8 (nth i (bs ++ [0%Z]) 0%Z)) ->
    pos + 8 * (List.length bs + 1) <= lim' ->
    scan_str bo s'' lim' fuel pos acc = Some (rev acc ++ bs, pos + 8 * (List.length bs + 1)).
  Proof.
    induction bs as [|b r IH]; intros pos acc fuel Hf Hok Hrd Hlim; cbn [List.length] in *.
    - destruct fuel as [|fuel]; [lia|]. cbn [scan_str].
      destruct (Nat.leb_spec (pos + 8) lim'); [|lia].
      specialize (Hrd 0 ltac:(lia)). rewrite Nat.mul_0_r, Nat.add_0_r in Hrd. rewrite Hrd.
      cbn [app nth]. rewrite byte_roundtrip by lia. cbn [Z.eqb].
      rewrite app_nil_r. replace (pos + 8 * (0 + 1)) with (pos + 8) by lia. reflexivity.
    - destruct fuel as [|fuel]; [lia|]. cbn [scan_str].
      destruct (Nat.leb_spec (pos + 8) lim'); [|lia].
      pose proof (Hrd 0 ltac:(lia)) as H0. rewrite Nat.mul_0_r, Nat.add_0_r in H0. rewrite H0.
      cbn [app nth]. inversion Hok as [|? ? Hb Hr]; subst.
      rewrite byte_roundtrip by lia.
      destruct (Z.eqb_spec b 0); [lia|].
      rewrite IH.
      + cbn [rev]. rewrite <- app_assoc. cbn [app].
        replace (pos + 8 + 8 * (List.length r + 1)) with (pos + 8 * (S (List.length r) + 1)) by lia. reflexivity.
      + lia.
      + exact Hr.
      + intros i Hi. specialize (Hrd (S i) ltac:(lia)). cbn [app nth] in Hrd.
        replace (pos + 8 + 8 * i) with (pos + 8 * S i) by lia. exact Hrd.
      + lia.
  Qed.

  (* reading 16 bytes back as an array of 8-bit byte-aligned integers *)
  Lemma dec_bytes_loop s'' lim' env : forall vs pos acc,
    pos mod 8 = 0 ->
    (forall i, i < List.length vs -> read_bits (pos + 8 * i) 8 s'' = enc_int bo 8 (byte_of_val (nth i vs (VInt 0)))) ->
    pos + 8 * List.length vs <= lim' ->
    dec_loop (dec bo s'' lim' (TInt false 8 8) env) (List.length vs) pos acc =
    Some (DArr (rev acc ++ map (fun v => DInt (Z_of_bits false (bits_of_Z 8 (byte_of_val v)))) vs),
          pos + 8 * List.length vs).
  Proof.
    induction vs as [|v vs IH]; intros pos acc Hal Hrd Hlim; cbn [List.length dec_loop map] in *.
    - rewrite app_nil_r, Nat.mul_0_r, Nat.add_0_r. reflexivity.
    - cbn [dec]. rewrite align_up_aligned by (try lia; exact Hal).
      destruct (Nat.leb_spec (pos + 8) lim'); [|lia].
      pose proof (Hrd 0 ltac:(lia)) as H0. rewrite Nat.mul_0_r, Nat.add_0_r in H0. cbn [nth] in H0.
      rewrite H0, dec_enc_int.
      rewrite IH.
      + cbn [rev]. rewrite <- app_assoc. cbn [app].
        replace (pos + 8 + 8 * List.length vs) with (pos + 8 * S (List.length vs)) by lia. reflexivity.
      + rewrite <- Nat.add_mod_idemp_l by lia. rewrite Hal. reflexivity.
      + intros i Hi. specialize (Hrd (S i) ltac:(lia)). cbn [nth] in Hrd.
        replace (pos + 8 + 8 * i) with (pos + 8 * S i) by lia. exact Hrd.
      + lia.
  Qed.

  (* ---------------- the per-field-type statement ---------------- *)
  Definition rt_ok (f : ft) : Prop :=
    forall v s at_ s' at', List.length s = lim -> val_ok f v ->
      enc bo lim f v (s, at_) = Some (s', at') ->
      at_ <= at' /\ List.length s' = lim /\ agree 0 at_ s' s /\
      forall s'' env lim', agree at_ at' s'' s' -> at' <= lim' -> dyn_ok env f v ->
        dec bo s'' lim' (tsdl_of_ft f) env at_ = Some (canon f v, at').

  Lemma iter_rt e : rt_ok e -> (forall env v, dyn_ok env e v) ->
    forall vs s at_ s' at', List.length s = lim -> Forall (val_ok e) vs ->
      iter_opt (enc bo lim e) vs (s, at_) = Some (s', at') ->
      at_ <= at' /\ List.length s' = lim /\ agree 0 at_ s' s /\
      forall s'' env lim' acc, agree at_ at' s'' s' -> at' <= lim' ->
        dec_loop (dec bo s'' lim' (tsdl_of_ft e) env) (List.length vs) at_ acc =
        Some (DArr (rev acc ++ map (canon e) vs), at').
  Proof.
    intros He Hdyn. induction vs as [|v vs IH]; intros s at_ s' at' Hlen Hok Henc.
    - cbn [iter_opt] in Henc. injection Henc as <- <-.
      repeat split; try lia; try apply agree_refl.
      intros s'' env lim' acc _ _. cbn [List.length dec_loop map]. rewrite app_nil_r. reflexivity.
    - cbn [iter_opt] in Henc. inversion Hok as [|? ? Hv Hvs]; subst.
      destruct (enc bo lim e v (s, at_)) as [[s1 a1]|] eqn:E1; [|discriminate].
      destruct (He v s at_ s1 a1 Hlen Hv E1) as (H1 & H3 & H4 & H5).
      destruct (IH s1 a1 s' at' H3 Hvs Henc) as (I1 & I3 & I4 & I5).
      repeat split; try lia.
      + intros p Hp. rewrite I4 by lia. apply H4. exact Hp.
      + intros s'' env lim' acc Hag Hl. cbn [List.length dec_loop].
        rewrite (H5 s'' env lim').
        * rewrite I5; [|eapply agree_sub; [exact Hag|lia|lia]|exact Hl].
          cbn [rev map]. rewrite <- app_assoc. reflexivity.
        * intros p Hp. rewrite Hag by lia. apply I4. lia.
        * lia.
        * apply Hdyn.
  Qed.

  Lemma dec_TArr s0 l0 n e env a :
    dec bo s0 l0 (TArr n e) env a = dec_loop (dec bo s0 l0 e env) n (align_up a (talign e)) [].
  Proof. reflexivity. Qed.
  Lemma dec_TSeq s0 l0 l e env a :
    dec bo s0 l0 (TSeq l e) env a =
    match env_get env l with
    | Some z => dec_loop (dec bo s0 l0 e env) (Z.to_nat z) (align_up a (talign e)) []
    | None => None end.
  Proof. reflexivity. Qed.

  (* field types allowed as array elements, with positive alignments *)
  Fixpoint wfr (f : ft) : bool :=
    match f with
    | FInt _ _ al | FReal _ al => 0 <? al
    | FStr | FUuid => true
    | FSArr _ e => wfr e
    | FDArr _ _ => false
    end.

  Lemma wfr_dyn e : wfr e = true -> forall env v, dyn_ok env e v.
  Proof. destruct e; cbn [wfr]; intros H env v; try exact I. discriminate. Qed.

  Lemma rt_bits sg size al z s at_ s' at' (f : ft) :
    0 < al -> List.length s = lim ->
    (let at1 := align_up at_ al in
     if at1 + size <=? lim then Some (write_bits at1 (enc_int bo size z) s, at1 + size) else None) = Some (s', at') ->
    at_ <= at' /\ List.length s' = lim /\ agree 0 at_ s' s /\
    forall s'' lim', agree at_ at' s'' s' -> at' <= lim' ->
      (let at1 := align_up at_ al in
       if at1 + size <=? lim' then Some (DInt (dec_int bo sg (read_bits at1 size s'')), at1 + size) else None)
      = Some (DInt (Z_of_bits sg (bits_of_Z size z)), at').
  Proof.
    intros Hal Hlen. cbv zeta. pose proof (align_up_ge at_ al Hal) as Hge.
    destruct (Nat.leb_spec (align_up at_ al + size) lim) as [Hfit|]; [|discriminate].
    intros E. injection E as <- <-.
    assert (Hw : align_up at_ al + List.length (enc_int bo size z) <= List.length s)
      by (rewrite length_enc_int; lia).
    repeat split.
    - lia.
    - rewrite length_write_bits by exact Hw. exact Hlen.
    - intros p Hp. apply get_write_bits_out; [exact Hw|lia].
    - intros s'' lim' Hag Hl.
      destruct (Nat.leb_spec (align_up at_ al + size) lim'); [|lia].
      rewrite (read_bits_agree _ _ s'' (write_bits (align_up at_ al) (enc_int bo size z) s))
        by (eapply agree_sub; [exact Hag|lia|lia]).
      pose proof (read_write_same (align_up at_ al) (enc_int bo size z) s Hw) as R.
      rewrite length_enc_int in R. rewrite R, dec_enc_int. reflexivity.
  Qed.

  Lemma rt_elem f : wfr f = true -> rt_ok f.
  Proof.
    induction f as [sg size al|size al| | |n e IH|l e IH]; intros Hwf; cbn [wfr] in Hwf; try discriminate;
      intros v s at_ s' at' Hlen Hok Henc.
    - destruct v as [z|bs|vs]; cbn [val_ok] in Hok; try contradiction. cbn [enc fst snd] in Henc.
      apply Nat.ltb_lt in Hwf.
      destruct (rt_bits sg size al z s at_ s' at' (FInt sg size al) Hwf Hlen Henc) as (A & B & C & D).
      repeat split; auto. intros s'' env lim' Hag Hl _. cbn [tsdl_of_ft dec canon]. apply D; assumption.
    - destruct v as [z|bs|vs]; cbn [val_ok] in Hok; try contradiction. cbn [enc fst snd] in Henc.
      apply Nat.ltb_lt in Hwf.
      destruct (rt_bits false size al z s at_ s' at' (FReal size al) Hwf Hlen Henc) as (A & B & C & D).
      repeat split; auto. intros s'' env lim' Hag Hl _. cbn [tsdl_of_ft dec canon]. apply D; assumption.
    - (* string *)
      destruct v as [z|bs|vs]; cbn [val_ok] in Hok; try contradiction. cbn [enc fst snd] in Henc.
      pose proof (align_up_ge at_ 8 ltac:(lia)) as Hge.
      destruct (Nat.leb_spec (align_up at_ 8 + 8 * (List.length bs + 1)) lim) as [Hfit|]; [|discriminate].
      injection Henc as <- <-.
      assert (Hl1 : List.length (bs ++ [0%Z]) = List.length bs + 1) by (rewrite app_length; reflexivity).
      assert (Hw : align_up at_ 8 + 8 * List.length (bs ++ [0%Z]) <= List.length s) by (rewrite Hl1; lia).
      repeat split.
      + lia.
      + rewrite write_bytes_length by exact Hw. exact Hlen.
      + intros p Hp. apply write_bytes_out; [exact Hw|lia].
      + intros s'' env lim' Hag Hl _. cbn [tsdl_of_ft dec canon].
        rewrite (scan_str_spec s'' lim' bs (align_up at_ 8) [] (S lim')).
        * reflexivity.
        * lia.
        * exact Hok.
        * intros i Hi.
          rewrite (read_bits_agree _ _ s'' (write_bytes bo (align_up at_ 8) (bs ++ [0%Z]) s))
            by (eapply agree_sub; [exact Hag|lia|lia]).
          apply write_bytes_read; [exact Hw|rewrite Hl1; lia].
        * lia.
    - (* uuid *)
      destruct v as [z|bs|vs]; cbn [val_ok] in Hok; try contradiction. cbn [enc fst snd] in Henc.
      pose proof (align_up_ge at_ 8 ltac:(lia)) as Hge.
      destruct (Nat.eqb_spec (List.length vs) 16) as [H16|]; [|discriminate].
      destruct (Nat.leb_spec (align_up at_ 8 + 128) lim) as [Hfit|]; [|discriminate].
      cbn [andb] in Henc. injection Henc as <- <-.
      assert (Hw : align_up at_ 8 + 8 * List.length (map byte_of_val vs) <= List.length s)
        by (rewrite map_length, H16; lia).
      repeat split.
      + lia.
      + rewrite write_bytes_length by exact Hw. exact Hlen.
      + intros p Hp. apply write_bytes_out; [exact Hw|lia].
      + intros s'' env lim' Hag Hl _. cbn [tsdl_of_ft canon]. rewrite dec_TArr. cbn [talign].
        rewrite <- H16.
        rewrite (dec_bytes_loop s'' lim' env vs (align_up at_ 8) []).
        * rewrite H16. reflexivity.
        * apply align_up_mod. lia.
        * intros i Hi.
          rewrite (read_bits_agree _ _ s'' (write_bytes bo (align_up at_ 8) (map byte_of_val vs) s))
            by (eapply agree_sub; [exact Hag|lia|lia]).
          rewrite write_bytes_read by (try exact Hw; rewrite map_length; exact Hi).
          f_equal. change 0%Z with (byte_of_val (VInt 0)). apply map_nth.
        * lia.
    - (* static array *)
      destruct v as [z|bs|vs]; cbn [val_ok] in Hok; try contradiction. cbn [enc fst snd] in Henc.
      destruct (Nat.eqb_spec (List.length vs) n) as [Hn|]; [|discriminate].
      assert (Hap : 0 < ft_align e).
      { clear -Hwf. induction e; cbn [wfr ft_align] in *; try (apply Nat.ltb_lt; exact Hwf); try lia; auto; try discriminate. }
      pose proof (align_up_ge at_ (ft_align e) Hap) as Hge.
      destruct (iter_rt e (IH Hwf) (wfr_dyn e Hwf) vs s (align_up at_ (ft_align e)) s' at' Hlen Hok Henc)
        as (A & B & C & D).
      repeat split.
      + lia.
      + exact B.
      + eapply agree_sub; [exact C|lia|lia].
      + intros s'' env lim' Hag Hl _. cbn [tsdl_of_ft canon]. rewrite dec_TArr, talign_tsdl, <- Hn.
        apply D; [eapply agree_sub; [exact Hag|lia|lia]|exact Hl].
  Qed.

  (* a dynamic array as a structure member *)
  Lemma rt_top f : (match f with FDArr _ e => wfr e | _ => wfr f end) = true -> rt_ok f.
  Proof.
    destruct f as [sg size al|size al| | |n e|l e]; intros Hwf; try (apply rt_elem; exact Hwf).
    intros v s at_ s' at' Hlen Hok Henc.
    destruct v as [z|bs|vs]; cbn [val_ok] in Hok; try contradiction. cbn [enc fst snd] in Henc.
    assert (Hap : 0 < ft_align e).
    { clear -Hwf. induction e; cbn [wfr ft_align] in *; try (apply Nat.ltb_lt; exact Hwf); try lia; auto; try discriminate. }
    pose proof (align_up_ge at_ (ft_align e) Hap) as Hge.
    destruct (iter_rt e (rt_elem e Hwf) (wfr_dyn e Hwf) vs s (align_up at_ (ft_align e)) s' at' Hlen Hok Henc)
      as (A & B & C & D).
    repeat split.
    - lia.
    - exact B.
    - eapply agree_sub; [exact C|lia|lia].
    - intros s'' env lim' Hag Hl Hdyn. cbn [tsdl_of_ft canon]. rewrite dec_TSeq.
      cbn [dyn_ok] in Hdyn. destruct Hdyn as (z & Hz & Hzn). rewrite Hz, Hzn, talign_tsdl.
      apply D; [eapply agree_sub; [exact Hag|lia|lia]|exact Hl].
  Qed.

  (* ---------------- structures ---------------- *)
  Definition env_ext (env : list (string * Z)) (name : string) (d : dval) : list (string * Z) :=
    match d with DInt z => (name, z) :: env | _ => env end.

  Definition wfr_top (f : ft) : bool := match f with FDArr _ e => wfr e | _ => wfr f end.

  (* argument values of a structure: well typed, and every dynamic array's length member (as the
     reader will have decoded it) is the number of elements passed *)
  Fixpoint members_ok (env : list (string * Z)) (ms : list (string * ft)) (vs : list val) : Prop :=
    match ms, vs with
    | [], [] => True
    | (n, f) :: ms, v :: vs =>
        val_ok f v /\ dyn_ok env f v /\ members_ok (env_ext env n (canon f v)) ms vs
    | _, _ => False
    end.

  Lemma members_rt ms : forallb (fun m => wfr_top (snd m)) ms = true ->
    forall vs s at_ s' at' env, List.length s = lim -> members_ok env ms vs ->
      enc_members bo lim ms vs (s, at_) = Some (s', at') ->
      at_ <= at' /\ List.length s' = lim /\ agree 0 at_ s' s /\
      forall s'' lim' acc, agree at_ at' s'' s' -> at' <= lim' ->
        dec_fields bo s'' lim' (map (fun m => (fst m, tsdl_of_ft (snd m))) ms) env at_ acc =
        Some (rev acc ++ canon_members ms vs, at').
  Proof.
    induction ms as [|[n f] ms IH]; intros Hwf vs s at_ s' at' env Hlen Hok Henc.
    - destruct vs; cbn [members_ok] in Hok; [|contradiction]. cbn [enc_members] in Henc.
      injection Henc as <- <-. repeat split; try lia; try apply agree_refl.
      intros s'' lim' acc _ _. cbn [map dec_fields canon_members]. rewrite app_nil_r. reflexivity.
    - destruct vs as [|v vs]; cbn [members_ok] in Hok; [contradiction|].
      destruct Hok as (Hv & Hdyn & Hrest).
      cbn [forallb snd] in Hwf. apply andb_true_iff in Hwf. destruct Hwf as [Hf Hms].
      cbn [enc_members] in Henc.
      destruct (enc bo lim f v (s, at_)) as [[s1 a1]|] eqn:E1; [|discriminate].
      destruct (rt_top f Hf v s at_ s1 a1 Hlen Hv E1) as (H1 & H3 & H4 & H5).
      destruct (IH Hms vs s1 a1 s' at' _ H3 Hrest Henc) as (I1 & I3 & I4 & I5).
      repeat split; try lia.
      + intros p Hp. rewrite I4 by lia. apply H4. exact Hp.
      + intros s'' lim' acc Hag Hl. cbn [map dec_fields fst snd].
        rewrite (H5 s'' env lim').
        * unfold env_ext in I5.
          rewrite I5; [|eapply agree_sub; [exact Hag|lia|lia]|exact Hl].
          cbn [rev canon_members]. rewrite <- app_assoc. reflexivity.
        * intros p Hp. rewrite Hag by lia. apply I4. lia.
        * lia.
        * exact Hdyn.
  Qed.

  Definition wfr_sft (s : sft) : bool :=
    (0 <? s_minal s) && forallb (fun m => wfr_top (snd m)) (s_mems s).

  Lemma sft_align_pos s : wfr_sft s = true -> 0 < sft_align s.
  Proof.
    unfold wfr_sft, sft_align. intros H. apply andb_true_iff in H. destruct H as [H _].
    apply Nat.ltb_lt in H. revert H. generalize (s_minal s).
    induction (s_mems s) as [|m ms IH]; intros a Ha; cbn [fold_left]; [exact Ha|]. apply IH. lia.
  Qed.

  (* Theorem B for a root structure *)
  Theorem struct_rt sf : wfr_sft sf = true ->
    forall vs s at_ s' at', List.length s = lim -> members_ok [] (s_mems sf) vs ->
      enc_struct bo lim sf vs (s, at_) = Some (s', at') ->
      at_ <= at' /\ List.length s' = lim /\ agree 0 at_ s' s /\
      forall s'' lim', agree at_ at' s'' s' -> at' <= lim' ->
        dec_struct bo s'' lim' (tsdl_of_sft sf) at_ = Some (canon_members (s_mems sf) vs, at').
  Proof.
    intros Hwf vs s at_ s' at' Hlen Hok Henc. unfold enc_struct in Henc. cbn [fst snd] in Henc.
    pose proof (align_up_ge at_ (sft_align sf) (sft_align_pos sf Hwf)) as Hge.
    unfold wfr_sft in Hwf. apply andb_true_iff in Hwf. destruct Hwf as [_ Hms].
    destruct (members_rt (s_mems sf) Hms vs s (align_up at_ (sft_align sf)) s' at' [] Hlen Hok Henc)
      as (A & B & C & D).
    repeat split.
    - lia.
    - exact B.
    - eapply agree_sub; [exact C|lia|lia].
    - intros s'' lim' Hag Hl. unfold dec_struct. rewrite tstruct_align_tsdl.
      unfold tsdl_of_sft at 1. cbn [t_fields].
      rewrite (D s'' lim' []); [reflexivity|eapply agree_sub; [exact Hag|lia|lia]|exact Hl].
  Qed.
End RT.
