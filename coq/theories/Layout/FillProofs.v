(* Structures with late fields (packet context): some integer members are skipped when the
   structure is first written (their aligned offset is saved) and filled later.  The reader
   decodes, from ANY final stream that (1) equals the opening-time stream outside the holes and
   (2) holds enc_int of the final value in each hole, the canonical values with the skipped members
   replaced by their final values. *)
From Coq Require Import List Arith Bool ZArith String Lia PeanoNat.
Import ListNotations.
From BT.Base Require Import Bits BitsProofs.
From BT.Layout Require Import Model BuildProofs RoundTrip RecordProofs SizeProofs.

Record hole := mk_hole { h_pos : nat; h_size : nat; h_name : string }.
Definition in_hole (h : hole) (p : nat) : Prop := h_pos h <= p < h_pos h + h_size h.

Definition skip_ft (skips : list string) (n : string) (f : ft) : option (nat * nat) :=
  if existsb (String.eqb n) skips then
    match f with FInt _ size al | FReal size al => Some (size, al) | _ => None end
  else None.

Section F.
  Variable bo : byte_order.
  Variable lim : nat.
  Variable skips : list string.
  Variable fv : string -> Z.         (* final value of each late field *)

  (* layout of a structure's members with holes *)
  Fixpoint enc_skip (ms : list (string * ft)) (vs : list val) (st : stream * nat) (hs : list hole)
    : option (stream * nat * list hole) :=
    match ms, vs with
    | [], [] => Some (fst st, snd st, hs)
    | (n, f) :: ms, v :: vs =>
        match skip_ft skips n f with
        | Some (size, al) =>
            match v with
            | VInt _ => let at1 := align_up (snd st) al in
                        enc_skip ms vs (fst st, at1 + size) (hs ++ [mk_hole at1 size n])
            | _ => None end
        | None => match enc bo lim f v st with
                  | Some st' => enc_skip ms vs st' hs
                  | None => None end
        end
    | _, _ => None
    end.

  (* values as the reader must find them *)
  Fixpoint subst (ms : list (string * ft)) (vs : list val) : list val :=
    match ms, vs with
    | (n, f) :: ms, v :: vs =>
        (match skip_ft skips n f with Some _ => VInt (fv n) | None => v end) :: subst ms vs
    | _, _ => []
    end.

  Fixpoint members_ok_skip (env : list (string * Z)) (ms : list (string * ft)) (vs : list val) : Prop :=
    match ms, vs with
    | [], [] => True
    | (n, f) :: ms, v :: vs =>
        let v' := match skip_ft skips n f with Some _ => VInt (fv n) | None => v end in
        val_ok f v' /\ dyn_ok env f v' /\ members_ok_skip (env_ext env n (canon f v')) ms vs
    | _, _ => False
    end.

  Lemma skip_ft_pos n f size al : wfr_top f = true -> skip_ft skips n f = Some (size, al) -> 0 < al.
  Proof.
    unfold skip_ft. destruct (existsb _ skips); [|discriminate].
    destruct f; try discriminate; intros Hf E; injection E as <- <-; cbn [wfr_top wfr] in Hf;
      apply Nat.ltb_lt; exact Hf.
  Qed.

  Lemma skip_ft_shape n f size al : skip_ft skips n f = Some (size, al) ->
    (exists sg, f = FInt sg size al) \/ f = FReal size al.
  Proof.
    unfold skip_ft. destruct (existsb _ skips); [|discriminate].
    destruct f as [sg s0 a0|s0 a0| | | |]; try discriminate; intros E; injection E as -> ->; eauto.
  Qed.

  (* frame facts of the layout with holes: position grows, length kept, earlier positions kept,
     every new hole lies inside the structure *)
  Lemma enc_skip_props ms : forallb (fun m => wfr_top (snd m)) ms = true ->
    forall vs env s a hs s1 a1 hs1, List.length s = lim -> members_ok_skip env ms vs ->
      enc_skip ms vs (s, a) hs = Some (s1, a1, hs1) ->
      a <= a1 /\ List.length s1 = lim /\ agree 0 a s1 s /\
      exists nh, hs1 = hs ++ nh /\ Forall (fun h => a <= h_pos h /\ h_pos h + h_size h <= a1) nh.
  Proof.
    induction ms as [|[n f] ms IH]; intros Hwf vs env s a hs s1 a1 hs1 Hl Hok H.
    - destruct vs; [|discriminate]. cbn [enc_skip fst snd] in H. injection H as <- <- <-.
      repeat split; try lia; try apply agree_refl. exists []. rewrite app_nil_r. auto.
    - destruct vs as [|v vs]; [discriminate|]. cbn [enc_skip fst snd] in H.
      cbn [forallb snd] in Hwf. apply andb_true_iff in Hwf. destruct Hwf as [Hf Hms].
      cbn [members_ok_skip] in Hok. destruct Hok as (Hv & _ & Hrest).
      destruct (skip_ft skips n f) as [[size al]|] eqn:Esk.
      + destruct v as [z|bs|l]; try discriminate.
        pose proof (align_up_ge a al (skip_ft_pos n f size al Hf Esk)) as Hge.
        destruct (IH Hms vs _ s (align_up a al + size) _ s1 a1 hs1 Hl Hrest H) as (A & B & C & nh & E & F).
        repeat split; try lia; auto.
        * eapply agree_sub; [exact C|lia|lia].
        * exists (mk_hole (align_up a al) size n :: nh). split.
          -- rewrite E, <- app_assoc. reflexivity.
          -- constructor; [cbn [h_pos h_size]; lia|].
             eapply Forall_impl; [|exact F]. cbn beta. intros h [X Y]. lia.
      + destruct (enc bo lim f v (s, a)) as [[s2 a2]|] eqn:E2; [|discriminate].
        destruct (rt_top bo lim f Hf v s a s2 a2 Hl Hv E2) as (A2 & L2 & G2 & _).
        destruct (IH Hms vs _ s2 a2 hs s1 a1 hs1 L2 Hrest H) as (A & B & C & nh & E & F).
        repeat split; try lia; auto.
        * intros p Hp. rewrite C by lia. apply G2. exact Hp.
        * exists nh. split; [exact E|]. eapply Forall_impl; [|exact F]. cbn beta. intros h [X Y]. lia.
  Qed.

  (* the reader on a final stream *)
  Theorem skip_dec ms : forallb (fun m => wfr_top (snd m)) ms = true ->
    forall vs env s a hs s1 a1 nh, List.length s = lim -> members_ok_skip env ms vs ->
      enc_skip ms vs (s, a) hs = Some (s1, a1, hs ++ nh) ->
      forall s_fin lim' acc, a1 <= lim' ->
        (forall p, a <= p < a1 -> (forall h, In h nh -> ~ in_hole h p) -> get s_fin p = get s1 p) ->
        (forall h, In h nh -> read_bits (h_pos h) (h_size h) s_fin = enc_int bo (h_size h) (fv (h_name h))) ->
        dec_fields bo s_fin lim' (map (fun m => (fst m, tsdl_of_ft (snd m))) ms) env a acc =
        Some (rev acc ++ canon_members ms (subst ms vs), a1).
  Proof.
    induction ms as [|[n f] ms IH]; intros Hwf vs env s a hs s1 a1 nh Hl Hok H s_fin lim' acc Hlim H1 H2.
    - destruct vs; [|discriminate]. cbn [enc_skip fst snd] in H. injection H as <- <- _.
      cbn [map dec_fields canon_members subst]. rewrite app_nil_r. reflexivity.
    - destruct vs as [|v vs]; [discriminate|]. cbn [enc_skip fst snd] in H.
      cbn [forallb snd] in Hwf. apply andb_true_iff in Hwf. destruct Hwf as [Hf Hms].
      cbn [members_ok_skip] in Hok. destruct Hok as (Hv & Hdyn & Hrest).
      cbn [map dec_fields fst snd subst canon_members].
      destruct (skip_ft skips n f) as [[size al]|] eqn:Esk.
      + destruct v as [z|bs|l]; try discriminate.
        pose proof (align_up_ge a al (skip_ft_pos n f size al Hf Esk)) as Hge.
        destruct (enc_skip_props ms Hms vs _ s (align_up a al + size) _ s1 a1 _ Hl Hrest H)
          as (A & B & C & nh' & E & F).
        rewrite <- app_assoc in E. apply app_inv_head in E. subst nh.
        (* the skipped member itself *)
        assert (Hdec : dec bo s_fin lim' (tsdl_of_ft f) env a = Some (canon f (VInt (fv n)), align_up a al + size)).
        { pose proof (H2 (mk_hole (align_up a al) size n) (or_introl eq_refl)) as R. cbn [h_pos h_size h_name] in R.
          destruct (skip_ft_shape n f size al Esk) as [[sg ->]| ->]; cbn [tsdl_of_ft dec canon];
            (destruct (Nat.leb_spec (align_up a al + size) lim'); [|lia]); rewrite R, dec_enc_int; reflexivity. }
        rewrite Hdec.
        rewrite (IH Hms vs _ s (align_up a al + size) (hs ++ [mk_hole (align_up a al) size n]) s1 a1 nh' Hl Hrest).
        * cbn [rev]. rewrite <- app_assoc. reflexivity.
        * rewrite <- app_assoc. exact H.
        * exact Hlim.
        * intros p Hp Hnot. apply H1; [lia|]. intros h [<-|Hin]; [unfold in_hole; cbn [h_pos h_size]; lia|auto].
        * intros h Hin. apply H2. right. exact Hin.
      + destruct (enc bo lim f v (s, a)) as [[s2 a2]|] eqn:E2; [|discriminate].
        destruct (rt_top bo lim f Hf v s a s2 a2 Hl Hv E2) as (A2 & L2 & G2 & D2).
        destruct (enc_skip_props ms Hms vs _ s2 a2 hs s1 a1 _ L2 Hrest H) as (A & B & C & nh' & E & F).
        apply app_inv_head in E. subst nh'.
        rewrite (D2 s_fin env lim').
        * rewrite (IH Hms vs _ s2 a2 hs s1 a1 nh L2 Hrest H s_fin lim' _ Hlim).
          -- cbn [rev]. rewrite <- app_assoc. reflexivity.
          -- intros p Hp Hnot. apply H1; [lia|exact Hnot].
          -- exact H2.
        * intros p Hp. rewrite H1; [apply C; lia|lia|].
          intros h Hin [X Y]. rewrite Forall_forall in F. destruct (F h Hin) as [F1 F2]. lia.
        * lia.
        * exact Hdyn.
  Qed.
End F.
