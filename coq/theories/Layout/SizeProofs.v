(* The size pass (size-*.j2, `size_op`) mirrors the serialize pass (`ser`):
   - whenever serialization succeeds, the size computed from the same start position is the
     position reached;
   - serialization never changes the buffer length, and fails (store outside the packet) only if
     some write would end beyond the limit;
   - conversely, for operations built from well-formed structures, if the computed end fits in
     the buffer then serialization succeeds and ends exactly there.
   These are the layout-level facts behind C02 ("a record that fits its reservation is never
   written past the end") and C03. *)
From Coq Require Import List Arith Bool ZArith String Lia PeanoNat.
Import ListNotations.
From BT.Base Require Import Bits BitsProofs.
From BT.Layout Require Import Model BuildProofs RoundTrip RecordProofs.

Fixpoint no_uuid (o : op) : bool :=
  match o with
  | OUuid _ => false
  | OArr _ _ b => no_uuid b
  | OBlock _ os => forallb no_uuid os
  | _ => true
  end.

(* induction principle for the nested operation type *)
Section OpInd.
  Variable P : op -> Prop.
  Hypothesis Hbits : forall al k size off, P (OBits al k size off).
  Hypothesis Hstr : forall al, P (OStr al).
  Hypothesis Huuid : forall al, P (OUuid al).
  Hypothesis Harr : forall al len b, P b -> P (OArr al len b).
  Hypothesis Hblock : forall al os, Forall P os -> P (OBlock al os).
  Fixpoint op_ind' (o : op) : P o :=
    match o with
    | OBits al k size off => Hbits al k size off
    | OStr al => Hstr al
    | OUuid al => Huuid al
    | OArr al len b => Harr al len b (op_ind' b)
    | OBlock al os =>
        Hblock al os ((fix go (l : list op) : Forall P l :=
                         match l with [] => Forall_nil P | x :: r => Forall_cons x (op_ind' x) (go r) end) os)
    end.
End OpInd.

Section S.
  Variable bo : byte_order.
  Variable nk : bool.
  Variable lim : nat.

  Lemma write_bytes_len bs : forall pos s, pos + 8 * List.length bs <= List.length s ->
    List.length (write_bytes bo pos bs s) = List.length s.
  Proof. intros. apply write_bytes_length. assumption. Qed.

  (* --- serialization keeps the buffer length, and its end position is the size pass result --- *)
  Definition ser_good (o : op) : Prop :=
    forall v ss ss', List.length (ss_s ss) = lim -> ser bo nk lim o v ss = Some ss' ->
      List.length (ss_s ss') = lim /\ (no_uuid o = true -> size_op o v (ss_at ss) = Some (ss_at ss')).

  Lemma iter_ser_good b : ser_good b -> forall vs ss ss', List.length (ss_s ss) = lim ->
    iter_opt (ser bo nk lim b) vs ss = Some ss' ->
    List.length (ss_s ss') = lim /\ (no_uuid b = true -> iter_opt (size_op b) vs (ss_at ss) = Some (ss_at ss')).
  Proof.
    intros Hb. induction vs as [|v vs IH]; intros ss ss' Hl H; cbn [iter_opt] in *.
    - injection H as <-. auto.
    - destruct (ser bo nk lim b v ss) as [ss1|] eqn:E; [|discriminate].
      destruct (Hb v ss ss1 Hl E) as [L1 S1]. destruct (IH ss1 ss' L1 H) as [L2 S2].
      split; [exact L2|]. intros Hn. rewrite (S1 Hn). apply S2. exact Hn.
  Qed.

  Lemma iter2_ser_good os : Forall ser_good os -> forall vs ss ss', List.length (ss_s ss) = lim ->
    iter2_opt (ser bo nk lim) os vs ss = Some ss' ->
    List.length (ss_s ss') = lim /\
    (forallb no_uuid os = true -> iter2_opt size_op os vs (ss_at ss) = Some (ss_at ss')).
  Proof.
    induction 1 as [|o os Ho Hos IH]; intros vs ss ss' Hl H; destruct vs as [|v vs]; cbn [iter2_opt] in *;
      try discriminate.
    - injection H as <-. auto.
    - destruct (ser bo nk lim o v ss) as [ss1|] eqn:E; [|discriminate].
      destruct (Ho v ss ss1 Hl E) as [L1 S1]. destruct (IH vs ss1 ss' L1 H) as [L2 S2].
      split; [exact L2|]. cbn [forallb]. intros Hn. apply andb_true_iff in Hn. destruct Hn as [N1 N2].
      rewrite (S1 N1). apply S2. exact N2.
  Qed.

  Definition bits_pos_of (al size : nat) (off : option nat) (at1 : nat) : nat :=
    if memcpy_path nk al size then 8 * (at1 / 8)
    else 8 * (at1 / 8) + match off with Some k => k | None => at1 mod 8 end.
  Lemma ser_bits_eq al k size off z ss :
    ser bo nk lim (OBits al k size off) (VInt z) ss =
    match k with
    | KSkip => Some (mk_ss (ss_s ss) (align_up (ss_at ss) al + size) (ss_saved ss ++ [align_up (ss_at ss) al]))
    | KWrite =>
        if bits_pos_of al size off (align_up (ss_at ss) al) + size <=? lim
        then Some (mk_ss (write_bits (bits_pos_of al size off (align_up (ss_at ss) al)) (enc_int bo size z) (ss_s ss))
                         (align_up (ss_at ss) al + size) (ss_saved ss))
        else None
    end.
  Proof. reflexivity. Qed.
  Lemma ser_str_eq al bs ss :
    ser bo nk lim (OStr al) (VStr bs) ss =
    if 8 * (align_up (ss_at ss) al / 8) + 8 * (List.length bs + 1) <=? lim
    then Some (mk_ss (write_bytes bo (8 * (align_up (ss_at ss) al / 8)) (bs ++ [0%Z]) (ss_s ss))
                     (align_up (ss_at ss) al + 8 * (List.length bs + 1)) (ss_saved ss))
    else None.
  Proof. reflexivity. Qed.
  Lemma ser_uuid_eq al vs ss :
    ser bo nk lim (OUuid al) (VArr vs) ss =
    if (List.length vs =? 16) && (8 * (align_up (align_up (ss_at ss) al) 8 / 8) + 128 <=? lim)
    then Some (mk_ss (write_bytes bo (8 * (align_up (align_up (ss_at ss) al) 8 / 8)) (map byte_of_val vs) (ss_s ss))
                     (align_up (align_up (ss_at ss) al) 8 + 128) (ss_saved ss))
    else None.
  Proof. reflexivity. Qed.

  Theorem ser_good_all o : ser_good o.
  Proof.
    induction o as [al k size off|al|al|al len b IH|al os IH] using op_ind'; intros v ss ss' Hl H.
    - destruct v as [z|bs|vs]; try discriminate. rewrite ser_bits_eq in H.
      destruct k.
      + set (pos := bits_pos_of al size off (align_up (ss_at ss) al)) in *.
        destruct (Nat.leb_spec (pos + size) lim) as [C|C]; [|discriminate].
        injection H as <-. cbn [ss_s ss_at size_op]. split; [|reflexivity].
        rewrite length_write_bits; [exact Hl|]. rewrite length_enc_int. lia.
      + injection H as <-. cbn [ss_s ss_at size_op]. auto.
    - destruct v as [z|bs|vs]; try discriminate. rewrite ser_str_eq in H.
      set (pos := 8 * (align_up (ss_at ss) al / 8)) in *.
      destruct (Nat.leb_spec (pos + 8 * (List.length bs + 1)) lim) as [C|C]; [|discriminate].
      injection H as <-. cbn [ss_s ss_at size_op]. split; [|reflexivity].
      rewrite write_bytes_len; [exact Hl|]. rewrite app_length. cbn [List.length]. lia.
    - destruct v as [z|bs|vs]; try discriminate. rewrite ser_uuid_eq in H.
      set (pos := 8 * (align_up (align_up (ss_at ss) al) 8 / 8)) in *.
      destruct (Nat.eqb_spec (List.length vs) 16) as [C1|C1]; [|discriminate].
      destruct (Nat.leb_spec (pos + 128) lim) as [C2|C2]; [|discriminate].
      cbn [andb] in H. injection H as <-. cbn [ss_s ss_at]. split; [|discriminate].
      rewrite write_bytes_len; [exact Hl|]. rewrite map_length. lia.
    - destruct v as [z|bs|vs]; cbn [ser] in H; try discriminate.
      match type of H with (if ?c then _ else _) = _ => destruct c eqn:C; [|discriminate] end.
      destruct (iter_ser_good b IH vs (mk_ss (ss_s ss) (align_up (ss_at ss) al) (ss_saved ss)) ss' Hl H) as [L S]. cbn [ss_at] in S.
      split; [exact L|]. cbn [no_uuid size_op]. rewrite C. exact S.
    - destruct v as [z|bs|vs]; cbn [ser] in H; try discriminate.
      destruct (iter2_ser_good os IH vs (mk_ss (ss_s ss) (align_up (ss_at ss) al) (ss_saved ss)) ss' Hl H) as [L S]. cbn [ss_at] in S.
      split; [exact L|]. cbn [no_uuid size_op]. exact S.
  Qed.

  (* --- the size pass does not depend on integer values --- *)
  Inductive same_shape : val -> val -> Prop :=
  | SSInt z z' : same_shape (VInt z) (VInt z')
  | SSStr bs bs' : List.length bs = List.length bs' -> same_shape (VStr bs) (VStr bs')
  | SSArr l l' : Forall2 same_shape l l' -> same_shape (VArr l) (VArr l').

  Lemma F2_length {A B} (R : A -> B -> Prop) l l' : Forall2 R l l' -> List.length l = List.length l'.
  Proof. induction 1; cbn; congruence. Qed.

  Definition shape_indep (o : op) : Prop :=
    forall v v' a, same_shape v v' -> size_op o v a = size_op o v' a.

  Theorem size_shape o : shape_indep o.
  Proof.
    induction o as [al k size off|al|al|al len b IH|al os IH] using op_ind'; intros v v' a Hs.
    - inversion Hs; subst; reflexivity.
    - inversion Hs as [| ? ? E |]; subst; cbn [size_op]; try reflexivity. rewrite E. reflexivity.
    - inversion Hs; subst; reflexivity.
    - inversion Hs as [| |l l' F]; subst; cbn [size_op]; try reflexivity.
      rewrite (F2_length _ _ _ F).
      destruct (match len with Some n => List.length l' =? n | None => true end); [|reflexivity].
      generalize (align_up a al). clear Hs. induction F as [|x y l l' Hxy F IHF]; intros a0; cbn [iter_opt]; [reflexivity|].
      rewrite (IH x y a0 Hxy). destruct (size_op b y a0); [apply IHF|reflexivity].
    - inversion Hs as [| |l l' F]; subst; cbn [size_op]; try reflexivity.
      generalize (align_up a al). clear Hs. revert l l' F.
      induction IH as [|o os Ho Hos IHos]; intros l l' F a0; destruct F as [|x y l l' Hxy F]; cbn [iter2_opt]; try reflexivity.
      rewrite (Ho x y a0 Hxy). destruct (size_op o y a0); [apply IHos; exact F|reflexivity].
  Qed.

  (* --- converse: if the computed end fits, serialization succeeds and ends there --- *)
  Definition fits_ok (f : ft) : Prop :=
    forall level st v s at_ a', List.length s = lim ->
      size_op (snd (build level st f)) v at_ = Some a' -> a' <= lim ->
      at_ <= a' /\ exists s', enc bo lim f v (s, at_) = Some (s', a') /\ List.length s' = lim.

  Lemma wfr_align_pos f : wfr f = true -> 0 < ft_align f.
  Proof. induction f; cbn [wfr ft_align]; intros H; try (apply Nat.ltb_lt; exact H); try lia; auto; discriminate. Qed.

  Lemma iter_fits e body : fits_ok e -> (forall v a, size_op body v a = size_op (snd (build 1 None e)) v a) ->
    forall vs s a a', List.length s = lim -> iter_opt (size_op body) vs a = Some a' -> a' <= lim ->
      a <= a' /\ exists s', iter_opt (enc bo lim e) vs (s, a) = Some (s', a') /\ List.length s' = lim.
  Proof.
    intros He Hb. induction vs as [|v vs IH]; intros s a a' Hl H Ha; cbn [iter_opt] in *.
    - injection H as <-. split; [lia|]. exists s. auto.
    - destruct (size_op body v a) as [a1|] eqn:E; [|discriminate].
      (* monotonicity of the rest first, to bound a1 *)
      assert (Hmono : a1 <= a').
      { clear -He Hb H Ha. revert a1 H. induction vs as [|x xs IHx]; intros a1 H; cbn [iter_opt] in H.
        - injection H as <-. lia.
        - destruct (size_op body x a1) as [a2|] eqn:E2; [|discriminate].
          specialize (IHx a2 H). rewrite Hb in E2.
          destruct (He 1 None x (repeat false lim) a1 a2 (repeat_length _ _) E2 ltac:(lia)) as [M _]. lia. }
      rewrite Hb in E.
      destruct (He 1 None v s a a1 Hl E ltac:(lia)) as [M1 [s1 [E1 L1]]].
      destruct (IH s1 a1 a' L1 H Ha) as [M2 [s2 [E2 L2]]].
      split; [lia|]. exists s2. rewrite E1. auto.
  Qed.

  (* the size pass ignores the statically tracked offsets: any two builds of the same field type
     have the same size function *)
  Lemma size_build_indep f : forall l1 s1 l2 s2 v a,
    size_op (snd (build l1 s1 f)) v a = size_op (snd (build l2 s2 f)) v a.
  Proof.
    induction f as [sg size al|size al| | |n e IH|l e IH]; intros l1 s1 l2 s2 v a; cbn [build snd size_op]; try reflexivity.
    - destruct v as [z|bs|vs]; try reflexivity.
      destruct (List.length vs =? n); [|reflexivity].
      generalize (align_up a (ft_align e)). induction vs as [|x xs IHx]; intros a0; cbn [iter_opt]; [reflexivity|].
      rewrite (IH (S l1) (try_align l1 None (ft_align e)) (S l2) (try_align l2 None (ft_align e)) x a0).
      destruct (size_op _ x a0); [apply IHx|reflexivity].
    - destruct v as [z|bs|vs]; try reflexivity.
      generalize (align_up a (ft_align e)). induction vs as [|x xs IHx]; intros a0; cbn [iter_opt]; [reflexivity|].
      rewrite (IH (S l1) (try_align l1 s1 (ft_align e)) (S l2) (try_align l2 s2 (ft_align e)) x a0).
      destruct (size_op _ x a0); [apply IHx|reflexivity].
  Qed.

  Lemma fits_elem f : wfr f = true -> fits_ok f.
  Proof.
    induction f as [sg size al|size al| | |n e IH|l e IH]; intros Hwf; cbn [wfr] in Hwf; try discriminate;
      intros level st v s at_ a' Hl H Ha; cbn [build snd] in H.
    - destruct v as [z|bs|vs]; cbn [size_op] in H; try discriminate. injection H as <-.
      apply Nat.ltb_lt in Hwf. pose proof (align_up_ge at_ al Hwf).
      split; [lia|]. cbn [enc fst snd].
      destruct (Nat.leb_spec (align_up at_ al + size) lim); [|lia].
      eexists. split; [reflexivity|]. rewrite length_write_bits; [exact Hl|]. rewrite length_enc_int. lia.
    - destruct v as [z|bs|vs]; cbn [size_op] in H; try discriminate. injection H as <-.
      apply Nat.ltb_lt in Hwf. pose proof (align_up_ge at_ al Hwf).
      split; [lia|]. cbn [enc fst snd].
      destruct (Nat.leb_spec (align_up at_ al + size) lim); [|lia].
      eexists. split; [reflexivity|]. rewrite length_write_bits; [exact Hl|]. rewrite length_enc_int. lia.
    - destruct v as [z|bs|vs]; cbn [size_op] in H; try discriminate. injection H as <-.
      pose proof (align_up_ge at_ 8 ltac:(lia)).
      split; [lia|]. cbn [enc fst snd].
      destruct (Nat.leb_spec (align_up at_ 8 + 8 * (List.length bs + 1)) lim); [|lia].
      eexists. split; [reflexivity|]. rewrite write_bytes_len; [exact Hl|]. rewrite app_length. cbn [List.length]. lia.
    - destruct v as [z|bs|vs]; cbn [size_op] in H; discriminate.
    - destruct v as [z|bs|vs]; cbn [size_op] in H; try discriminate.
      destruct (List.length vs =? n) eqn:En; [|discriminate].
      pose proof (align_up_ge at_ (ft_align e) (wfr_align_pos e Hwf)).
      destruct (iter_fits e _ (IH Hwf) (fun v a => size_build_indep e _ _ 1 None v a) vs s _ a' Hl H Ha) as [M [s' [E L]]].
      split; [lia|]. exists s'. cbn [enc fst snd]. rewrite En. auto.
  Qed.

  Lemma fits_top f : wfr_top f = true -> fits_ok f.
  Proof.
    destruct f as [sg size al|size al| | |n e|l e]; intros Hwf; try (apply fits_elem; exact Hwf).
    cbn [wfr_top] in Hwf.
    intros level st v s at_ a' Hl H Ha; cbn [build snd] in H.
    destruct v as [z|bs|vs]; cbn [size_op] in H; try discriminate.
    pose proof (align_up_ge at_ (ft_align e) (wfr_align_pos e Hwf)).
    destruct (iter_fits e _ (fits_elem e Hwf) (fun v a => size_build_indep e _ _ 1 None v a) vs s _ a' Hl H Ha) as [M [s' [E L]]].
    split; [lia|]. exists s'. cbn [enc fst snd]. auto.
  Qed.

  Lemma members_fits ms : forallb (fun m => wfr_top (snd m)) ms = true ->
    forall st vs s a a', List.length s = lim ->
      iter2_opt size_op (snd (build_members [] st ms)) vs a = Some a' -> a' <= lim ->
      a <= a' /\ exists s', enc_members bo lim ms vs (s, a) = Some (s', a') /\ List.length s' = lim.
  Proof.
    induction ms as [|[n f] ms IH]; intros Hwf st vs s a a' Hl H Ha.
    - cbn [build_members snd iter2_opt] in H. destruct vs; [|discriminate]. injection H as <-.
      split; [lia|]. exists s. auto.
    - cbn [forallb snd] in Hwf. apply andb_true_iff in Hwf. destruct Hwf as [Hf Hms].
      cbn [build_members snd fst iter2_opt] in H. rewrite skip_of_nil in H.
      destruct vs as [|v vs]; [discriminate|].
      destruct (size_op (snd (build 0 st f)) v a) as [a1|] eqn:E; [|discriminate].
      assert (Hmono : a1 <= a').
      { destruct (IH Hms _ vs (repeat false lim) a1 a' (repeat_length _ _) H Ha) as [M _]. exact M. }
      destruct (fits_top f Hf 0 st v s a a1 Hl E ltac:(lia)) as [M1 [s1 [E1 L1]]].
      destruct (IH Hms _ vs s1 a1 a' L1 H Ha) as [M2 [s2 [E2 L2]]].
      split; [lia|]. exists s2. cbn [enc_members]. rewrite E1. auto.
  Qed.

  (* Root structure: reserved size that fits => serialization succeeds, ends there, in bounds *)
  Theorem ser_fits_root sf : wf_sft sf = true ->
    forall st vs ss a', List.length (ss_s ss) = lim ->
      size_op (snd (build_root [] st sf)) (VArr vs) (ss_at ss) = Some a' -> a' <= lim ->
      ss_at ss <= a' /\
      exists s', ser bo nk lim (snd (build_root [] st sf)) (VArr vs) ss = Some (mk_ss s' a' (ss_saved ss)) /\
                 List.length s' = lim.
  Proof.
    intros Hwf st vs ss a' Hl H Ha.
    rewrite (ser_build_root bo nk lim sf Hwf).
    unfold build_root in H. cbn [snd size_op] in H.
    pose proof (wf_sft_wfr sf Hwf) as Hr.
    pose proof (align_up_ge (ss_at ss) (sft_align sf) (sft_align_pos sf Hr)) as Hge.
    unfold wfr_sft in Hr. apply andb_true_iff in Hr. destruct Hr as [_ Hms].
    destruct (members_fits (s_mems sf) Hms _ vs (ss_s ss) _ a' Hl H Ha) as [M [s' [E L]]].
    split; [lia|]. exists s'. unfold enc_struct, proj, lift. cbn [fst snd].
    match goal with |- context [enc_members ?a ?b ?c ?d ?e] =>
      replace (enc_members a b c d e) with (Some (s', a')) by (symmetry; exact E) end.
    auto.
  Qed.
End S.
