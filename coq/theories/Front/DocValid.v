(* Documented shapes of the objects of an (effective) barectf 3 configuration, written from
   docs/modules/yaml/pages/*.adoc, as predicates over [json].  Nothing here mentions a schema.

   An optional property may also be null ("use the default").  "Integer" means a YAML integer
   ([JInt]); the weaker [int_val] (an integer OR a float with an integral value, see S18) is what
   the schemas turn out to enforce. *)
From Coq Require Import List String ZArith Bool.
Import ListNotations.
From BT.Front Require Import Json JsonSchema.
Open Scope string_scope.

Definition obj := list (string * json).

Definition required (m : obj) (k : string) (P : json -> Prop) : Prop :=
  exists x, lookup k m = Some x /\ P x.
Definition optional (m : obj) (k : string) (P : json -> Prop) : Prop :=
  forall x, lookup k m = Some x -> x = JNull \/ P x.
Definition only_keys (m : obj) (ks : list string) : Prop :=
  forall k x, In (k, x) m -> In k ks.
(* a property that, when present, cannot be null *)
Definition present (m : obj) (k : string) (P : json -> Prop) : Prop :=
  forall x, lookup k m = Some x -> P x.

(* the integer value of an integer-valued number *)
Definition as_int (x : json) : option Z :=
  match x with
  | JInt z => Some z
  | JFloat (FFin n d) => if Z.eqb (n mod Z.pos d) 0 then Some (n / Z.pos d)%Z else None
  | _ => None
  end.
Definition int_val (lo : Z) (hi : option Z) (x : json) : Prop :=
  exists z, as_int x = Some z /\ (lo <= z)%Z /\ match hi with Some h => (z <= h)%Z | None => True end.
(* a YAML integer in range: the documented form *)
Definition int_doc (lo : Z) (hi : option Z) (x : json) : Prop :=
  exists z, x = JInt z /\ (lo <= z)%Z /\ match hi with Some h => (z <= h)%Z | None => True end.

Definition str_in (l : list string) (x : json) : Prop := exists s, x = JStr s /\ In s l.
Definition is_str (x : json) : Prop := exists s, x = JStr s.
Definition is_bool (x : json) : Prop := exists b, x = JBool b.
Definition is_obj (x : json) : Prop := exists m, x = JObj m.

(* ---- names *)
Definition uint_names := ["uint"; "unsigned-int"; "unsigned-integer"].
Definition sint_names := ["sint"; "signed-int"; "signed-integer"].
Definition uenum_names := ["uenum"; "unsigned-enum"; "unsigned-enumeration"].
Definition senum_names := ["senum"; "signed-enum"; "signed-enumeration"].
Definition real_names := ["real"].
Definition string_names := ["str"; "string"].
Definition sarray_names := ["static-array"].
Definition darray_names := ["dynamic-array"].
Definition struct_names := ["struct"; "structure"].
Definition class_names :=
  (uint_names ++ sint_names ++ uenum_names ++ senum_names ++ real_names ++ string_names ++
   sarray_names ++ darray_names ++ struct_names)%list.
Definition base_names := ["bin"; "binary"; "oct"; "octal"; "dec"; "decimal"; "hex"; "hexadecimal"].
Definition byte_order_names := ["le"; "little"; "little-endian"; "be"; "big"; "big-endian"].
(* the reserved words of docs/modules/yaml/pages/index.adoc (TSDL keywords and C keywords) *)
Definition ctf_keywords :=
  ["align"; "callsite"; "clock"; "enum"; "env"; "event"; "floating_point"; "integer"; "stream";
   "string"; "struct"; "trace"; "typealias"; "typedef"; "variant";
   "const"; "char"; "double"; "float"; "int"; "long"; "short"; "signed"; "unsigned"; "void";
   "_Bool"; "_Complex"; "_Imaginary"].

(* a C / TSDL identifier as the documentation asks for names: a letter or underscore followed
   by letters, digits, underscores ... *)
Fixpoint all_chars (f : Ascii.ascii -> bool) (s : string) : bool :=
  match s with EmptyString => true | String c s => f c && all_chars f s end.
Definition ident_strict (s : string) : bool :=
  match s with EmptyString => false | String c s' => is_ident_start c && all_chars is_ident_char s' end.
(* ... and what python's re.search with the anchored identifier pattern accepts: the same, or
   the same followed by one newline *)
Definition ident_or_nl (s : string) : Prop :=
  ident_strict s = true \/ exists s', s = (s' ++ String (Ascii.ascii_of_nat 10) EmptyString)%string /\ ident_strict s' = true.

(* ---- strictness.  Every shape below exists in two versions selected by [strict : bool]:
   [true] is the documentation; [false] is the weaker statement that the current schemas are
   proved to enforce.  The remaining differences (each one is a `_refuted` theorem in
   Props/C09.v):
     names: an identifier (or UUID) followed by one newline is accepted
   (S4 dynamic array, S14 static array length, structure member names, the unknown properties
   of the trace object, S19 integral floats and null enumeration mappings were differences of this kind until they were
   repaired in /repo; the corresponding constraints are now part of both versions.) *)
Definition intP (strict : bool) : Z -> option Z -> json -> Prop := int_doc.
Definition identP (strict : bool) (s : string) : Prop :=
  if strict then ident_strict s = true else ident_or_nl s.
Definition is_int (strict : bool) (x : json) : Prop := exists z, x = JInt z.

(* ---- field types (effective: no alias, no $inherit) *)

Definition int_ft_doc (strict : bool) (classes : list string) (j : json) : Prop :=
  exists m, j = JObj m /\
    required m "class" (str_in classes) /\
    required m "size" (intP strict 1%Z (Some 64%Z)) /\
    optional m "alignment" (intP strict 1%Z None) /\
    optional m "preferred-display-base" (str_in base_names) /\
    only_keys m ["class"; "size"; "alignment"; "preferred-display-base"].

(* one enumeration mapping: a non-empty sequence of integers or [lower, upper] pairs *)
Definition enum_range (P : json -> Prop) (r : json) : Prop :=
  P r \/ exists a b, r = JArr [a; b] /\ P a /\ P b.
Definition enum_mapping (P : json -> Prop) (x : json) : Prop :=
  exists l, x = JArr l /\ l <> [] /\ forall r, In r l -> enum_range P r.
Definition mappings_doc (strict : bool) (x : json) : Prop :=
  exists mm, x = JObj mm /\ mm <> [] /\ forall k v, In (k, v) mm -> enum_mapping (is_int strict) v.
Definition enum_ft_doc (strict : bool) (classes : list string) (j : json) : Prop :=
  exists m, j = JObj m /\
    required m "class" (str_in classes) /\
    required m "size" (intP strict 1%Z (Some 64%Z)) /\
    optional m "alignment" (intP strict 1%Z None) /\
    optional m "preferred-display-base" (str_in base_names) /\
    required m "mappings" (mappings_doc strict) /\
    only_keys m ["class"; "size"; "alignment"; "preferred-display-base"; "mappings"].

Definition real_size (strict : bool) (x : json) : Prop := x = JInt 32 \/ x = JInt 64.
Definition real_ft_doc (strict : bool) (j : json) : Prop :=
  exists m, j = JObj m /\
    required m "class" (str_in real_names) /\
    required m "size" (real_size strict) /\
    optional m "alignment" (intP strict 1%Z None) /\
    only_keys m ["class"; "size"; "alignment"].

Definition string_ft_doc (j : json) : Prop :=
  exists m, j = JObj m /\ required m "class" (str_in string_names) /\ only_keys m ["class"].

(* structure members: a sequence of single-entry mappings name -> {field-type: FT} *)
Definition member_obj (FT : json -> Prop) (v : json) : Prop :=
  exists mo, v = JObj mo /\ required mo "field-type" FT /\ only_keys mo ["field-type"].
Definition member_doc (strict : bool) (FT : json -> Prop) (x : json) : Prop :=
  exists name v, x = JObj [(name, v)] /\ identP strict name /\ member_obj FT v.
Definition members_doc (strict : bool) (FT : json -> Prop) (x : json) : Prop :=
  exists l, x = JArr l /\ forall e, In e l -> member_doc strict FT e.

Definition struct_ft_doc (strict : bool) (FT : json -> Prop) (j : json) : Prop :=
  exists m, j = JObj m /\
    required m "class" (str_in struct_names) /\
    optional m "minimum-alignment" (intP strict 1%Z None) /\
    optional m "members" (members_doc strict FT) /\
    only_keys m ["class"; "minimum-alignment"; "members"].

Definition static_array_ft_doc (strict : bool) (FT : json -> Prop) (j : json) : Prop :=
  exists m, j = JObj m /\
    required m "class" (str_in sarray_names) /\
    required m "element-field-type" FT /\
    required m "length" (intP strict 0%Z None) /\
    only_keys m ["class"; "element-field-type"; "length"].

Definition dynamic_array_ft_doc (strict : bool) (FT : json -> Prop) (j : json) : Prop :=
  exists m, j = JObj m /\
    required m "class" (str_in darray_names) /\
    required m "element-field-type" FT /\
    only_keys m ["class"; "element-field-type"].

(* the whole field type tree *)
Inductive ft_doc (strict : bool) : json -> Prop :=
| FtUint j : int_ft_doc strict uint_names j -> ft_doc strict j
| FtSint j : int_ft_doc strict sint_names j -> ft_doc strict j
| FtUenum j : enum_ft_doc strict uenum_names j -> ft_doc strict j
| FtSenum j : enum_ft_doc strict senum_names j -> ft_doc strict j
| FtReal j : real_ft_doc strict j -> ft_doc strict j
| FtString j : string_ft_doc j -> ft_doc strict j
| FtSArray j : static_array_ft_doc strict (ft_doc strict) j -> ft_doc strict j
| FtDArray j : dynamic_array_ft_doc strict (ft_doc strict) j -> ft_doc strict j
| FtStruct j : struct_ft_doc strict (ft_doc strict) j -> ft_doc strict j.

(* ---- the configuration *)

(* a feature field type must be an unsigned integer / enumeration field type *)
Definition feature_uint_ft_doc (strict : bool) (j : json) : Prop :=
  int_ft_doc strict uint_names j \/ enum_ft_doc strict uenum_names j.
(* true / false / field type (null = default) *)
Definition opt_or_def_feature_doc (strict : bool) (x : json) : Prop :=
  is_bool x \/ feature_uint_ft_doc strict x.
(* true / field type (cannot be disabled; null = default) *)
Definition opt_feature_doc (strict : bool) (x : json) : Prop :=
  x = JBool true \/ feature_uint_ft_doc strict x.

Definition name_doc (strict : bool) (x : json) : Prop :=
  exists s, x = JStr s /\ identP strict s /\ ~ In s ctf_keywords.

Definition ert_doc (strict : bool) (j : json) : Prop :=
  exists m, j = JObj m /\
    optional m "log-level" (intP strict 0%Z None) /\
    optional m "specific-context-field-type" (struct_ft_doc strict (ft_doc strict)) /\
    optional m "payload-field-type" (struct_ft_doc strict (ft_doc strict)) /\
    only_keys m ["log-level"; "specific-context-field-type"; "payload-field-type"].

Definition dst_packet_features_doc (strict : bool) (x : json) : Prop :=
  exists m, x = JObj m /\
    optional m "total-size-field-type" (opt_feature_doc strict) /\
    optional m "content-size-field-type" (opt_feature_doc strict) /\
    optional m "beginning-timestamp-field-type" (opt_or_def_feature_doc strict) /\
    optional m "end-timestamp-field-type" (opt_or_def_feature_doc strict) /\
    optional m "discarded-event-records-counter-snapshot-field-type" (opt_or_def_feature_doc strict) /\
    optional m "sequence-number-field-type" (opt_or_def_feature_doc strict) /\
    only_keys m ["total-size-field-type"; "content-size-field-type"; "beginning-timestamp-field-type";
                 "end-timestamp-field-type"; "discarded-event-records-counter-snapshot-field-type";
                 "sequence-number-field-type"].
Definition dst_er_features_doc (strict : bool) (x : json) : Prop :=
  exists m, x = JObj m /\
    optional m "type-id-field-type" (opt_or_def_feature_doc strict) /\
    optional m "timestamp-field-type" (opt_or_def_feature_doc strict) /\
    only_keys m ["type-id-field-type"; "timestamp-field-type"].
Definition dst_features_doc (strict : bool) (x : json) : Prop :=
  exists m, x = JObj m /\
    optional m "packet" (dst_packet_features_doc strict) /\
    optional m "event-record" (dst_er_features_doc strict) /\
    only_keys m ["packet"; "event-record"].

(* a mapping whose keys are identifiers and whose values satisfy P *)
Definition named_map (strict : bool) (nonempty : bool) (P : json -> Prop) (x : json) : Prop :=
  exists m, x = JObj m /\ (nonempty = true -> m <> []) /\
    forall k v, In (k, v) m -> identP strict k /\ P v.

Definition dst_doc (strict : bool) (j : json) : Prop :=
  exists m, j = JObj m /\
    optional m "$is-default" is_bool /\
    optional m "$default-clock-type-name" (name_doc strict) /\
    optional m "$features" (dst_features_doc strict) /\
    optional m "packet-context-field-type-extra-members" (members_doc strict (ft_doc strict)) /\
    optional m "event-record-common-context-field-type" (struct_ft_doc strict (ft_doc strict)) /\
    required m "event-record-types" (named_map strict true (ert_doc strict)) /\
    only_keys m ["$is-default"; "$default-clock-type-name"; "$features";
                 "packet-context-field-type-extra-members";
                 "event-record-common-context-field-type"; "event-record-types"].

(* the canonical textual form of a UUID; [false]: possibly followed by one newline *)
Definition uuidP (strict : bool) (s : string) : Prop :=
  if strict then match_uuid s = true /\ String.length s = 36 else match_uuid s = true.
Definition clock_offset_doc (strict : bool) (x : json) : Prop :=
  exists m, x = JObj m /\
    optional m "cycles" (intP strict 0%Z None) /\ optional m "seconds" (intP strict 0%Z None) /\
    only_keys m ["cycles"; "seconds"].
Definition clock_type_doc (strict : bool) (j : json) : Prop :=
  exists m, j = JObj m /\
    optional m "uuid" (fun x => exists s, x = JStr s /\ uuidP strict s) /\
    optional m "description" is_str /\
    optional m "frequency" (intP strict 1%Z None) /\
    optional m "precision" (intP strict 0%Z None) /\
    optional m "offset" (clock_offset_doc strict) /\
    optional m "origin-is-unix-epoch" is_bool /\
    optional m "$c-type" is_str /\
    only_keys m ["uuid"; "description"; "frequency"; "precision"; "offset"; "origin-is-unix-epoch"; "$c-type"].

Definition size_is (z : Z) (x : json) : Prop :=
  exists mm, x = JObj mm /\ forall s, lookup "size" mm = Some s -> as_int s = Some z.
Definition trace_type_features_doc (strict : bool) (x : json) : Prop :=
  exists m, x = JObj m /\
    optional m "magic-field-type"
      (fun x => is_bool x \/ (feature_uint_ft_doc strict x /\ size_is 32%Z x)) /\
    optional m "uuid-field-type"
      (fun x => is_bool x \/ static_array_ft_doc strict (feature_uint_ft_doc strict) x) /\
    optional m "data-stream-type-id-field-type" (opt_or_def_feature_doc strict) /\
    only_keys m ["magic-field-type"; "uuid-field-type"; "data-stream-type-id-field-type"].

Definition trace_type_doc (strict : bool) (j : json) : Prop :=
  exists m, j = JObj m /\
    present m "native-byte-order" (str_in byte_order_names) /\
    present m "trace-byte-order" (str_in byte_order_names) /\
    (has_key "native-byte-order" m = true /\ has_key "trace-byte-order" m = false \/
     has_key "native-byte-order" m = false /\ has_key "trace-byte-order" m = true) /\
    optional m "uuid" (fun x => exists s, x = JStr s /\ (uuidP strict s \/ s = "auto")) /\
    optional m "$features" (trace_type_features_doc strict) /\
    present m "clock-types" (named_map strict false (clock_type_doc strict)) /\
    required m "data-stream-types" (named_map strict true (dst_doc strict)) /\
    only_keys m ["native-byte-order"; "trace-byte-order"; "uuid"; "$features"; "clock-types"; "data-stream-types"].

Definition env_doc (strict : bool) (x : json) : Prop :=
  exists m, x = JObj m /\ forall k v, In (k, v) m -> identP strict k /\ (is_str v \/ is_int strict v).
Definition trace_doc (strict : bool) (j : json) : Prop :=
  exists m, j = JObj m /\
    required m "type" (trace_type_doc strict) /\
    optional m "environment" (env_doc strict) /\
    only_keys m ["type"; "environment"].

Definition prefix_doc (strict : bool) (x : json) : Prop :=
  name_doc strict x \/
  exists m, x = JObj m /\ required m "identifier" (name_doc strict) /\ required m "file-name" is_str /\
            only_keys m ["identifier"; "file-name"].
Definition header_opts_doc (x : json) : Prop :=
  exists m, x = JObj m /\
    present m "identifier-prefix-definition" is_bool /\
    present m "default-data-stream-type-name-definition" is_bool /\
    only_keys m ["identifier-prefix-definition"; "default-data-stream-type-name-definition"].
Definition codegen_opts_doc (strict : bool) (x : json) : Prop :=
  exists m, x = JObj m /\ present m "prefix" (prefix_doc strict) /\ present m "header" header_opts_doc /\
            only_keys m ["prefix"; "header"].
Definition options_doc (strict : bool) (x : json) : Prop :=
  exists m, x = JObj m /\ present m "code-generation" (codegen_opts_doc strict) /\ only_keys m ["code-generation"].

Definition config_doc (strict : bool) (j : json) : Prop :=
  exists m, j = JObj m /\
    required m "trace" (trace_doc strict) /\
    present m "options" (options_doc strict) /\
    only_keys m ["options"; "trace"].

(* "the total size field type is at least as large as the content size field type"
   (dst-obj.adoc), on the sizes of the two feature field types of one packet-features object;
   a missing / true / null feature is the default 64-bit field type *)
Definition feature_size (m : obj) (k : string) : option Z :=
  match lookup k m with
  | Some (JObj ft) => match lookup "size" ft with Some s => as_int s | None => None end
  | _ => Some 64%Z
  end.
Definition total_ge_content (pkt : obj) : Prop :=
  match feature_size pkt "total-size-field-type", feature_size pkt "content-size-field-type" with
  | Some t, Some c => (c <= t)%Z
  | _, _ => True
  end.

(* the packet-features objects of a configuration (one per data stream type that has one) *)
Definition jget (k : string) (j : json) : option json :=
  match j with JObj m => lookup k m | _ => None end.
Definition obind {A B} (o : option A) (f : A -> option B) : option B :=
  match o with Some a => f a | None => None end.
Definition jvalues (o : option json) : list json :=
  match o with Some (JObj m) => map snd m | _ => [] end.
Definition cfg_packet_features (cfg : json) : list obj :=
  flat_map (fun dst => match obind (jget "$features" dst) (jget "packet") with
                       | Some (JObj p) => [p] | _ => [] end)
           (jvalues (obind (obind (jget "trace" cfg) (jget "type")) (jget "data-stream-types"))).
Definition doc_total_ge_content (cfg : json) : Prop :=
  forall p, In p (cfg_packet_features cfg) -> total_ge_content p.

