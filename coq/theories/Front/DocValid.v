(* Documented shapes of the objects of an (effective) barectf 3 configuration, written from
   docs/modules/yaml/pages/*.adoc, as predicates over [json].  Nothing here mentions a schema.

   An optional property may also be null ("use the default").  "Integer" means a YAML integer
   ([JInt]); the weaker [int_val] (an integer OR a float with an integral value, see S18) is what
   the schemas turn out to enforce. *)
From Coq Require Import List String ZArith Bool.
Import ListNotations.
From BT.Front Require Import Json JsonSchema.
Open Scope string_scope.

Definition obj := list (string * json).

Definition required (m : obj) (k : string) (P : json -> Prop) : Prop :=
  exists x, lookup k m = Some x /\ P x.
Definition optional (m : obj) (k : string) (P : json -> Prop) : Prop :=
  forall x, lookup k m = Some x -> x = JNull \/ P x.
Definition only_keys (m : obj) (ks : list string) : Prop :=
  forall k x, In (k, x) m -> In k ks.
(* a property that, when present, cannot be null *)
Definition present (m : obj) (k : string) (P : json -> Prop) : Prop :=
  forall x, lookup k m = Some x -> P x.

(* the integer value of an integer-valued number *)
Definition as_int (x : json) : option Z :=
  match x with
  | JInt z => Some z
  | JFloat (FFin n d) => if Z.eqb (n mod Z.pos d) 0 then Some (n / Z.pos d)%Z else None
  | _ => None
  end.
Definition int_val (lo : Z) (hi : option Z) (x : json) : Prop :=
  exists z, as_int x = Some z /\ (lo <= z)%Z /\ match hi with Some h => (z <= h)%Z | None => True end.
(* a YAML integer in range: the documented form *)
Definition int_doc (lo : Z) (hi : option Z) (x : json) : Prop :=
  exists z, x = JInt z /\ (lo <= z)%Z /\ match hi with Some h => (z <= h)%Z | None => True end.

Definition str_in (l : list string) (x : json) : Prop := exists s, x = JStr s /\ In s l.
Definition is_str (x : json) : Prop := exists s, x = JStr s.
Definition is_bool (x : json) : Prop := exists b, x = JBool b.
Definition is_obj (x : json) : Prop := exists m, x = JObj m.

(* ---- names *)
Definition uint_names := ["uint"; "unsigned-int"; "unsigned-integer"].
Definition sint_names := ["sint"; "signed-int"; "signed-integer"].
Definition uenum_names := ["uenum"; "unsigned-enum"; "unsigned-enumeration"].
Definition senum_names := ["senum"; "signed-enum"; "signed-enumeration"].
Definition real_names := ["real"].
Definition string_names := ["str"; "string"].
Definition sarray_names := ["static-array"].
Definition darray_names := ["dynamic-array"].
Definition struct_names := ["struct"; "structure"].
Definition class_names :=
  (uint_names ++ sint_names ++ uenum_names ++ senum_names ++ real_names ++ string_names ++
   sarray_names ++ darray_names ++ struct_names)%list.
Definition base_names := ["bin"; "binary"; "oct"; "octal"; "dec"; "decimal"; "hex"; "hexadecimal"].
Definition byte_order_names := ["le"; "little"; "little-endian"; "be"; "big"; "big-endian"].
Definition ctf_keywords :=
  ["align"; "callsite"; "clock"; "enum"; "env"; "event"; "floating_point"; "integer"; "stream";
   "string"; "struct"; "trace"; "typealias"; "typedef"; "variant"].

(* a C / TSDL identifier as the documentation asks for names: a letter or underscore followed
   by letters, digits, underscores ... *)
Fixpoint all_chars (f : Ascii.ascii -> bool) (s : string) : bool :=
  match s with EmptyString => true | String c s => f c && all_chars f s end.
Definition ident_strict (s : string) : bool :=
  match s with EmptyString => false | String c s' => is_ident_start c && all_chars is_ident_char s' end.
(* ... and what python's re.search with the anchored identifier pattern accepts: the same, or
   the same followed by one newline *)
Definition ident_or_nl (s : string) : Prop :=
  ident_strict s = true \/ exists s', s = (s' ++ String (Ascii.ascii_of_nat 10) EmptyString)%string /\ ident_strict s' = true.

(* ---- field types (effective: no alias, no $inherit) *)

Definition int_ft_doc (P : Z -> option Z -> json -> Prop) (classes : list string) (j : json) : Prop :=
  exists m, j = JObj m /\
    required m "class" (str_in classes) /\
    required m "size" (P 1%Z (Some 64%Z)) /\
    optional m "alignment" (P 1%Z None) /\
    optional m "preferred-display-base" (str_in base_names) /\
    only_keys m ["class"; "size"; "alignment"; "preferred-display-base"].

(* one enumeration mapping: a non-empty sequence of integers or [lower, upper] pairs *)
Definition enum_range (P : json -> Prop) (r : json) : Prop :=
  P r \/ exists a b, r = JArr [a; b] /\ P a /\ P b.
Definition enum_mapping (P : json -> Prop) (x : json) : Prop :=
  exists l, x = JArr l /\ l <> [] /\ forall r, In r l -> enum_range P r.
Definition is_int_val (x : json) : Prop := exists z, as_int x = Some z.
Definition enum_ft_doc (P : Z -> option Z -> json -> Prop) (classes : list string) (j : json) : Prop :=
  exists m, j = JObj m /\
    required m "class" (str_in classes) /\
    required m "size" (P 1%Z (Some 64%Z)) /\
    optional m "alignment" (P 1%Z None) /\
    optional m "preferred-display-base" (str_in base_names) /\
    required m "mappings" (fun x => exists mm, x = JObj mm /\ mm <> [] /\
                                     forall k v, In (k, v) mm -> enum_mapping is_int_val v) /\
    only_keys m ["class"; "size"; "alignment"; "preferred-display-base"; "mappings"].

Definition real_ft_doc (j : json) : Prop :=
  exists m, j = JObj m /\
    required m "class" (str_in real_names) /\
    required m "size" (fun x => exists z, as_int x = Some z /\ (z = 32 \/ z = 64)%Z) /\
    optional m "alignment" (int_val 1%Z None) /\
    only_keys m ["class"; "size"; "alignment"].

Definition string_ft_doc (j : json) : Prop :=
  exists m, j = JObj m /\ required m "class" (str_in string_names) /\ only_keys m ["class"].

(* structure members: a sequence of single-entry mappings name -> {field-type: FT} *)
Definition member_doc (FT : json -> Prop) (x : json) : Prop :=
  exists name mo, x = JObj [(name, JObj mo)] /\ ident_or_nl name /\
    required mo "field-type" FT /\ only_keys mo ["field-type"].
Definition members_doc (FT : json -> Prop) (x : json) : Prop :=
  exists l, x = JArr l /\ forall e, In e l -> member_doc FT e.

Definition struct_ft_doc (FT : json -> Prop) (j : json) : Prop :=
  exists m, j = JObj m /\
    required m "class" (str_in struct_names) /\
    optional m "minimum-alignment" (int_val 1%Z None) /\
    optional m "members" (members_doc FT) /\
    only_keys m ["class"; "minimum-alignment"; "members"].

(* static array: [len_required] is the documented form; the schema only gives the other *)
Definition static_array_ft_doc (len_required : bool) (FT : json -> Prop) (j : json) : Prop :=
  exists m, j = JObj m /\
    required m "class" (str_in sarray_names) /\
    required m "element-field-type" FT /\
    (if len_required then required m "length" (int_val 0%Z None)
     else forall x, lookup "length" m = Some x -> int_val 0%Z None x) /\
    only_keys m ["class"; "element-field-type"; "length"].

Definition dynamic_array_ft_doc (FT : json -> Prop) (j : json) : Prop :=
  exists m, j = JObj m /\
    required m "class" (str_in darray_names) /\
    required m "element-field-type" FT /\
    only_keys m ["class"; "element-field-type"].

(* The whole field type tree.  [strict] = the documentation ([true]) or what the unchanged
   schemas enforce ([false]: static array length optional, dynamic array nodes unconstrained
   beyond their class). *)
Inductive ft_doc (strict : bool) : json -> Prop :=
| FtUint j : int_ft_doc int_val uint_names j -> ft_doc strict j
| FtSint j : int_ft_doc int_val sint_names j -> ft_doc strict j
| FtUenum j : enum_ft_doc int_val uenum_names j -> ft_doc strict j
| FtSenum j : enum_ft_doc int_val senum_names j -> ft_doc strict j
| FtReal j : real_ft_doc j -> ft_doc strict j
| FtString j : string_ft_doc j -> ft_doc strict j
| FtSArray j : static_array_ft_doc strict (ft_doc strict) j -> ft_doc strict j
| FtDArray j : dynamic_array_ft_doc (ft_doc strict) j -> ft_doc strict j
| FtDArrayLoose j m : strict = false -> j = JObj m -> required m "class" (str_in darray_names) -> ft_doc strict j
| FtStruct j : struct_ft_doc (ft_doc strict) j -> ft_doc strict j.

(* ---- the configuration *)

(* a feature field type that must be an unsigned integer / enumeration field type *)
Definition feature_uint_ft_doc (j : json) : Prop :=
  int_ft_doc int_val uint_names j \/ enum_ft_doc int_val uenum_names j.
(* true/false/null/field type *)
Definition opt_or_def_feature_doc (x : json) : Prop := is_bool x \/ feature_uint_ft_doc x.
(* true/null/field type (cannot be disabled) *)
Definition opt_feature_doc (x : json) : Prop := x = JBool true \/ feature_uint_ft_doc x.

Definition name_doc (x : json) : Prop :=
  exists s, x = JStr s /\ ident_or_nl s /\ ~ In s ctf_keywords.

Definition ert_doc (strict : bool) (j : json) : Prop :=
  exists m, j = JObj m /\
    optional m "log-level" (int_val 0%Z None) /\
    optional m "specific-context-field-type" (struct_ft_doc (ft_doc strict)) /\
    optional m "payload-field-type" (struct_ft_doc (ft_doc strict)) /\
    only_keys m ["log-level"; "specific-context-field-type"; "payload-field-type"].

Definition dst_packet_features_doc (x : json) : Prop :=
  exists m, x = JObj m /\
    optional m "total-size-field-type" opt_feature_doc /\
    optional m "content-size-field-type" opt_feature_doc /\
    optional m "beginning-timestamp-field-type" opt_or_def_feature_doc /\
    optional m "end-timestamp-field-type" opt_or_def_feature_doc /\
    optional m "discarded-event-records-counter-snapshot-field-type" opt_or_def_feature_doc /\
    optional m "sequence-number-field-type" opt_or_def_feature_doc /\
    only_keys m ["total-size-field-type"; "content-size-field-type"; "beginning-timestamp-field-type";
                 "end-timestamp-field-type"; "discarded-event-records-counter-snapshot-field-type";
                 "sequence-number-field-type"].
Definition dst_er_features_doc (x : json) : Prop :=
  exists m, x = JObj m /\
    optional m "type-id-field-type" opt_or_def_feature_doc /\
    optional m "timestamp-field-type" opt_or_def_feature_doc /\
    only_keys m ["type-id-field-type"; "timestamp-field-type"].
Definition dst_features_doc (x : json) : Prop :=
  exists m, x = JObj m /\
    optional m "packet" dst_packet_features_doc /\
    optional m "event-record" dst_er_features_doc /\
    only_keys m ["packet"; "event-record"].

(* a non-empty mapping whose keys are identifiers and whose values satisfy P *)
Definition named_map (nonempty : bool) (P : json -> Prop) (x : json) : Prop :=
  exists m, x = JObj m /\ (nonempty = true -> m <> []) /\
    forall k v, In (k, v) m -> ident_or_nl k /\ P v.

Definition dst_doc (strict : bool) (j : json) : Prop :=
  exists m, j = JObj m /\
    optional m "$is-default" is_bool /\
    optional m "$default-clock-type-name" name_doc /\
    optional m "$features" dst_features_doc /\
    optional m "packet-context-field-type-extra-members" (members_doc (ft_doc strict)) /\
    optional m "event-record-common-context-field-type" (struct_ft_doc (ft_doc strict)) /\
    required m "event-record-types" (named_map true (ert_doc strict)) /\
    only_keys m ["$is-default"; "$default-clock-type-name"; "$features";
                 "packet-context-field-type-extra-members";
                 "event-record-common-context-field-type"; "event-record-types"].

Definition uuid_or_nl (s : string) : Prop := match_uuid s = true.
Definition clock_offset_doc (x : json) : Prop :=
  exists m, x = JObj m /\
    optional m "cycles" (int_val 0%Z None) /\ optional m "seconds" (int_val 0%Z None) /\
    only_keys m ["cycles"; "seconds"].
Definition clock_type_doc (j : json) : Prop :=
  exists m, j = JObj m /\
    optional m "uuid" (fun x => exists s, x = JStr s /\ uuid_or_nl s) /\
    optional m "description" is_str /\
    optional m "frequency" (int_val 1%Z None) /\
    optional m "precision" (int_val 0%Z None) /\
    optional m "offset" clock_offset_doc /\
    optional m "origin-is-unix-epoch" is_bool /\
    optional m "$c-type" is_str /\
    only_keys m ["uuid"; "description"; "frequency"; "precision"; "offset"; "origin-is-unix-epoch"; "$c-type"].

Definition trace_type_features_doc (x : json) : Prop :=
  exists m, x = JObj m /\
    optional m "magic-field-type"
      (fun x => is_bool x \/ (feature_uint_ft_doc x /\
                              exists mm, x = JObj mm /\ forall s, lookup "size" mm = Some s -> as_int s = Some 32%Z)) /\
    optional m "uuid-field-type"
      (fun x => is_bool x \/ static_array_ft_doc false feature_uint_ft_doc x) /\
    optional m "data-stream-type-id-field-type" opt_or_def_feature_doc /\
    only_keys m ["magic-field-type"; "uuid-field-type"; "data-stream-type-id-field-type"].

Definition trace_type_doc (strict : bool) (j : json) : Prop :=
  exists m, j = JObj m /\
    present m "native-byte-order" (str_in byte_order_names) /\
    present m "trace-byte-order" (str_in byte_order_names) /\
    (has_key "native-byte-order" m = true /\ has_key "trace-byte-order" m = false \/
     has_key "native-byte-order" m = false /\ has_key "trace-byte-order" m = true) /\
    optional m "uuid" (fun x => exists s, x = JStr s /\ (uuid_or_nl s \/ s = "auto")) /\
    optional m "$features" trace_type_features_doc /\
    present m "clock-types" (named_map false clock_type_doc) /\
    required m "data-stream-types" (named_map true (dst_doc strict)) /\
    only_keys m ["native-byte-order"; "trace-byte-order"; "uuid"; "$features"; "clock-types"; "data-stream-types"].

Definition env_doc (x : json) : Prop :=
  exists m, x = JObj m /\ forall k v, In (k, v) m -> ident_or_nl k /\ (is_str v \/ is_int_val v).
Definition trace_doc (strict : bool) (j : json) : Prop :=
  exists m, j = JObj m /\
    required m "type" (trace_type_doc strict) /\
    optional m "environment" env_doc.

Definition prefix_doc (x : json) : Prop :=
  name_doc x \/
  exists m, x = JObj m /\ required m "identifier" name_doc /\ required m "file-name" is_str /\
            only_keys m ["identifier"; "file-name"].
Definition header_opts_doc (x : json) : Prop :=
  exists m, x = JObj m /\
    present m "identifier-prefix-definition" is_bool /\
    present m "default-data-stream-type-name-definition" is_bool /\
    only_keys m ["identifier-prefix-definition"; "default-data-stream-type-name-definition"].
Definition codegen_opts_doc (x : json) : Prop :=
  exists m, x = JObj m /\ present m "prefix" prefix_doc /\ present m "header" header_opts_doc /\
            only_keys m ["prefix"; "header"].
Definition options_doc (x : json) : Prop :=
  exists m, x = JObj m /\ present m "code-generation" codegen_opts_doc /\ only_keys m ["code-generation"].

Definition config_doc (strict : bool) (j : json) : Prop :=
  exists m, j = JObj m /\
    required m "trace" (trace_doc strict) /\
    present m "options" options_doc /\
    only_keys m ["options"; "trace"].

(* "the total size field type is at least as large as the content size field type"
   (dst-obj.adoc), on the sizes of the two feature field types of one packet-features object;
   a missing / true / null feature is the default 64-bit field type *)
Definition feature_size (m : obj) (k : string) : option Z :=
  match lookup k m with
  | Some (JObj ft) => match lookup "size" ft with Some s => as_int s | None => None end
  | _ => Some 64%Z
  end.
Definition total_ge_content (pkt : obj) : Prop :=
  match feature_size pkt "total-size-field-type", feature_size pkt "content-size-field-type" with
  | Some t, Some c => (c <= t)%Z
  | _, _ => True
  end.
