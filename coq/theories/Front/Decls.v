(* C19 / C17: declarations of the generated C files, as scanned from the templates
   (Gen/Decls.v, tools/cdecl_scan.py).  Model only; proofs in DeclsProps.v. *)
From Coq Require Import List NArith Bool String.
Import ListNotations.
From BT.Front Require Import Prefix.
Open Scope N_scope.

Inductive piece :=
| PLit (s : str)         (* literal template text *)
| PPrefix                (* {{ prefix }} = cfg.options.code_generation_options.identifier_prefix *)
| PUcPrefix              (* {{ ucprefix }} = prefix | upper *)
| POther (e : str).      (* any other {{ expression }}, by its text (dst.name, ert.name, ...) *)

Inductive dscope := FileScope | BlockScope.
Inductive dstorage :=
| SStatic                (* `static` *)
| SExtern                (* file scope, no storage class specifier (or `extern`): external linkage *)
| SNone.                 (* macros, tags *)
Inductive dkind := KFuncDecl | KFuncDef | KObject | KMacro | KTag.

Record decl := mk_decl {
  d_tmpl : str;
  d_scope : dscope;
  d_storage : dstorage;
  d_const : bool;
  d_kind : dkind;
  d_name : list piece;
  d_body : list (list piece)     (* macro replacement list: the identifier tokens *)
}.

(* a rendering environment: the identifier prefix and the value of every other placeholder *)
Definition render_piece (p : str) (sigma : str -> str) (x : piece) : str :=
  match x with
  | PLit s => s
  | PPrefix => p
  | PUcPrefix => upper p
  | POther e => sigma e
  end.

Definition render_name (p : str) (sigma : str -> str) (n : list piece) : str :=
  flat_map (render_piece p sigma) n.

Definition is_c_template (d : decl) : bool := str_eqb (d_tmpl d) (s2l "c/barectf.c.j2").

Definition dscope_file (d : decl) : bool := match d_scope d with FileScope => true | _ => false end.
Definition dstorage_extern (d : decl) : bool := match d_storage d with SExtern => true | _ => false end.
Definition dstorage_static (d : decl) : bool := match d_storage d with SStatic => true | _ => false end.
Definition is_def (d : decl) : bool := match d_kind d with KFuncDef | KObject => true | _ => false end.
Definition is_object (d : decl) : bool := match d_kind d with KObject => true | _ => false end.

(* external symbols DEFINED by the generated source: file-scope function definitions and objects
   of the .c template without `static` *)
Definition ext_defs (ds : list decl) : list decl :=
  filter (fun d => is_c_template d && dscope_file d && dstorage_extern d && is_def d) ds.

Definition starts_with_prefix (n : list piece) : bool :=
  match n with PPrefix :: _ => true | _ => false end.

Definition all_ext_prefixed (ds : list decl) : bool :=
  forallb (fun d => starts_with_prefix (d_name d)) (ext_defs ds).

(* objects with static storage duration: every file-scope object and every block-scope `static` *)
Definition static_duration (d : decl) : bool :=
  is_object d && (dscope_file d || dstorage_static d).

Definition no_writable_static_b (ds : list decl) : bool :=
  forallb (fun d => implb (static_duration d) (d_const d)) ds.

(* ---- symbol set predicted for a configuration: (stream name, its event record type names) --- *)
Definition sigma_of (dst ert : str) : str -> str :=
  fun e => if str_eqb e (s2l "dst.name") then dst
           else if str_eqb e (s2l "ert.name") then ert else s2l "?".

Fixpoint mentions (e : str) (n : list piece) : bool :=
  match n with
  | [] => false
  | POther x :: t => str_eqb x e || mentions e t
  | _ :: t => mentions e t
  end.

Fixpoint dedup (l : list str) : list str :=
  match l with
  | [] => []
  | x :: t => if existsb (str_eqb x) t then dedup t else x :: dedup t
  end.

(* instantiate a family of declarations over the streams / event record types of a configuration *)
Definition instances (p : str) (cfg : list (str * list str)) (ds : list decl) : list str :=
  flat_map (fun d =>
    let n := d_name d in
    if mentions (s2l "ert.name") n then
      flat_map (fun se => map (fun e => render_name p (sigma_of (fst se) e) n) (snd se)) cfg
    else if mentions (s2l "dst.name") n then
      map (fun se => render_name p (sigma_of (fst se) []) n) cfg
    else [render_name p (sigma_of [] []) n]) ds.

(* what `nm` must show as defined external (T) symbols of PREFIX.o *)
Definition predicted_symbols (p : str) (cfg : list (str * list str)) (ds : list decl) : list str :=
  dedup (instances p cfg (ext_defs ds)).

(* ---- file names (barectf/codegen.py through Gen/PyFuns.v) ---- *)

(* ---- default-stream shorthand macros and tracepoint() ---- *)
Definition def_dst_expr : str := s2l "cfg.options.code_generation_options.default_data_stream_type.name".

Definition subst_piece (from to : str) (x : piece) : piece :=
  match x with
  | POther e => if str_eqb e from then POther to else x
  | _ => x
  end.

Definition piece_eqb (a b : piece) : bool :=
  match a, b with
  | PLit x, PLit y => str_eqb x y
  | PPrefix, PPrefix => true
  | PUcPrefix, PUcPrefix => true
  | POther x, POther y => str_eqb x y
  | _, _ => false
  end.

Fixpoint pieces_eqb (a b : list piece) : bool :=
  match a, b with
  | [], [] => true
  | x :: a', y :: b' => piece_eqb x y && pieces_eqb a' b'
  | _, _ => false
  end.

(* merge adjacent literals so that [PLit "a"; PLit "b"] and [PLit "ab"] compare equal *)
Fixpoint norm_pieces (n : list piece) : list piece :=
  match n with
  | PLit a :: t =>
      match norm_pieces t with
      | PLit b :: t' => PLit (a ++ b) :: t'
      | r => PLit a :: r
      end
  | x :: t => x :: norm_pieces t
  | [] => []
  end.

Definition trace_func_name : list piece :=
  [PPrefix; POther (s2l "dst.name"); PLit (s2l "_trace_"); POther (s2l "ert.name")].
Definition trace_macro_name : list piece :=
  [PPrefix; PLit (s2l "trace_"); POther (s2l "ert.name")].

(* the public tracing function is declared / defined with exactly this name *)
Definition has_decl (ds : list decl) (tmpl : str) (k : dkind -> bool) (n : list piece) : bool :=
  existsb (fun d => str_eqb (d_tmpl d) tmpl && k (d_kind d) && pieces_eqb (norm_pieces (d_name d)) (norm_pieces n)) ds.

Definition is_macro (k : dkind) : bool := match k with KMacro => true | _ => false end.
Definition is_funcdef (k : dkind) : bool := match k with KFuncDef => true | _ => false end.
Definition is_funcdecl (k : dkind) : bool := match k with KFuncDecl => true | _ => false end.

(* every `#define PREFIXtrace_E` of the header has as replacement list the single token that is the
   tracing function name with the default stream's name for the stream *)
Definition default_macro_resolves_b (ds : list decl) : bool :=
  existsb (fun d => is_macro (d_kind d) && pieces_eqb (norm_pieces (d_name d)) (norm_pieces trace_macro_name)) ds &&
  forallb (fun d =>
    implb (is_macro (d_kind d) && pieces_eqb (norm_pieces (d_name d)) (norm_pieces trace_macro_name))
          (match d_body d with
           | [b] => pieces_eqb (norm_pieces b) (norm_pieces (map (subst_piece (s2l "dst.name") def_dst_expr) trace_func_name))
           | _ => false
           end)) ds &&
  has_decl ds (s2l "c/barectf.h.j2") is_funcdecl trace_func_name &&
  has_decl ds (s2l "c/barectf.c.j2") is_funcdef trace_func_name.

(* tracepoint(prov, tp): the six pasted tokens, with _BARECTF_TRACEPOINT_PREFIX and
   _BARECTF_TRACEPOINT_DST_NAME falling back on the header's option definitions
   `#define _BARECTF_IDENTIFIER_PREFIX {{ prefix }}` / `#define _BARECTF_DEFAULT_DATA_STREAM_TYPE_NAME {{ def_dst.name }}` *)
Definition macro_body (ds : list decl) (name : str) : option (list (list piece)) :=
  match find (fun d => is_macro (d_kind d) && pieces_eqb (norm_pieces (d_name d)) [PLit name]) ds with
  | Some d => Some (d_body d)
  | None => None
  end.

Definition tracepoint_pieces (ds : list decl) (toks : list str) : option (list piece) :=
  match toks with
  | [_; _; c; _; e; _] =>
      match macro_body ds (s2l "_BARECTF_IDENTIFIER_PREFIX"), macro_body ds (s2l "_BARECTF_DEFAULT_DATA_STREAM_TYPE_NAME") with
      | Some [pa], Some [pb] => Some (pa ++ pb ++ [PLit c; POther (s2l "_prov_name"); PLit e; POther (s2l "_tp_name")])
      | _, _ => None
      end
  | _ => None
  end.

(* it is the tracing function name of the default stream for the event record type PROV_TP *)
Definition tracepoint_resolves_b (ds : list decl) (toks prefix_srcs dst_srcs : list str) : bool :=
  match tracepoint_pieces ds toks with
  | Some n =>
      pieces_eqb (norm_pieces n)
        (norm_pieces [PPrefix; POther def_dst_expr; PLit (s2l "_trace_"); POther (s2l "_prov_name"); PLit (s2l "_"); POther (s2l "_tp_name")]) &&
      existsb (str_eqb (s2l "_BARECTF_IDENTIFIER_PREFIX")) prefix_srcs &&
      existsb (str_eqb (s2l "_BARECTF_DEFAULT_DATA_STREAM_TYPE_NAME")) dst_srcs
  | None => false
  end.

(* ---- correspondence cases (harness/props/c19.py) ---- *)
Definition set_eqb (a b : list str) : bool :=
  forallb (fun s => existsb (str_eqb s) b) a && forallb (fun s => existsb (str_eqb s) a) b.

(* (prefix, [(stream, [event record types])], external symbols `nm` shows as defined) *)
Definition symbols_case_ok (ds : list decl) (c : str * list (str * list str) * list str) : bool :=
  set_eqb (predicted_symbols (fst (fst c)) (snd (fst c)) ds) (snd c).

(* (prefix, default stream name, event record type name, token the preprocessor produced) *)
Definition macro_case_ok (c : str * str * str * str) : bool :=
  str_eqb (render_name (fst (fst (fst c))) (sigma_of (snd (fst (fst c))) (snd (fst c))) trace_func_name) (snd c).

Fixpoint failing_cases {A} (ok : A -> bool) (i : nat) (l : list A) : list nat :=
  match l with
  | [] => []
  | x :: t => if ok x then failing_cases ok (S i) t else i :: failing_cases ok (S i) t
  end.
