(* Strings as lists of Unicode code points (list N) and the handful of Python str operations the
   translated functions (Gen/PyFuns.v) use.  Model only; proofs are in PrefixProofs.v. *)
From Coq Require Import List NArith Bool Ascii String DecimalString.
Import ListNotations.
Open Scope N_scope.

Definition str := list N.

(* literal helper: s2l "abc" = [97;98;99] (ASCII literals only) *)
Fixpoint s2l (s : string) : str :=
  match s with
  | EmptyString => []
  | String a t => N_of_ascii a :: s2l t
  end.

Fixpoint str_eqb (a b : str) : bool :=
  match a, b with
  | [], [] => true
  | x :: a', y :: b' => (x =? y) && str_eqb a' b'
  | _, _ => false
  end.

(* Python's str < : lexicographic on code points, a proper prefix is smaller *)
Fixpoint str_ltb (a b : str) : bool :=
  match a, b with
  | [], [] => false
  | [], _ :: _ => true
  | _ :: _, [] => false
  | x :: a', y :: b' => if x <? y then true else if y <? x then false else str_ltb a' b'
  end.

Definition str_leb (a b : str) : bool := negb (str_ltb b a).

(* s.startswith(p) *)
Fixpoint is_prefix (p s : str) : bool :=
  match p, s with
  | [], _ => true
  | x :: p', y :: s' => (x =? y) && is_prefix p' s'
  | _ :: _, [] => false
  end.

Definition ends_with (s suf : str) : bool := is_prefix (rev suf) (rev s).

(* s.rstrip(c) for a one-character argument *)
Fixpoint rstrip_char (c : N) (s : str) : str :=
  match s with
  | [] => []
  | x :: t =>
      match rstrip_char c t with
      | [] => if x =? c then [] else [x]
      | r => x :: r
      end
  end.

(* s.replace(c, r) for a one-character pattern c *)
Definition replace_char (c : N) (r : str) (s : str) : str :=
  flat_map (fun x => if x =? c then r else [x]) s.

(* str(n) / f'{n}' for a non-negative int *)
Definition dec (n : N) : str := s2l (NilEmpty.string_of_uint (N.to_uint n)).

(* ASCII upper (identifier prefixes are C identifiers) *)
Definition upper_char (c : N) : N := if (97 <=? c) && (c <=? 122) then c - 32 else c.
Definition upper (s : str) : str := map upper_char s.

(* s[i] *)
Definition str_index (s : str) (i : N) : option N := nth_error s (N.to_nat i).

(* ---- prefixes ------------------------------------------------------------------------- *)

(* barectf 2 prefix -> barectf 3 (identifier prefix, file name prefix); what Gen/PyFuns.v must
   contain for config_parse_common._v3_prefixes_from_v2_prefix *)
Definition spec_v3_prefixes_from_v2 (p : str) : str * str := (p, rstrip_char 95 p).

(* names of the generated files for a file name prefix (documented in cli/usage: PREFIX.h,
   PREFIX-bitfield.h, PREFIX.c, metadata) *)
Definition doc_file_names (fp : str) : list str :=
  [fp ++ s2l ".h"; fp ++ s2l "-bitfield.h"; fp ++ s2l ".c"; s2l "metadata"].
