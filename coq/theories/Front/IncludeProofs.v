(* C12 — proofs about the inclusion model (Front/Include.v). *)
From Coq Require Import List String ZArith Bool.
Import ListNotations.
From BT.Front Require Import Yaml YamlRes Patch Include.
Open Scope string_scope.
Open Scope list_scope.

Section Proofs.
  Variables (v3 : bool) (fs : entries) (dirs : list string).
  Variable rec : list string -> kind -> yaml -> res yaml.

  (* inclusion files are searched in the given directories IN ORDER: the file found is in the
     first directory of the list that has it *)
  Theorem find_file_first : forall ds p full t,
    find_file fs ds p = Some (full, t) ->
    exists ds1 d ds2, ds = ds1 ++ d :: ds2 /\ full = join d p /\ lookup full fs = Some t
                      /\ Forall (fun d' => lookup (join d' p) fs = None) ds1.
  Proof.
    induction ds as [|d ds IH]; intros p full t H; [discriminate|].
    simpl in H. destruct (lookup (join d p) fs) as [t'|] eqn:E.
    - inversion H. subst. exists [], d, ds. auto.
    - destruct (IH _ _ _ H) as (ds1 & d' & ds2 & -> & Hf & Hl & Hall).
      exists (d :: ds1), d', ds2. repeat split; auto.
  Qed.

  Theorem find_file_none : forall ds p,
    find_file fs ds p = None -> Forall (fun d => lookup (join d p) fs = None) ds.
  Proof.
    induction ds as [|d ds IH]; intros p H; [constructor|].
    simpl in H. destruct (lookup (join d p) fs) eqn:E; [discriminate|]. constructor; auto.
  Qed.

  (* a file that is already on the inclusion stack: configuration error *)
  Lemma include_one_cycle : forall ign stack k base p ft,
    find_file fs dirs p = Some ft -> mem (fst ft) stack = true ->
    exists w, include_one v3 ign fs dirs rec stack k (Ok base) p = CfgErr w.
  Proof. intros. unfold include_one. simpl. rewrite H, H0. eauto. Qed.

  Lemma include_one_not_found : forall stack k base p,
    find_file fs dirs p = None ->
    exists w, include_one v3 false fs dirs rec stack k (Ok base) p = CfgErr w.
  Proof. intros. unfold include_one. simpl. rewrite H. eauto. Qed.

  Lemma include_one_err : forall ign stack k p w,
    include_one v3 ign fs dirs rec stack k (CfgErr w) p = CfgErr w.
  Proof. reflexivity. Qed.

  Lemma fold_include_err : forall ign stack k ps w,
    fold_left (include_one v3 ign fs dirs rec stack k) ps (CfgErr w) = CfgErr w.
  Proof. induction ps; simpl; auto. Qed.

  Lemma fold_include_ok_inv : forall ign stack k ps r rb,
    fold_left (include_one v3 ign fs dirs rec stack k) ps r = Ok rb -> exists b, r = Ok b.
  Proof.
    induction ps as [|p ps IH]; intros r rb H; simpl in H; [eauto|].
    apply IH in H. destruct H as [b H]. destruct r; try discriminate. eauto.
  Qed.

  (* one listed file, successfully included *)
  Definition included (stack : list string) (k : kind) (p : string) (f' : yaml) : Prop :=
    exists ft, find_file fs dirs p = Some ft /\ mem (fst ft) stack = false
               /\ rec (fst ft :: stack) k (snd ft) = Ok f'.

  Lemma include_fold_order : forall stack k ps base rb,
    fold_left (include_one v3 false fs dirs rec stack k) ps (Ok base) = Ok rb ->
    exists fl, Forall2 (included stack k) ps fl /\ apply_all v3 base fl = Ok rb.
  Proof.
    induction ps as [|p ps IH]; intros base rb H; simpl in H.
    - inversion H. exists []. split; [constructor|reflexivity].
    - destruct (fold_include_ok_inv _ _ _ _ _ _ H) as [b1 Hb1]. rewrite Hb1 in H.
      destruct (IH _ _ H) as (fl & Hfl & Hap). clear IH H.
      unfold include_one in Hb1. simpl in Hb1.
      destruct (find_file fs dirs p) as [ft|] eqn:Ef; [|discriminate].
      destruct (mem (fst ft) stack) eqn:Em; [discriminate|].
      apply rbind_ok in Hb1. destruct Hb1 as (ov & Hov & Hb1).
      exists (ov :: fl). split.
      + constructor; [|assumption]. exists ft. auto.
      + simpl. destruct base as [b|].
        * apply rbind_ok in Hb1. destruct Hb1 as (r & Hr & Hb1). inversion Hb1. subst b1.
          rewrite Hr. simpl. assumption.
        * inversion Hb1. subst b1. assumption.
  Qed.
End Proofs.

Lemma process_S : forall fuel v3 ign fs dirs stack k node,
  process (S fuel) v3 ign fs dirs stack k node
  = step v3 ign fs dirs (process fuel v3 ign fs dirs) stack k node.
Proof. reflexivity. Qed.

(* include_order: what an object with an `$include` property evaluates to.
   nl1 is the object after its children were processed; the listed files f1..fn are found in the
   directories in order, processed recursively (inclusion stack extended by the file), and then
       result = update (... (update (update f1' f2') f3') ...) (object without `$include`)
   i.e. bases applied in the order listed, the including object last. *)
Theorem include_order : forall fuel v3 fs dirs stack k nl nl1 inc ps r,
  fold_left (process_child (process fuel v3 false fs dirs) stack) (children v3 k) (Ok nl) = Ok nl1 ->
  lookup "$include" nl1 = Some inc -> include_paths inc = Some ps ->
  process (S fuel) v3 false fs dirs stack k (YMap nl) = Ok r ->
  exists fl,
    Forall2 (included fs dirs (process fuel v3 false fs dirs) stack k) ps fl
    /\ match fl with
       | [] => r = YMap (remove "$include" nl1)
       | _ => exists b, apply_all v3 None fl = Ok (Some b)
                        /\ update v3 b (YMap (remove "$include" nl1)) = Some r
       end.
Proof.
  intros fuel v3 fs dirs stack k nl nl1 inc ps r Hc Hi Hp H.
  rewrite process_S in H. unfold step in H. unfold entries in *. rewrite Hc in H. cbn [rbind] in H. rewrite Hi, Hp in H.
  apply rbind_ok in H. destruct H as (rb & Hall & H).
  unfold include_all in Hall. apply include_fold_order in Hall.
  destruct Hall as (fl & Hfl & Hap). exists fl. split; [assumption|].
  destruct fl as [|f fl].
  - simpl in Hap. inversion Hap. subst rb. now inversion H.
  - destruct rb as [b|].
    + exists b. split; [assumption|]. destruct (update v3 b _); simpl in H; [now inversion H|discriminate].
    + exfalso. clear - Hap. simpl in Hap. revert f Hap. induction fl as [|g fl IH]; intros f Hap; simpl in Hap; [discriminate|].
      destruct (update v3 f g); simpl in Hap; [eauto|discriminate].
Qed.

(* without `$include` the object is returned as it is (children processed) *)
Theorem include_none : forall fuel v3 ign fs dirs stack k nl nl1,
  fold_left (process_child (process fuel v3 ign fs dirs) stack) (children v3 k) (Ok nl) = Ok nl1 ->
  lookup "$include" nl1 = None ->
  process (S fuel) v3 ign fs dirs stack k (YMap nl) = Ok (YMap nl1).
Proof. intros. rewrite process_S. unfold step. unfold entries in *. rewrite H. cbn [rbind]. now rewrite H0. Qed.

(* include_cycle_error: if, after some listed files were included, the next one is found to be a
   file that is already being included (on the stack), the result is a configuration error *)
Theorem include_cycle_error : forall fuel v3 ign fs dirs stack k nl nl1 inc ps1 p ps2 b ft,
  fold_left (process_child (process fuel v3 ign fs dirs) stack) (children v3 k) (Ok nl) = Ok nl1 ->
  lookup "$include" nl1 = Some inc -> include_paths inc = Some (ps1 ++ p :: ps2) ->
  fold_left (include_one v3 ign fs dirs (process fuel v3 ign fs dirs) stack k) ps1 (Ok None) = Ok b ->
  find_file fs dirs p = Some ft -> mem (fst ft) stack = true ->
  exists w, process (S fuel) v3 ign fs dirs stack k (YMap nl) = CfgErr w.
Proof.
  intros fuel v3 ign fs dirs stack k nl nl1 inc ps1 p ps2 b ft Hc Hi Hp H1 Hf Hm.
  rewrite process_S. unfold step. unfold entries in *. rewrite Hc. cbn [rbind]. rewrite Hi, Hp. unfold include_all.
  rewrite fold_left_app, H1. cbn [fold_left].
  destruct (include_one_cycle v3 fs dirs (process fuel v3 ign fs dirs) ign stack k b p ft Hf Hm) as [w Hw].
  rewrite Hw, fold_include_err. simpl. eauto.
Qed.

(* ... and a missing file is a configuration error unless told to ignore it *)
Theorem include_not_found_error : forall fuel v3 fs dirs stack k nl nl1 inc ps1 p ps2 b,
  fold_left (process_child (process fuel v3 false fs dirs) stack) (children v3 k) (Ok nl) = Ok nl1 ->
  lookup "$include" nl1 = Some inc -> include_paths inc = Some (ps1 ++ p :: ps2) ->
  fold_left (include_one v3 false fs dirs (process fuel v3 false fs dirs) stack k) ps1 (Ok None) = Ok b ->
  find_file fs dirs p = None ->
  exists w, process (S fuel) v3 false fs dirs stack k (YMap nl) = CfgErr w.
Proof.
  intros fuel v3 fs dirs stack k nl nl1 inc ps1 p ps2 b Hc Hi Hp H1 Hf.
  rewrite process_S. unfold step. unfold entries in *. rewrite Hc. cbn [rbind]. rewrite Hi, Hp. unfold include_all.
  rewrite fold_left_app, H1. cbn [fold_left].
  destruct (include_one_not_found v3 fs dirs (process fuel v3 false fs dirs) stack k b p Hf) as [w Hw].
  rewrite Hw, fold_include_err. simpl. eauto.
Qed.

(* ------------------------------------------------------------------ examples (non-vacuity) *)
Definition ex_fs : entries :=
  [("d1/a.yaml", YMap [("$include", YSeq [YStr "b.yaml"]); ("x", YInt 1)]);
   ("d2/a.yaml", YMap [("x", YInt 99)]);                              (* shadowed by d1/a.yaml *)
   ("d2/b.yaml", YMap [("$include", YStr "a.yaml"); ("y", YInt 2)]);  (* a -> b -> a *)
   ("d2/c.yaml", YMap [("x", YInt 3); ("l", YSeq [YInt 1])]);
   ("d1/d.yaml", YMap [("$include", YSeq [YStr "c.yaml"]); ("l", YSeq [YInt 2])]);
   ("d2/e.yaml", YMap [("$include", YSeq [YStr "c.yaml"]); ("x", YNull)]);
   ("d1/self.yaml", YMap [("$include", YSeq [YStr "self.yaml"])])].

(* a -> b -> a is a configuration error, at any of the kinds, for any fuel that reaches it *)
Example include_cycle_example : forall fuel,
  is_cfgerr (process (3 + fuel) true false ex_fs ["d1"; "d2"] [] KErt
                     (YMap [("$include", YSeq [YStr "a.yaml"]); ("z", YInt 0)])) = true.
Proof. intros. reflexivity. Qed.

Example include_self_example : forall fuel,
  is_cfgerr (process (2 + fuel) true false ex_fs ["d1"; "d2"] [] KClock
                     (YMap [("$include", YStr "self.yaml")])) = true.
Proof. intros. reflexivity. Qed.

(* the same file reached twice through different files is NOT a cycle; order: d, then e, then the
   including object; shadowing: with ["d2"; "d1"] the other a.yaml is found *)
Example include_diamond_example :
  process 5 true false ex_fs ["d1"; "d2"] [] KClock
          (YMap [("$include", YSeq [YStr "d.yaml"; YStr "e.yaml"]); ("w", YBool true)])
  = Ok (YMap [("x", YNull); ("l", YSeq [YInt 1; YInt 2; YInt 1]); ("w", YBool true)]).
Proof. reflexivity. Qed.

Example include_shadow_example :
  process 5 true false ex_fs ["d2"; "d1"] [] KClock (YMap [("$include", YSeq [YStr "a.yaml"])])
  = Ok (YMap [("x", YInt 99)]).
Proof. reflexivity. Qed.

(* children first: a trace type includes a file that brings a data stream type which itself
   includes; the including object's own event record type includes too *)
Example include_children_example :
  process 8 true false
    [("d/tt.yaml", YMap [("data-stream-types", YMap [("ds", YMap [("$include", YSeq [YStr "ds.yaml"]); ("a", YInt 1)])])]);
     ("d/ds.yaml", YMap [("b", YInt 2); ("event-record-types", YMap [("ev", YMap [("p", YInt 0)])])]);
     ("d/ev.yaml", YMap [("p", YInt 5); ("q", YInt 6)])]
    ["d"] [] KTraceType
    (YMap [("$include", YSeq [YStr "tt.yaml"]);
           ("data-stream-types", YMap [("ds", YMap [("event-record-types", YMap [("ev", YMap [("$include", YSeq [YStr "ev.yaml"]); ("q", YInt 7)])])])])])
  = Ok (YMap [("data-stream-types", YMap [("ds", YMap [("b", YInt 2);
                ("event-record-types", YMap [("ev", YMap [("p", YInt 5); ("q", YInt 7)])]); ("a", YInt 1)])])]).
Proof. reflexivity. Qed.
