(* C18 — what a configuration document MEANS, read directly, without the converter.

   `v2_sem`  : a barectf 2 document (after inclusions / aliases / inheritance) -> abstract configuration
   `v3_sem`  : a barectf 3 document of the shape the converter produces       -> abstract configuration

   The barectf 2 reading is written from schemas/config/2/*.yaml (which properties exist, which member
   names are reserved and what they are constrained to be), include/2/*.yaml, the barectf 2 test
   configurations and the CTF meaning of the reserved names; it shares NO definition with V2Conv.v
   (different algorithms on purpose: enumeration values are computed member by member from the previous
   member, labels are grouped by filtering, the file name prefix is computed by reversing the string).
   The barectf 3 reading is written from docs/modules/yaml/pages/*.adoc.

   Both readings are fuelled on the NESTING DEPTH OF FIELD TYPES only (array in array in structure);
   None = the document is outside the reading (or fuel ran out); the theorems assume `valid_v2`,
   which implies the reading is defined.

   Reading decisions (DESIGN.md section 9, S17):
   * null = absent, everywhere (both dialects say so);
   * the byte order of the barectf 2 trace is the barectf 3 `trace-byte-order`; the `byte-order` and
     `encoding` properties of a barectf 2 integer / string are NOT part of the abstract configuration
     (property text: "same byte order as trace byte order");
   * a clock property absent from the document is absent from the abstract clock (S17: `absolute`);
   * an integer `property-mappings: [{type: clock, name: C, property: value}]` means "this member is a
     value of clock C" wherever it is written; in barectf 3 the timestamp features are values of the
     data stream type's default clock and no other member can be mapped;
   * `packet_seq_num` in a barectf 2 packet context is the packet sequence number (barectf 3:
     `sequence-number-field-type`); other members of the packet header / event header are user members. *)
From Coq Require Import List String ZArith Bool Ascii.
Import ListNotations.
From BT.Front Require Import Yaml.
Open Scope string_scope.
Open Scope list_scope.

(* ================================================================== abstract configuration *)
Inductive base : Type := Bin | Oct | Dec | Hex.
Inductive byte_order : Type := LE | BE.

Inductive ft : Type :=
| FInt (size : Z) (signed : bool) (align : option Z) (b : option base) (clk : option string)
| FEnum (size : Z) (signed : bool) (align : option Z) (b : option base) (clk : option string)
        (ranges : list (string * list (Z * Z)))
| FReal (size : Z) (align : option Z)
| FStr
| FSArr (len : Z) (elem : ft)
| FDArr (elem : ft)
| FStruct (min_align : option Z) (members : list (string * ft)).

Record clock : Type := mkClock {
  c_freq : option Z; c_prec : option Z; c_off_s : option Z; c_off_c : option Z;
  c_abs : option bool; c_desc : option string; c_uuid : option string; c_ctype : option string }.

Inductive level : Type := LNum (n : Z) | LAlias (name : string).

Record event : Type := mkEvent { e_level : option level; e_ctx : option ft; e_payload : option ft }.

Record stream : Type := mkStream {
  s_default : bool;
  s_clock : option string;
  s_total : ft; s_content : ft;
  s_beg : option ft; s_end : option ft; s_disc : option ft; s_seq : option ft;
  s_extra : list (string * ft);
  s_id : option ft; s_ts : option ft; s_eh_extra : list (string * ft);
  s_ctx : option ft;
  s_events : list (string * event) }.

Record config : Type := mkConfig {
  g_bo : byte_order;
  g_uuid : option string;
  g_env : option entries;
  g_levels : option entries;
  g_clocks : list (string * clock);
  g_magic : option ft; g_uuid_ft : option ft; g_sid : option ft; g_ph_extra : list (string * ft);
  g_streams : list (string * stream);
  g_prefix_id : string; g_prefix_file : string;
  g_hdr_prefix_def : option bool; g_hdr_dst_def : option bool }.

(* ================================================================== small readers (null = absent) *)
Definition obind {A B} (o : option A) (f : A -> option B) : option B :=
  match o with Some x => f x | None => None end.

Fixpoint omapM {A B} (f : A -> option B) (l : list A) : option (list B) :=
  match l with
  | [] => Some []
  | x :: l' => obind (f x) (fun y => obind (omapM f l') (fun r => Some (y :: r)))
  end.

Definition opt_of (k : string) (l : entries) : option yaml :=
  match lookup k l with Some YNull | None => None | Some y => Some y end.

(* an optional property of a given kind: Some None = absent, None = present with the wrong kind *)
Definition rd_z (k : string) (l : entries) : option (option Z) :=
  match opt_of k l with None => Some None | Some (YInt z) => Some (Some z) | Some _ => None end.
Definition rd_b (k : string) (l : entries) : option (option bool) :=
  match opt_of k l with None => Some None | Some (YBool b) => Some (Some b) | Some _ => None end.
Definition rd_s (k : string) (l : entries) : option (option string) :=
  match opt_of k l with None => Some None | Some (YStr s) => Some (Some s) | Some _ => None end.

Definition base_of (s : string) : option base :=
  if String.eqb s "bin" || String.eqb s "binary" then Some Bin
  else if String.eqb s "oct" || String.eqb s "octal" then Some Oct
  else if String.eqb s "dec" || String.eqb s "decimal" then Some Dec
  else if String.eqb s "hex" || String.eqb s "hexadecimal" then Some Hex
  else None.

Definition rd_base (k : string) (l : entries) : option (option base) :=
  match opt_of k l with
  | None => Some None
  | Some (YStr s) => option_map Some (base_of s)
  | Some _ => None
  end.

Definition bo_of (s : string) : option byte_order :=
  if String.eqb s "le" || String.eqb s "little" || String.eqb s "little-endian" then Some LE
  else if String.eqb s "be" || String.eqb s "big" || String.eqb s "big-endian" then Some BE
  else None.

Definition one_of (s : string) (l : list string) : bool := existsb (String.eqb s) l.

Definition keys_in (allowed : list string) (l : entries) : bool :=
  forallb (fun k => one_of k allowed) (keys l).

(* ================================================================== barectf 2: enumeration members *)
Inductive member : Type :=
| MAuto (label : string)
| MVal (label : string) (v : Z)
| MRange (label : string) (lo hi : Z).

Definition member_of (y : yaml) : option member :=
  match y with
  | YStr s => Some (MAuto s)
  | YMap ml =>
      if negb (keys_in ["label"; "value"] ml) then None else
      match lookup "label" ml, lookup "value" ml with
      | Some (YStr s), Some (YInt v) => Some (MVal s v)
      | Some (YStr s), Some (YSeq [YInt lo; YInt hi]) => Some (MRange s lo hi)
      | _, _ => None
      end
  | _ => None
  end.

Definition m_label (m : member) : string :=
  match m with MAuto s | MVal s _ | MRange s _ _ => s end.

(* The range of a member, knowing the range of the member written just before it (None for the first
   member): an explicit member says it; a bare label takes the value after the previous member's
   upper bound, 0 when it is the first. *)
Definition m_range (prev : option (Z * Z)) (m : member) : Z * Z :=
  match m with
  | MVal _ v => (v, v)
  | MRange _ lo hi => (lo, hi)
  | MAuto _ => match prev with
               | None => (0, 0)%Z
               | Some (_, hi) => (hi + 1, hi + 1)%Z
               end
  end.

(* ranges of all members, in document order (computed from the END of the already processed prefix:
   `done` is reversed) *)
Fixpoint ranges_from (done_rev : list (string * (Z * Z))) (ms : list member) : list (string * (Z * Z)) :=
  match ms with
  | [] => rev done_rev
  | m :: ms' =>
      let prev := match done_rev with [] => None | p :: _ => Some (snd p) end in
      ranges_from ((m_label m, m_range prev m) :: done_rev) ms'
  end.

Definition ranges_of (ms : list member) : list (string * (Z * Z)) := ranges_from [] ms.

(* labels in order of first appearance *)
Fixpoint first_labels (seen : list string) (l : list string) : list string :=
  match l with
  | [] => []
  | x :: l' => if one_of x seen then first_labels seen l' else x :: first_labels (x :: seen) l'
  end.

(* label -> its ranges in document order *)
Definition group (rs : list (string * (Z * Z))) : list (string * list (Z * Z)) :=
  map (fun lab => (lab, map snd (filter (fun r => String.eqb (fst r) lab) rs)))
      (first_labels [] (map fst rs)).

(* ================================================================== barectf 2: field types *)
Definition v2_int_keys := ["class"; "size"; "signed"; "align"; "byte-order"; "base"; "encoding"; "property-mappings"].

(* `property-mappings`: null / absent, or exactly one {type: clock, name: C, property: value} *)
Definition rd_mapping (l : entries) : option (option string) :=
  match opt_of "property-mappings" l with
  | None => Some None
  | Some (YSeq [YMap m]) =>
      match lookup "name" m with Some (YStr c) => Some (Some c) | _ => None end
  | Some _ => None
  end.

(* the five attributes of an integer: size, signedness, alignment, display base, mapped clock *)
Definition int_attrs : Type := (Z * bool * option Z * option base * option string)%type.

Definition v2_int (l : entries) : option int_attrs :=
  if negb (keys_in v2_int_keys l) then None else
  match lookup "class" l with
  | Some (YStr c) =>
      if negb (one_of c ["int"; "integer"]) then None else
      match lookup "size" l with
      | Some (YInt sz) =>
          obind (rd_b "signed" l) (fun sg =>
          obind (rd_z "align" l) (fun al =>
          obind (rd_base "base" l) (fun b =>
          obind (rd_mapping l) (fun ck =>
            Some (sz, match sg with Some true => true | _ => false end, al, b, ck)))))
      | _ => None
      end
  | _ => None
  end.

Definition mk_int (a : int_attrs) : ft :=
  match a with (sz, sg, al, b, ck) => FInt sz sg al b ck end.
Definition mk_enum (a : int_attrs) (r : list (string * list (Z * Z))) : ft :=
  match a with (sz, sg, al, b, ck) => FEnum sz sg al b ck r end.

Definition class_of (l : entries) : option string :=
  match lookup "class" l with Some (YStr c) => Some c | _ => None end.

Fixpoint v2_ft (fuel : nat) (y : yaml) : option ft :=
  match fuel with
  | O => None
  | S fuel' =>
      match y with
      | YMap l =>
          obind (class_of l) (fun c =>
          if one_of c ["int"; "integer"] then option_map mk_int (v2_int l)
          else if one_of c ["enum"; "enumeration"] then
            if negb (keys_in ["class"; "value-type"; "members"] l) then None else
            match lookup "value-type" l, lookup "members" l with
            | Some (YMap vl), Some (YSeq ms) =>
                obind (v2_int vl) (fun a =>
                obind (omapM member_of ms) (fun mems => Some (mk_enum a (group (ranges_of mems)))))
            | _, _ => None
            end
          else if one_of c ["flt"; "float"; "floating-point"] then
            if negb (keys_in ["class"; "size"; "align"; "byte-order"] l) then None else
            match lookup "size" l with
            | Some (YMap sl) =>
                obind (rd_z "align" l) (fun al =>
                match lookup "exp" sl, lookup "mant" sl with
                | Some (YInt 8), Some (YInt 24) => Some (FReal 32 al)
                | Some (YInt 11), Some (YInt 53) => Some (FReal 64 al)
                | _, _ => None
                end)
            | _ => None
            end
          else if one_of c ["str"; "string"] then
            if keys_in ["class"; "encoding"] l then Some FStr else None
          else if String.eqb c "array" then
            if negb (keys_in ["class"; "length"; "element-type"] l) then None else
            match lookup "element-type" l, lookup "length" l with
            | Some e, Some (YInt n) => option_map (FSArr n) (v2_ft fuel' e)
            | Some e, Some (YStr "dynamic") => option_map FDArr (v2_ft fuel' e)
            | _, _ => None
            end
          else if one_of c ["struct"; "structure"] then
            if negb (keys_in ["class"; "min-align"; "fields"] l) then None else
            obind (rd_z "min-align" l) (fun ma =>
            match opt_of "fields" l with
            | None => Some (FStruct ma [])
            | Some (YMap fl) =>
                option_map (FStruct ma)
                  (omapM (fun kv => option_map (pair (fst kv)) (v2_ft fuel' (snd kv))) fl)
            | Some _ => None
            end)
          else None)
      | _ => None
      end
  end.

(* ================================================================== barectf 3: field types
   (docs/modules/yaml/pages/*-ft-obj.adoc; only the spellings the converter can leave) *)
Definition v3_range (y : yaml) : option (Z * Z) :=
  match y with
  | YInt v => Some (v, v)
  | YSeq [YInt lo; YInt hi] => Some (lo, hi)
  | _ => None
  end.

Definition v3_mappings (mp : entries) : option (list (string * list (Z * Z))) :=
  omapM (fun kv => match snd kv with
                   | YSeq rs => option_map (pair (fst kv)) (omapM v3_range rs)
                   | _ => None
                   end) mp.

Definition v3_int_attrs (signed : bool) (l : entries) : option int_attrs :=
  match lookup "size" l with
  | Some (YInt sz) =>
      obind (rd_z "alignment" l) (fun al =>
      obind (rd_base "preferred-display-base" l) (fun b => Some (sz, signed, al, b, None)))
  | _ => None
  end.

Definition v3_member (f : yaml -> option ft) (item : yaml) : option (string * ft) :=
  match item with
  | YMap [(name, YMap [("field-type", t)])] => option_map (pair name) (f t)
  | _ => None
  end.

Fixpoint v3_ft (fuel : nat) (y : yaml) : option ft :=
  match fuel with
  | O => None
  | S fuel' =>
      match y with
      | YMap l =>
          obind (class_of l) (fun c =>
          if one_of c ["uint"; "sint"] then
            if negb (keys_in ["class"; "size"; "alignment"; "preferred-display-base"] l) then None else
            option_map mk_int (v3_int_attrs (String.eqb c "sint") l)
          else if one_of c ["uenum"; "senum"] then
            if negb (keys_in ["class"; "size"; "alignment"; "preferred-display-base"; "mappings"] l) then None else
            match lookup "mappings" l with
            | Some (YMap mp) =>
                obind (v3_int_attrs (String.eqb c "senum") l) (fun a =>
                obind (v3_mappings mp) (fun r => Some (mk_enum a r)))
            | _ => None
            end
          else if String.eqb c "real" then
            if negb (keys_in ["class"; "size"; "alignment"] l) then None else
            match lookup "size" l with
            | Some (YInt sz) => obind (rd_z "alignment" l) (fun al => Some (FReal sz al))
            | _ => None
            end
          else if one_of c ["str"; "string"] then
            if keys_in ["class"] l then Some FStr else None
          else if String.eqb c "static-array" then
            if negb (keys_in ["class"; "length"; "element-field-type"] l) then None else
            match lookup "length" l, lookup "element-field-type" l with
            | Some (YInt n), Some e => option_map (FSArr n) (v3_ft fuel' e)
            | _, _ => None
            end
          else if String.eqb c "dynamic-array" then
            if negb (keys_in ["class"; "element-field-type"] l) then None else
            match lookup "element-field-type" l with
            | Some e => option_map FDArr (v3_ft fuel' e)
            | None => None
            end
          else if one_of c ["struct"; "structure"] then
            if negb (keys_in ["class"; "minimum-alignment"; "members"] l) then None else
            obind (rd_z "minimum-alignment" l) (fun ma =>
            match opt_of "members" l with
            | None => Some (FStruct ma [])
            | Some (YSeq items) => option_map (FStruct ma) (omapM (v3_member (v3_ft fuel')) items)
            | Some _ => None
            end)
          else None)
      | _ => None
      end
  end.

(* barectf 3 cannot map a member to a clock: the only clock-valued members are the timestamp features,
   which are values of the default clock *)
Definition set_clk (c : option string) (f : ft) : ft :=
  match f with
  | FInt sz sg al b _ => FInt sz sg al b c
  | FEnum sz sg al b _ r => FEnum sz sg al b c r
  | other => other
  end.

Fixpoint erase_clk (f : ft) : ft :=
  match f with
  | FInt sz sg al b _ => FInt sz sg al b None
  | FEnum sz sg al b _ r => FEnum sz sg al b None r
  | FSArr n e => FSArr n (erase_clk e)
  | FDArr e => FDArr (erase_clk e)
  | FStruct ma ms => FStruct ma (map (fun m => (fst m, erase_clk (snd m))) ms)
  | other => other
  end.

(* ================================================================== clocks *)
Definition v2_clock_keys := ["uuid"; "description"; "freq"; "error-cycles"; "offset"; "absolute"; "return-ctype"; "$return-ctype"].
Definition v3_clock_keys := ["uuid"; "description"; "frequency"; "precision"; "offset"; "origin-is-unix-epoch"; "$c-type"].

Definition rd_offset (l : entries) : option (option Z * option Z) :=
  match opt_of "offset" l with
  | None => Some (None, None)
  | Some (YMap ol) =>
      if negb (keys_in ["seconds"; "cycles"] ol) then None else
      obind (rd_z "seconds" ol) (fun s => obind (rd_z "cycles" ol) (fun c => Some (s, c)))
  | Some _ => None
  end.

Definition has_both (l : entries) : bool := mem "return-ctype" (keys l) && mem "$return-ctype" (keys l).

Definition v2_clock (y : yaml) : option clock :=
  match y with
  | YMap l =>
      if negb (keys_in v2_clock_keys l) then None else
      (* the two spellings of the C type property are exclusive *)
      if has_both l then None else
      obind (rd_z "freq" l) (fun fr =>
      obind (rd_z "error-cycles" l) (fun pr =>
      obind (rd_offset l) (fun off =>
      obind (rd_b "absolute" l) (fun ab =>
      obind (rd_s "description" l) (fun de =>
      obind (rd_s "uuid" l) (fun uu =>
      obind (rd_s "return-ctype" l) (fun c1 =>
      obind (rd_s "$return-ctype" l) (fun c2 =>
        Some (mkClock fr pr (fst off) (snd off) ab de uu
                      (match c1 with Some _ => c1 | None => c2 end))))))))))
  | _ => None
  end.

Definition v3_clock (y : yaml) : option clock :=
  match y with
  | YMap l =>
      if negb (keys_in v3_clock_keys l) then None else
      obind (rd_z "frequency" l) (fun fr =>
      obind (rd_z "precision" l) (fun pr =>
      obind (rd_offset l) (fun off =>
      obind (rd_b "origin-is-unix-epoch" l) (fun ab =>
      obind (rd_s "description" l) (fun de =>
      obind (rd_s "uuid" l) (fun uu =>
      obind (rd_s "$c-type" l) (fun ct =>
        Some (mkClock fr pr (fst off) (snd off) ab de uu ct))))))))
  | _ => None
  end.

Definition named {A} (f : yaml -> option A) (l : entries) : option (list (string * A)) :=
  omapM (fun kv => option_map (pair (fst kv)) (f (snd kv))) l.

(* ================================================================== events *)
Definition rd_level (l : entries) : option (option level) :=
  match opt_of "log-level" l with
  | None => Some None
  | Some (YInt n) => Some (Some (LNum n))
  | Some (YStr s) => Some (Some (LAlias s))
  | Some _ => None
  end.

Definition rd_ft (f : yaml -> option ft) (k : string) (l : entries) : option (option ft) :=
  match opt_of k l with
  | None => Some None
  | Some t => option_map Some (f t)
  end.

Definition v2_event (fuel : nat) (y : yaml) : option event :=
  match y with
  | YMap l =>
      if negb (keys_in ["log-level"; "context-type"; "payload-type"] l) then None else
      obind (rd_level l) (fun lv =>
      obind (rd_ft (v2_ft fuel) "context-type" l) (fun cx =>
      obind (rd_ft (v2_ft fuel) "payload-type" l) (fun pl => Some (mkEvent lv cx pl))))
  | _ => None
  end.

Definition v3_event (fuel : nat) (y : yaml) : option event :=
  match y with
  | YMap l =>
      if negb (keys_in ["log-level"; "specific-context-field-type"; "payload-field-type"] l) then None else
      obind (rd_level l) (fun lv =>
      obind (rd_ft (v3_ft fuel) "specific-context-field-type" l) (fun cx =>
      obind (rd_ft (v3_ft fuel) "payload-field-type" l) (fun pl => Some (mkEvent lv cx pl))))
  | _ => None
  end.

(* ================================================================== streams *)
(* members of a barectf 2 header / context structure: absent or null `fields` = no member *)
Definition v2_fields (t : option yaml) : option entries :=
  match t with
  | None => Some []
  | Some (YMap tl) =>
      if negb (keys_in ["class"; "min-align"; "fields"] tl) then None else
      match class_of tl with
      | Some c => if one_of c ["struct"; "structure"] then
                    match opt_of "fields" tl with
                    | None => Some []
                    | Some (YMap fl) => Some fl
                    | Some _ => None
                    end
                  else None
      | None => None
      end
  | Some _ => None
  end.

(* the members of a structure that are NOT among the reserved names, read as field types *)
Definition others (f : yaml -> option ft) (reserved : list string) (fl : entries) : option (list (string * ft)) :=
  named f (filter (fun kv => negb (one_of (fst kv) reserved)) fl).

Definition clk_of (o : option ft) : option string :=
  match o with
  | Some (FInt _ _ _ _ c) | Some (FEnum _ _ _ _ c _) => c
  | _ => None
  end.

(* the clock of a stream: the one its timestamp members count (event timestamp, packet beginning,
   packet end); `valid_v2` requires them to agree *)
Definition stream_clock (ts beg en : option ft) : option string :=
  match clk_of ts, clk_of beg, clk_of en with
  | Some c, _, _ => Some c
  | None, Some c, _ => Some c
  | None, None, o => o
  end.

Definition is_true (k : string) (l : entries) : bool :=
  match lookup k l with Some (YBool true) => true | _ => false end.

Definition v2_stream (fuel : nat) (y : yaml) : option stream :=
  match y with
  | YMap d =>
      if negb (keys_in ["$default"; "packet-context-type"; "event-header-type"; "event-context-type"; "events"] d) then None else
      obind (v2_fields (lookup "packet-context-type" d)) (fun pf =>
      obind (v2_fields (opt_of "event-header-type" d)) (fun ef =>
      let f := v2_ft fuel in
      obind (obind (lookup "packet_size" pf) f) (fun total =>
      obind (obind (lookup "content_size" pf) f) (fun content =>
      obind (rd_ft f "timestamp_begin" pf) (fun beg =>
      obind (rd_ft f "timestamp_end" pf) (fun en =>
      obind (rd_ft f "events_discarded" pf) (fun disc =>
      obind (rd_ft f "packet_seq_num" pf) (fun sq =>
      obind (others f ["packet_size"; "content_size"; "timestamp_begin"; "timestamp_end"; "events_discarded"; "packet_seq_num"] pf) (fun extra =>
      obind (rd_ft f "id" ef) (fun id =>
      obind (rd_ft f "timestamp" ef) (fun ts =>
      obind (others f ["id"; "timestamp"] ef) (fun ehx =>
      obind (rd_ft f "event-context-type" d) (fun cx =>
      match lookup "events" d with
      | Some (YMap evs) =>
          obind (named (v2_event fuel) evs) (fun es =>
            Some (mkStream (is_true "$default" d) (stream_clock ts beg en)
                           total content beg en disc sq extra id ts ehx cx es))
      | _ => None
      end)))))))))))))
  | _ => None
  end.

(* a barectf 3 feature: `false` = disabled, a field type object = enabled with it; for the features
   the converter always writes.  `absent` = what an omitted property means for THIS feature. *)
Definition v3_feature (f : yaml -> option ft) (k : string) (l : entries) : option (option ft) :=
  match lookup k l with
  | Some (YBool false) => Some None
  | Some (YMap m) => option_map Some (f (YMap m))
  | _ => None
  end.

(* the sequence number feature is disabled unless asked for (dst-obj.adoc) *)
Definition v3_feature_off_by_default (f : yaml -> option ft) (k : string) (l : entries) : option (option ft) :=
  match lookup k l with
  | None | Some (YBool false) => Some None
  | Some (YMap m) => option_map Some (f (YMap m))
  | _ => None
  end.

Definition sub (k : string) (l : entries) : option entries :=
  match lookup k l with Some (YMap m) => Some m | _ => None end.

Definition v3_stream (fuel : nat) (y : yaml) : option stream :=
  match y with
  | YMap d =>
      if negb (keys_in ["$is-default"; "$default-clock-type-name"; "$features"; "packet-context-field-type-extra-members";
                        "event-record-common-context-field-type"; "event-record-types"] d) then None else
      obind (rd_s "$default-clock-type-name" d) (fun dc =>
      obind (sub "$features" d) (fun fe =>
      obind (sub "packet" fe) (fun pk =>
      obind (sub "event-record" fe) (fun er =>
      let f := v3_ft fuel in
      let tsf := fun t => option_map (set_clk dc) (f t) in
      obind (v3_feature f "total-size-field-type" pk) (fun total =>
      obind (v3_feature f "content-size-field-type" pk) (fun content =>
      obind (v3_feature tsf "beginning-timestamp-field-type" pk) (fun beg =>
      obind (v3_feature tsf "end-timestamp-field-type" pk) (fun en =>
      obind (v3_feature f "discarded-event-records-counter-snapshot-field-type" pk) (fun disc =>
      obind (v3_feature_off_by_default f "sequence-number-field-type" pk) (fun sq =>
      obind (match opt_of "packet-context-field-type-extra-members" d with
             | None => Some []
             | Some (YSeq items) => omapM (v3_member f) items
             | Some _ => None
             end) (fun extra =>
      obind (v3_feature f "type-id-field-type" er) (fun id =>
      obind (v3_feature tsf "timestamp-field-type" er) (fun ts =>
      obind (rd_ft f "event-record-common-context-field-type" d) (fun cx =>
      match total, content, lookup "event-record-types" d with
      | Some total, Some content, Some (YMap evs) =>
          obind (named (v3_event fuel) evs) (fun es =>
            Some (mkStream (is_true "$is-default" d)
                           dc
                           total content beg en disc sq extra id ts [] cx es))
      | _, _, _ => None
      end))))))))))))))
  | _ => None
  end.

(* ================================================================== prefixes
   The file name prefix of a barectf 2 prefix: the prefix without its trailing underscores. *)
Definition str_rev (s : string) : string :=
  string_of_list_ascii (rev (list_ascii_of_string s)).

Fixpoint drop_us (l : list ascii) : list ascii :=
  match l with
  | c :: l' => if Ascii.eqb c "_"%char then drop_us l' else l
  | [] => []
  end.

Definition file_prefix_of (p : string) : string :=
  string_of_list_ascii (rev (drop_us (rev (list_ascii_of_string p)))).

(* ================================================================== the configuration *)
Definition set_default (s : stream) : stream :=
  mkStream true (s_clock s) (s_total s) (s_content s) (s_beg s) (s_end s) (s_disc s) (s_seq s)
           (s_extra s) (s_id s) (s_ts s) (s_eh_extra s) (s_ctx s) (s_events s).

(* `$default-stream: n`: the stream named n (names are unique in a mapping: the first one) is the default *)
Fixpoint mark_first (n : string) (ss : list (string * stream)) : list (string * stream) :=
  match ss with
  | [] => []
  | ns :: ss' => if String.eqb (fst ns) n then (fst ns, set_default (snd ns)) :: ss' else ns :: mark_first n ss'
  end.

Definition mark_named (name : option string) (ss : list (string * stream)) : list (string * stream) :=
  match name with Some n => mark_first n ss | None => ss end.

Definition rd_map (k : string) (l : entries) : option (option entries) :=
  match opt_of k l with None => Some None | Some (YMap m) => Some (Some m) | Some _ => None end.

Definition v2_sem (fuel : nat) (y : yaml) : option config :=
  match y with
  | YMap root =>
      if negb (keys_in ["version"; "prefix"; "options"; "metadata"] root) then None else
      match lookup "version" root, lookup "metadata" root with
      | Some (YStr ver), Some (YMap m) =>
          if negb (one_of ver ["2.0"; "2.1"; "2.2"]) then None else
          if negb (keys_in ["log-levels"; "$log-levels"; "trace"; "env"; "clocks"; "$default-stream"; "streams"] m) then None else
          if mem "log-levels" (keys m) && mem "$log-levels" (keys m) then None else
          obind (match lookup "prefix" root with
                 | None => Some "barectf_"
                 | Some (YStr p) => Some p
                 | Some _ => None
                 end) (fun p =>
          obind (match lookup "options" root with
                 | None => Some (None, None)
                 | Some (YMap ol) =>
                     if negb (keys_in ["gen-prefix-def"; "gen-default-stream-def"] ol) then None else
                     obind (rd_b "gen-prefix-def" ol) (fun a => obind (rd_b "gen-default-stream-def" ol) (fun b => Some (a, b)))
                 | Some _ => None
                 end) (fun ho =>
          match lookup "trace" m, lookup "streams" m with
          | Some (YMap tl), Some (YMap sl) =>
              if negb (keys_in ["byte-order"; "uuid"; "packet-header-type"] tl) then None else
              obind (match lookup "byte-order" tl with Some (YStr s) => bo_of s | _ => None end) (fun bo =>
              obind (rd_s "uuid" tl) (fun uu =>
              obind (rd_map "env" m) (fun env =>
              obind (rd_map "log-levels" m) (fun l1 =>
              obind (rd_map "$log-levels" m) (fun l2 =>
              obind (match opt_of "clocks" m with
                     | None => Some []
                     | Some (YMap cl) => named v2_clock cl
                     | Some _ => None
                     end) (fun cks =>
              obind (v2_fields (opt_of "packet-header-type" tl)) (fun phf =>
              let f := v2_ft fuel in
              obind (rd_ft f "magic" phf) (fun mg =>
              obind (rd_ft f "uuid" phf) (fun uf =>
              obind (rd_ft f "stream_id" phf) (fun sid =>
              obind (others f ["magic"; "uuid"; "stream_id"] phf) (fun phx =>
              obind (named (v2_stream fuel) sl) (fun ss =>
              obind (rd_s "$default-stream" m) (fun ds =>
                Some (mkConfig bo uu env (match l1 with Some _ => l1 | None => l2 end) cks mg uf sid phx
                               (mark_named ds ss) p (file_prefix_of p) (fst ho) (snd ho)))))))))))))))
          | _, _ => None
          end))
      | _, _ => None
      end
  | _ => None
  end.

Definition v3_sem (fuel : nat) (y : yaml) : option config :=
  match y with
  | YMap root =>
      if negb (keys_in ["options"; "trace"] root) then None else
      match lookup "trace" root with
      | Some (YMap tr) =>
          if negb (keys_in ["environment"; "type"] tr) then None else
          match lookup "type" tr with
          | Some (YMap ty) =>
              if negb (keys_in ["trace-byte-order"; "uuid"; "$log-level-aliases"; "clock-types"; "$features"; "data-stream-types"] ty) then None else
              (* options.code-generation: prefix {identifier, file-name} (absent: barectf_ / barectf), header *)
              obind (match lookup "options" root with
                     | None => Some ("barectf_", "barectf", (None, None))
                     | Some (YMap ol) =>
                         match lookup "code-generation" ol with
                         | Some (YMap cg) =>
                             obind (match lookup "prefix" cg with
                                    | None => Some ("barectf_", "barectf")
                                    | Some (YMap pl) =>
                                        match lookup "identifier" pl, lookup "file-name" pl with
                                        | Some (YStr a), Some (YStr b) => Some (a, b)
                                        | _, _ => None
                                        end
                                    | Some _ => None
                                    end) (fun pp =>
                             obind (match lookup "header" cg with
                                    | None => Some (None, None)
                                    | Some (YMap hl) =>
                                        obind (rd_b "identifier-prefix-definition" hl) (fun a =>
                                        obind (rd_b "default-data-stream-type-name-definition" hl) (fun b => Some (a, b)))
                                    | Some _ => None
                                    end) (fun hh => Some (fst pp, snd pp, hh)))
                         | _ => None
                         end
                     | Some _ => None
                     end) (fun opts =>
              obind (match lookup "trace-byte-order" ty with Some (YStr s) => bo_of s | _ => None end) (fun bo =>
              obind (rd_s "uuid" ty) (fun uu =>
              obind (rd_map "environment" tr) (fun env =>
              obind (rd_map "$log-level-aliases" ty) (fun lv =>
              obind (match opt_of "clock-types" ty with
                     | None => Some []
                     | Some (YMap cl) => named v3_clock cl
                     | Some _ => None
                     end) (fun cks =>
              obind (sub "$features" ty) (fun fe =>
              let f := v3_ft fuel in
              obind (v3_feature f "magic-field-type" fe) (fun mg =>
              obind (v3_feature f "uuid-field-type" fe) (fun uf =>
              obind (v3_feature f "data-stream-type-id-field-type" fe) (fun sid =>
              match lookup "data-stream-types" ty with
              | Some (YMap sl) =>
                  obind (named (v3_stream fuel) sl) (fun ss =>
                    Some (mkConfig bo uu env lv cks mg uf sid [] ss
                                   (fst (fst opts)) (snd (fst opts)) (fst (snd opts)) (snd (snd opts))))
              | _ => None
              end))))))))))
          | _ => None
          end
      | _ => None
      end
  | _ => None
  end.

(* ================================================================== valid_v2: the hypotheses of the equivalence
   Beyond "the barectf 2 reading is defined" (which implies the shape constraints of schemas/config/2),
   each clause below is a hypothesis the equivalence NEEDS and the property text does not grant; each
   one has a `_refuted` theorem with a witness in V2Proofs.v (DESIGN.md 4.2).
     (H1, "no floating point field type carries `byte-order`", was needed until fix 3990a98 of /repo; the
      witness w_real_byte_order is now a regression input that must behave like its twin)
     (H2, "no structure has `fields: null`; a header structure that is given has `fields`", was needed until fix
      616725c of /repo; w_fields_null / w_header_no_fields are now regression inputs.  What remains of
      ft_conv_ok / hdr_ok is a shape constraint of schemas/config/2: a member of a structure is a field type
      object, never null — `v2_ft fuel y = Some f` alone implies ft_conv_ok (V2Proofs.v2_ft_conv_ok))
     H3  no `packet_seq_num` member                                              (w_seq_num)
     H4  every timestamp member of a stream is an integer mapped to the stream's one clock  (w_mixed_clocks)
     H5  no packet header member besides magic/uuid/stream_id, no event header member besides id/timestamp (w_header_members)
     H6  no `property-mappings` outside the timestamp members                    (w_payload_mapping)
   and `$default-stream`, when given, names a stream (otherwise: configuration error). *)
Fixpoint ft_conv_ok (fuel : nat) (y : yaml) : bool :=
  match fuel with
  | O => false
  | S fuel' =>
      match y with
      | YMap l =>
          match class_of l with
          | Some c =>
              if String.eqb c "array" then
                match lookup "element-type" l with Some e => ft_conv_ok fuel' e | None => false end
              else if one_of c ["struct"; "structure"] then
                match lookup "fields" l with
                | None | Some YNull => true
                | Some (YMap fl) => forallb (fun kv => ft_conv_ok fuel' (snd kv)) fl
                | Some _ => false
                end
              else true
          | None => false
          end
      | _ => false
      end
  end.

Fixpoint no_clk (f : ft) : bool :=
  match f with
  | FInt _ _ _ _ c | FEnum _ _ _ _ c _ => match c with None => true | Some _ => false end
  | FSArr _ e | FDArr e => no_clk e
  | FStruct _ ms => forallb (fun m => no_clk (snd m)) ms
  | _ => true
  end.

Definition no_clk_o (o : option ft) : bool := match o with Some f => no_clk f | None => true end.

Definition opt_string_eqb (a b : option string) : bool :=
  match a, b with
  | Some x, Some y => String.eqb x y
  | None, None => true
  | _, _ => false
  end.

(* a timestamp member: absent, or an integer (not an enumeration) mapped to clock c *)
Definition ts_ok (c : option string) (o : option ft) : bool :=
  match o with
  | None => true
  | Some (FInt _ _ _ _ k) => opt_string_eqb k c
  | Some _ => false
  end.

(* a header structure that may be absent / null: its members, if any, are field type objects *)
Definition hdr_ok (fuel : nat) (t : option yaml) : bool :=
  match t with
  | None => true
  | Some (YMap tl) =>
      match lookup "fields" tl with
      | Some (YMap fl) => forallb (fun kv => ft_conv_ok fuel (snd kv)) fl
      | Some YNull | None => true
      | _ => false
      end
  | Some _ => false
  end.

Definition oft_conv_ok (fuel : nat) (k : string) (l : entries) : bool :=
  match opt_of k l with Some t => ft_conv_ok fuel t | None => true end.

Definition valid_event (fuel : nat) (y : yaml) : bool :=
  match y, v2_event fuel y with
  | YMap l, Some e =>
      oft_conv_ok fuel "context-type" l && oft_conv_ok fuel "payload-type" l
      && no_clk_o (e_ctx e) && no_clk_o (e_payload e)
  | _, _ => false
  end.

Definition valid_stream (fuel : nat) (y : yaml) : bool :=
  match y, v2_stream fuel y with
  | YMap d, Some s =>
      (match lookup "packet-context-type" d with
       | Some (YMap p) => match lookup "fields" p with
                          | Some (YMap pf) => forallb (fun kv => ft_conv_ok fuel (snd kv)) pf
                          | _ => false
                          end
       | _ => false
       end)
      && hdr_ok fuel (opt_of "event-header-type" d)
      && oft_conv_ok fuel "event-context-type" d
      && (match lookup "events" d with Some (YMap evs) => forallb (fun kv => valid_event fuel (snd kv)) evs | _ => false end)
      && match s_seq s with None => true | Some _ => false end                       (* H3 *)
      && match s_eh_extra s with [] => true | _ => false end                         (* H5 *)
      && ts_ok (s_clock s) (s_ts s) && ts_ok (s_clock s) (s_beg s) && ts_ok (s_clock s) (s_end s)   (* H4 *)
      && no_clk (s_total s) && no_clk (s_content s) && no_clk_o (s_disc s) && no_clk_o (s_id s)     (* H6 *)
      && forallb (fun m => no_clk (snd m)) (s_extra s) && no_clk_o (s_ctx s)
  | _, _ => false
  end.

Definition valid_v2 (fuel : nat) (y : yaml) : bool :=
  match y, v2_sem fuel y with
  | YMap root, Some g =>
      match lookup "metadata" root with
      | Some (YMap m) =>
          match lookup "trace" m, lookup "streams" m with
          | Some (YMap tl), Some (YMap sl) =>
              hdr_ok fuel (opt_of "packet-header-type" tl)
              && forallb (fun kv => valid_stream fuel (snd kv)) sl
              && match g_ph_extra g with [] => true | _ => false end                 (* H5 *)
              && no_clk_o (g_magic g) && no_clk_o (g_uuid_ft g) && no_clk_o (g_sid g)
              && match rd_s "$default-stream" m with
                 | Some (Some n) => mem n (keys sl)
                 | _ => true
                 end
          | _, _ => false
          end
      | _ => false
      end
  | _, _ => false
  end.

(* ================================================================== canonical dump (for executable comparison)
   An injective rendering of an abstract configuration as a YAML tree, so that two abstract
   configurations can be compared by yaml_eqb in generated case files. *)
Definition d_oz (o : option Z) : yaml := match o with Some z => YInt z | None => YNull end.
Definition d_ob (o : option bool) : yaml := match o with Some b => YBool b | None => YNull end.
Definition d_os (o : option string) : yaml := match o with Some s => YStr s | None => YNull end.
Definition d_base (o : option base) : yaml :=
  match o with None => YNull | Some Bin => YInt 2 | Some Oct => YInt 8 | Some Dec => YInt 10 | Some Hex => YInt 16 end.
Definition d_ranges (r : list (string * list (Z * Z))) : yaml :=
  YSeq (map (fun lr => YSeq [YStr (fst lr); YSeq (map (fun p => YSeq [YInt (fst p); YInt (snd p)]) (snd lr))]) r).

Fixpoint d_ft (f : ft) : yaml :=
  match f with
  | FInt sz sg al b c => YSeq [YStr "int"; YInt sz; YBool sg; d_oz al; d_base b; d_os c]
  | FEnum sz sg al b c r => YSeq [YStr "enum"; YInt sz; YBool sg; d_oz al; d_base b; d_os c; d_ranges r]
  | FReal sz al => YSeq [YStr "real"; YInt sz; d_oz al]
  | FStr => YSeq [YStr "str"]
  | FSArr n e => YSeq [YStr "sarray"; YInt n; d_ft e]
  | FDArr e => YSeq [YStr "darray"; d_ft e]
  | FStruct ma ms => YSeq [YStr "struct"; d_oz ma; YSeq (map (fun m => YSeq [YStr (fst m); d_ft (snd m)]) ms)]
  end.

Definition d_oft (o : option ft) : yaml := match o with Some f => d_ft f | None => YNull end.
Definition d_fts (l : list (string * ft)) : yaml := YSeq (map (fun m => YSeq [YStr (fst m); d_ft (snd m)]) l).

Definition d_clock (c : clock) : yaml :=
  YSeq [d_oz (c_freq c); d_oz (c_prec c); d_oz (c_off_s c); d_oz (c_off_c c); d_ob (c_abs c);
        d_os (c_desc c); d_os (c_uuid c); d_os (c_ctype c)].

Definition d_event (e : event) : yaml :=
  YSeq [match e_level e with None => YNull | Some (LNum n) => YInt n | Some (LAlias s) => YStr s end;
        d_oft (e_ctx e); d_oft (e_payload e)].

Definition d_stream (s : stream) : yaml :=
  YSeq [YBool (s_default s); d_os (s_clock s); d_ft (s_total s); d_ft (s_content s); d_oft (s_beg s); d_oft (s_end s);
        d_oft (s_disc s); d_oft (s_seq s); d_fts (s_extra s); d_oft (s_id s); d_oft (s_ts s); d_fts (s_eh_extra s);
        d_oft (s_ctx s); YSeq (map (fun ne => YSeq [YStr (fst ne); d_event (snd ne)]) (s_events s))].

Definition d_oentries (o : option entries) : yaml := match o with Some l => YMap l | None => YNull end.

Definition d_config (g : config) : yaml :=
  YSeq [YBool (match g_bo g with LE => true | BE => false end); d_os (g_uuid g); d_oentries (g_env g); d_oentries (g_levels g);
        YSeq (map (fun nc => YSeq [YStr (fst nc); d_clock (snd nc)]) (g_clocks g));
        d_oft (g_magic g); d_oft (g_uuid_ft g); d_oft (g_sid g); d_fts (g_ph_extra g);
        YSeq (map (fun ns => YSeq [YStr (fst ns); d_stream (snd ns)]) (g_streams g));
        YStr (g_prefix_id g); YStr (g_prefix_file g); d_ob (g_hdr_prefix_def g); d_ob (g_hdr_dst_def g)].

(* (pre-conversion document, the REAL converter's output): 0 = the barectf 2 reading is undefined,
   1 = both readings defined and equal, 2 = both defined and different, 3 = barectf 3 reading undefined;
   plus 10 when valid_v2 holds of the document (the theorem says: then the code is 11) *)
Definition sem_case (fuel : nat) (pre post : yaml) : nat :=
  (if valid_v2 fuel pre then 10 else 0) +
  match v2_sem fuel pre with
  | None => 0
  | Some a => match v3_sem fuel post with
              | None => 3
              | Some b => if yaml_eqb (d_config a) (d_config b) then 1 else 2
              end
  end.
