(* C12 — model of _Parser._process_node_include and of the per-kind drivers
   (_process_trace_node_include, ..._trace_type_..., ..._clk_type_..., ..._dst_..., ..._ert_...
   of config_parse_v3.py; _process_meta_node_include etc. of config_parse_v2.py) over an abstract
   file system.

   Abstractions (tied by the end-to-end correspondence only): a file is named by the text
   dir ++ "/" ++ name (os.path.join / realpath / normpath are not modelled: no symbolic link, no
   absolute include name, no `..`); the file system maps such a path to the tree _yaml_load
   returns; the per-stage JSON-schema validation is reduced to "the node is a mapping and
   `$include` is a string or a sequence of strings". *)
From Coq Require Import List String ZArith Bool.
Import ListNotations.
From BT.Front Require Import Yaml YamlRes Patch.
Open Scope string_scope.
Open Scope list_scope.

Inductive kind : Type := KTrace | KTraceType | KClock | KDst | KErt | KMeta.

(* process_children_include_cb of each kind: (property, iterate over its entries?, kind of child) *)
Definition children (v3 : bool) (k : kind) : list (string * bool * kind) :=
  if v3 then
    match k with
    | KTrace => [("type", false, KTraceType)]
    | KTraceType => [("clock-types", true, KClock); ("data-stream-types", true, KDst)]
    | KDst => [("event-record-types", true, KErt)]
    | _ => []
    end
  else
    match k with
    | KMeta => [("trace", false, KTraceType); ("clocks", true, KClock); ("streams", true, KDst)]
    | KDst => [("events", true, KErt)]
    | _ => []
    end.

Definition join (d n : string) : string := (d ++ "/" ++ n)%string.

(* _get_include_paths after the include-prop schema *)
Definition include_paths (inc : yaml) : option (list string) :=
  match inc with
  | YStr s => Some [s]
  | YSeq l => mapM (fun y => match y with YStr s => Some s | _ => None end) l
  | _ => None
  end.

Section IncStep.
  Variables (v3 ignore_nf : bool).
  Variable fs : entries.               (* full path -> loaded tree *)
  Variable dirs : list string.         (* self._include_dirs, in order *)
  (* the recursive calls (one unit of fuel less): inclusion stack, kind, node *)
  Variable rec : list string -> kind -> yaml -> res yaml.

  (* the `for inc_dir in self._include_dirs` loop of _load_include *)
  Fixpoint find_file (ds : list string) (p : string) : option (string * yaml) :=
    match ds with
    | [] => None
    | d :: ds' => match lookup (join d p) fs with
                  | Some t => Some (join d p, t)
                  | None => find_file ds' p
                  end
    end.

  Definition process_child (stack : list string) (nl : res entries) (c : string * bool * kind) : res entries :=
    rbind nl (fun nl =>
    match lookup (fst (fst c)) nl with
    | None => Ok nl
    | Some v =>
        if snd (fst c) then
          match v with
          | YMap el => rbind (rmapM (fun kv => rbind (rec stack (snd c) (snd kv)) (fun v' => Ok (fst kv, v'))) el)
                             (fun el' => Ok (set (fst (fst c)) (YMap el') nl))
          | _ => Crash
          end
        else rbind (rec stack (snd c) v) (fun v' => Ok (set (fst (fst c)) v' nl))
    end).

  (* one iteration of `for include_path in include_paths` *)
  Definition include_one (stack : list string) (k : kind) (base : res (option yaml)) (p : string) : res (option yaml) :=
    rbind base (fun base =>
    match find_file dirs p with
    | None => if ignore_nf then Ok base else CfgErr "file not found in inclusion directories"
    | Some ft =>
        if mem (fst ft) stack then CfgErr "cannot recursively include file"
        else rbind (rec (fst ft :: stack) k (snd ft)) (fun ov =>
             match base with
             | None => Ok (Some ov)
             | Some b => rbind (of_option (update v3 b ov)) (fun r => Ok (Some r))
             end)
    end).

  Definition include_all (stack : list string) (k : kind) (ps : list string) : res (option yaml) :=
    fold_left (include_one stack k) ps (Ok None).

  Definition step (stack : list string) (k : kind) (node : yaml) : res yaml :=
    match node with
    | YMap nl =>
        rbind (fold_left (process_child stack) (children v3 k) (Ok nl)) (fun nl1 =>
        match lookup "$include" nl1 with
        | None => Ok (YMap nl1)
        | Some inc =>
            match include_paths inc with
            | None => CfgErr "schema: $include"
            | Some ps =>
                let last := YMap (remove "$include" nl1) in
                rbind (include_all stack k ps) (fun base =>
                match base with
                | None => Ok last
                | Some b => of_option (update v3 b last)
                end)
            end
        end)
    | _ => CfgErr "schema: not an object"
    end.
End IncStep.

Fixpoint process (fuel : nat) (v3 ignore_nf : bool) (fs : entries) (dirs : list string)
         (stack : list string) (k : kind) (node : yaml) : res yaml :=
  match fuel with
  | O => OutOfFuel
  | S f => step v3 ignore_nf fs dirs (process f v3 ignore_nf fs dirs) stack k node
  end.

(* the documented composition: the included documents in the listed order, the including object last *)
Fixpoint apply_all (v3 : bool) (base : option yaml) (l : list yaml) : res (option yaml) :=
  match l with
  | [] => Ok base
  | f :: l' =>
      match base with
      | None => apply_all v3 (Some f) l'
      | Some b => rbind (of_option (update v3 b f)) (fun r => apply_all v3 (Some r) l')
      end
  end.

(* ------------------------------------------------------------------ correspondence cases *)
(* (v3, fs, dirs, kind, root node, expected: Some tree | None = configuration error) *)
Definition include_case : Type := (bool * entries * list string * kind * yaml * option yaml)%type.

Definition include_case_ok (c : include_case) : bool :=
  match c with (v3, fs, dirs, k, node, expected) =>
    match process 40 v3 false fs dirs [] k node, expected with
    | Ok r, Some e => yaml_eqb r e
    | CfgErr _, None => true
    | _, _ => false
    end
  end.
